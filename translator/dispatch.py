#!/usr/bin/env python3
"""Dispatch-table extraction (part of the translator): which message variants each dispatcher accepts in each
connection phase, read from the `match msg { Message::X.. => .., _ => Err(UnexpectedMessage) }` of the
per-state functions of
    crates/server/src/c2s/conn.rs      (C2S: connecting / connected / authenticated)
    crates/modulator/src/conn.rs       (S2M and M2S: connecting / authenticated)
Output: coq/Gen/Dispatch.v — wire names (through the name() table of message.rs) per dispatcher and phase.
The model's handlers are tied to these lists by Proofs/DispatchTie.v."""
import re


class Shape(Exception):
    pass


def blank_comments(src):
    src = re.sub(r"/\*.*?\*/", lambda m: re.sub(r"[^\n]", " ", m.group(0)), src, flags=re.S)
    return "\n".join(l[:l.find("//")] if "//" in l else l for l in src.split("\n"))


def match_close(src, i):
    depth = 0
    while i < len(src):
        if src[i] == "{":
            depth += 1
        elif src[i] == "}":
            depth -= 1
            if depth == 0:
                return i
        i += 1
    raise Shape("unbalanced braces")


def impl_block(src, header_re, what):
    m = re.search(header_re, src)
    if not m:
        raise Shape("dispatch: impl block not found: " + what)
    b = m.end() - 1
    return src[b:match_close(src, b) + 1]


def fn_body(src, name, what):
    m = re.search(r"\bfn\s+" + re.escape(name) + r"\s*\(", src)
    if not m:
        raise Shape(f"dispatch: function {name} not found in {what}")
    b = src.index("{", m.end())
    return src[b:match_close(src, b) + 1]


def match_arms(body, what):
    """variants of the top-level arms of the first `match msg {` in body; requires the default arm to refuse"""
    m = re.search(r"\bmatch\s+msg\s*\{", body)
    if not m:
        raise Shape(f"dispatch: `match msg {{` not found in {what}")
    b = m.end() - 1
    e = match_close(body, b)
    inner = body[b + 1:e]
    arms = []
    depth = 0
    i = 0
    start = 0
    tops = []
    # split at top-level `=>`
    while i < len(inner):
        c = inner[i]
        if c in "{([":
            depth += 1
        elif c in "})]":
            depth -= 1
        elif inner.startswith("=>", i) and depth == 0:
            tops.append(inner[start:i].strip().split("\n")[-1].strip().lstrip(","))
            # skip the arm's expression: a block or up to the next top-level comma
            j = i + 2
            while j < len(inner) and inner[j].isspace():
                j += 1
            if j < len(inner) and inner[j] == "{":
                j = match_close(inner, j) + 1
            else:
                d = 0
                while j < len(inner) and not (inner[j] == "," and d == 0):
                    if inner[j] in "{([":
                        d += 1
                    elif inner[j] in "})]":
                        d -= 1
                    j += 1
            i = j
            start = j
            continue
        i += 1
    default_ok = False
    for pat in tops:
        pat = pat.strip().lstrip(",").strip()
        if pat == "_":
            default_ok = True
            continue
        for alt in pat.split("|"):
            mm = re.fullmatch(r"\s*Message::(\w+)\s*(\(.*\)|\{.*\})?\s*", alt, flags=re.S)
            if not mm:
                raise Shape(f"dispatch: arm pattern `{pat}` in {what}")
            arms.append(mm.group(1))
    if not default_ok:
        raise Shape(f"dispatch: no default arm in {what}")
    if not re.search(r"_\s*=>\s*\{?\s*(return\s+)?Err\(\s*narwhal_protocol::Error::new\(\s*UnexpectedMessage\s*\)", inner):
        raise Shape(f"dispatch: the default arm of {what} does not refuse with UnexpectedMessage")
    return arms


def extract(read, names):
    """read(rel) -> source text; names: variant -> wire name.  Returns {table name: [wire names]}"""
    c2s = blank_comments(read("crates/server/src/c2s/conn.rs"))
    mod = blank_comments(read("crates/modulator/src/conn.rs"))
    m2s = impl_block(mod, r"impl\s+M2sDispatcher\s*\{(?=\s*async\s+fn\s+dispatch_message_in_connecting_state)", "M2sDispatcher")
    s2m = impl_block(mod, r"impl\s*<\s*M\s*:\s*Modulator\s*>\s*S2mDispatcher\s*<\s*M\s*>\s*\{(?=\s*async\s+fn\s+dispatch_message_in_connecting_state)", "S2mDispatcher")
    tables = {
        "c2s_connecting": match_arms(fn_body(c2s, "dispatch_message_in_connecting_state", "c2s/conn.rs"), "C2S connecting"),
        "c2s_connected": match_arms(fn_body(c2s, "dispatch_message_in_connected_state", "c2s/conn.rs"), "C2S connected"),
        "c2s_authenticated": match_arms(fn_body(c2s, "dispatch_message_in_authenticated_state", "c2s/conn.rs"), "C2S authenticated"),
        "s2m_connecting": match_arms(fn_body(s2m, "dispatch_message_in_connecting_state", "S2mDispatcher"), "S2M connecting"),
        "s2m_authenticated": match_arms(fn_body(s2m, "dispatch_message_in_authenticated_state", "S2mDispatcher"), "S2M authenticated"),
        "m2s_connecting": match_arms(fn_body(m2s, "dispatch_message_in_connecting_state", "M2sDispatcher"), "M2S connecting"),
        "m2s_authenticated": match_arms(fn_body(m2s, "dispatch_message_in_authenticated_state", "M2sDispatcher"), "M2S authenticated"),
    }
    out = {}
    for k, vs in tables.items():
        if not vs:
            raise Shape(f"dispatch: table {k} is empty")
        for v in vs:
            if v not in names:
                raise Shape(f"dispatch: variant {v} of table {k} has no wire name")
        out[k] = [names[v] for v in vs]
    return out


def gen(read, names):
    t = extract(read, names)
    lines = ["(* GENERATED by translator/dispatch.py from /repo/crates/server/src/c2s/conn.rs and crates/modulator/src/conn.rs — do not edit *)",
             "From Coq Require Import String List.", "Import ListNotations.", "Local Open Scope string_scope.", "",
             "(* wire names of the message kinds each dispatcher hands to a handler, per connection phase; everything else is",
             "   refused with UNEXPECTED_MESSAGE by the match's default arm (PONG in the authenticated phase never reaches the",
             "   dispatcher: Conn::dispatch_message consumes it) *)"]
    for k in ("c2s_connecting", "c2s_connected", "c2s_authenticated", "s2m_connecting", "s2m_authenticated", "m2s_connecting", "m2s_authenticated"):
        lines.append("Definition %s_accepts : list string := [%s]." % (k, "; ".join('"%s"' % w for w in t[k])))
    return "\n".join(lines) + "\n"


if __name__ == "__main__":
    import sys, os
    repo = sys.argv[1] if len(sys.argv) > 1 else "/repo"
    sys.path.insert(0, os.path.dirname(os.path.abspath(__file__)))
    import gen as G
    ms = G.parse_message_rs()
    print(gen(lambda rel: open(os.path.join(repo, rel), encoding="utf-8").read(), ms["names"] if isinstance(ms, dict) else None))
