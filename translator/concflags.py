#!/usr/bin/env python3
"""Segment layout of the channel manager, read off the source (part of the translator): Model/Conc.v cuts every request
into atomic segments at its suspension points (modulator calls, the wait for a channel's write lock).  Which statement
sits in which segment is what the interleaved theorems depend on; this module reads the order of the statements that
matter relative to those awaits and writes coq/Gen/ConcFlags.v.  Lexical, fixed shapes; anything else raises Shape."""
import re


class Shape(Exception):
    pass


def blank_comments(src):
    src = re.sub(r"/\*.*?\*/", lambda m: re.sub(r"[^\n]", " ", m.group(0)), src, flags=re.S)
    return "\n".join(l[:l.find("//")] if "//" in l else l for l in src.split("\n"))


def match_close(src, i):
    depth = 0
    while i < len(src):
        if src[i] == "{":
            depth += 1
        elif src[i] == "}":
            depth -= 1
            if depth == 0:
                return i
        i += 1
    raise Shape("conc flags: unbalanced braces")


def fn_body(src, name, what=None):
    m = re.search(r"\bfn\s+" + name + r"\b", src)
    if not m:
        raise Shape("conc flags: function not found: " + (what or name))
    # the body starts at the first '{' after the parameter list / return type / where clause
    depth, i = 0, m.end()
    while i < len(src):
        c = src[i]
        if c in "(<[":
            depth += 1
        elif c in ")>]":
            if not (c == ">" and src[i - 1] == "-"):
                depth -= 1
        elif c == "{" and depth <= 0:
            return src[i:match_close(src, i) + 1]
        i += 1
    raise Shape("conc flags: no body: " + name)


def pos(body, needle, what, start=0):
    i = body.find(needle, start)
    if i < 0:
        raise Shape("conc flags: %s: `%s` not found" % (what, needle))
    return i


def gen(read):
    ch = blank_comments(read("crates/server/src/channel/mod.rs"))
    flags = []

    # ---- join_channel ----
    j = fn_body(ch, "join_channel")
    lock = pos(j, ".write().await", "join_channel: channel write lock")
    m = re.search(r"if\s+!\s*(.*?)\{", j[lock:], flags=re.S)
    if not m:
        raise Shape("conc flags: join_channel: no re-check after the lock")
    recheck = m.group(1)
    if "channels" not in recheck:
        raise Shape("conc flags: join_channel: the statement after the lock is not the map re-check")
    ptr = "Arc::ptr_eq" in recheck
    ins = pos(j, ".insert_member(", "join_channel: member insertion")
    idxw = re.search(r"in_channels\s*\.entry\([^;]*?\.insert\(", j, flags=re.S)
    if not idxw:
        raise Shape("conc flags: join_channel: index write not found")
    ann = pos(j, ".notify_member_joined(", "join_channel: announcement")
    ann_await = pos(j, ".await", "join_channel: announcement await", ann)
    early = ins < idxw.start() < ann
    subs = re.search(r"in_channels\s*\.get\(", j)
    if not subs:
        raise Shape("conc flags: join_channel: subscription count read not found")
    subs_locked = lock < subs.start() < ins
    member_chk = pos(j, ".is_member(", "join_channel: membership check")
    full_chk = pos(j, ".member_count()", "join_channel: capacity check")
    checks_locked = lock < member_chk < ins and lock < full_chk < ins
    rb = j[ann_await:]
    rollback = ".remove_member(" in rb and re.search(r"in_channels\s*\.remove_if_mut\(", rb) is not None
    created_release = re.search(r"if\s+as_owner\s*\{\s*channels\s*\.remove\(", j) is not None
    flags += [("join: after the wait for the lock the map must still hold THIS channel object (Arc::ptr_eq)", ptr),
              ("join: the index entry is written between the member insertion and the announcement", early),
              ("join: the subscription count is read under the channel lock, right before the insertion", subs_locked),
              ("join: membership and capacity are checked under the channel lock", checks_locked),
              ("join: a failed announcement removes the member and the index entry again", rollback),
              ("join: a refused creator releases the channel it created", created_release)]

    # ---- leave_channel ----
    l = fn_body(ch, "leave_channel")
    llock = pos(l, ".write().await", "leave_channel: channel write lock")
    left = pos(l, ".notify_member_left(", "leave_channel: MEMBER_LEFT announcement")
    left_await = pos(l, ".await", "leave_channel: announcement await", left)
    rem = pos(l, ".remove_member(", "leave_channel: member removal")
    idxd = re.search(r"in_channels\s*\.remove_if_mut\(", l)
    if not idxd:
        raise Shape("conc flags: leave_channel: index removal not found")
    unmap = re.search(r"channels\s*\.remove\(", l)
    pick = pos(l, ".pick_new_owner()", "leave_channel: new owner")
    joined = pos(l, ".notify_member_joined(", "leave_channel: hand-over announcement")
    res1 = pos(l, "left_result?", "leave_channel: first result")
    ack = pos(l, "LeaveChannelAck", "leave_channel: acknowledgement")
    res2 = pos(l, "joined_result?", "leave_channel: second result")
    member_chk = pos(l, ".is_member(", "leave_channel: membership check")
    order = llock < member_chk < left < left_await < rem < idxd.start() and unmap is not None and idxd.start() < unmap.start() < pick < joined < res1 < ack < res2
    pk = fn_body(ch, "pick_new_owner")
    stores = re.search(r"self\s*\.owner\s*=\s*Some\(", pk) is not None
    later_store = re.search(r"\.owner\s*=", l[joined:]) is not None
    flags += [("leave: lock, membership check, MEMBER_LEFT announcement, removal of member and index entry, release of the emptied channel, new owner, hand-over announcement, results and acknowledgement follow each other in this order", order),
              ("leave: the new owner is stored (pick_new_owner) before the hand-over announcement can suspend the request", stores and not later_store)]

    # ---- leave_all_channels ----
    a = fn_body(ch, "leave_all_channels")
    takes = [m.start() for m in re.finditer(r"in_channels\s*\.remove\(", a)]
    reads = re.search(r"in_channels\s*\.get\(", a)
    loop = pos(a, "self.leave_channel(", "leave_all_channels: loop")
    flags += [("clean-up: the user's index entry is taken out first, once, and every channel of it is left afterwards", len(takes) == 1 and takes[0] < loop and reads is None)]

    # ---- broadcast_payload ----
    bp = fn_body(ch, "broadcast_payload")
    rl = pos(bp, ".read().await", "broadcast_payload: manager lock")
    rl2 = pos(bp, ".read().await", "broadcast_payload: channel read lock", rl + 1)
    tg = pos(bp, "allowed_targets.clone()", "broadcast_payload: targets")
    mc = pos(bp, ".is_member(", "broadcast_payload: membership check")
    rt = pos(bp, "route_to_many(", "broadcast_payload: routing")
    flags += [("broadcast: membership check and the copy of the target list sit under the channel's read lock, routing follows", rl2 < mc < tg < rt)]

    pb = pos(bp, ".is_publish_allowed(", "broadcast_payload: publish permission")
    flags += [("broadcast: the publish permission is checked under the channel's read lock, before the target list is copied", rl2 < pb < tg)]

    # ---- allow-lists ----
    sa = fn_body(ch, "set_channel_acl")
    wl_ = pos(sa, ".write().await", "set_channel_acl: channel write lock")
    own = pos(sa, ".is_owner(", "set_channel_acl: owner check")
    upd = pos(sa, ".update(", "set_channel_acl: update of the copy")
    tot = pos(sa, ".total_entries()", "set_channel_acl: size check")
    app = pos(sa, ".set_acl(", "set_channel_acl: application")
    ackp = pos(sa, "SetChannelAclAck", "set_channel_acl: acknowledgement")
    flags += [("allow-list update: owner check, update of a copy, size check, application and acknowledgement follow each other under the channel's write lock", wl_ < own < upd < tot < app < ackp)]
    impl_inner = ch[pos(ch, "impl ChannelInner", "impl ChannelInner"):]
    def rebuilds(name):
        body = fn_body(impl_inner, name)
        call = body.find("self.update_allowed_targets()")
        if call < 0:
            return False
        # the call must be a statement of the function's own block (brace depth 1), not inside a branch
        depth = 0
        for c in body[:call]:
            depth += (c == "{") - (c == "}")
        return depth == 1
    uat = fn_body(impl_inner, "update_allowed_targets")
    from_all = re.search(r"self\s*\.members\s*\.iter\(\)\s*\.filter\(", uat) is not None and "is_read_allowed" in uat
    flags += [("delivery cache: insert_member, remove_member and set_acl each rebuild the list unconditionally, from ALL members filtered by the read list",
               rebuilds("insert_member") and rebuilds("remove_member") and rebuilds("set_acl") and from_all and "self.allowed_targets" in uat)]
    ga = fn_body(ch, "get_channel_acl")
    flags += [("allow-list report: owner check and copy of the list under the channel's read lock",
               pos(ga, ".read().await", "get_channel_acl: manager lock") < pos(ga, ".is_owner(", "get_channel_acl: owner check") < pos(ga, "drop(channel_inner)", "get_channel_acl: release"))]

    # ---- c2s router ----
    ro = blank_comments(read("crates/server/src/c2s/router.rs"))
    u = fn_body(ro, "unregister_connection")
    ret = pos(u, ".retain(", "unregister_connection: retain")
    rmv = re.search(r"connections\s*\.remove_if\(", u)
    cl = pos(u, "cleanup().await", "unregister_connection: clean-up")
    other_rm = re.search(r"connections\s*\.remove\(", u)
    flags += [("router: the emptied routing entry is removed before the clean-up runs, and nothing is removed afterwards", rmv is not None and ret < rmv.start() < cl and other_rm is None)]
    rg = fn_body(ro, "register_connection")
    flags += [("router: the exclusive check and the insertion use one map entry guard", rg.count("connections.entry(") == 1 and "connections.get" not in rg and "connections.insert" not in rg)]

    # ---- connection teardown ----
    co = blank_comments(read("crates/common/src/conn.rs"))
    impl = co[pos(co, "impl<D: Dispatcher> Conn<D>", "impl Conn"):]
    sh = fn_body(impl, "shutdown")
    c1 = pos(sh, "cancellation_token.cancel()", "Conn::shutdown: cancel")
    c2 = pos(sh, "task_tracker.wait().await", "Conn::shutdown: wait")
    c3 = pos(sh, ".shutdown().await", "Conn::shutdown: dispatcher shutdown")
    flags += [("teardown: a connection's requests are cancelled and awaited before its dispatcher unregisters and cleans up", c1 < c2 < c3)]
    d = blank_comments(read("crates/server/src/c2s/conn.rs"))
    ds = d[pos(d, "impl narwhal_common::conn::Dispatcher for C2sDispatcher", "impl Dispatcher for C2sDispatcher"):]
    dsh = fn_body(ds, "shutdown")
    flags += [("teardown: the dispatcher unregisters the connection and leaves every channel only through the router's last-connection hook",
               dsh.count("unregister_connection(") == 1 and dsh.count("leave_all_channels(") == 1 and pos(dsh, "unregister_connection(", "x") < pos(dsh, "leave_all_channels(", "y"))]

    # ---- order of the refusals (the reason a request is refused with is the first failing check, in this order) ----
    def refusals(body, start=0):
        return re.findall(r"Error::new\((\w+)\)", body[start:])
    orders = [("join_channel", refusals(j)), ("leave_channel", refusals(l)), ("broadcast_payload", refusals(bp)),
              ("set_channel_acl", refusals(sa)), ("get_channel_acl", refusals(ga)),
              ("list_members", refusals(fn_body(ch, "list_members")))]

    bb = lambda x: "true" if x else "false"
    q = lambda s: '"' + s.replace('"', "'") + '"'
    out = ["(* GENERATED by translator/concflags.py from /repo/crates/server/src/channel/mod.rs, c2s/router.rs, c2s/conn.rs and",
           "   crates/common/src/conn.rs -- do not edit.  The segment layout Model/Conc.v assumes, as read off the source. *)",
           "From Coq Require Import String List Bool.", "Import ListNotations.", "Open Scope string_scope.", "",
           "Definition src_ptr_check : bool := %s." % bb(ptr),
           "Definition src_idx_early : bool := %s." % bb(early), "",
           "Definition conc_source_shape : list (string * bool) :=",
           "  [" + ";\n   ".join("(%s, %s)" % (q(t), bb(v)) for t, v in flags) + "].", "",
           "(* the error reasons each function can refuse with, in the order of its checks *)",
           "Definition conc_source_refusals : list (string * list string) :=",
           "  [" + ";\n   ".join("(%s, [%s])" % (q(n), "; ".join(q(x) for x in xs)) for n, xs in orders) + "].", ""]
    return "\n".join(out)


def fallback(msg):
    q = '"' + msg.replace('"', "'") + '"'
    return "\n".join(["(* GENERATED by translator/concflags.py -- %s *)" % msg.replace("*)", "* )"),
                      "From Coq Require Import String List Bool.", "Import ListNotations.", "Open Scope string_scope.", "",
                      "Definition src_ptr_check : bool := false.", "Definition src_idx_early : bool := false.", "",
                      "Definition conc_source_shape : list (string * bool) := [(%s, false)]." % q,
                      "Definition conc_source_refusals : list (string * list string) := [].", ""])


if __name__ == "__main__":
    import sys, os
    repo = sys.argv[1] if len(sys.argv) > 1 else "/repo"
    print(gen(lambda rel: open(os.path.join(repo, rel), encoding="utf-8").read()))
