#!/usr/bin/env python3
"""Lock-discipline extraction (part of the translator): scans the server's DashMap users
(crates/server/src/channel/mod.rs, crates/server/src/c2s/router.rs) and decides, for every access to a
sharded map, the lexical region during which the shard guard is alive, and whether an `.await`
lies inside that region.  A shard guard is a thread-blocking lock: held across an await it lets a
parked task block every other task that needs the shard (the whole worker wedges) — the discipline
assumed by Model/Locks.v.  Output: coq/Gen/LockLint.v (site count + offending sites).

Recognised shapes (anything else: TRANSLATOR-SHAPE-ERROR):
  S1  `match MAP.get(..) {..}` / `if let .. = MAP.get(..) {..}` / `for .. in MAP.iter() {..}` / `while let`:
      the guard (a temporary of the scrutinee) lives to the end of the block
  S2  `let VAR = MAP.get|get_mut|entry(..)<guard-preserving tail>;`  (tail: or_insert_with(..), or_default(),
      unwrap(), expect(..), `?`, nothing): VAR is a guard, alive until `drop(VAR)` or the end of the enclosing block
  S3  any other expression containing a guard-returning access (`MAP.get(..).map(..)`, `.is_none()`,
      `MAP.entry(..).or_default().insert(..)`, ...): the guard is a temporary and dies at the end of the statement
      (or of the `if`/`while` condition)
  S4  `MAP.remove|remove_if|remove_if_mut|contains_key|len|insert|is_empty|retain|alter|clear(..)`: the lock is held for
      the call only
"""
import os
import re

MAPS = ["channels", "in_channels", "connections", "self.connections"]
GUARDING = ["get", "get_mut", "entry", "iter", "iter_mut", "try_get", "try_get_mut", "try_entry"]
FILES = ["crates/server/src/channel/mod.rs", "crates/server/src/c2s/router.rs"]


class Shape(Exception):
    pass


def blank(src):
    """comments, string and char literals replaced by spaces (same length, newlines kept)"""
    out = list(src)
    i, n = 0, len(src)
    while i < n:
        c = src[i]
        if src.startswith("//", i):
            j = src.find("\n", i)
            j = n if j < 0 else j
            for k in range(i, j):
                out[k] = " "
            i = j
        elif src.startswith("/*", i):
            j = src.find("*/", i)
            j = n if j < 0 else j + 2
            for k in range(i, j):
                if out[k] != "\n":
                    out[k] = " "
            i = j
        elif c == '"':
            j = i + 1
            while j < n and src[j] != '"':
                j += 2 if src[j] == "\\" else 1
            for k in range(i + 1, min(j, n)):
                if out[k] != "\n":
                    out[k] = " "
            i = j + 1
        elif c == "'" and i + 2 < n and (src[i + 2] == "'" or (src[i + 1] == "\\" and src.find("'", i + 2) - i <= 4)):
            j = src.find("'", i + 2 if src[i + 1] == "\\" else i + 1)
            for k in range(i + 1, j):
                out[k] = " "
            i = j + 1
        else:
            i += 1
    return "".join(out)


def match_close(src, i, open_c, close_c):
    depth = 0
    while i < len(src):
        if src[i] == open_c:
            depth += 1
        elif src[i] == close_c:
            depth -= 1
            if depth == 0:
                return i
        i += 1
    raise Shape("unbalanced %s%s" % (open_c, close_c))


def enclosing_block(src, pos, lo):
    """(start, end) of the innermost {...} containing pos (searching back to lo)"""
    depth = 0
    i = pos
    while i >= lo:
        if src[i] == "}":
            depth += 1
        elif src[i] == "{":
            if depth == 0:
                return i, match_close(src, i, "{", "}")
            depth -= 1
        i -= 1
    raise Shape("no enclosing block")


def stmt_start(src, pos, lo):
    """start of the statement containing pos: after the previous `;`, `{` or `}` at the same nesting"""
    depth = 0
    i = pos - 1
    while i >= lo:
        c = src[i]
        if c in ")]":
            depth += 1
        elif c in "([":
            if depth == 0:
                return i + 1      # inside a call's argument list: the argument expression is the 'statement'
            depth -= 1
        elif c == "}":
            # a block that ended before us: statement starts after it (unless it is part of our expression; rare)
            if depth == 0:
                return i + 1
        elif c in ";{" and depth == 0:
            return i + 1
        i -= 1
    return lo


def stmt_end(src, pos, hi):
    """end of the expression/statement containing pos: the `;`, the closing bracket of the enclosing group, or the `{`
    that opens a block after a condition (temporaries of an `if`/`while` condition die before the block runs)"""
    depth = 0
    i = pos
    while i < hi:
        c = src[i]
        if c == "{" and depth == 0:
            return i
        if c in "([{":
            depth += 1
        elif c in ")]}":
            if depth == 0:
                return i
            depth -= 1
        elif c == ";" and depth == 0:
            return i
        i += 1
    return hi


def guard_tail(tail):
    """True when `tail` (what follows MAP.get(..)) only passes the guard on: .or_insert_with(..) .or_default()
    .unwrap() .expect(..) .or_insert(..) and `?`"""
    i = 0
    while True:
        while i < len(tail) and tail[i].isspace():
            i += 1
        if i >= len(tail):
            return True
        if tail[i] == "?":
            i += 1
            continue
        m = re.match(r"\.\s*(\w+)\s*\(", tail[i:])
        if not m or m.group(1) not in ("or_insert_with", "or_default", "unwrap", "expect", "or_insert"):
            return False
        i = match_close(tail, i + m.end() - 1, "(", ")") + 1


def functions(src):
    """(name, body_start, body_end) for every fn with a body"""
    out = []
    for m in re.finditer(r"\bfn\s+(\w+)\s*(<[^>{;]*>)?\s*\(", src):
        p = match_close(src, m.end() - 1, "(", ")")
        j = p + 1
        while j < len(src) and src[j] not in "{;":
            j += 1
        if j < len(src) and src[j] == "{":
            out.append((m.group(1), j, match_close(src, j, "{", "}")))
    return out




def analyse_file(rel, raw):
    src = blank(raw)
    sites = []
    bad = []
    pat = re.compile(r"(?<![\w.])(" + "|".join(re.escape(m) for m in MAPS) + r")\s*\.\s*(\w+)\s*\(")
    fns = functions(src)
    for m in pat.finditer(src):
        mapn, meth = m.group(1), m.group(2)
        if meth in ("clone",):
            continue
        owner = [f for f in fns if f[1] < m.start() < f[2]]
        if not owner:
            continue
        fname, fs, fe = max(owner, key=lambda f: f[1])
        line = src.count("\n", 0, m.start()) + 1
        call_end = match_close(src, m.end() - 1, "(", ")")
        s0 = stmt_start(src, m.start(), fs)
        head = src[s0:m.start()]
        # a closure parameter of the same name shadows the map inside the closure (`.map_or(0, |in_channels| in_channels.len())`)
        if re.search(r"\|[^|;{}]*\b" + re.escape(mapn.split(".")[-1]) + r"\b[^|;{}]*\|\s*$", head):
            continue
        region = None
        shape = None
        if meth in GUARDING:
            hm = re.search(r"\b(match|if\s+let|while\s+let|for)\b[^;{}]*$", head, flags=re.S)
            lm = re.match(r"\s*let\s+(mut\s+)?(\w+)\s*(:[^=]+)?=\s*$", head, flags=re.S)
            if hm and not re.search(r"=>\s*$", head):
                # S1: scrutinee / iterator: the guard lives to the end of the following block
                j = call_end + 1
                depth = 0
                while j < fe and not (src[j] == "{" and depth == 0):
                    if src[j] in "([":
                        depth += 1
                    elif src[j] in ")]":
                        depth -= 1
                    elif src[j] == ";" and depth == 0:
                        break
                    j += 1
                if j < fe and src[j] == "{":
                    region = (m.start(), match_close(src, j, "{", "}"))
                    shape = "S1"
            if region is None and lm:
                e = stmt_end(src, call_end + 1, fe)
                tail = src[call_end + 1:e]
                if guard_tail(tail):
                    var = lm.group(2)
                    bs, be = enclosing_block(src, m.start(), fs)
                    dm = re.compile(r"\bdrop\s*\(\s*" + re.escape(var) + r"\s*\)").search(src, e, be)
                    region = (m.start(), dm.start() if dm else be)
                    shape = "S2"
            if region is None:
                region = (s0, stmt_end(src, call_end + 1, fe))
                shape = "S3"
        else:
            if meth.startswith("try_"):
                region = (m.start(), call_end + 1)
                shape = "S4"
                text = src[region[0]:region[1]]
                sites.append((rel, fname, line, mapn, meth, shape, False, region))
                bad.append("%s:%d fn %s: %s.%s may report a present entry as unavailable while its shard is locked" % (rel, line, fname, mapn, meth))
                continue
            if meth not in ("remove", "remove_if", "remove_if_mut", "contains_key", "len", "insert", "is_empty", "retain", "alter", "clear"):
                raise Shape(f"{rel}:{line}: unknown DashMap method `{mapn}.{meth}` in fn {fname}")
            # these calls take the shard lock only for their own duration and return owned data
            region = (m.start(), call_end + 1)
            shape = "S4"
        text = src[region[0]:region[1]]
        has_await = re.search(r"\.\s*await\b", text) is not None
        sites.append((rel, fname, line, mapn, meth, shape, has_await, region))
        if meth.startswith("try_"):
            # a non-blocking lookup reports a shard that is merely being written as Locked: treating that like Absent
            # makes a present entry disappear for an instant (a delivery, a membership check silently skipped)
            bad.append("%s:%d fn %s: %s.%s may report a present entry as unavailable while its shard is locked" % (rel, line, fname, mapn, meth))
        if has_await:
            aw = region[0] + re.search(r"\.\s*await\b", text).start()
            bad.append("%s:%d fn %s: %s.%s guard (%s) alive across the await at line %d" % (
                rel, line, fname, mapn, meth, shape, src.count("\n", 0, aw) + 1))
    return sites, bad


CHAN_FILE = "crates/server/src/channel/mod.rs"


def analyse_chan_locks(rel, raw):
    """per-channel async locks (`X.0.read().await` / `X.0.write().await`, X != self) of the channel manager: the lexical
    region in which each guard is alive, and every further channel-lock acquisition (direct, or through a call of a
    function of this file that takes one) inside such a region.  Holding at most one channel lock at a time is the
    discipline under which Proofs/LockProgress.v proves deadlock freedom."""
    src = blank(raw)
    fns = functions(src)
    pat = re.compile(r"(?<![\w.])(\w+)\s*\.\s*0\s*\.\s*(read|write)\s*\(\s*\)\s*\.\s*await\b")
    sites = []
    for m in pat.finditer(src):
        if m.group(1) == "self":
            continue            # the manager's own lock: only ever read-locked (checked below)
        owner = [f for f in fns if f[1] < m.start() < f[2]]
        if not owner:
            raise Shape("%s: channel lock taken outside a function body" % rel)
        fname, fs, fe = max(owner, key=lambda f: f[1])
        line = src.count("\n", 0, m.start()) + 1
        s0 = stmt_start(src, m.start(), fs)
        head = src[s0:m.start()]
        lm = re.match(r"\s*let\s+(mut\s+)?(\w+)\s*(:[^=]+)?=\s*$", head, flags=re.S)
        e = stmt_end(src, m.end(), fe)
        if lm and src[m.end():e].strip() == "":
            var = lm.group(2)
            bs, be = enclosing_block(src, m.start(), fs)
            dm = re.compile(r"\bdrop\s*\(\s*" + re.escape(var) + r"\s*\)").search(src, e, be)
            region = (m.end(), dm.start() if dm else be)
            shape = "let"
        elif lm:
            raise Shape("%s:%d: channel lock bound by `let` with a tail the lint does not know" % (rel, line))
        else:
            region = (m.end(), e)
            shape = "temporary"
        sites.append({"fn": fname, "line": line, "mode": m.group(2), "shape": shape, "region": region, "start": m.start()})
    takers = sorted({s["fn"] for s in sites})
    nested = []
    for s in sites:
        a, b = s["region"]
        text = src[a:b]
        for o in sites:
            if o is not s and a <= o["start"] < b:
                nested.append("%s:%d fn %s: channel lock (%s) still held when another channel lock is taken at line %d" % (
                    rel, s["line"], s["fn"], s["mode"], o["line"]))
        for f in takers:
            for cm in re.finditer(r"(?<![\w])(self\s*\.|Self\s*::)\s*" + re.escape(f) + r"\s*\(", text):
                nested.append("%s:%d fn %s: channel lock (%s) still held across the call of %s at line %d, which takes a channel lock" % (
                    rel, s["line"], s["fn"], s["mode"], f, src.count("\n", 0, a + cm.start()) + 1))
    writers = []
    for m in re.finditer(r"(?<![\w.])self\s*\.\s*0\s*\.\s*(write|upgradable_read)\s*\(", src):
        writers.append("%s:%d: the manager lock is write-locked (every handler holds it for reading: a writer queued behind a reader that re-enters the manager blocks both)" % (rel, src.count("\n", 0, m.start()) + 1))
    return sites, nested, writers


LOCK_ID = {"channels": 0, "in_channels": 1, "connections": 2, "self.connections": 2}


def handler_programs(repo):
    """the lock protocol of every function of the channel manager and of the C2S router, as a program of Model/Locks.v:
    the events of the function body in lexical order — a map access opens a synchronous section for the lexical region in
    which its guard is alive, a per-channel lock is taken (read / write) and given back at the end of its guard's region,
    every other `.await` is a point where the task may park; calls of other analysed functions are inlined (one level is
    all the code needs; deeper nesting is a shape error).  Branches are laid out one after the other."""
    progs = {}
    calls = {}
    order = []
    for rel in FILES:
        with open(os.path.join(repo, rel), encoding="utf-8") as f:
            raw = f.read()
        src = blank(raw)
        fns = functions(src)
        msites, _ = analyse_file(rel, raw)
        csites = analyse_chan_locks(rel, raw)[0] if rel == CHAN_FILE else []
        for (name, fs, fe) in fns:
            ev = []
            for st in msites:
                if st[1] != name:
                    continue
                a, b = st[7]
                if not (fs < a < fe):
                    continue
                lid = LOCK_ID[st[3]]
                ev.append((a, 0, "SyncAcq %d" % lid))
                ev.append((b, 3, "SyncRel %d" % lid))
            lock_await = set()
            for c in csites:
                if c["fn"] != name:
                    continue
                a, b = c["region"]
                ev.append((c["start"], 1, "AsyncAcqW c" if c["mode"] == "write" else "AsyncAcqR c"))
                ev.append((b, 2, "AsyncRel c"))
                lock_await.add(a)          # region starts right after `.await`
            body = src[fs:fe]
            for m in re.finditer(r"\.\s*await\b", body):
                pos = fs + m.end()
                if pos in lock_await:
                    continue
                head = src[max(fs, pos - 80):pos]
                if re.search(r"self\s*\.\s*0\s*\.\s*read\s*\(\s*\)\s*\.\s*await$", head):
                    continue               # the manager-wide lock, only ever read-locked (chan_lock_nested lists any writer)
                cm = re.search(r"(?:self\s*\.|Self\s*::)\s*(\w+)\s*\([^;]*$", src[stmt_start(src, pos - 6, fs):pos - 6], flags=re.S)
                if cm and any(f[0] == cm.group(1) for f in fns):
                    ev.append((pos, 1, "CALL " + cm.group(1)))
                else:
                    ev.append((pos, 1, "AwaitMod"))
            if not any(e[2].startswith(("SyncAcq", "AsyncAcq")) for e in ev):
                continue
            ev.sort(key=lambda e: (e[0], e[1]))
            progs[name] = [e[2] for e in ev]
            order.append(name)
    out = {}
    for name in order:
        p = []
        for a in progs[name]:
            if a.startswith("CALL "):
                callee = a[5:]
                if callee in progs:
                    if any(x.startswith("CALL ") and x[5:] in progs for x in progs[callee]):
                        raise Shape("lock programs: nested calls between lock-taking functions (%s -> %s -> ..)" % (name, callee))
                    p += [x if not x.startswith("CALL ") else "AwaitMod" for x in progs[callee]]
                else:
                    p.append("AwaitMod")
            else:
                p.append(a)
        out[name] = p
    if len(out) < 8:
        raise Shape("lock programs: only %d lock-taking functions found" % len(out))
    return order, out


def analyse(repo):
    sites, bad = [], []
    for rel in FILES:
        p = os.path.join(repo, rel)
        if not os.path.exists(p):
            raise Shape("source file missing: " + rel)
        with open(p, encoding="utf-8") as f:
            s, b = analyse_file(rel, f.read())
        sites += s
        bad += b
    if len(sites) < 20:
        raise Shape("lock lint found only %d sharded-map accesses (expected the channel manager's and the router's)" % len(sites))
    return sites, bad


def gen(repo):
    sites, bad = analyse(repo)
    q = lambda s: '"' + s.replace('"', "'") + '"'
    by = {}
    for s in sites:
        by[s[5]] = by.get(s[5], 0) + 1
    out = ["(* GENERATED by translator/locklint.py from /repo/%s — do not edit *)" % ", ".join(FILES),
           "From Coq Require Import String List NArith.", "Import ListNotations.", "Local Open Scope string_scope.", "",
           "(* accesses to sharded maps whose guard region was determined: %s *)" % ", ".join("%s=%d" % kv for kv in sorted(by.items())),
           "Definition map_access_sites : N := %d%%N." % len(sites), "",
           "(* accesses whose shard guard is alive across an await point, and non-blocking lookups (the try_ family), which can miss a",
           "   present entry while its shard is locked *)",
           "Definition guard_across_await : list string := [" + ";\n  ".join(q(b) for b in bad) + "].", ""]
    # exclusive registration: the test "nobody holds the name" is made on the guard DashMap::entry returns (one critical
    # section with the insertion), not by a lookup of its own before it
    with open(os.path.join(repo, "crates/server/src/c2s/router.rs"), encoding="utf-8") as f:
        rsrc = blank(f.read())
    rf = [x for x in functions(rsrc) if x[0] == "register_connection"]
    if not rf:
        raise Shape("lock lint: register_connection not found in c2s/router.rs")
    rbody = rsrc[rf[0][1]:rf[0][2]]
    ent = re.search(r"\.\s*entry\s*\(", rbody)
    tst = re.search(r"\bif\s+[^{]*\bexclusive\b", rbody)
    pre = re.search(r"(has_connection|contains_key|\.\s*get\s*)\s*\(", rbody[:ent.start()] if ent else rbody)
    excl_ok = bool(ent) and bool(tst) and ent.start() < tst.start() and pre is None
    with open(os.path.join(repo, CHAN_FILE), encoding="utf-8") as f:
        csites, nested, writers = analyse_chan_locks(CHAN_FILE, f.read())
    if len(csites) < 8:
        raise Shape("lock lint found only %d channel-lock acquisitions in %s" % (len(csites), CHAN_FILE))
    out += ["(* acquisitions of a per-channel async lock (%s) *)" % ", ".join("%s:%d %s/%s" % (c["fn"], c["line"], c["mode"], c["shape"]) for c in csites),
            "Definition chan_lock_sites : N := %d%%N." % len(csites), "",
            "(* channel locks still held when another channel lock is taken (directly or through a call), and write-lockers of the",
            "   manager-wide lock *)",
            "Definition chan_lock_nested : list string := [" + ";\n  ".join(q(b) for b in nested + writers) + "].", "",
            "(* Router::register_connection decides exclusivity on the entry guard it inserts through (one critical section) *)",
            "Definition exclusive_check_under_entry_guard : bool := %s." % ("true" if excl_ok else "false"), ""]
    return "\n".join(out)


def gen_programs(repo):
    order, progs = handler_programs(repo)
    ident = lambda n: "src_" + re.sub(r"\W", "_", n)
    def act(a):
        k, _, arg = a.partition(" ")
        return "%s %s" % (k, arg) if arg else k
    out = ["(* GENERATED by translator/locklint.py from /repo/%s — do not edit *)" % ", ".join(FILES),
           "From Coq Require Import List String.", "From NW Require Import Base.Bytes Model.Locks.", "Import ListNotations.", "Local Open Scope string_scope.", "",
           "(* the lock protocol of every lock-taking function of the channel manager and of the C2S router, in lexical order:",
           "   map accesses (0 channels, 1 in_channels, 2 connections) as synchronous sections, the per-channel lock [c], and every other",
           "   await as a point where the task may park *)"]
    for n in order:
        out.append("Definition %s (c : nat) : program := [%s]." % (ident(n), "; ".join(act(a) for a in progs[n])))
    out.append("Definition src_programs (c : nat) : list (string * program) := [%s]." % "; ".join('("%s", %s c)' % (n, ident(n)) for n in order))
    return "\n".join(out) + "\n"


def programs_fallback(msg):
    return "\n".join(["(* GENERATED by translator/locklint.py — TRANSLATOR-SHAPE-ERROR: %s *)" % str(msg).replace("*)", "* )").replace("(*", "( *"),
                      "From Coq Require Import List String.", "From NW Require Import Base.Bytes Model.Locks.", "Import ListNotations.", "Local Open Scope string_scope.",
                      "Definition src_programs (c : nat) : list (string * program) := [(\"TRANSLATOR-SHAPE-ERROR\", [SyncAcq 0])].", ""])


if __name__ == "__main__":
    import sys
    repo = sys.argv[1] if len(sys.argv) > 1 else "/repo"
    sites, bad = analyse(repo)
    for s in sites:
        print(s)
    print("BAD:", bad)
    with open(os.path.join(repo, CHAN_FILE), encoding="utf-8") as f:
        cs, nested, writers = analyse_chan_locks(CHAN_FILE, f.read())
    for c in cs:
        print({k: v for k, v in c.items() if k != "region"})
    print("NESTED:", nested, writers)
