#!/usr/bin/env python3
"""Write-budget extraction (part of the translator): how crates/common/src/conn.rs sizes the shared message-buffer pool
and how the connection loop's write arm takes buffers from it.  Output: coq/Gen/Headroom.v — the coefficients of the
pool size (per connection, per MAX_IOVS), the size of the head-room semaphore, and whether every buffer a write batch
takes beyond its first is taken against a permit acquired WITHOUT waiting and kept until the buffers are back.
Model/WriteBudget.v proves that under exactly these conditions no connection ever waits for a message buffer."""
import re


class Shape(Exception):
    pass


def blank_comments(src):
    src = re.sub(r"/\*.*?\*/", lambda m: re.sub(r"[^\n]", " ", m.group(0)), src, flags=re.S)
    return "\n".join(l[:l.find("//")] if "//" in l else l for l in src.split("\n"))


def close(src, i, o="{", c="}"):
    depth = 0
    while i < len(src):
        if src[i] == o:
            depth += 1
        elif src[i] == c:
            depth -= 1
            if depth == 0:
                return i
        i += 1
    raise Shape("headroom: unbalanced brackets")


def linear(expr, what):
    """expr is a sum of products of integers, `max_connections` and `MAX_IOVS`: returns (per_conn, per_iovs, constant)"""
    e = re.sub(r"\s|\bas\s+usize\b", "", expr)
    e = e.replace("(", "").replace(")", "") if re.fullmatch(r"[\w*+()]+", e) and "(" in e and "+" not in e else e
    per_conn = per_iovs = const = 0
    for term in e.split("+"):
        if not term:
            raise Shape(f"headroom: empty term in {what}: `{expr}`")
        coeff, vars_ = 1, []
        for f in term.split("*"):
            if re.fullmatch(r"\d+", f):
                coeff *= int(f)
            elif f in ("max_connections", "MAX_IOVS"):
                vars_.append(f)
            else:
                raise Shape(f"headroom: unknown factor `{f}` in {what}: `{expr}`")
        if vars_ == ["max_connections"]:
            per_conn += coeff
        elif vars_ == ["MAX_IOVS"]:
            per_iovs += coeff
        elif not vars_:
            const += coeff
        else:
            raise Shape(f"headroom: non-linear term `{term}` in {what}")
    return per_conn, per_iovs, const


def gen(read):
    src = blank_comments(read("crates/common/src/conn.rs"))
    # 1. the message pool's size
    m = re.search(r"let\s+message_buffer_pool\s*=\s*Pool::new\(\s*(\w+)\s*,", src)
    if not m:
        raise Shape("headroom: `let message_buffer_pool = Pool::new(<count>, ..)` not found")
    var = m.group(1)
    d = re.search(r"let\s+" + re.escape(var) + r"\s*(?::\s*usize\s*)?=\s*([^;]+);", src)
    if not d:
        raise Shape(f"headroom: definition of `{var}` not found")
    per_conn, per_iovs, const = linear(d.group(1), var)
    # 2. the head-room semaphore (absent: 0 permits)
    permits = 0
    ps = re.search(r"write_batch_permits\s*:\s*Arc::new\(\s*Semaphore::new\(([^;]*?)\)\s*\)", src)
    if ps:
        pc, pi, pk = linear(ps.group(1), "write_batch_permits")
        if pc or pk:
            raise Shape("headroom: head-room semaphore not sized in MAX_IOVS units")
        permits = pi
    # 3. the write arm: every message_buffer_pool.acquire_buffer() inside the batch-growing loop comes after a
    #    non-waiting permit acquisition whose failure leaves the loop, the permit is kept with the batch, and the permits
    #    are given back after the buffers
    fn = re.search(r"async\s+fn\s+run_connection_loop\b", src)
    if not fn:
        raise Shape("headroom: run_connection_loop not found")
    b = src.index("{", src.index(")", fn.end()))
    body = src[b:close(src, b) + 1]
    tr = re.search(r"send_msg_rx\s*\.\s*try_recv\s*\(\s*\)", body)
    if not tr:
        raise Shape("headroom: the batch-growing try_recv loop not found")
    # innermost `loop {` containing the try_recv
    lo = None
    for lm in re.finditer(r"\bloop\s*\{", body):
        e = close(body, lm.end() - 1)
        if lm.start() < tr.start() < e:
            lo = (lm.end() - 1, e)
    if lo is None:
        raise Shape("headroom: try_recv is not inside a loop")
    loop_txt = body[lo[0]:lo[1] + 1]
    acq = [a.start() for a in re.finditer(r"message_buffer_pool\s*\.\s*acquire_buffer\s*\(\s*\)", loop_txt)]
    if not acq:
        raise Shape("headroom: the batch-growing loop takes no message buffer")
    g = re.search(r"let\s+Ok\(\s*(\w+)\s*\)\s*=\s*write_batch_permits\s*\.\s*clone\(\)\s*\.\s*try_acquire_owned\s*\(\s*\)\s*else\s*\{\s*break\s*;?\s*\}\s*;", loop_txt)
    guarded = bool(g) and all(a > g.end() for a in acq)
    kept = False
    if g:
        kept = re.search(r"batch_permits\s*\.\s*push\(\s*" + re.escape(g.group(1)) + r"\s*\)", loop_txt) is not None
    rel = re.search(r"message_buffer_pool\s*\.\s*release_buffers\s*\(", body)
    clr = re.search(r"batch_permits\s*\.\s*clear\s*\(\s*\)", body)
    if not rel:
        raise Shape("headroom: release_buffers call not found in the write arm")
    order_ok = bool(clr) and rel.start() < clr.start()
    # 4. every other awaited acquisition is transient (argument of write_message / serialize_message) or the read buffer
    outside = body[:lo[0]] + " " * (lo[1] + 1 - lo[0]) + body[lo[1] + 1:]
    n_sites = 0
    for a in re.finditer(r"message_buffer_pool\s*\.\s*acquire_buffer\s*\(\s*\)\s*\.\s*await", outside):
        n_sites += 1
        line_start = outside.rfind("\n", 0, a.start()) + 1
        head = outside[line_start:a.start()]
        if not re.search(r"(Self::write_message\(|Self::serialize_message\(|let\s+read_pool_buffer\s*=)", head):
            raise Shape("headroom: a message buffer is taken in a way the lint does not know: `%s`" % outside[line_start:outside.find("\n", a.start())].strip())
    if n_sites < 3:
        raise Shape("headroom: only %d message-buffer acquisitions recognised" % n_sites)
    # 5. is the batch write raced with the close channel and the shutdown token?  (the call of write_iovs in the loop
    #    body sits inside a tokio::select! block that also polls close_rx.recv() and `cancelled`)
    raced = False
    wi = re.search(r"Self::write_iovs\s*\(", body)
    if not wi:
        raise Shape("headroom: the batch write (Self::write_iovs) not found in the connection loop")
    for sm in re.finditer(r"tokio::select!\s*\{", body):
        e = close(body, sm.end() - 1)
        inner = body[sm.end():e]
        # the innermost select containing the write, other than the loop's main select (which contains the whole arm)
        if sm.start() < wi.start() < e and "stream_reader" not in inner:
            raced = re.search(r"close_rx\s*\.\s*recv\s*\(", inner) is not None and re.search(r"\bcancelled\b", inner) is not None
    # 6. the batch's buffers go back to the pool only after the vectored write of that batch has been awaited
    wa = re.search(r"Self::write_iovs\s*\([^;]*?\)\s*\.\s*await", body, flags=re.S)
    released_after = bool(wa) and rel.start() > wa.end()
    # 7. in-flight accounting (Conn::submit_request): admission increments the counter it has just read; the spawned task
    #    ends by re-reading the LIVE counter and decrementing it
    sr = re.search(r"fn\s+submit_request\b", src)
    if not sr:
        raise Shape("headroom: submit_request not found")
    sb = src.index("{", src.index(")", sr.end()))
    sbody = src[sb:close(src, sb) + 1]
    sp = re.search(r"spawn_local\s*\(", sbody)
    sets = list(re.finditer(r"inflight_requests\s*\.\s*set\s*\(([^;]*)\)\s*;", sbody))
    if not sp or len(sets) < 2:
        raise Shape("headroom: the in-flight counter's admission / completion updates not found in submit_request")
    last = sets[-1]
    expr = re.sub(r"\s", "", last.group(1))
    live_dec = False
    if last.start() > sp.start():
        m1 = re.fullmatch(r"(\w+)\.saturating_sub\(1\)", expr)
        if expr == "inflight_requests.get().saturating_sub(1)":
            live_dec = True
        elif m1:
            # the variable must be read from the live counter inside the task, after its select! has finished
            rd = [x for x in re.finditer(r"let\s+" + re.escape(m1.group(1)) + r"\s*=\s*inflight_requests\s*\.\s*get\s*\(\s*\)\s*;", sbody)]
            live_dec = any(sp.start() < x.start() < last.start() for x in rd)
    bl = lambda x: "true" if x else "false"
    return "\n".join([
        "(* GENERATED by translator/headroom.py from /repo/crates/common/src/conn.rs — do not edit *)",
        "From Coq Require Import NArith.", "",
        "(* message pool size = pool_per_connection * max_connections + pool_per_iovs * MAX_IOVS + pool_constant *)",
        "Definition pool_per_connection : N := %d%%N." % per_conn,
        "Definition pool_per_iovs : N := %d%%N." % per_iovs,
        "Definition pool_constant : N := %d%%N." % const,
        "(* permits of the head-room semaphore, in units of MAX_IOVS (0: there is none) *)",
        "Definition permits_per_iovs : N := %d%%N." % permits,
        "(* every buffer a write batch takes beyond its first comes after `let Ok(p) = permits.try_acquire_owned() else { break }` *)",
        "Definition extras_guarded : bool := %s." % bl(guarded),
        "(* that permit is stored with the batch, and the stored permits are cleared after release_buffers *)",
        "Definition permits_kept_until_release : bool := %s." % bl(kept and order_ok),
        "(* awaited acquisitions outside the batch-growing loop: the read buffer, the first buffer of a batch, transient error frames *)",
        "Definition single_buffer_sites : N := %d%%N." % n_sites,
        "(* the batch write is awaited inside a select! that also polls the close channel and the shutdown token *)",
        "Definition write_raced_with_close : bool := %s." % bl(raced),
        "(* release_buffers of the batch comes after the awaited vectored write of that batch *)",
        "Definition batch_released_after_write : bool := %s." % bl(released_after),
        "(* a finished request task decrements the counter it re-reads at that moment (not a value captured at admission) *)",
        "Definition inflight_decrements_live_counter : bool := %s." % bl(live_dec), ""])


def fallback(msg):
    return "\n".join([
        "(* GENERATED by translator/headroom.py — the source no longer has the shape this extraction knows:",
        "   " + msg.replace("*)", "* )").replace("(*", "( *"), " *)",
        "From Coq Require Import NArith.", "",
        "Definition pool_per_connection : N := 0%N.", "Definition pool_per_iovs : N := 0%N.", "Definition pool_constant : N := 0%N.",
        "Definition permits_per_iovs : N := 0%N.", "Definition extras_guarded : bool := false.",
        "Definition permits_kept_until_release : bool := false.", "Definition single_buffer_sites : N := 0%N.",
        "Definition write_raced_with_close : bool := false.", "Definition batch_released_after_write : bool := false.",
        "Definition inflight_decrements_live_counter : bool := false.", ""])


if __name__ == "__main__":
    import sys, os
    repo = sys.argv[1] if len(sys.argv) > 1 else "/repo"
    print(gen(lambda rel: open(os.path.join(repo, rel), encoding="utf-8").read()))
