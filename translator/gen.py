#!/usr/bin/env python3
"""Translator: regenerates the source-derived tables of the Coq model (coq/Gen/*.v) and the
harness glue (harness/src/gen_schema.rs) from /repo's *current working tree*.

It recognises a fixed set of source shapes and fails loudly (exit 3, message naming the shape)
when one is not recognised: a failed translation is a broken tie, handled by bin/check.

Generated:
  coq/Gen/Schema.v   45 message kinds: wire names (from_name and name() tables), fields in
                     declaration order (param name, kind, type, validation), extra enum
                     validations, payload_info and correlation_id tables; enum string tables
  coq/Gen/Errors.v   ErrorReason <-> string tables, recoverable set
  coq/Gen/Consts.v   numeric / character constants read from the sources
  coq/Gen/Dispatch.v accepted message kinds per dispatcher and phase (translator/dispatch.py)
  coq/Gen/Wiring.v   hand-overs of configured limits by position / field name (translator/wiring.py)
  coq/Gen/PoolOrder.v statement order of the pool's acquire / drop / batch release (translator/poolorder.py)
  coq/Gen/LockLint.v sharded-map accesses whose guard is alive across an await (translator/locklint.py)
  coq/Gen/Headroom.v message-pool sizing and the write arm's buffer discipline (translator/headroom.py)
  coq/Gen/ConcFlags.v segment layout of the channel manager: which statement sits before / after which await (translator/concflags.py)
  harness/src/gen_schema.rs  Message <-> generic value conversions used by the codec driver
"""
import os
import re
import sys

sys.path.insert(0, os.path.dirname(os.path.abspath(__file__)))

REPO = os.environ.get("VERIF_REPO", "/repo")
VERIF = os.path.dirname(os.path.dirname(os.path.abspath(__file__)))


class Shape(Exception):
    pass


def need(cond, what):
    if not cond:
        raise Shape(what)


def read(rel):
    p = os.path.join(REPO, rel)
    need(os.path.exists(p), f"source file missing: {rel}")
    with open(p, encoding="utf-8") as f:
        return f.read()


def strip_comments(src):
    src = re.sub(r"/\*.*?\*/", "", src, flags=re.S)
    out = []
    for line in src.split("\n"):
        # remove // comments (no string literal in the parsed regions contains //)
        i = line.find("//")
        if i >= 0:
            line = line[:i]
        out.append(line)
    return "\n".join(out)


def coq_str(s):
    return '"' + s.replace('"', '""') + '"'


def match_braces(src, start):
    """src[start] == '{' ; returns index after the matching '}'"""
    need(src[start] == "{", "brace expected")
    depth = 0
    i = start
    while i < len(src):
        c = src[i]
        if c == "{":
            depth += 1
        elif c == "}":
            depth -= 1
            if depth == 0:
                return i + 1
        i += 1
    raise Shape("unbalanced braces")


# ---------------------------------------------------------------- message.rs

def parse_message_rs():
    src = strip_comments(read("crates/protocol/src/message.rs"))

    # enum Message
    m = re.search(r"pub enum Message\s*\{", src)
    need(m, "message.rs: `pub enum Message {`")
    end = match_braces(src, m.end() - 1)
    body = src[m.end():end - 1]
    variants = []
    for item in body.split(","):
        item = item.strip()
        if not item:
            continue
        mm = re.fullmatch(r"(\w+)\((\w+)\)", item)
        need(mm, f"message.rs: enum variant shape `{item}`")
        variants.append((mm.group(1), mm.group(2)))
    need(len(variants) >= 1, "message.rs: no variants")

    # structs
    structs = {}
    for sm in re.finditer(r"#\[derive\(([^)]*)\)\]\s*pub struct (\w+)\s*\{", src):
        derives = [d.strip() for d in sm.group(1).split(",")]
        name = sm.group(2)
        if "ProtocolMessageParameters" not in derives:
            continue
        need("Default" in derives, f"message.rs: struct {name} must derive Default")
        e = match_braces(src, sm.end() - 1)
        sbody = src[sm.end():e - 1]
        fields = []
        pos = 0
        pending_attr = None
        # tokenise: attributes and fields
        for fm in re.finditer(r"#\[param\(([^\]]*)\)\]|pub\s+(r#)?(\w+)\s*:\s*([^,\n]+),", sbody):
            if fm.group(1) is not None:
                need(pending_attr is None, f"{name}: two #[param] attributes in a row")
                pending_attr = fm.group(1)
                continue
            fname = fm.group(3)
            ty = fm.group(4).strip()
            pname = fname
            valid = "VdNone"
            if pending_attr is not None:
                for kv in pending_attr.split(","):
                    kv = kv.strip()
                    if not kv:
                        continue
                    km = re.fullmatch(r'(\w+)\s*=\s*"([^"]*)"', kv)
                    need(km, f"{name}.{fname}: param attribute shape `{kv}`")
                    if km.group(1) == "name":
                        pname = km.group(2)
                    elif km.group(1) == "validate":
                        need(km.group(2) in ("non_zero", "non_empty"), f"{name}.{fname}: validation {km.group(2)}")
                        valid = {"non_zero": "VdNonZero", "non_empty": "VdNonEmpty"}[km.group(2)]
                    else:
                        raise Shape(f"{name}.{fname}: unknown param attribute {km.group(1)}")
                pending_attr = None
            om = re.fullmatch(r"Option<\s*(\w+)\s*>", ty)
            vm = re.fullmatch(r"Vec<\s*(\w+)\s*>", ty)
            if om:
                kind, inner = "KOpt", om.group(1)
            elif vm:
                kind, inner = "KVec", vm.group(1)
            else:
                kind, inner = "KReg", ty
            tmap = {"StringAtom": "TAtom", "u8": "TU8", "u16": "TU16", "u32": "TU32", "bool": "TBool"}
            need(inner in tmap, f"{name}.{fname}: unsupported field type {ty}")
            if kind == "KVec":
                need(inner == "StringAtom", f"{name}.{fname}: only Vec<StringAtom> is modelled")
            if valid == "VdNonZero":
                need(kind == "KReg" and inner in ("u8", "u16", "u32"), f"{name}.{fname}: non_zero on {ty}")
            if valid == "VdNonEmpty":
                need((kind == "KReg" and inner == "StringAtom") or kind == "KVec", f"{name}.{fname}: non_empty on {ty}")
            fields.append(dict(fname=fname, pname=pname, kind=kind, ty=tmap[inner], rty=inner, valid=valid))
        need(pending_attr is None, f"{name}: dangling #[param]")
        # every `pub x: T,` line must have been consumed
        nfields = len(re.findall(r"\bpub\s+(?:r#)?\w+\s*:", sbody))
        need(nfields == len(fields), f"{name}: field count mismatch ({nfields} vs {len(fields)})")
        structs[name] = fields
    for v, s in variants:
        need(s in structs, f"message.rs: struct {s} for variant {v} not found")

    def fn_body(sig_re):
        mm = re.search(sig_re, src)
        need(mm, f"message.rs: function `{sig_re}`")
        b = src.index("{", mm.end() - 1)
        e = match_braces(src, b)
        return src[b + 1:e - 1]

    # from_name
    fb = fn_body(r"pub fn from_name\(msg_name: &\[u8\]\)\s*->\s*anyhow::Result<Message>\s*")
    from_names = {}
    for mm in re.finditer(r'b"([A-Z0-9_]+)"\s*=>\s*\{?\s*Ok\(Message::(\w+)\((\w+)::default\(\)\)\)', fb):
        wire, var, st = mm.groups()
        need(dict(variants).get(var) == st, f"from_name: {wire} builds {var}({st})")
        from_names.setdefault(var, []).append(wire)
    n_arms = len(re.findall(r'b"[^"]*"\s*=>', fb))
    need(n_arms == sum(len(v) for v in from_names.values()), "from_name: unrecognised arm")
    need(re.search(r'_\s*=>\s*Err\(anyhow::anyhow!\("unknown message"\)\)', fb), "from_name: default arm")

    # name()
    nb = fn_body(r"pub fn name\(&self\)\s*->\s*&'static str\s*")
    names = {}
    for mm in re.finditer(r'Message::(\w+)\s*\{\s*\.\.\s*\}\s*=>\s*"([^"]*)"', nb):
        names[mm.group(1)] = mm.group(2)
    need(len(re.findall(r"=>", nb)) == len(names), "name(): unrecognised arm")
    for v, _ in variants:
        need(v in names, f"name(): variant {v} missing")

    # encode_parameters / decode_parameters must be the uniform dispatch
    for fn in ("encode_parameters", "decode_parameters"):
        bb = fn_body(r"pub fn %s\(" % fn + r"[^)]*\)\s*->\s*[^{]*")
        op = "encode(parameter_writer)" if fn.startswith("encode") else "decode(parameter_reader)"
        arms = re.findall(r"(\w+)\(params\)\s*=>\s*params\.(\w+\(\w+\))", bb)
        need(len(arms) == len(variants) and all(a[1] == op for a in arms) and set(a[0] for a in arms) == set(v for v, _ in variants),
             f"{fn}: not the uniform per-variant dispatch")

    # validate_parameters: extra validations
    vb = fn_body(r"pub fn validate_parameters\(&self\)\s*->\s*anyhow::Result<\(\)>\s*")
    extras = {v: [] for v, _ in variants}
    seen = set()
    i = 0
    arm_re = re.compile(r"(\w+)\(params\)\s*=>\s*")
    # walk arms
    mpos = vb.index("match self")
    inner_b = vb.index("{", mpos)
    inner = vb[inner_b + 1: match_braces(vb, inner_b) - 1]
    i = 0
    while True:
        mm = arm_re.search(inner, i)
        if not mm:
            break
        var = mm.group(1)
        need(var in extras, f"validate_parameters: unknown variant {var}")
        j = mm.end()
        if inner[j] == "{":
            e = match_braces(inner, j)
            blk = inner[j + 1:e - 1]
            i = e
            stmts = [s.strip() for s in blk.split(";") if s.strip()]
            need(stmts[0] == "params.validate()?" and stmts[-1] == "Ok(())", f"validate_parameters[{var}]: block shape")
            for st in stmts[1:-1]:
                em = re.fullmatch(r"(AclType|AclAction|ErrorReason|EventKind)::from_str\(params\.(?:r#)?(\w+)\.as_ref\(\)\)\?", st)
                qm = re.fullmatch(r"params\.(\w+)\.map\(crate::qos::QoS::try_from\)\.transpose\(\)\?", st)
                if em:
                    extras[var].append(("enum", em.group(1), em.group(2)))
                elif qm:
                    extras[var].append(("qos", "QoS", qm.group(1)))
                else:
                    raise Shape(f"validate_parameters[{var}]: statement `{st}`")
        else:
            need(inner.startswith("params.validate()", j), f"validate_parameters[{var}]: arm shape")
            i = j
        seen.add(var)
    need(seen == set(v for v, _ in variants), "validate_parameters: missing variants")

    # payload_info
    pb = fn_body(r"pub fn payload_info\(&self\)\s*->\s*Option<PayloadInfo>\s*")
    payload = {}
    for mm in re.finditer(r"(\w+)\(params\)\s*=>\s*Some\(PayloadInfo\s*\{\s*id:\s*([^,]+),\s*length:\s*params\.(\w+) as usize\s*\}\)", pb):
        var, idexpr, lf = mm.groups()
        idexpr = idexpr.strip()
        if idexpr == "Some(params.id)":
            idk = "PidSome"
        elif idexpr == "params.id":
            idk = "PidOpt"
        elif idexpr == "None":
            idk = "PidNone"
        else:
            raise Shape(f"payload_info[{var}]: id expr {idexpr}")
        payload[var] = ("PAlways", idk, lf)
    cm = re.search(r"(\w+)\(params\)\s*=>\s*\{\s*if params\.(\w+)\s*\{\s*return Some\(PayloadInfo\s*\{\s*id:\s*Some\(params\.id\),\s*length:\s*params\.(\w+) as usize\s*\}\);\s*\}\s*None\s*\}", pb)
    if cm:
        payload[cm.group(1)] = ("PIf:" + cm.group(2), "PidSome", cm.group(3))
    n_some = len(re.findall(r"Some\(PayloadInfo", pb))
    need(n_some == len(payload), "payload_info: unrecognised arm")
    need(re.search(r"_\s*=>\s*None", pb), "payload_info: default arm")

    # correlation_id
    cb = fn_body(r"pub fn correlation_id\(&self\)\s*->\s*Option<u32>\s*")
    corr = {}
    for mm in re.finditer(r"Message::(\w+)\(params\)\s*=>\s*(Some\(params\.id\)|params\.id)", cb):
        corr[mm.group(1)] = "CSome" if mm.group(2).startswith("Some") else "COpt"
    need(len(re.findall(r"=>", cb)) == len(corr) + 1, "correlation_id: unrecognised arm")

    return dict(variants=variants, structs=structs, from_names=from_names, names=names,
                extras=extras, payload=payload, corr=corr)


def parse_enum_strings(rel, enum, fn_from_str=True):
    src = strip_comments(read(rel))
    mm = re.search(r"impl FromStr for %s\s*\{" % enum, src)
    need(mm, f"{rel}: impl FromStr for {enum}")
    body = src[mm.end():match_braces(src, mm.end() - 1)]
    pairs = re.findall(r'"([^"]*)"\s*=>\s*Ok\(%s::(\w+)\)' % enum, body)
    need(pairs, f"{rel}: {enum}::from_str arms")
    need(len(re.findall(r"=>", body)) == len(pairs) + 1, f"{rel}: {enum}::from_str unrecognised arm")
    return pairs


def parse_error_rs():
    src = strip_comments(read("crates/protocol/src/error.rs"))
    from_str = parse_enum_strings("crates/protocol/src/error.rs", "ErrorReason")
    mm = re.search(r"impl From<ErrorReason> for &str\s*\{", src)
    need(mm, "error.rs: impl From<ErrorReason> for &str")
    body = src[mm.end():match_braces(src, mm.end() - 1)]
    to_str = re.findall(r'ErrorReason::(\w+)\s*=>\s*"([^"]*)"', body)
    need(to_str, "error.rs: to-string arms")
    # recoverable set
    rm = re.search(r"pub fn is_recoverable\(&self\)\s*->\s*bool\s*\{", src)
    need(rm, "error.rs: is_recoverable")
    rbody = src[rm.end():match_braces(src, rm.end() - 1)]
    return dict(from_str=from_str, to_str=to_str, rec_body=rbody)


def gen_schema(ms):
    out = []
    w = out.append
    w("(* GENERATED by translator/gen.py from /repo/crates/protocol/src/{message,acl,event,error,qos}.rs — do not edit *)")
    w("From NW Require Import Base.Bytes Model.SchemaTypes.")
    w("Import ListNotations.")
    w("Local Open Scope string_scope.")
    w("")
    enum_tabs = {
        "AclType": [p[0] for p in parse_enum_strings("crates/protocol/src/acl.rs", "AclType")],
        "AclAction": [p[0] for p in parse_enum_strings("crates/protocol/src/acl.rs", "AclAction")],
        "EventKind": [p[0] for p in parse_enum_strings("crates/protocol/src/event.rs", "EventKind")],
        "ErrorReason": [p[0] for p in parse_enum_strings("crates/protocol/src/error.rs", "ErrorReason")],
    }
    qsrc = strip_comments(read("crates/protocol/src/qos.rs"))
    qm = re.search(r"pub const fn from_u8\(value: u8\)\s*->\s*Option<Self>\s*\{", qsrc)
    need(qm, "qos.rs: from_u8")
    qbody = qsrc[qm.end():match_braces(qsrc, qm.end() - 1)]
    qvals = [int(x) for x in re.findall(r"(\d+)\s*=>\s*Some\(", qbody)]
    need(qvals, "qos.rs: from_u8 arms")
    for k, v in enum_tabs.items():
        w(f"Definition enum_{k} : list (list N) := [" + "; ".join("bs " + coq_str(s) for s in v) + "].")
    w("Definition qos_values : list N := [" + "; ".join(f"{q}%N" for q in qvals) + "].")
    w("")
    w("Definition schema : list kschema := [")
    rows = []
    for idx, (var, st) in enumerate(ms["variants"]):
        fields = ms["structs"][st]
        fl = []
        for f in fields:
            fl.append("    {| f_param := bs %s; f_kind := %s; f_ty := %s; f_valid := %s |}" % (coq_str(f["pname"]), f["kind"], f["ty"], f["valid"]))
        ex = []
        for kind, en, fld in ms["extras"][var]:
            # find param name of the rust field
            ff = [f for f in fields if f["fname"] == fld]
            need(len(ff) == 1, f"extra validation on unknown field {var}.{fld}")
            if kind == "enum":
                ex.append("XEnum (bs %s) enum_%s" % (coq_str(ff[0]["pname"]), en))
            else:
                ex.append("XQos (bs %s) qos_values" % coq_str(ff[0]["pname"]))
        pay = ms["payload"].get(var)
        if pay is None:
            pay_s = "PNone"
        else:
            cond, idk, lf = pay
            lff = [f for f in fields if f["fname"] == lf]
            need(len(lff) == 1, f"payload length field {var}.{lf}")
            if cond == "PAlways":
                pay_s = "PAlways %s (bs %s)" % (idk, coq_str(lff[0]["pname"]))
            else:
                cf = [f for f in fields if f["fname"] == cond[4:]]
                need(len(cf) == 1, f"payload cond field {var}.{cond}")
                pay_s = "PIf (bs %s) %s (bs %s)" % (coq_str(cf[0]["pname"]), idk, coq_str(lff[0]["pname"]))
        corr = ms["corr"].get(var, "CNone")
        rows.append("  (* %d %s *)\n  {| k_name := bs %s;\n     k_from_names := [%s];\n     k_fields := [\n%s];\n     k_extra := [%s];\n     k_payload := %s;\n     k_corr := %s |}" % (
            idx, var, coq_str(ms["names"][var]),
            "; ".join("bs " + coq_str(n) for n in ms["from_names"].get(var, [])),
            ";\n".join(fl), "; ".join(ex), pay_s, corr))
    w(";\n".join(rows))
    w("].")
    w("")
    return "\n".join(out) + "\n"


def gen_errors(er):
    out = []
    w = out.append
    w("(* GENERATED by translator/gen.py from /repo/crates/protocol/src/error.rs — do not edit *)")
    w("From NW Require Import Base.Bytes.")
    w("Import ListNotations.")
    w("Local Open Scope string_scope.")
    w("(* variant name, wire string *)")
    w("Definition reason_to_str : list (string * list N) := [")
    w(";\n".join("  (%s, bs %s)" % (coq_str(v), coq_str(s)) for v, s in er["to_str"]))
    w("].")
    w("Definition reason_from_str : list (list N * string) := [")
    w(";\n".join("  (bs %s, %s)" % (coq_str(s), coq_str(v)) for s, v in er["from_str"]))
    w("].")
    # recoverable: either matches!(self, A | B | ...) or !matches!(...)
    body = er["rec_body"]
    mm = re.search(r"(!?)\s*matches!\(\s*(?:\*?self|self\.reason)\s*,([^)]*)\)", body, flags=re.S)
    need(mm, "error.rs: is_recoverable must be a matches! expression")
    neg = mm.group(1) == "!"
    names = re.findall(r"ErrorReason::(\w+)", mm.group(2))
    allv = [v for v, _ in er["to_str"]]
    rec = [v for v in allv if (v in names) != neg]
    w("Definition recoverable : list string := [" + "; ".join(coq_str(v) for v in rec) + "].")
    return "\n".join(out) + "\n"


def const_int(src, pattern, what):
    mm = re.search(pattern, src)
    need(mm, what)
    return int(mm.group(1).replace("_", ""))


def char_set(src, fn_name, what):
    mm = re.search(r"fn %s\(c: u8\)\s*->\s*bool\s*\{\s*matches!\(c,([^)]*)\)" % fn_name, src)
    need(mm, what)
    chars = re.findall(r"b'((?:\\.|\\x[0-9a-fA-F]{2}|[^'\\]))'", mm.group(1))
    return [unescape_char(c) for c in chars]


def unescape_char(c):
    if c.startswith("\\x"):
        return int(c[2:], 16)
    table = {"\\t": 9, "\\n": 10, "\\r": 13, "\\'": 39, '\\"': 34, "\\\\": 92, "\\0": 0}
    if c in table:
        return table[c]
    need(len(c) == 1, f"char literal {c}")
    return ord(c)


def gen_consts():
    out = []
    w = out.append
    w("(* GENERATED by translator/gen.py from /repo sources — do not edit *)")
    w("From Coq Require Import NArith List.")
    w("Import ListNotations.")
    w("Open Scope N_scope.")
    de = strip_comments(read("crates/protocol/src/deserialize.rs"))
    se = strip_comments(read("crates/protocol/src/serialize.rs"))
    spaces = char_set(de, "is_space", "deserialize.rs: is_space")
    escs = char_set(de, "is_escape_char", "deserialize.rs: is_escape_char")
    w("Definition de_space_chars : list N := [%s]." % "; ".join(str(c) for c in spaces))
    w("Definition de_escape_chars : list N := [%s]." % "; ".join(str(c) for c in escs))
    mm = re.search(r"const ESC_CHAR: \[char; (\d+)\] = \[([^\]]*)\];", se)
    need(mm, "serialize.rs: ESC_CHAR")
    ser_escs = [unescape_char(c) for c in re.findall(r"'((?:\\.|[^'\\]))'", mm.group(2))]
    need(len(ser_escs) == int(mm.group(1)), "serialize.rs: ESC_CHAR arity")
    w("Definition ser_escape_chars : list N := [%s]." % "; ".join(str(c) for c in ser_escs))
    mm = re.search(r"self\.find\(\|c\| \[([^\]]*)\]\.contains\(&c\)\)\.is_none\(\)", se)
    need(mm, "serialize.rs: whitespace test in fmt_param")
    ser_spaces = [unescape_char(c) for c in re.findall(r"'((?:\\x[0-9a-fA-F]{2}|\\.|[^'\\]))'", mm.group(1))]
    w("Definition ser_space_chars : list N := [%s]." % "; ".join(str(c) for c in ser_spaces))
    need('format_args!("\\\\\\"\\\\\\"")' in se, "serialize.rs: empty-string encoding")
    # zero-count guard in read_parameter (present after the fix)
    zero_guard = bool(re.search(r"if\s+value_count\s*==\s*0\s*\{\s*return\s+Err", de))
    w("Definition de_rejects_zero_count : bool := %s." % ("true" if zero_guard else "false"))
    try:
        extra_consts(w)
    except FileNotFoundError as e:
        raise Shape(str(e))
    return "\n".join(out) + "\n"


def extra_consts(w):
    """constants used by the non-codec models"""
    conn = strip_comments(read("crates/common/src/conn.rs"))
    w("Definition max_iovs : N := %d." % const_int(conn, r"const MAX_IOVS: usize = (\d[\d_]*);", "conn.rs: MAX_IOVS"))


# ---------------------------------------------------------------- rust glue

def gen_rust(ms):
    out = []
    w = out.append
    w("// GENERATED by /verif/translator/gen.py from /repo/crates/protocol/src/message.rs — do not edit")
    w("#![allow(clippy::all)]")
    w("use narwhal_protocol::*;")
    w("use narwhal_util::string_atom::StringAtom;")
    w("")
    w("#[derive(Clone, Debug, PartialEq)]")
    w("pub enum FV { Str(Vec<u8>), Num(u64), Bool(bool), OStr(Option<Vec<u8>>), ONum(Option<u64>), OBool(Option<bool>), Vec(Vec<Vec<u8>>) }")
    w("")
    w("fn atom(b: &[u8]) -> Option<StringAtom> { std::str::from_utf8(b).ok().map(StringAtom::from) }")
    w("")
    w("pub const KIND_COUNT: usize = %d;" % len(ms["variants"]))
    w("pub fn dump(m: &Message) -> (usize, Vec<FV>) {")
    w("  match m {")
    for idx, (var, st) in enumerate(ms["variants"]):
        fs = ms["structs"][st]
        items = []
        for f in fs:
            acc = "p.r#%s" % f["fname"] if f["fname"] == "type" else "p.%s" % f["fname"]
            if f["kind"] == "KReg":
                if f["ty"] == "TAtom":
                    items.append("FV::Str(%s.as_ref().as_bytes().to_vec())" % acc)
                elif f["ty"] == "TBool":
                    items.append("FV::Bool(%s)" % acc)
                else:
                    items.append("FV::Num(%s as u64)" % acc)
            elif f["kind"] == "KOpt":
                if f["ty"] == "TAtom":
                    items.append("FV::OStr(%s.as_ref().map(|s| s.as_ref().as_bytes().to_vec()))" % acc)
                elif f["ty"] == "TBool":
                    items.append("FV::OBool(%s)" % acc)
                else:
                    items.append("FV::ONum(%s.map(|x| x as u64))" % acc)
            else:
                items.append("FV::Vec(%s.iter().map(|s| s.as_ref().as_bytes().to_vec()).collect())" % acc)
        w("    Message::%s(p) => { let _ = p; (%d, vec![%s]) }," % (var, idx, ", ".join(items)))
    w("  }")
    w("}")
    w("")
    w("pub fn build(kind: usize, f: &[FV]) -> Option<Message> {")
    w("  match kind {")
    for idx, (var, st) in enumerate(ms["variants"]):
        fs = ms["structs"][st]
        w("    %d => {" % idx)
        w("      if f.len() != %d { return None; }" % len(fs))
        w("      let mut p = %s::default();" % st)
        for i, f in enumerate(fs):
            acc = "p.r#%s" % f["fname"] if f["fname"] == "type" else "p.%s" % f["fname"]
            if f["kind"] == "KReg":
                if f["ty"] == "TAtom":
                    w("      if let FV::Str(b) = &f[%d] { %s = atom(b)?; } else { return None; }" % (i, acc))
                elif f["ty"] == "TBool":
                    w("      if let FV::Bool(b) = &f[%d] { %s = *b; } else { return None; }" % (i, acc))
                else:
                    w("      if let FV::Num(n) = &f[%d] { %s = %s::try_from(*n).ok()?; } else { return None; }" % (i, acc, f["rty"]))
            elif f["kind"] == "KOpt":
                if f["ty"] == "TAtom":
                    w("      if let FV::OStr(o) = &f[%d] { %s = match o { Some(b) => Some(atom(b)?), None => None }; } else { return None; }" % (i, acc))
                elif f["ty"] == "TBool":
                    w("      if let FV::OBool(o) = &f[%d] { %s = *o; } else { return None; }" % (i, acc))
                else:
                    w("      if let FV::ONum(o) = &f[%d] { %s = match o { Some(n) => Some(%s::try_from(*n).ok()?), None => None }; } else { return None; }" % (i, acc, f["rty"]))
            else:
                w("      if let FV::Vec(v) = &f[%d] { for b in v { %s.push(atom(b)?); } } else { return None; }" % (i, acc))
        w("      Some(Message::%s(p))" % var)
        w("    },")
    w("    _ => None,")
    w("  }")
    w("}")
    return "\n".join(out) + "\n"


def write_if_changed(path, content):
    os.makedirs(os.path.dirname(path), exist_ok=True)
    old = None
    if os.path.exists(path):
        with open(path, encoding="utf-8") as f:
            old = f.read()
    if old != content:
        with open(path, "w", encoding="utf-8") as f:
            f.write(content)
        return True
    return False


def main():
    warnings = []
    try:
        ms = parse_message_rs()
        er = parse_error_rs()
        files = {
            os.path.join(VERIF, "coq/Gen/Schema.v"): gen_schema(ms),
            os.path.join(VERIF, "coq/Gen/Errors.v"): gen_errors(er),
            os.path.join(VERIF, "coq/Gen/Consts.v"): gen_consts(),
            os.path.join(VERIF, "harness/src/gen_schema.rs"): gen_rust(ms),
        }
        # Sub-translators: a source shape one of them does not know must not take the other properties down with it.  The
        # generated file then carries the message and values that fail exactly the theorems pinned on it (the check of the
        # property concerned reports them as no longer proved and searches for a failing input).
        def q(msg):
            return '"' + str(msg).replace('"', "'").replace("*)", "* )").replace("(*", "( *") + '"'
        import dispatch
        try:
            files[os.path.join(VERIF, "coq/Gen/Dispatch.v")] = dispatch.gen(read, ms["names"])
        except dispatch.Shape as e:
            warnings.append(str(e))
            files[os.path.join(VERIF, "coq/Gen/Dispatch.v")] = "\n".join(
                ["(* GENERATED by translator/dispatch.py — TRANSLATOR-SHAPE-ERROR, see dispatch_shape_error *)",
                 "From Coq Require Import String List.", "Import ListNotations.", "Local Open Scope string_scope.",
                 "Definition dispatch_shape_error : string := %s." % q(e)] +
                ["Definition %s_accepts : list string := []." % k for k in ("c2s_connecting", "c2s_connected", "c2s_authenticated", "s2m_connecting", "s2m_authenticated", "m2s_connecting", "m2s_authenticated")]) + "\n"
        import wiring
        try:
            files[os.path.join(VERIF, "coq/Gen/Wiring.v")] = wiring.gen(read)
        except wiring.Shape as e:
            warnings.append(str(e))
            files[os.path.join(VERIF, "coq/Gen/Wiring.v")] = "\n".join(
                ["(* GENERATED by translator/wiring.py — TRANSLATOR-SHAPE-ERROR *)", "From Coq Require Import String List NArith.", "Import ListNotations.",
                 "Local Open Scope string_scope.", "Definition wiring_sites : N := 0%N.",
                 "Definition wiring_mismatches : list string := [%s]." % q("TRANSLATOR-SHAPE-ERROR: %s" % e), ""])
        import poolorder
        try:
            files[os.path.join(VERIF, "coq/Gen/PoolOrder.v")] = poolorder.gen(read)
        except poolorder.Shape as e:
            warnings.append(str(e))
            files[os.path.join(VERIF, "coq/Gen/PoolOrder.v")] = "\n".join(
                ["(* GENERATED by translator/poolorder.py — TRANSLATOR-SHAPE-ERROR: %s *)" % q(e),
                 "Definition acquire_permit_before_pop : bool := false.", "Definition drop_push_before_permit : bool := false.",
                 "Definition release_push_then_one_permit_each : bool := false.", ""])
        import locklint
        try:
            files[os.path.join(VERIF, "coq/Gen/LockLint.v")] = locklint.gen(REPO)
        except locklint.Shape as e:
            warnings.append("lock lint: %s" % e)
            files[os.path.join(VERIF, "coq/Gen/LockLint.v")] = "\n".join(
                ["(* GENERATED by translator/locklint.py — TRANSLATOR-SHAPE-ERROR *)", "From Coq Require Import String List NArith.", "Import ListNotations.",
                 "Local Open Scope string_scope.", "Definition map_access_sites : N := 0%N.",
                 "Definition guard_across_await : list string := [%s]." % q("TRANSLATOR-SHAPE-ERROR: %s" % e),
                 "Definition chan_lock_sites : N := 0%N.",
                 "Definition chan_lock_nested : list string := [%s]." % q("TRANSLATOR-SHAPE-ERROR: %s" % e),
                 "Definition exclusive_check_under_entry_guard : bool := false.", ""])
        try:
            files[os.path.join(VERIF, "coq/Gen/LockPrograms.v")] = locklint.gen_programs(REPO)
        except locklint.Shape as e:
            warnings.append("lock programs: %s" % e)
            files[os.path.join(VERIF, "coq/Gen/LockPrograms.v")] = locklint.programs_fallback(e)
        import headroom
        try:
            files[os.path.join(VERIF, "coq/Gen/Headroom.v")] = headroom.gen(read)
        except headroom.Shape as e:
            warnings.append(str(e))
            files[os.path.join(VERIF, "coq/Gen/Headroom.v")] = headroom.fallback("TRANSLATOR-SHAPE-ERROR: %s" % e)
        import concflags
        try:
            files[os.path.join(VERIF, "coq/Gen/ConcFlags.v")] = concflags.gen(read)
        except concflags.Shape as e:
            warnings.append(str(e))
            files[os.path.join(VERIF, "coq/Gen/ConcFlags.v")] = concflags.fallback("TRANSLATOR-SHAPE-ERROR: %s" % e)
    except Shape as e:
        print(f"TRANSLATOR-SHAPE-ERROR: {e}")
        return 3
    changed = [p for p, c in files.items() if write_if_changed(p, c)]
    for p in changed:
        print("regenerated", os.path.relpath(p, VERIF))
    for w in warnings:
        print("TRANSLATOR-SHAPE-WARNING (the generated file fails the theorems pinned on it):", w)
    return 0


if __name__ == "__main__":
    sys.exit(main())
