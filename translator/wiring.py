#!/usr/bin/env python3
"""Wiring extraction (part of the translator): the places where configured limits are handed from one structure to the
next by POSITION or by FIELD NAME, outside anything the in-process harness executes (crates/server/src/lib.rs `run`,
the `From<&Config> for conn::Config` conversions, the ChannelManager's own field initialisation).  For each hand-over the
source name and the destination name must agree; mismatches are listed in coq/Gen/Wiring.v."""
import re


class Shape(Exception):
    pass


RENAMES = {("outbound_message_queue_size", "outgoing_message_queue_size")}


def blank_comments(src):
    src = re.sub(r"/\*.*?\*/", lambda m: re.sub(r"[^\n]", " ", m.group(0)), src, flags=re.S)
    return "\n".join(l[:l.find("//")] if "//" in l else l for l in src.split("\n"))


def close_paren(src, i, o="(", c=")"):
    depth = 0
    while i < len(src):
        if src[i] == o:
            depth += 1
        elif src[i] == c:
            depth -= 1
            if depth == 0:
                return i
        i += 1
    raise Shape("wiring: unbalanced brackets")


def split_args(s):
    out, depth, cur = [], 0, ""
    for ch in s:
        if ch in "([{<":
            depth += 1
        elif ch in ")]}>":
            depth -= 1
        if ch == "," and depth == 0:
            out.append(cur.strip())
            cur = ""
        else:
            cur += ch
    if cur.strip():
        out.append(cur.strip())
    return out


def last_ident(expr):
    e = re.sub(r"\.clone\(\)|\.as_ref\(\)|&|\s", "", expr)
    return e.split(".")[-1]


def params_of(src, header_re, what):
    m = re.search(header_re, src)
    if not m:
        raise Shape("wiring: signature not found: " + what)
    p = src.index("(", m.end() - 1)
    body = src[p + 1:close_paren(src, p)]
    names = []
    for a in split_args(body):
        if a in ("&self", "self", "&mut self"):
            continue
        mm = re.match(r"(?:mut\s+)?(\w+)\s*:", a)
        if not mm:
            raise Shape(f"wiring: parameter shape `{a}` in {what}")
        names.append(mm.group(1))
    return names


def call_args(src, call_re, what):
    m = re.search(call_re, src)
    if not m:
        raise Shape("wiring: call not found: " + what)
    p = src.index("(", m.end() - 1)
    return split_args(src[p + 1:close_paren(src, p)])


def aliases(src):
    """`let NAME = <field path>;` bindings: a local that merely names a configuration field (or a clone of it)"""
    al = {}
    for m in re.finditer(r"\blet\s+(?:mut\s+)?(\w+)\s*(?::[^=;]+)?=\s*&?\s*(\w+(?:\s*\.\s*\w+)+)\s*(?:\.\s*clone\s*\(\s*\))?\s*;", src):
        al[m.group(1)] = re.sub(r"\s", "", m.group(2))
    return al


def resolve(expr, al):
    """follow local aliases: an argument that is a bare local bound to a field path stands for that path"""
    e = re.sub(r"\.clone\(\)|\.as_ref\(\)|&|\s", "", expr)
    for _ in range(6):
        if re.fullmatch(r"\w+", e) and e in al:
            e = al[e]
        else:
            break
    return e


def same(a, b):
    return a == b or (a, b) in RENAMES or (b, a) in RENAMES


def gen(read):
    bad = []
    n = 0
    lib = blank_comments(read("crates/server/src/lib.rs"))
    chan = blank_comments(read("crates/server/src/channel/mod.rs"))
    modlib = blank_comments(read("crates/modulator/src/lib.rs"))
    # 1. ChannelManager::new(...) in run(): positional limits
    params = params_of(chan, r"impl\s+ChannelManager\s*\{\s*pub\s+fn\s+new\s*\(", "ChannelManager::new")
    args = call_args(lib, r"ChannelManager::new\s*\(", "ChannelManager::new(..) in server/src/lib.rs")
    if len(params) != len(args):
        raise Shape("wiring: ChannelManager::new arity")
    al = aliases(lib)
    for p, a in zip(params, args):
        if p.startswith("max_"):
            n += 1
            if last_ident(resolve(a, al)) != p:
                bad.append(f"server/src/lib.rs: ChannelManager::new parameter `{p}` receives `{a}`")
    # 2. the locals handed over are read from the field of the same name
    for mm in re.finditer(r"let\s+(max_\w+)\s*=\s*c2s_config\.limits\.(\w+)\s*;", lib):
        n += 1
        if mm.group(1) != mm.group(2):
            bad.append(f"server/src/lib.rs: `{mm.group(1)}` is read from limits.{mm.group(2)}")
    # 3. ChannelManager::new stores each limit in the field of the same name
    newb = chan[re.search(r"impl\s+ChannelManager\s*\{\s*pub\s+fn\s+new\s*\(", chan).end():]
    newb = newb[newb.index("{"):]
    newb = newb[:close_paren(newb, 0, "{", "}") + 1]
    inner = re.search(r"ChannelManagerInner\s*\{", newb)
    if not inner:
        raise Shape("wiring: ChannelManagerInner literal in ChannelManager::new")
    lit = newb[inner.end() - 1:]
    lit = lit[1:close_paren(lit, 0, "{", "}")]
    for f in split_args(lit):
        mm = re.fullmatch(r"(\w+)\s*:\s*(.+)", f, flags=re.S)
        name, val = (mm.group(1), mm.group(2)) if mm else (f.strip(), f.strip())
        if name.startswith("max_"):
            n += 1
            if last_ident(val) != name:
                bad.append(f"server/src/channel/mod.rs: field `{name}` is initialised from `{val.strip()}`")
    # 4. init_modulator(...) in run(): the c2s limits by position; and the adjusted limits written back
    ip = params_of(modlib, r"pub\s+async\s+fn\s+init_modulator\s*\(", "init_modulator")
    ia = call_args(lib, r"init_modulator\s*\(", "init_modulator(..) in server/src/lib.rs")
    if len(ip) != len(ia):
        raise Shape("wiring: init_modulator arity")
    for p, a in zip(ip, ia):
        if p.startswith("c2s_max_"):
            n += 1
            if "c2s_" + last_ident(resolve(a, al)) != p:
                bad.append(f"server/src/lib.rs: init_modulator parameter `{p}` receives `{a}`")
    # 4b. the adjusted limits are the configured ones clamped by what the modulator advertises (never the modulator's alone)
    adj = list(re.finditer(r"let\s+adjusted_(max_\w+)\s*=\s*([^;]+);", modlib))
    if len(adj) < 2:
        raise Shape("wiring: the adjusted limits of init_modulator not found")
    for mm in adj:
        n += 1
        name, expr = mm.group(1), re.sub(r"\s", "", mm.group(2))
        ok = expr in ("session_info.%s.min(c2s_%s)" % (name, name), "c2s_%s.min(session_info.%s)" % (name, name),
                      "std::cmp::min(session_info.%s,c2s_%s)" % (name, name), "std::cmp::min(c2s_%s,session_info.%s)" % (name, name))
        if not ok:
            bad.append(f"modulator/src/lib.rs: adjusted_{name} is `{mm.group(2).strip()}`, not the configured limit clamped by the modulator's")
    for mm in re.finditer(r"adjusted_(max_\w+)\s*:\s*(\w+)\s*,", modlib):
        if mm.group(2) in ("u32", "u64", "usize"):
            continue          # the field's declaration
        n += 1
        if mm.group(2) not in ("c2s_" + mm.group(1), "adjusted_" + mm.group(1)):
            bad.append(f"modulator/src/lib.rs: adjusted_{mm.group(1)} is initialised from `{mm.group(2)}`")
    for mm in re.finditer(r"limits\.(max_\w+)\s*=\s*modulator_service\.adjusted_(\w+)\s*;", lib):
        n += 1
        if mm.group(1) != mm.group(2):
            bad.append(f"server/src/lib.rs: limits.{mm.group(1)} is overwritten with adjusted_{mm.group(2)}")
    # 5. From<&..Config> for conn::Config: field-by-field
    for rel in ("crates/server/src/c2s/config.rs", "crates/modulator/src/config.rs"):
        src = blank_comments(read(rel))
        m = re.search(r"impl\s+From<&\w+>\s+for\s+narwhal_common::conn::Config\s*\{", src)
        if not m:
            raise Shape("wiring: conn::Config conversion not found in " + rel)
        blk = src[m.end() - 1:close_paren(src, m.end() - 1, "{", "}")]
        lm = re.search(r"narwhal_common::conn::Config\s*\{", blk[1:])
        lit = blk[1 + lm.end() - 1:]
        lit = lit[1:close_paren(lit, 0, "{", "}")]
        for f in split_args(lit):
            mm = re.fullmatch(r"(\w+)\s*:\s*(.+)", f, flags=re.S)
            if not mm:
                raise Shape(f"wiring: field shape `{f}` in {rel}")
            name, val = mm.group(1), mm.group(2).strip()
            if val.startswith("config."):
                n += 1
                if not same(name, last_ident(val)):
                    bad.append(f"{rel}: conn::Config.{name} is taken from `{val}`")
    if n < 20:
        raise Shape(f"wiring: only {n} hand-overs recognised")
    q = lambda s: '"' + s.replace('"', "'") + '"'
    return "\n".join([
        "(* GENERATED by translator/wiring.py from /repo/crates/server/src/lib.rs, channel/mod.rs, c2s/config.rs, crates/modulator/src/{lib,config}.rs — do not edit *)",
        "From Coq Require Import String List NArith.", "Import ListNotations.", "Local Open Scope string_scope.", "",
        "(* hand-overs of configured limits (by position or by field name) whose names were compared *)",
        "Definition wiring_sites : N := %d%%N." % n,
        "(* hand-overs whose source and destination names disagree *)",
        "Definition wiring_mismatches : list string := [" + ";\n  ".join(q(b) for b in bad) + "].", ""])


if __name__ == "__main__":
    import sys, os
    repo = sys.argv[1] if len(sys.argv) > 1 else "/repo"
    print(gen(lambda rel: open(os.path.join(repo, rel), encoding="utf-8").read()))
