// Outbound driver: a dispatcher queues a scripted list of messages (with / without payloads) on the
// real connection; the transport's vectored write follows a scripted oracle (accept k bytes,
// pending, error).  Reports the bytes that reached the transport and every write call.
use std::pin::Pin;
use std::sync::{Arc, Mutex};
use std::task::{Context, Poll, Waker};
use std::time::Duration;

use async_trait::async_trait;
use futures::io::{AsyncRead, AsyncWrite};
use narwhal_common::conn::{ConnManager, ConnTx, Dispatcher, DispatcherFactory, State};
use narwhal_common::service::C2sService;
use narwhal_protocol::Message;
use narwhal_util::pool::{Pool, PoolBuffer};
use serde_json::{Value, json};

use crate::codec_drv::{hex, msg_from_json, unhex};
use crate::framing_drv::conn_config;

#[derive(Default)]
struct Shared {
  trigger: Vec<u8>,
  eof: bool,
  reader_waker: Option<Waker>,
  oracle: Vec<Value>,
  next: usize,
  out: Vec<u8>,
  calls: Vec<Value>,
  closed: bool,
  // "staging" transport (what userspace TLS is): accepted bytes sit in a session buffer until the writer is flushed
  staging: bool,
  staged: Vec<u8>,
  flushes: usize,
}

struct OStream(Arc<Mutex<Shared>>);

impl AsyncRead for OStream {
  fn poll_read(self: Pin<&mut Self>, cx: &mut Context<'_>, buf: &mut [u8]) -> Poll<std::io::Result<usize>> {
    let mut s = self.0.lock().unwrap();
    if !s.trigger.is_empty() {
      let n = std::cmp::min(buf.len(), s.trigger.len());
      buf[..n].copy_from_slice(&s.trigger[..n]);
      s.trigger.drain(..n);
      return Poll::Ready(Ok(n));
    }
    if s.eof {
      return Poll::Ready(Ok(0));
    }
    s.reader_waker = Some(cx.waker().clone());
    Poll::Pending
  }
}

impl AsyncWrite for OStream {
  fn poll_write(self: Pin<&mut Self>, cx: &mut Context<'_>, buf: &[u8]) -> Poll<std::io::Result<usize>> {
    let slices = [std::io::IoSlice::new(buf)];
    self.poll_write_vectored(cx, &slices)
  }

  fn poll_write_vectored(self: Pin<&mut Self>, cx: &mut Context<'_>, bufs: &[std::io::IoSlice<'_>]) -> Poll<std::io::Result<usize>> {
    let mut s = self.0.lock().unwrap();
    let total: usize = bufs.iter().map(|b| b.len()).sum();
    let entry = if s.next < s.oracle.len() { s.oracle[s.next].clone() } else { json!(1_000_000) };
    s.next += 1;
    if entry.as_str() == Some("P") {
      cx.waker().wake_by_ref();
      return Poll::Pending;
    }
    if entry.as_str() == Some("E") {
      s.calls.push(json!({"lens": bufs.iter().map(|b| b.len()).collect::<Vec<_>>(), "ret": "err"}));
      return Poll::Ready(Err(std::io::Error::new(std::io::ErrorKind::BrokenPipe, "scripted write error")));
    }
    let k = entry.as_u64().unwrap_or(1_000_000) as usize;
    let n = std::cmp::min(k, total);
    let mut left = n;
    for b in bufs {
      if left == 0 {
        break;
      }
      let take = std::cmp::min(left, b.len());
      if s.staging {
        s.staged.extend_from_slice(&b[..take]);
      } else {
        s.out.extend_from_slice(&b[..take]);
      }
      left -= take;
    }
    s.calls.push(json!({"lens": bufs.iter().map(|b| b.len()).collect::<Vec<_>>(), "ret": n}));
    Poll::Ready(Ok(n))
  }

  fn poll_flush(self: Pin<&mut Self>, _cx: &mut Context<'_>) -> Poll<std::io::Result<()>> {
    let mut s = self.0.lock().unwrap();
    s.flushes += 1;
    let st = std::mem::take(&mut s.staged);
    s.out.extend_from_slice(&st);
    Poll::Ready(Ok(()))
  }

  fn poll_close(self: Pin<&mut Self>, _cx: &mut Context<'_>) -> Poll<std::io::Result<()>> {
    self.0.lock().unwrap().closed = true;
    Poll::Ready(Ok(()))
  }
}

#[derive(Clone)]
struct QFactory {
  items: Arc<Vec<(Message, Option<Vec<u8>>)>>,
  pool: Pool,
}

struct QDispatcher {
  items: Arc<Vec<(Message, Option<Vec<u8>>)>>,
  pool: Pool,
  tx: ConnTx,
  done: bool,
}

#[async_trait]
impl Dispatcher for QDispatcher {
  async fn dispatch_message(&mut self, _msg: Message, _payload: Option<PoolBuffer>, _state: State) -> anyhow::Result<Option<State>> {
    if !self.done {
      self.done = true;
      for (m, p) in self.items.iter() {
        let pb = match p {
          Some(bytes) => {
            let mut b = self.pool.acquire_buffer().await;
            b.as_mut_slice()[..bytes.len()].copy_from_slice(bytes);
            Some(b.freeze(bytes.len()))
          },
          None => None,
        };
        self.tx.send_message_with_payload(m.clone(), pb);
      }
    }
    Ok(None)
  }
  async fn bootstrap(&mut self) -> anyhow::Result<()> {
    Ok(())
  }
  async fn shutdown(&mut self) -> anyhow::Result<()> {
    Ok(())
  }
}

#[async_trait]
impl DispatcherFactory<QDispatcher> for QFactory {
  async fn create(&mut self, _handler: usize, tx: ConnTx) -> QDispatcher {
    QDispatcher { items: self.items.clone(), pool: self.pool.clone(), tx, done: false }
  }
  async fn bootstrap(&mut self) -> anyhow::Result<()> {
    Ok(())
  }
  async fn shutdown(&mut self) -> anyhow::Result<()> {
    Ok(())
  }
}

fn run_one(c: &Value) -> Value {
  let cfg = conn_config(&c["cfg"]);
  let mut items = Vec::new();
  for it in c["items"].as_array().unwrap() {
    match msg_from_json(it) {
      Some(m) => items.push((m, it.get("payload").and_then(|p| p.as_str()).map(unhex))),
      None => return json!({"invalid": true}),
    }
  }
  let shared = Arc::new(Mutex::new(Shared {
    trigger: b"PING id=1\n".to_vec(),
    oracle: c["oracle"].as_array().cloned().unwrap_or_default(),
    staging: c.get("staging").and_then(|v| v.as_bool()).unwrap_or(false),
    ..Default::default()
  }));
  let rt = tokio::runtime::Builder::new_current_thread().enable_all().start_paused(true).build().unwrap();
  let local = tokio::task::LocalSet::new();
  let sh2 = shared.clone();
  let out_idle: Arc<Mutex<Vec<u8>>> = Arc::new(Mutex::new(Vec::new()));
  let out_idle2 = out_idle.clone();
  let n_items = items.len();
  let panicked = local.block_on(&rt, async move {
    let mng: ConnManager<C2sService> = ConnManager::new(cfg);
    let factory = QFactory { items: Arc::new(items), pool: Pool::new(n_items + 8, 1 << 16) };
    let stream = OStream(sh2.clone());
    let h = tokio::task::spawn_local(async move {
      mng.run_connection(stream, factory).await;
    });
    // let the writer drain, then end the stream
    tokio::time::sleep(Duration::from_millis(200)).await;
    let idle = sh2.lock().unwrap().out.clone();
    *out_idle2.lock().unwrap() = idle;
    {
      let mut s = sh2.lock().unwrap();
      s.eof = true;
      if let Some(w) = s.reader_waker.take() {
        w.wake();
      }
    }
    match tokio::time::timeout(Duration::from_millis(1000), h).await {
      Ok(Ok(())) => json!(false),
      Ok(Err(e)) => json!(e.is_panic()),
      Err(_) => json!("hung"),
    }
  });
  let s = shared.lock().unwrap();
  // "out_idle": what had reached the peer while the connection was open and idle (everything queued must be there)
  json!({"out": hex(&s.out), "out_idle": hex(&out_idle.lock().unwrap()), "flushes": s.flushes, "calls": s.calls, "panic": panicked, "closed": s.closed})
}

pub fn run(cases: &Value) -> Value {
  Value::Array(cases.as_array().unwrap().iter().map(run_one).collect())
}
