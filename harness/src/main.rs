// nwv: correspondence harness driving the real narwhal code (path deps on /repo/crates/*).
// Usage: nwv <driver> <cases.json> <out.json>
mod client_drv;
mod codec_drv;
mod framing_drv;
mod outbound_drv;
mod pool_drv;
mod server_drv;
mod unicode_drv;
mod gen_schema;
mod link_drv;
mod router_drv;

use std::io::Write;

fn main() {
  let args: Vec<String> = std::env::args().collect();
  if args.len() == 3 && args[1] == "boot" {
    // the real entry point: narwhal_server::run with a configuration file (TLS listener, worker pool, signal handling);
    // runs until SIGTERM
    let rt = tokio::runtime::Builder::new_multi_thread().worker_threads(2).enable_all().build().unwrap();
    let r = rt.block_on(narwhal_server::run(Some(args[2].clone()), 2));
    if let Err(e) = r {
      eprintln!("boot: {e}");
      std::process::exit(1);
    }
    return;
  }
  if args.len() < 4 {
    eprintln!("usage: nwv <driver> <cases.json> <out.json>");
    std::process::exit(2);
  }
  if std::env::var("NWV_TRACE").is_ok() {
    let _ = tracing_subscriber::fmt().with_max_level(tracing_subscriber::filter::LevelFilter::TRACE).with_writer(std::io::stderr).try_init();
  }
  // Panics are observations, not noise.
  if std::env::var("NWV_PANICS").is_err() {
    std::panic::set_hook(Box::new(|_| {}));
  }
  let input = std::fs::read_to_string(&args[2]).expect("read cases");
  let cases: serde_json::Value = serde_json::from_str(&input).expect("parse cases");
  let out = match args[1].as_str() {
    "codec" => codec_drv::run(&cases),
    "framing" => framing_drv::run(&cases),
    "unicode" => unicode_drv::run(&cases),
    "server" => server_drv::run(&cases),
    "outbound" => outbound_drv::run(&cases),
    "pool" => pool_drv::run(&cases),
    "client" => client_drv::run(&cases),
    "link" => link_drv::run(&cases),
    "router" => router_drv::run(&cases),
    "s2mclient" => link_drv::run_client(&cases),
    other => {
      eprintln!("unknown driver {other}");
      std::process::exit(2);
    },
  };
  let mut f = std::fs::File::create(&args[3]).expect("create out");
  f.write_all(serde_json::to_string(&out).unwrap().as_bytes()).unwrap();
}
