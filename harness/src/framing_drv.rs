// Framing driver: runs the real ConnManager::run_connection over a scripted in-memory stream
// (given network segments, then EOF) with a recording dispatcher; reports what was dispatched,
// what the server wrote, and whether the connection task panicked.
use std::pin::Pin;
use std::sync::{Arc, Mutex};
use std::task::{Context, Poll};
use std::time::Duration;

use async_trait::async_trait;
use futures::io::{AsyncRead, AsyncWrite};
use narwhal_common::conn::{Config, ConnManager, ConnTx, Dispatcher, DispatcherFactory, State};
use narwhal_common::service::C2sService;
use narwhal_protocol::Message;
use narwhal_util::pool::{BucketedPool, PoolBuffer};
use serde_json::{Value, json};

use crate::codec_drv::{hex, msg_to_json, unhex};

pub struct ScriptStream {
  pub segs: Vec<Vec<u8>>,
  pub out: Arc<Mutex<Vec<u8>>>,
  // yield once (Pending + immediate wake) after each segment, as a socket whose next segment has not arrived
  pub yield_between: bool,
  pub yielded: bool,
}

impl AsyncRead for ScriptStream {
  fn poll_read(mut self: Pin<&mut Self>, _cx: &mut Context<'_>, buf: &mut [u8]) -> Poll<std::io::Result<usize>> {
    loop {
      if self.segs.is_empty() {
        return Poll::Ready(Ok(0));
      }
      if self.segs[0].is_empty() {
        self.segs.remove(0);
        continue;
      }
      if self.yield_between && self.yielded {
        self.yielded = false;
        _cx.waker().wake_by_ref();
        return Poll::Pending;
      }
      let n = std::cmp::min(buf.len(), self.segs[0].len());
      if n == 0 {
        return Poll::Ready(Ok(0));
      }
      buf[..n].copy_from_slice(&self.segs[0][..n]);
      if n == self.segs[0].len() {
        self.segs.remove(0);
        self.yielded = true;
      } else {
        self.segs[0].drain(..n);
      }
      return Poll::Ready(Ok(n));
    }
  }
}

impl AsyncWrite for ScriptStream {
  fn poll_write(self: Pin<&mut Self>, _cx: &mut Context<'_>, buf: &[u8]) -> Poll<std::io::Result<usize>> {
    self.out.lock().unwrap().extend_from_slice(buf);
    Poll::Ready(Ok(buf.len()))
  }
  fn poll_flush(self: Pin<&mut Self>, _cx: &mut Context<'_>) -> Poll<std::io::Result<()>> {
    Poll::Ready(Ok(()))
  }
  fn poll_close(self: Pin<&mut Self>, _cx: &mut Context<'_>) -> Poll<std::io::Result<()>> {
    Poll::Ready(Ok(()))
  }
}

#[derive(Clone)]
struct RecFactory {
  log: Arc<Mutex<Vec<Value>>>,
  echo: bool,
}

struct RecDispatcher {
  log: Arc<Mutex<Vec<Value>>>,
  // echo mode: every dispatched frame is answered with a PONG, so that the connection has outbound traffic
  // while the next header is still arriving
  echo: Option<ConnTx>,
  n: u32,
}

#[async_trait]
impl Dispatcher for RecDispatcher {
  async fn dispatch_message(&mut self, msg: Message, payload: Option<PoolBuffer>, _state: State) -> anyhow::Result<Option<State>> {
    let mut j = msg_to_json(&msg);
    j["payload"] = match payload {
      Some(p) => json!(hex(p.as_slice())),
      None => Value::Null,
    };
    self.log.lock().unwrap().push(j);
    if let Some(tx) = &self.echo {
      self.n += 1;
      tx.send_message(Message::Pong(narwhal_protocol::PongParameters { id: self.n }));
    }
    Ok(None)
  }
  async fn bootstrap(&mut self) -> anyhow::Result<()> {
    Ok(())
  }
  async fn shutdown(&mut self) -> anyhow::Result<()> {
    Ok(())
  }
}

#[async_trait]
impl DispatcherFactory<RecDispatcher> for RecFactory {
  async fn create(&mut self, _handler: usize, tx: ConnTx) -> RecDispatcher {
    RecDispatcher { log: self.log.clone(), echo: if self.echo { Some(tx) } else { None }, n: 0 }
  }
  async fn bootstrap(&mut self) -> anyhow::Result<()> {
    Ok(())
  }
  async fn shutdown(&mut self) -> anyhow::Result<()> {
    Ok(())
  }
}

pub fn conn_config(c: &Value) -> Config {
  let g = |k: &str, d: u64| c.get(k).and_then(|v| v.as_u64()).unwrap_or(d);
  Config {
    max_connections: g("max_conns", 4) as u32,
    max_message_size: g("max_msg", 256) as u32,
    max_payload_size: g("max_payload", 1024) as u32,
    connect_timeout: Duration::from_millis(g("connect_timeout_ms", 30000)),
    authenticate_timeout: Duration::from_millis(g("auth_timeout_ms", 30000)),
    payload_read_timeout: Duration::from_millis(g("payload_read_timeout_ms", 10000)),
    payload_pool_memory_budget: g("budget", 1 << 20),
    outbound_message_queue_size: g("queue", 64) as u32,
    request_timeout: Duration::from_millis(g("request_timeout_ms", 20000)),
    max_inflight_requests: g("max_inflight", 10) as u32,
    rate_limit: g("rate_limit", 0) as u32,
  }
}

fn run_one(c: &Value) -> Value {
  let cfg = conn_config(&c["cfg"]);
  let segs: Vec<Vec<u8>> = c["segs"].as_array().unwrap().iter().map(|s| unhex(s.as_str().unwrap())).collect();
  let out = Arc::new(Mutex::new(Vec::new()));
  let log = Arc::new(Mutex::new(Vec::new()));
  let echo = c.get("echo").and_then(|v| v.as_bool()).unwrap_or(false);
  let rt = tokio::runtime::Builder::new_current_thread().enable_all().start_paused(true).build().unwrap();
  let local = tokio::task::LocalSet::new();
  let out2 = out.clone();
  let log2 = log.clone();
  let panicked = local.block_on(&rt, async move {
    let mng: ConnManager<C2sService> = ConnManager::new(cfg);
    let stream = ScriptStream { segs, out: out2, yield_between: echo, yielded: false };
    let factory = RecFactory { log: log2, echo };
    let h = tokio::task::spawn_local(async move {
      mng.run_connection(stream, factory).await;
    });
    match h.await {
      Ok(()) => false,
      Err(e) => e.is_panic(),
    }
  });
  let items = log.lock().unwrap().clone();
  let mut written = out.lock().unwrap().clone();
  let mut echoes = 0;
  if echo {
    // drop the echo lines: what is compared is what the read path itself wrote
    let mut kept = Vec::new();
    for line in written.split_inclusive(|b| *b == b'\n') {
      if line.starts_with(b"PONG id=") {
        echoes += 1;
      } else {
        kept.extend_from_slice(line);
      }
    }
    written = kept;
  }
  json!({"items": items, "out": hex(&written), "panic": panicked, "echoes": echoes})
}

// BucketedPool geometry probe: capacity totals and the buffer length served for given sizes.
fn geo_one(c: &Value) -> Value {
  let g = |k: &str| c[k].as_u64().unwrap() as usize;
  let (max, budget, cap) = (g("max"), g("budget"), g("cap"));
  let r = std::panic::catch_unwind(|| {
    let pool = BucketedPool::new_with_memory_budget(256, max, budget, cap, 2, 0.5);
    let rt = tokio::runtime::Builder::new_current_thread().enable_all().build().unwrap();
    let probes: Vec<Value> = c["probes"]
      .as_array()
      .unwrap()
      .iter()
      .map(|p| {
        let sz = p.as_u64().unwrap() as usize;
        let b = rt.block_on(pool.acquire_buffer(sz));
        match b {
          Some(b) => json!(b.len()),
          None => Value::Null,
        }
      })
      .collect();
    json!({"bytes": pool.total_bytes_capacity(), "count": pool.total_available_count(), "probes": probes})
  });
  match r {
    Ok(v) => v,
    Err(_) => json!({"panic": true}),
  }
}

pub fn run(cases: &Value) -> Value {
  Value::Array(
    cases
      .as_array()
      .unwrap()
      .iter()
      .map(|c| if c.get("op").and_then(|o| o.as_str()) == Some("geo") { geo_one(c) } else { run_one(c) })
      .collect(),
  )
}
