// Router contention driver: one thread routes to a registered user while another keeps registering / unregistering a
// different user in the same (single-shard) connection table.  Every routed message must reach the registered user's
// transmitter exactly once whatever the other thread does to the shard.
use std::sync::Arc;
use std::sync::atomic::{AtomicU64, Ordering};

use narwhal_protocol::{Message, PingParameters};
use narwhal_server::c2s;
use narwhal_server::transmitter::{Resource, Transmitter};
use narwhal_util::pool::PoolBuffer;
use narwhal_util::string_atom::StringAtom;
use serde_json::{Value, json};

struct Counting {
  n: AtomicU64,
  handler: usize,
}

impl Transmitter for Counting {
  fn send_message(&self, _message: Message) {
    self.n.fetch_add(1, Ordering::SeqCst);
  }
  fn send_message_with_payload(&self, _message: Message, _payload_opt: Option<PoolBuffer>) {
    self.n.fetch_add(1, Ordering::SeqCst);
  }
  fn resource(&self) -> Resource {
    Resource { domain: None, handler: self.handler }
  }
}

fn run_one(c: &Value) -> Value {
  let routes = c["routes"].as_u64().unwrap_or(200_000);
  let churn = c["churn"].as_u64().unwrap_or(200_000);
  let shards = c["shards"].as_u64().unwrap_or(1) as usize;
  let router = c2s::Router::new_with_shard_count(StringAtom::from("localhost"), shards.next_power_of_two().max(2));
  let bob = Arc::new(Counting { n: AtomicU64::new(0), handler: 1 });
  let other = Arc::new(Counting { n: AtomicU64::new(0), handler: 2 });
  assert!(router.register_connection(StringAtom::from("bob"), bob.clone(), 1, true));
  let r1 = router.clone();
  let o1 = other.clone();
  let names: Vec<StringAtom> = (0..8).map(|i| StringAtom::from(format!("churn{}", i))).collect();
  let t_churn = std::thread::spawn(move || {
    for i in 0..churn {
      let name = names[(i % 8) as usize].clone();
      r1.register_connection(name.clone(), o1.clone(), 2, false);
      let _ = futures::executor::block_on(r1.unregister_connection(&name, 2, || async { Ok::<(), ()>(()) }));
    }
  });
  let r2 = router.clone();
  let t_route = std::thread::spawn(move || {
    let mut errors = 0u64;
    for _ in 0..routes {
      if r2.route_to(Message::Ping(PingParameters { id: 1 }), None, StringAtom::from("bob"), None).is_err() {
        errors += 1;
      }
    }
    errors
  });
  let errors = t_route.join().unwrap_or(u64::MAX);
  let churn_ok = t_churn.join().is_ok();
  json!({"routed": routes, "delivered": bob.n.load(Ordering::SeqCst), "errors": errors, "churn_ok": churn_ok})
}

// "exclusive": several threads register the SAME name exclusively at the same instant, round after round: exactly one
// registration per round may succeed (the name is then released for the next round).
fn run_exclusive(c: &Value) -> Value {
  let rounds = c["rounds"].as_u64().unwrap_or(20_000);
  let threads = c["threads"].as_u64().unwrap_or(4) as usize;
  let router = c2s::Router::new_with_shard_count(StringAtom::from("localhost"), 2);
  let barrier = Arc::new(std::sync::Barrier::new(threads));
  let wins = Arc::new(AtomicU64::new(0));
  let doubles = Arc::new(AtomicU64::new(0));
  let gate = Arc::new(AtomicU64::new(0));
  let mut hs = Vec::new();
  for t in 0..threads {
    let (router, barrier, wins, doubles, gate) = (router.clone(), barrier.clone(), wins.clone(), doubles.clone(), gate.clone());
    hs.push(std::thread::spawn(move || {
      let tx = Arc::new(Counting { n: AtomicU64::new(0), handler: 100 + t });
      let name = StringAtom::from("alice");
      for round in 0..rounds {
        barrier.wait();
        // a spinning start line: the registrations of one round begin within nanoseconds of each other
        gate.fetch_add(1, Ordering::SeqCst);
        while gate.load(Ordering::SeqCst) < (round + 1) * threads as u64 {
          std::hint::spin_loop();
        }
        let won = router.register_connection(name.clone(), tx.clone(), 100 + t, true);
        if won {
          wins.fetch_add(1, Ordering::SeqCst);
        }
        barrier.wait();
        // thread 0 judges the round, then every winner releases the name
        if t == 0 {
          let w = wins.swap(0, Ordering::SeqCst);
          if w != 1 {
            doubles.fetch_add(1, Ordering::SeqCst);
          }
        }
        barrier.wait();
        if won {
          let _ = futures::executor::block_on(router.unregister_connection(&name, 100 + t, || async { Ok::<(), ()>(()) }));
        }
      }
    }));
  }
  let ok = hs.into_iter().all(|h| h.join().is_ok());
  json!({"rounds": rounds, "threads": threads, "bad_rounds": doubles.load(Ordering::SeqCst), "threads_ok": ok})
}

pub fn run(cases: &Value) -> Value {
  Value::Array(cases.as_array().unwrap().iter().map(|c| if c.get("exclusive").is_some() { run_exclusive(c) } else { run_one(c) }).collect())
}
