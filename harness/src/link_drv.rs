// Modulator-link drivers.
//
//  * build_chain: puts the REAL S2M/M2S wire path between the C2S server and the scripted modulator:
//      C2S server -> S2mClient -> unix socket -> ConnManager<S2mService> + S2mDispatcher -> ScriptMod
//      ScriptMod -> (S2mDispatcherFactory::bootstrap) M2sClient -> unix socket -> ConnManager<M2sService>
//               + M2sDispatcher -> broadcast -> route_m2s_private_payload -> C2S clients
//    Only the accept loops are ours (the repo's Listener needs worker threads with their own runtimes).
//  * driver "link": the S2M / M2S server side of a link over an in-memory stream, fed raw bytes.
//  * driver "s2mclient": the real S2mClient (Modulator impl) against a scripted peer on a unix socket.
use std::collections::VecDeque;
use std::sync::atomic::{AtomicU64, Ordering};
use std::sync::{Arc, Mutex};
use std::time::Duration;

use narwhal_common::conn::{ConnManager, DispatcherFactory};
use narwhal_common::service::{M2sService, S2mService};
use narwhal_modulator::client::S2mClient;
use narwhal_modulator::config::{ClientConfig, ListenerConfig, ServerConfig, S2mServerConfig, UNIX_NETWORK};
use narwhal_modulator::conn::{M2sDispatcherFactory, S2mDispatcherFactory};
use narwhal_modulator::modulator::*;
use narwhal_modulator::{Modulator, OutboundPrivatePayload};
use narwhal_protocol::Nid;
use narwhal_util::conn::Stream;
use narwhal_util::pool::Pool;
use narwhal_util::string_atom::StringAtom;
use serde_json::{Value, json};
use tokio::io::{AsyncReadExt, AsyncWriteExt};
use tokio::net::UnixListener;
use tokio::sync::broadcast;
use tokio_util::compat::TokioAsyncReadCompatExt;

use crate::codec_drv::{hex, unhex};
use crate::server_drv::{ModState, ScriptMod, parse_frames};

static SOCK_SEQ: AtomicU64 = AtomicU64::new(0);

pub fn sock_path(tag: &str) -> String {
  let dir = std::env::var("NWV_SOCK_DIR").unwrap_or_else(|_| "/verif/work/sock".to_string());
  let _ = std::fs::create_dir_all(&dir);
  let n = SOCK_SEQ.fetch_add(1, Ordering::SeqCst);
  let p = format!("{}/{}_{}_{}.sock", dir, std::process::id(), n, tag);
  let _ = std::fs::remove_file(&p);
  p
}

pub fn link_server_config(c: &Value, path: &str) -> ServerConfig {
  let g = |k: &str, d: u64| c.get(k).and_then(|v| v.as_u64()).unwrap_or(d);
  let mut s = ServerConfig::default();
  s.listener = ListenerConfig { network: UNIX_NETWORK.to_string(), bind_address: String::new(), socket_path: path.to_string() };
  s.shared_secret = c.get("secret").and_then(|v| v.as_str()).unwrap_or("").to_string();
  s.connect_timeout = Duration::from_millis(g("connect_timeout_ms", 3_600_000));
  s.keep_alive_interval = Duration::from_millis(g("keepalive_ms", 3_600_000));
  s.min_keep_alive_interval = Duration::from_millis(g("min_keepalive_ms", 1_000));
  s.request_timeout = Duration::from_millis(g("request_timeout_ms", 3_600_000));
  s.payload_read_timeout = Duration::from_millis(g("payload_read_timeout_ms", 3_600_000));
  s.limits.max_connections = g("max_conns", 16) as u32;
  s.limits.max_message_size = g("max_message", 1024) as u32;
  s.limits.max_payload_size = g("max_payload", 1024) as u32;
  s.limits.payload_pool_memory_budget = g("budget", 1 << 22);
  s.limits.max_inflight_requests = g("max_inflight", 10) as u32;
  s.limits.outgoing_message_queue_size = g("queue", 256) as u32;
  s.limits.rate_limit = g("rate_limit", 0) as u32;
  s
}

pub fn link_client_config(c: &Value, path: &str) -> ClientConfig {
  let g = |k: &str, d: u64| c.get(k).and_then(|v| v.as_u64()).unwrap_or(d);
  let mut k = ClientConfig::default();
  k.network = UNIX_NETWORK.to_string();
  k.socket_path = path.to_string();
  k.shared_secret = c.get("client_secret").or(c.get("secret")).and_then(|v| v.as_str()).unwrap_or("").to_string();
  k.max_idle_connections = g("idle_conns", 1) as usize;
  k.heartbeat_interval = Duration::from_millis(g("client_heartbeat_ms", 3_600_000));
  k.connect_timeout = Duration::from_millis(g("client_connect_timeout_ms", 5_000));
  k.timeout = Duration::from_millis(g("client_timeout_ms", 5_000));
  k.payload_read_timeout = Duration::from_millis(g("client_payload_read_timeout_ms", 5_000));
  k.backoff_initial_delay = Duration::from_millis(g("backoff_initial_ms", 10));
  k.backoff_max_delay = Duration::from_millis(g("backoff_max_ms", 100));
  k.backoff_max_retries = g("backoff_retries", 1) as usize;
  k
}

pub struct Chain {
  pub modulator: Arc<dyn Modulator>,
  pub s2m_client: S2mClient,
  pub s2m_mng: ConnManager<S2mService>,
  pub m2s_mng: ConnManager<M2sService>,
  pub paths: Vec<String>,
  pub s2m_accept: tokio::task::JoinHandle<()>,
}

impl Chain {
  // the modulator process goes away: no more accepts, its live S2M connections end, the socket file disappears
  pub async fn s2m_down(&mut self) {
    self.s2m_accept.abort();
    let _ = std::fs::remove_file(&self.paths[0]);
    let _ = tokio::time::timeout(Duration::from_secs(5), self.s2m_mng.shutdown()).await;
  }
}

impl Drop for Chain {
  fn drop(&mut self) {
    for p in &self.paths {
      let _ = std::fs::remove_file(p);
    }
  }
}

// link: the "link" object of the history's mod config (secrets, limits of the S2M/M2S servers, client
// timeouts).  payload_tx: the broadcast channel read by the C2S server's route_m2s_private_payload.
pub async fn build_chain(
  link: &Value,
  scripted: ScriptMod,
  payload_tx: broadcast::Sender<OutboundPrivatePayload>,
) -> anyhow::Result<Chain> {
  let s2m_path = sock_path("s2m");
  let m2s_path = sock_path("m2s");

  // --- M2S server (lives in the narwhal server process) ---
  let m2s_cfg = Arc::new(link_server_config(link, &m2s_path));
  let m2s_factory = M2sDispatcherFactory::new(m2s_cfg.clone(), payload_tx);
  let m2s_mng: ConnManager<M2sService> = ConnManager::new(m2s_cfg.as_ref());
  let m2s_ln = UnixListener::bind(&m2s_path)?;
  {
    let mng = m2s_mng.clone();
    let f = m2s_factory.clone();
    tokio::task::spawn_local(async move {
      loop {
        let Ok((s, _)) = m2s_ln.accept().await else { break };
        let (mng, f) = (mng.clone(), f.clone());
        tokio::task::spawn_local(async move { mng.run_connection(Stream::Unix(s.compat()), f).await });
      }
    });
  }

  // --- S2M server (lives in the modulator process) ---
  let s2m_cfg = Arc::new(S2mServerConfig { server: link_server_config(link, &s2m_path), m2s_client: link_client_config(link, &m2s_path) });
  let mut s2m_factory = S2mDispatcherFactory::new(s2m_cfg.clone(), Arc::new(scripted));
  s2m_factory.bootstrap().await?; // starts the M2S client + payload reader when recv-private-payload is offered
  let s2m_mng: ConnManager<S2mService> = ConnManager::new(&s2m_cfg.server);
  let s2m_ln = UnixListener::bind(&s2m_path)?;
  let s2m_accept = {
    let mng = s2m_mng.clone();
    let f = s2m_factory.clone();
    tokio::task::spawn_local(async move {
      loop {
        let Ok((s, _)) = s2m_ln.accept().await else { break };
        let (mng, f) = (mng.clone(), f.clone());
        tokio::task::spawn_local(async move { mng.run_connection(Stream::Unix(s.compat()), f).await });
      }
    })
  };

  // --- S2M client (the Modulator implementation the C2S server is given) ---
  let s2m_client = S2mClient::new(link_client_config(link, &s2m_path))?;
  let modulator: Arc<dyn Modulator> = Arc::new(s2m_client.clone());
  Ok(Chain { modulator, s2m_client, s2m_mng, m2s_mng, paths: vec![s2m_path, m2s_path], s2m_accept })
}

// ------------------------------------------------------------------------------------------------
// driver "link": server side of an S2M or M2S link over an in-memory stream
// ------------------------------------------------------------------------------------------------
async fn read_all(s: &mut Option<tokio::io::DuplexStream>, buf: &mut Vec<u8>, closed: &mut bool) {
  if let Some(st) = s.as_mut() {
    let mut tmp = [0u8; 65536];
    loop {
      match tokio::time::timeout(Duration::from_millis(1), st.read(&mut tmp)).await {
        Ok(Ok(0)) | Ok(Err(_)) => {
          *closed = true;
          break;
        },
        Ok(Ok(n)) => buf.extend_from_slice(&tmp[..n]),
        Err(_) => break,
      }
    }
    if *closed {
      *s = None;
    }
  }
}

async fn run_link_history(c: &Value) -> Value {
  let kind = c["kind"].as_str().unwrap_or("s2m");
  let cfgj = &c["cfg"];
  let settle = cfgj.get("settle_ms").and_then(|v| v.as_u64()).unwrap_or(10);
  let mod_state = Arc::new(Mutex::new(ModState::default()));
  let (mod_tx, _keep0) = broadcast::channel::<OutboundPrivatePayload>(64);
  let (payload_tx, mut payload_rx) = broadcast::channel::<OutboundPrivatePayload>(1024);
  let scripted = ScriptMod {
    ops: cfgj["ops"].as_array().map(|a| a.iter().map(|x| x.as_str().unwrap().to_string()).collect()).unwrap_or_default(),
    proto: cfgj.get("proto").and_then(|v| v.as_str()).unwrap_or("TEST/1.0").to_string(),
    st: mod_state.clone(),
    pool: Pool::new(64, 1 << 16),
    m2s_tx: mod_tx.clone(),
  };
  let srv_cfg = link_server_config(cfgj, "/nonexistent");
  let (cl, srv) = tokio::io::duplex(1 << 20);
  let task = if kind == "m2s" {
    let cfg = Arc::new(srv_cfg);
    let f = M2sDispatcherFactory::new(cfg.clone(), payload_tx.clone());
    let mng: ConnManager<M2sService> = ConnManager::new(cfg.as_ref());
    tokio::task::spawn_local(async move { mng.run_connection(srv.compat(), f).await })
  } else {
    let cfg = Arc::new(S2mServerConfig { server: srv_cfg, m2s_client: ClientConfig::default() });
    let f = S2mDispatcherFactory::new(cfg.clone(), Arc::new(scripted));
    let mng: ConnManager<S2mService> = ConnManager::new(&cfg.server);
    tokio::task::spawn_local(async move { mng.run_connection(srv.compat(), f).await })
  };
  let mut stream = Some(cl);
  let mut buf = Vec::new();
  let mut closed = false;
  let mut task = Some(task);
  let mut results = Vec::new();
  for op in c["ops"].as_array().unwrap() {
    if let Some(sc) = op.get("script").and_then(|s| s.as_array()) {
      mod_state.lock().unwrap().script = sc.iter().cloned().collect::<VecDeque<_>>();
    } else {
      mod_state.lock().unwrap().script.clear();
    }
    mod_state.lock().unwrap().log.clear();
    let mut note = Value::Null;
    match op["t"].as_str().unwrap() {
      "send" => {
        let bytes = unhex(op["bytes"].as_str().unwrap());
        match stream.as_mut() {
          Some(s) => {
            if s.write_all(&bytes).await.is_err() {
              note = json!("write failed");
            }
          },
          None => note = json!("closed"),
        }
      },
      "hangup" => {
        stream = None;
        closed = true;
      },
      "advance" => tokio::time::sleep(Duration::from_millis(op["ms"].as_u64().unwrap())).await,
      "release" => {
        let n = op["id"].as_u64().unwrap();
        let tx = mod_state.lock().unwrap().parked.remove(&n);
        if let Some(tx) = tx {
          let _ = tx.send(op.get("outcome").cloned().unwrap_or(json!("ok")));
        } else {
          note = json!("nothing parked under that id");
        }
      },
      _ => note = json!("unknown op"),
    }
    tokio::time::sleep(Duration::from_millis(op.get("settle_ms").and_then(|v| v.as_u64()).unwrap_or(settle))).await;
    read_all(&mut stream, &mut buf, &mut closed).await;
    let mut frames = Vec::new();
    parse_frames(&mut buf, &mut frames);
    let mut routed = Vec::new();
    while let Ok(o) = payload_rx.try_recv() {
      routed.push(json!({"targets": o.targets.iter().map(|t| hex(t.as_bytes())).collect::<Vec<_>>(), "payload": hex(o.payload.as_slice())}));
    }
    let mut panicked = Value::Null;
    if task.as_ref().map(|t| t.is_finished()).unwrap_or(false) {
      panicked = json!(match task.take().unwrap().await {
        Ok(()) => false,
        Err(e) => e.is_panic(),
      });
    }
    let log = std::mem::take(&mut mod_state.lock().unwrap().log);
    let leftover = if closed && !buf.is_empty() { Some(hex(&buf)) } else { None };
    results.push(json!({"frames": frames, "closed": closed, "leftover": leftover, "mod": log, "routed": routed, "ended_panicked": panicked, "note": note}));
  }
  json!({"ops": results})
}

// ------------------------------------------------------------------------------------------------
// driver "s2mclient": S2mClient's Modulator methods against a scripted peer
// ------------------------------------------------------------------------------------------------
// case: {"cfg": {client cfg..}, "handshake": hex bytes the peer answers to S2M_CONNECT (or null: none),
//        "calls": [{"call": "auth"|"fbp"|"event"|"spp", args.., "reply": hex | null, "close": bool}]}
// The peer reads one request (header line + payload if any), records it, writes the scripted reply
// bytes verbatim (possibly none: the client then times out) and optionally drops the link.
async fn run_client_case(c: &Value) -> Value {
  let path = sock_path("peer");
  // "unreachable": nobody listens at the client's address (the peer is away for the whole case)
  if c.get("unreachable").and_then(|v| v.as_bool()).unwrap_or(false) {
    let client = match S2mClient::new(link_client_config(&c["cfg"], &path)) {
      Ok(k) => k,
      Err(e) => return json!({"setup_error": e.to_string()}),
    };
    let mut results = Vec::new();
    for _ in c["calls"].as_array().map(|a| a.len()).into_iter().flat_map(|n| 0..n) {
      let k2 = client.clone();
      let t0 = tokio::time::Instant::now();
      let h = tokio::task::spawn_local(async move { k2.authenticate(AuthRequest { token: StringAtom::from("tok") }).await.is_ok() });
      let res = match tokio::time::timeout(Duration::from_secs(86_400), h).await {
        Ok(Ok(true)) => json!("ok"),
        Ok(Ok(false)) => json!("err"),
        Ok(Err(_)) => json!("panic"),
        Err(_) => json!("hung"),
      };
      results.push(json!({"result": res, "seen": [], "connects": 0, "elapsed_ms": t0.elapsed().as_millis() as u64}));
    }
    let _ = tokio::time::timeout(Duration::from_secs(60), client.shutdown()).await;
    return json!({"calls": results});
  }
  let ln = match UnixListener::bind(&path) {
    Ok(l) => l,
    Err(e) => return json!({"setup_error": e.to_string()}),
  };
  let handshake = c.get("handshake").and_then(|v| v.as_str()).map(unhex);
  let cuts: Vec<usize> = c.get("handshake_cut").and_then(|v| v.as_array()).map(|a| a.iter().filter_map(|x| x.as_u64()).map(|x| x as usize).collect()).unwrap_or_default();
  let replies: Arc<Mutex<VecDeque<Value>>> = Arc::new(Mutex::new(VecDeque::new()));
  let seen: Arc<Mutex<Vec<Value>>> = Arc::new(Mutex::new(Vec::new()));
  let connects: Arc<Mutex<u64>> = Arc::new(Mutex::new(0));
  {
    let (replies, seen, connects) = (replies.clone(), seen.clone(), connects.clone());
    tokio::task::spawn_local(async move {
      loop {
        let Ok((mut s, _)) = ln.accept().await else { break };
        *connects.lock().unwrap() += 1;
        let (replies, seen, handshake) = (replies.clone(), seen.clone(), handshake.clone());
        let cuts = cuts.clone();
        tokio::task::spawn_local(async move {
          let mut buf: Vec<u8> = Vec::new();
          let mut tmp = [0u8; 65536];
          let mut first = true;
          'conn: loop {
            // read one whole frame
            let frame = loop {
              let mut frames = Vec::new();
              parse_frames(&mut buf, &mut frames);
              if let Some(f) = frames.into_iter().next() {
                break f; // at most one request is outstanding per step in these scripts
              }
              match s.read(&mut tmp).await {
                Ok(0) | Err(_) => break 'conn,
                Ok(n) => buf.extend_from_slice(&tmp[..n]),
              }
            };
            if first {
              first = false;
              seen.lock().unwrap().push(json!({"handshake": frame}));
              match &handshake {
                Some(h) => {
                  // "handshake_cut": offsets at which the reply is cut into separate segments
                  let mut at = 0usize;
                  for k in cuts.iter() {
                    let k = (*k).min(h.len());
                    if k > at {
                      let _ = s.write_all(&h[at..k]).await;
                      let _ = s.flush().await;
                      tokio::time::sleep(Duration::from_millis(2)).await;
                      at = k;
                    }
                  }
                  let _ = s.write_all(&h[at..]).await;
                },
                None => break 'conn,
              }
              continue;
            }
            let name = frame.get("name").and_then(|n| n.as_str()).unwrap_or("").to_string();
            if name == "PING" {
              continue;
            }
            seen.lock().unwrap().push(frame.clone());
            let r = replies.lock().unwrap().pop_front().unwrap_or(Value::Null);
            if let Some(b) = r.get("reply").and_then(|v| v.as_str()) {
              // "@ID@" in the scripted reply stands for the request's correlation id
              let id = frame.get("raw").and_then(|x| x.as_str()).map(unhex)
                .and_then(|l| narwhal_protocol::deserialize(std::io::Cursor::new(&l[..])).ok())
                .and_then(|m| m.correlation_id()).unwrap_or(0);
              let mut out = unhex(b);
              let pat = b"@ID@";
              while let Some(pos) = out.windows(4).position(|w| w == pat) {
                out.splice(pos..pos + 4, id.to_string().into_bytes());
              }
              let _ = s.write_all(&out).await;
            }
            if r.get("close").and_then(|v| v.as_bool()).unwrap_or(false) {
              break 'conn;
            }
          }
        });
      }
    });
  }
  // "init": the server's start-up negotiation with its modulator (narwhal_modulator::init_modulator) against this peer
  if let Some(init) = c.get("init") {
    let mut mc = narwhal_modulator::Config::default();
    mc.r#type = narwhal_modulator::S2M_CLIENT_MODULATOR.to_string();
    mc.s2m_client = link_client_config(&c["cfg"], &path);
    let mm = init["c2s_max_message"].as_u64().unwrap_or(8192) as u32;
    let mp = init["c2s_max_payload"].as_u64().unwrap_or(65536) as u32;
    let out = match tokio::time::timeout(Duration::from_secs(600), narwhal_modulator::init_modulator(mc, mm, mp, 1)).await {
      Ok(Ok(mut svc)) => {
        let o = json!({"init": {"adjusted_max_message": svc.adjusted_max_message_size, "adjusted_max_payload": svc.adjusted_max_payload_size}});
        let _ = tokio::time::timeout(Duration::from_secs(60), svc.shutdown()).await;
        o
      },
      Ok(Err(e)) => json!({"init_error": e.to_string()}),
      Err(_) => json!({"init_error": "hung"}),
    };
    let _ = std::fs::remove_file(&path);
    return out;
  }
  let client = match S2mClient::new(link_client_config(&c["cfg"], &path)) {
    Ok(k) => k,
    Err(e) => return json!({"setup_error": e.to_string()}),
  };
  let pool = Pool::new(16, 1 << 16);
  let mut results = Vec::new();
  for call in c["calls"].as_array().unwrap() {
    replies.lock().unwrap().clear();
    replies.lock().unwrap().push_back(call.clone());
    seen.lock().unwrap().clear();
    let kind = call["call"].as_str().unwrap().to_string();
    let k2 = client.clone();
    let call2 = call.clone();
    let pool2 = pool.clone();
    // run the call in its own task so that a panic inside the client is an observation
    let h = tokio::task::spawn_local(async move {
      let mk = |b: Vec<u8>| {
        let pool2 = pool2.clone();
        async move {
          let mut m = pool2.acquire_buffer().await;
          m.as_mut_slice()[..b.len()].copy_from_slice(&b);
          m.freeze(b.len())
        }
      };
      let sa = |k: &str| StringAtom::from(String::from_utf8(unhex(call2.get(k).and_then(|v| v.as_str()).unwrap_or(""))).unwrap_or_default());
      match kind.as_str() {
        "auth" => match k2.authenticate(AuthRequest { token: sa("token") }).await {
          Ok(r) => match r.result {
            AuthResult::Success { username } => json!({"auth_success": hex(username.as_bytes())}),
            AuthResult::Continue { challenge } => json!({"auth_continue": hex(challenge.as_bytes())}),
            AuthResult::Failure => json!("auth_fail"),
          },
          Err(_) => json!("err"),
        },
        "fbp" => {
          let payload = mk(unhex(call2["payload"].as_str().unwrap_or(""))).await;
          let from = match std::str::FromStr::from_str(sa("from").as_ref()) {
            Ok(n) => n,
            Err(_) => Nid::new_unchecked("x".into(), "y".into()),
          };
          match k2.forward_broadcast_payload(ForwardBroadcastPayloadRequest { payload, from, channel_handler: sa("channel") }).await {
            Ok(r) => match r.result {
              ForwardBroadcastPayloadResult::Valid => json!("ok"),
              ForwardBroadcastPayloadResult::Invalid => json!("invalid"),
              ForwardBroadcastPayloadResult::ValidWithAlteration { altered_payload } => json!({"altered": hex(altered_payload.as_slice())}),
            },
            Err(_) => json!("err"),
          }
        },
        "event" => {
          let kind: narwhal_protocol::EventKind = match call2.get("kind").and_then(|v| v.as_str()).unwrap_or("MEMBER_JOINED") {
            "MEMBER_LEFT" => narwhal_protocol::EventKind::MemberLeft,
            _ => narwhal_protocol::EventKind::MemberJoined,
          };
          let ev = narwhal_protocol::Event { kind, channel: Some(sa("channel")), nid: Some(sa("nid")), owner: call2.get("owner").and_then(|v| v.as_bool()) };
          match k2.forward_event(ForwardEventRequest { event: ev }).await {
            Ok(_) => json!("ok"),
            Err(_) => json!("err"),
          }
        },
        _ => {
          let payload = mk(unhex(call2["payload"].as_str().unwrap_or(""))).await;
          match k2.send_private_payload(SendPrivatePayloadRequest { payload, from: sa("from") }).await {
            Ok(r) => match r.result {
              SendPrivatePayloadResult::Valid => json!("ok"),
              SendPrivatePayloadResult::Invalid => json!("invalid"),
            },
            Err(_) => json!("err"),
          }
        },
      }
    });
    let res = match tokio::time::timeout(Duration::from_secs(3600), h).await {
      Ok(Ok(v)) => v,
      Ok(Err(e)) => {
        if e.is_panic() {
          json!("panic")
        } else {
          json!("cancelled")
        }
      },
      Err(_) => json!("hung"),
    };
    let s = std::mem::take(&mut *seen.lock().unwrap());
    results.push(json!({"result": res, "seen": s, "connects": *connects.lock().unwrap()}));
  }
  let _ = tokio::time::timeout(Duration::from_secs(60), client.shutdown()).await;
  let _ = std::fs::remove_file(&path);
  json!({"calls": results})
}

fn block<F: std::future::Future<Output = Value>>(f: F) -> Value {
  let rt = tokio::runtime::Builder::new_current_thread().enable_all().start_paused(true).build().unwrap();
  let local = tokio::task::LocalSet::new();
  local.block_on(&rt, f)
}

pub fn run(cases: &Value) -> Value {
  Value::Array(cases.as_array().unwrap().iter().map(|c| block(run_link_history(c))).collect())
}

pub fn run_client(cases: &Value) -> Value {
  Value::Array(cases.as_array().unwrap().iter().map(|c| block(run_client_case(c))).collect())
}
