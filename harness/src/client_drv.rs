// Client-engine driver: the real generic narwhal_common::client::Client over an in-memory link with
// a scripted peer, under virtual time.  Ops: issue a request, let the peer answer / ping / push /
// break the link, advance time.  Reports per op which requests completed (and how) and which
// request frames the peer has received.
use std::collections::BTreeMap;
use std::sync::{Arc, Mutex};
use std::time::Duration;

use narwhal_common::client::{Client, Config, Handshaker, SessionInfo};
use narwhal_common::service::S2mService;
use narwhal_protocol::{Message, S2mAuthParameters, deserialize};
use narwhal_util::conn::Dialer;
use serde_json::{Value, json};
use tokio::io::{AsyncReadExt, AsyncWriteExt, DuplexStream};
use tokio_util::compat::{Compat, TokioAsyncReadCompatExt};

type S = Compat<DuplexStream>;

struct MemDialer {
  peer_side: Arc<Mutex<Option<DuplexStream>>>,
  duplex: usize,
}

#[async_trait::async_trait]
impl Dialer for MemDialer {
  type Stream = S;
  async fn dial(&self) -> anyhow::Result<S> {
    let (a, b) = tokio::io::duplex(self.duplex);
    *self.peer_side.lock().unwrap() = Some(b);
    Ok(a.compat())
  }
}

#[derive(Clone)]
struct NoHandshake {
  max_inflight: u32,
}

#[async_trait::async_trait]
impl Handshaker<S> for NoHandshake {
  type SessionExtraInfo = ();
  async fn handshake(&self, _stream: &mut S) -> anyhow::Result<(SessionInfo, ())> {
    Ok((
      SessionInfo { heartbeat_interval: 60_000, max_inflight_requests: self.max_inflight, max_message_size: 1024, max_payload_size: 1024 },
      (),
    ))
  }
}

async fn drain_peer(peer: &mut Option<DuplexStream>, buf: &mut Vec<u8>) -> Vec<Value> {
  let mut frames = Vec::new();
  if let Some(p) = peer.as_mut() {
    let mut tmp = [0u8; 8192];
    loop {
      match tokio::time::timeout(Duration::from_millis(1), p.read(&mut tmp)).await {
        Ok(Ok(0)) | Ok(Err(_)) => break,
        Ok(Ok(n)) => buf.extend_from_slice(&tmp[..n]),
        Err(_) => break,
      }
    }
  }
  while let Some(nl) = buf.iter().position(|&b| b == b'\n') {
    let line = buf[..nl].to_vec();
    buf.drain(..nl + 1);
    match deserialize(std::io::Cursor::new(&line[..])) {
      Ok(m) => frames.push(json!({"name": m.name(), "id": m.correlation_id()})),
      Err(_) => frames.push(json!({"undecodable": true})),
    }
  }
  frames
}

async fn run_history(c: &Value) -> Value {
  let max_inflight = c["max_inflight"].as_u64().unwrap() as u32;
  let timeout_ms = c["timeout_ms"].as_u64().unwrap_or(5000);
  let peer_side = Arc::new(Mutex::new(None));
  let dialer = Arc::new(MemDialer { peer_side: peer_side.clone(), duplex: c.get("duplex").and_then(|v| v.as_u64()).unwrap_or(1 << 20) as usize });
  let cfg = Config {
    max_idle_connections: 1,
    heartbeat_interval: Duration::from_secs(3600),
    connect_timeout: Duration::from_secs(5),
    timeout: Duration::from_millis(timeout_ms),
    payload_read_timeout: Duration::from_secs(5),
    backoff_initial_delay: Duration::from_millis(10),
    backoff_max_delay: Duration::from_millis(100),
    backoff_max_retries: 1,
  };
  let client: Client<S, NoHandshake, S2mService> = match Client::new("verif", cfg, dialer, NoHandshake { max_inflight }) {
    Ok(c) => c,
    Err(e) => return json!({"setup_error": e.to_string()}),
  };
  let mut peer: Option<DuplexStream> = None;
  let mut pbuf = Vec::new();
  let mut handles: BTreeMap<u64, tokio::task::JoinHandle<anyhow::Result<(Message, Option<narwhal_util::pool::PoolBuffer>)>>> = BTreeMap::new();
  let mut results = Vec::new();
  let mut peer_stalled = false;
  for op in c["ops"].as_array().unwrap() {
    let mut note = Value::Null;
    match op["t"].as_str().unwrap() {
      "ids" => {
        // draw `count` correlation ids: first, last, how many distinct, any zero
        let count = op["count"].as_u64().unwrap_or(70000);
        let mut seen = std::collections::HashSet::new();
        let mut first = 0u32;
        let mut last = 0u32;
        let mut zero = false;
        for i in 0..count {
          let id = client.next_id().await;
          if i == 0 {
            first = id;
          }
          last = id;
          zero |= id == 0;
          seen.insert(id);
        }
        note = json!({"first": first, "last": last, "distinct": seen.len(), "zero": zero, "count": count});
      },
      "peer_stall" => {
        // the peer stays connected but stops (or resumes) reading
        peer_stalled = op.get("on").and_then(|v| v.as_bool()).unwrap_or(true);
      },
      "issue_many" => {
        let from = op["from"].as_u64().unwrap();
        let count = op["count"].as_u64().unwrap();
        for id in from..from + count {
          let msg = Message::S2mAuth(S2mAuthParameters { id: id as u32, token: "t".into() });
          match client.send_message(msg, None).await {
            Ok(h) => {
              handles.insert(id, h);
            },
            Err(e) => note = json!({"send_error": e.to_string()}),
          }
        }
        if let Some(np) = peer_side.lock().unwrap().take() {
          peer = Some(np);
          pbuf.clear();
        }
      },
      "reply_many" => {
        let from = op["from"].as_u64().unwrap();
        let count = op["count"].as_u64().unwrap();
        if let Some(p) = peer.as_mut() {
          for id in from..from + count {
            let _ = p.write_all(format!("S2M_AUTH_ACK id={} succeeded=true username=u\n", id).as_bytes()).await;
          }
        }
      },
      "issue" => {
        let id = op["id"].as_u64().unwrap();
        let msg = Message::S2mAuth(S2mAuthParameters { id: id as u32, token: "t".into() });
        match client.send_message(msg, None).await {
          Ok(h) => {
            handles.insert(id, h);
          },
          Err(e) => note = json!({"send_error": e.to_string()}),
        }
        // a (re)dial leaves the new link's far end here
        if let Some(np) = peer_side.lock().unwrap().take() {
          peer = Some(np);
          pbuf.clear();
        }
      },
      "reply" => {
        let id = op["id"].as_u64().unwrap();
        if let Some(p) = peer.as_mut() {
          let _ = p.write_all(format!("S2M_AUTH_ACK id={} succeeded=true username=u\n", id).as_bytes()).await;
        }
      },
      "reply_payload" => {
        // a reply that carries a payload whose bytes look like another reply line
        let id = op["id"].as_u64().unwrap();
        let inner = op["inner_id"].as_u64().unwrap();
        if let Some(p) = peer.as_mut() {
          let payload = format!("S2M_AUTH_ACK id={} succeeded=true username=mallory", inner);
          let frame = format!(
            "S2M_FORWARD_BROADCAST_PAYLOAD_ACK id={} valid=true altered_payload=true altered_payload_length={}\n{}\n",
            id,
            payload.len(),
            payload
          );
          let _ = p.write_all(frame.as_bytes()).await;
        }
      },
      "reply_oversize" => {
        // a reply announcing a payload longer than the session's max_payload_size (1024); the peer keeps the link open
        let id = op["id"].as_u64().unwrap();
        if let Some(p) = peer.as_mut() {
          let frame = format!(
            "S2M_FORWARD_BROADCAST_PAYLOAD_ACK id={} valid=true altered_payload=true altered_payload_length={}\nxxxxxxxxxx\n",
            id,
            op.get("len").and_then(|v| v.as_u64()).unwrap_or(5000)
          );
          let _ = p.write_all(frame.as_bytes()).await;
        }
      },
      "ping" => {
        let id = op["id"].as_u64().unwrap();
        if let Some(p) = peer.as_mut() {
          let _ = p.write_all(format!("PING id={}\n", id).as_bytes()).await;
        }
      },
      "push" => {
        if let Some(p) = peer.as_mut() {
          let _ = p.write_all(b"EVENT kind=MEMBER_LEFT\n").await;
        }
      },
      "break" => {
        peer = None;
      },
      "advance" => {
        tokio::time::sleep(Duration::from_millis(op["ms"].as_u64().unwrap())).await;
      },
      _ => {},
    }
    tokio::time::sleep(Duration::from_millis(10)).await;
    let frames = if peer_stalled { Vec::new() } else { drain_peer(&mut peer, &mut pbuf).await };
    let mut done = serde_json::Map::new();
    let ids: Vec<u64> = handles.keys().cloned().collect();
    for id in ids {
      if handles[&id].is_finished() {
        let h = handles.remove(&id).unwrap();
        let r = match h.await {
          Ok(Ok((m, _))) => json!({"reply_id": m.correlation_id(), "name": m.name()}),
          Ok(Err(e)) => json!({"error": e.to_string()}),
          Err(e) => json!({"join_error": e.is_panic()}),
        };
        done.insert(id.to_string(), r);
      }
    }
    results.push(json!({"peer_frames": frames, "done": done, "note": note}));
  }
  let _ = tokio::time::timeout(Duration::from_millis(200), client.shutdown()).await;
  json!({"ops": results})
}

fn run_one(c: &Value) -> Value {
  let rt = tokio::runtime::Builder::new_current_thread().enable_all().start_paused(true).build().unwrap();
  let local = tokio::task::LocalSet::new();
  local.block_on(&rt, run_history(c))
}

pub fn run(cases: &Value) -> Value {
  Value::Array(cases.as_array().unwrap().iter().map(run_one).collect())
}
