// Codec driver: runs narwhal_protocol::{deserialize, serialize} on the given cases.
use std::io::Cursor;
use std::panic::{AssertUnwindSafe, catch_unwind};

use narwhal_protocol::{SerializeError, deserialize, serialize};
use serde_json::{Value, json};

use crate::gen_schema::{FV, build, dump};

pub fn hex(b: &[u8]) -> String {
  let mut s = String::with_capacity(b.len() * 2);
  for x in b {
    s.push_str(&format!("{:02x}", x));
  }
  s
}

pub fn unhex(s: &str) -> Vec<u8> {
  (0..s.len() / 2).map(|i| u8::from_str_radix(&s[2 * i..2 * i + 2], 16).unwrap()).collect()
}

fn fv_to_json(f: &FV) -> Value {
  match f {
    FV::Str(b) => json!({"s": hex(b)}),
    FV::Num(n) => json!({"n": n}),
    FV::Bool(b) => json!({"b": b}),
    FV::OStr(o) => json!({"os": o.as_ref().map(|b| hex(b))}),
    FV::ONum(o) => json!({"on": o}),
    FV::OBool(o) => json!({"ob": o}),
    FV::Vec(v) => json!({"v": v.iter().map(|b| hex(b)).collect::<Vec<_>>()}),
  }
}

fn fv_from_json(v: &Value) -> FV {
  let o = v.as_object().unwrap();
  let (k, x) = o.iter().next().unwrap();
  match k.as_str() {
    "s" => FV::Str(unhex(x.as_str().unwrap())),
    "n" => FV::Num(x.as_u64().unwrap()),
    "b" => FV::Bool(x.as_bool().unwrap()),
    "os" => FV::OStr(x.as_str().map(unhex)),
    "on" => FV::ONum(x.as_u64()),
    "ob" => FV::OBool(x.as_bool()),
    "v" => FV::Vec(x.as_array().unwrap().iter().map(|e| unhex(e.as_str().unwrap())).collect()),
    _ => panic!("bad field"),
  }
}

pub fn msg_to_json(m: &narwhal_protocol::Message) -> Value {
  let (k, fs) = dump(m);
  json!({"kind": k, "fields": fs.iter().map(fv_to_json).collect::<Vec<_>>()})
}

pub fn msg_from_json(c: &Value) -> Option<narwhal_protocol::Message> {
  let kind = c["kind"].as_u64().unwrap() as usize;
  let fields: Vec<FV> = c["fields"].as_array().unwrap().iter().map(fv_from_json).collect();
  build(kind, &fields)
}

fn run_one(c: &Value) -> Value {
  match c["op"].as_str().unwrap() {
    "dec" => {
      let bytes = unhex(c["bytes"].as_str().unwrap());
      let r = catch_unwind(AssertUnwindSafe(|| deserialize(Cursor::new(&bytes[..]))));
      match r {
        Err(_) => json!({"r": "panic"}),
        Ok(Err(e)) => json!({"r": "err", "msg": e.to_string()}),
        Ok(Ok(m)) => {
          let mut j = msg_to_json(&m);
          j["r"] = json!("ok");
          j
        },
      }
    },
    "enc" => {
      let mut cap = c["cap"].as_u64().unwrap_or(4096) as usize;
      match msg_from_json(c) {
        None => json!({"r": "invalid"}),
        Some(m) => {
          // "cap_rel": k — the buffer is k bytes longer (shorter) than the encoded line (measured in a large buffer)
          if let Some(rel) = c.get("cap_rel").and_then(|v| v.as_i64()) {
            let mut big = vec![0u8; 1 << 17];
            if let Ok(Ok(n)) = catch_unwind(AssertUnwindSafe(|| serialize(&m, &mut big[..]))) {
              cap = (n as i64 + rel).max(0) as usize;
            }
          }
          let enc = |m: &narwhal_protocol::Message| {
            let mut buf = vec![0u8; cap];
            catch_unwind(AssertUnwindSafe(|| serialize(m, &mut buf[..]).map(|n| buf[..n].to_vec())))
          };
          let r1 = enc(&m);
          let r2 = enc(&m);
          let same = match (&r1, &r2) {
            (Ok(Ok(a)), Ok(Ok(b))) => a == b,
            (Ok(Err(_)), Ok(Err(_))) => true,
            (Err(_), Err(_)) => true,
            _ => false,
          };
          match r1 {
            Err(_) => json!({"r": "panic", "cap": cap}),
            Ok(Err(SerializeError::MessageTooLarge)) => json!({"r": "toolarge", "det": same, "cap": cap}),
            Ok(Err(SerializeError::Other(e))) => json!({"r": "other", "msg": e.to_string(), "det": same, "cap": cap}),
            Ok(Ok(b)) => {
              // decode the encoded line again (without the trailing newline) on the implementation
              let line: &[u8] = if b.last() == Some(&b'\n') { &b[..b.len() - 1] } else { &b[..] };
              let back = catch_unwind(AssertUnwindSafe(|| deserialize(Cursor::new(line))));
              let rt = match back {
                Err(_) => json!("panic"),
                Ok(Err(_)) => json!("err"),
                Ok(Ok(m2)) => {
                  if m2 == m {
                    json!("same")
                  } else {
                    json!("different")
                  }
                },
              };
              json!({"r": "ok", "bytes": hex(&b), "det": same, "rt": rt, "cap": cap})
            },
          }
        },
      }
    },
    _ => json!({"r": "badop"}),
  }
}

pub fn run(cases: &Value) -> Value {
  Value::Array(cases.as_array().unwrap().iter().map(run_one).collect())
}
