// Dumps Rust's char::is_alphanumeric / char::is_whitespace tables as ranges of scalar values.
use serde_json::{Value, json};

fn ranges(f: impl Fn(char) -> bool) -> Vec<(u32, u32)> {
  let mut out = Vec::new();
  let mut start: Option<u32> = None;
  for cp in 0u32..=0x10FFFF {
    let v = char::from_u32(cp).map(|c| f(c)).unwrap_or(false);
    match (v, start) {
      (true, None) => start = Some(cp),
      (false, Some(s)) => {
        out.push((s, cp - 1));
        start = None;
      },
      _ => {},
    }
  }
  if let Some(s) = start {
    out.push((s, 0x10FFFF));
  }
  out
}

pub fn run(_cases: &Value) -> Value {
  let al = ranges(|c| c.is_alphanumeric());
  let ws = ranges(|c| c.is_whitespace());
  // the fact the C07 theorem assumes: alphanumeric characters are neither whitespace nor '@'
  let mut disjoint = true;
  for cp in 0u32..=0x10FFFF {
    if let Some(c) = char::from_u32(cp) {
      if c.is_alphanumeric() && (c.is_whitespace() || c == '@') {
        disjoint = false;
      }
    }
  }
  json!({"alnum": al, "ws": ws, "alnum_not_ws_not_at": disjoint})
}
