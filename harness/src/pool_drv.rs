// Pool driver: op sequences on the real narwhal_util::pool::{Pool, BucketedPool}; an acquire is
// polled once (a pending acquire means the task would park).  Buffers are identified by a stamp
// written on first acquisition (FIFO initial order => stamp = index of the buffer).
use futures::FutureExt;
use narwhal_util::pool::{BucketedPool, MutablePoolBuffer, Pool, PoolBuffer};
use serde_json::{Value, json};

use crate::codec_drv::{hex, unhex};

enum Handle {
  Mut(MutablePoolBuffer),
  Shared(PoolBuffer),
}

fn stamp_of(b: &[u8]) -> u64 {
  u64::from_le_bytes(b[..8].try_into().unwrap())
}

fn run_one(c: &Value) -> Value {
  let count = c["count"].as_u64().unwrap() as usize;
  let size = c["size"].as_u64().unwrap_or(64) as usize;
  let r = std::panic::catch_unwind(std::panic::AssertUnwindSafe(|| {
    let pool = Pool::new(count, size);
    let mut handles: Vec<Option<Handle>> = Vec::new();
    let mut next_stamp: u64 = 1;
    let mut out = Vec::new();
    for op in c["ops"].as_array().unwrap() {
      let mut res = json!({});
      match op["op"].as_str().unwrap() {
        "acquire" => match pool.acquire_buffer().now_or_never() {
          Some(mut b) => {
            let mut st = stamp_of(b.as_slice());
            if st == 0 {
              st = next_stamp;
              next_stamp += 1;
              b.as_mut_slice()[..8].copy_from_slice(&st.to_le_bytes());
            }
            handles.push(Some(Handle::Mut(b)));
            res = json!({"h": handles.len() - 1, "id": st - 1});
          },
          None => res = json!({"parked": true}),
        },
        "write" => {
          let h = op["h"].as_u64().unwrap() as usize;
          let bytes = unhex(op["bytes"].as_str().unwrap());
          match handles.get_mut(h) {
            Some(Some(Handle::Mut(b))) => {
              b.as_mut_slice()[8..8 + bytes.len()].copy_from_slice(&bytes);
              res = json!({"ok": true});
            },
            _ => res = json!({"ok": false}),
          }
        },
        "freeze" => {
          let h = op["h"].as_u64().unwrap() as usize;
          let len = op["len"].as_u64().unwrap_or(size as u64) as usize;
          let taken = handles.get_mut(h).and_then(|x| x.take());
          match taken {
            Some(Handle::Mut(mut b)) => {
              let s = b.freeze(len);
              drop(b); // the emptied mutable handle
              handles[h] = Some(Handle::Shared(s));
              res = json!({"ok": true});
            },
            other => {
              if let Some(slot) = handles.get_mut(h) {
                *slot = other;
              }
              res = json!({"ok": false});
            },
          }
        },
        "clone" => {
          let h = op["h"].as_u64().unwrap() as usize;
          let cl = match handles.get(h) {
            Some(Some(Handle::Shared(s))) => Some(s.clone()),
            _ => None,
          };
          match cl {
            Some(s) => {
              handles.push(Some(Handle::Shared(s)));
              res = json!({"h": handles.len() - 1});
            },
            None => res = json!({"ok": false}),
          }
        },
        "drop" => {
          let h = op["h"].as_u64().unwrap() as usize;
          if let Some(slot) = handles.get_mut(h) {
            *slot = None;
          }
          res = json!({"ok": true});
        },
        "release" => {
          let mut v: Vec<PoolBuffer> = Vec::new();
          for h in op["hs"].as_array().unwrap() {
            let h = h.as_u64().unwrap() as usize;
            if let Some(Some(Handle::Shared(_))) = handles.get(h) {
              if let Some(Handle::Shared(s)) = handles[h].take() {
                v.push(s);
              }
            }
          }
          pool.release_buffers(&mut v);
          res = json!({"ok": true});
        },
        "read" => {
          let h = op["h"].as_u64().unwrap() as usize;
          let n = op["n"].as_u64().unwrap() as usize;
          res = match handles.get(h) {
            Some(Some(Handle::Shared(s))) => json!({"bytes": hex(&s.as_slice()[8..8 + n]), "id": stamp_of(s.as_slice()) - 1}),
            Some(Some(Handle::Mut(b))) => json!({"bytes": hex(&b.as_slice()[8..8 + n]), "id": stamp_of(b.as_slice()) - 1}),
            _ => json!({"ok": false}),
          };
        },
        _ => {},
      }
      res["in_use"] = json!(pool.in_use_count());
      res["available"] = json!(pool.available_count());
      out.push(res);
    }
    drop(handles);
    json!({"ops": out, "final_in_use": pool.in_use_count(), "final_available": pool.available_count()})
  }));
  match r {
    Ok(v) => v,
    Err(_) => json!({"panic": true}),
  }
}

// BucketedPool: sequence of acquire(size) (polled once) / drop; reports the buffer length served.
fn run_bucketed(c: &Value) -> Value {
  let g = |k: &str| c[k].as_u64().unwrap() as usize;
  let r = std::panic::catch_unwind(std::panic::AssertUnwindSafe(|| {
    let pool = BucketedPool::new_with_memory_budget(g("min"), g("max"), g("budget"), g("cap"), 2, 0.5);
    let mut handles: Vec<Option<MutablePoolBuffer>> = Vec::new();
    let mut out = Vec::new();
    for op in c["ops"].as_array().unwrap() {
      let res = match op["op"].as_str().unwrap() {
        "acquire" => {
          let sz = op["size"].as_u64().unwrap() as usize;
          match pool.acquire_buffer(sz).now_or_never() {
            Some(Some(b)) => {
              let l = b.len();
              handles.push(Some(b));
              json!({"h": handles.len() - 1, "len": l})
            },
            Some(None) => json!({"none": true}),
            None => json!({"parked": true}),
          }
        },
        "drop" => {
          let h = op["h"].as_u64().unwrap() as usize;
          if let Some(s) = handles.get_mut(h) {
            *s = None;
          }
          json!({"ok": true})
        },
        _ => json!({}),
      };
      let mut res = res;
      res["in_use"] = json!(pool.total_in_use_count());
      res["available"] = json!(pool.total_available_count());
      out.push(res);
    }
    json!({"ops": out})
  }));
  match r {
    Ok(v) => v,
    Err(_) => json!({"panic": true}),
  }
}

// Contention stress on a multi-threaded runtime: `tasks` tasks hand the buffers of a small pool around for `rounds`
// acquisitions each (half of them freeze + clone before dropping); reports panics (an acquirer that finds the
// queue empty although it holds a permit), the pool's accounting afterwards, and whether everybody finished.
fn run_contend(c: &Value) -> Value {
  let count = c["count"].as_u64().unwrap_or(1) as usize;
  let tasks = c["tasks"].as_u64().unwrap_or(8) as usize;
  let rounds = c["rounds"].as_u64().unwrap_or(20000) as usize;
  let rt = tokio::runtime::Builder::new_multi_thread().worker_threads(4).enable_all().build().unwrap();
  let pool = Pool::new(count, 64);
  let p2 = pool.clone();
  let (panics, hung) = rt.block_on(async move {
    let mut hs = Vec::new();
    for t in 0..tasks {
      let p = p2.clone();
      hs.push(tokio::spawn(async move {
        for i in 0..rounds {
          let mut b = p.acquire_buffer().await;
          b.as_mut_slice()[0] = (i % 251) as u8;
          if (i + t) % 2 == 0 {
            let s = b.freeze(8);
            let s2 = s.clone();
            drop(s);
            tokio::task::yield_now().await;
            drop(s2);
          } else {
            drop(b);
          }
        }
      }));
    }
    let mut panics = 0;
    let mut hung = false;
    for h in hs {
      match tokio::time::timeout(std::time::Duration::from_secs(60), h).await {
        Ok(Ok(())) => {},
        Ok(Err(e)) => {
          if e.is_panic() {
            panics += 1;
          }
        },
        Err(_) => hung = true,
      }
    }
    (panics, hung)
  });
  json!({"contend": true, "panics": panics, "hung": hung, "available": pool.available_count(), "in_use": pool.in_use_count()})
}

pub fn run(cases: &Value) -> Value {
  Value::Array(
    cases
      .as_array()
      .unwrap()
      .iter()
      .map(|c| if c.get("contend").is_some() { run_contend(c) } else if c.get("bucketed").is_some() { run_bucketed(c) } else { run_one(c) })
      .collect(),
  )
}
