// Server driver: assembles the real C2S server in-process (ChannelManager, Notifier, routers,
// C2sDispatcherFactory, ConnManager) on a paused current-thread runtime, connects clients through
// in-memory duplex streams, executes a history of client actions and records, per action, what
// every connection received and which modulator calls were made.
use std::collections::{BTreeMap, HashMap, VecDeque};
use std::sync::{Arc, Mutex};
use std::time::Duration;

use async_trait::async_trait;
use narwhal_common::conn::ConnManager;
use narwhal_common::service::C2sService;
use narwhal_modulator::modulator::*;
use narwhal_modulator::{Modulator, OutboundPrivatePayload};
use narwhal_protocol::{Message, deserialize};
use narwhal_server::c2s;
use narwhal_server::channel::ChannelManager;
use narwhal_server::notifier::Notifier;
use narwhal_server::router::GlobalRouter;
use narwhal_util::pool::{Pool, PoolBuffer};
use narwhal_util::string_atom::StringAtom;
use serde_json::{Value, json};
use tokio::io::{AsyncReadExt, AsyncWriteExt, DuplexStream};
use tokio::sync::{broadcast, oneshot};
use tokio_util::compat::TokioAsyncReadCompatExt;

use crate::codec_drv::{hex, msg_to_json, unhex};
use crate::framing_drv::conn_config;

#[derive(Default)]
pub struct ModState {
  pub script: VecDeque<Value>,
  pub log: Vec<Value>,
  pub parked: HashMap<u64, oneshot::Sender<Value>>,
  pub inflight_now: i64,
  pub inflight_peak: i64,
  // the next n calls of operations() fail ("mod": {"ops_fail": n}): the modulator is unreachable at that moment
  pub ops_fail: u64,
}

#[derive(Clone)]
pub struct ScriptMod {
  pub ops: Vec<String>,
  pub proto: String,
  pub st: Arc<Mutex<ModState>>,
  pub pool: Pool,
  pub m2s_tx: broadcast::Sender<OutboundPrivatePayload>,
}

impl std::fmt::Debug for ScriptMod {
  fn fmt(&self, f: &mut std::fmt::Formatter<'_>) -> std::fmt::Result {
    f.debug_struct("ScriptMod").finish()
  }
}

impl ScriptMod {
  // next scripted outcome (default ok); a {"park": n} outcome suspends the call until released
  async fn outcome(&self, call: Value) -> Value {
    let (o, rx) = {
      let mut st = self.st.lock().unwrap();
      st.log.push(call);
      let o = st.script.pop_front().unwrap_or(json!("ok"));
      if let Some(n) = o.get("park").and_then(|v| v.as_u64()) {
        let (tx, rx) = oneshot::channel();
        st.parked.insert(n, tx);
        st.inflight_now += 1;
        st.inflight_peak = st.inflight_peak.max(st.inflight_now);
        (o, Some(rx))
      } else {
        (o, None)
      }
    };
    match rx {
      None => o,
      Some(rx) => {
        let r = rx.await.unwrap_or(json!("err"));
        self.st.lock().unwrap().inflight_now -= 1;
        r
      },
    }
  }

  pub async fn make_buffer(&self, bytes: &[u8]) -> PoolBuffer {
    let mut b = self.pool.acquire_buffer().await;
    b.as_mut_slice()[..bytes.len()].copy_from_slice(bytes);
    b.freeze(bytes.len())
  }
}

fn is(o: &Value, s: &str) -> bool {
  o.as_str() == Some(s)
}

#[async_trait]
impl Modulator for ScriptMod {
  async fn protocol_name(&self) -> anyhow::Result<StringAtom> {
    Ok(StringAtom::from(self.proto.as_str()))
  }

  async fn operations(&self) -> anyhow::Result<Operations> {
    {
      let mut st = self.st.lock().unwrap();
      if st.ops_fail > 0 {
        st.ops_fail -= 1;
        return Err(anyhow::anyhow!("scripted modulator failure (operations)"));
      }
    }
    let v: Vec<StringAtom> = self.ops.iter().map(|s| StringAtom::from(s.as_str())).collect();
    Ok(Operations::from(v))
  }

  async fn authenticate(&self, request: AuthRequest) -> anyhow::Result<AuthResponse> {
    let o = self.outcome(json!({"call": "auth", "token": hex(request.token.as_bytes())})).await;
    if let Some(u) = o.get("auth_success").and_then(|v| v.as_str()) {
      let u = String::from_utf8(unhex(u)).unwrap_or_default();
      return Ok(AuthResponse { result: AuthResult::Success { username: StringAtom::from(u) } });
    }
    if let Some(c) = o.get("auth_continue").and_then(|v| v.as_str()) {
      let c = String::from_utf8(unhex(c)).unwrap_or_default();
      return Ok(AuthResponse { result: AuthResult::Continue { challenge: StringAtom::from(c) } });
    }
    if is(&o, "auth_fail") {
      return Ok(AuthResponse { result: AuthResult::Failure });
    }
    Err(anyhow::anyhow!("scripted modulator failure"))
  }

  async fn forward_broadcast_payload(
    &self,
    request: ForwardBroadcastPayloadRequest,
  ) -> anyhow::Result<ForwardBroadcastPayloadResponse> {
    let from: StringAtom = (&request.from).into();
    let o = self
      .outcome(json!({"call": "fbp", "from": hex(from.as_bytes()), "channel": hex(request.channel_handler.as_bytes()),
                      "payload": hex(request.payload.as_slice())}))
      .await;
    drop(request);
    if let Some(p) = o.get("altered").and_then(|v| v.as_str()) {
      let buf = self.make_buffer(&unhex(p)).await;
      return Ok(ForwardBroadcastPayloadResponse {
        result: ForwardBroadcastPayloadResult::ValidWithAlteration { altered_payload: buf },
      });
    }
    if is(&o, "invalid") {
      return Ok(ForwardBroadcastPayloadResponse { result: ForwardBroadcastPayloadResult::Invalid });
    }
    if is(&o, "err") {
      return Err(anyhow::anyhow!("scripted modulator failure"));
    }
    Ok(ForwardBroadcastPayloadResponse { result: ForwardBroadcastPayloadResult::Valid })
  }

  async fn forward_event(&self, request: ForwardEventRequest) -> anyhow::Result<ForwardEventResponse> {
    let e = request.event;
    let kind: &str = e.kind.into();
    let o = self
      .outcome(json!({"call": "event", "kind": hex(kind.as_bytes()),
                      "channel": e.channel.as_ref().map(|c| hex(c.as_bytes())),
                      "nid": e.nid.as_ref().map(|c| hex(c.as_bytes())), "owner": e.owner}))
      .await;
    if is(&o, "err") {
      return Err(anyhow::anyhow!("scripted modulator failure"));
    }
    Ok(ForwardEventResponse {})
  }

  async fn send_private_payload(&self, request: SendPrivatePayloadRequest) -> anyhow::Result<SendPrivatePayloadResponse> {
    let o = self
      .outcome(json!({"call": "spp", "from": hex(request.from.as_bytes()), "payload": hex(request.payload.as_slice())}))
      .await;
    drop(request);
    if is(&o, "invalid") {
      return Ok(SendPrivatePayloadResponse { result: SendPrivatePayloadResult::Invalid });
    }
    if is(&o, "err") {
      return Err(anyhow::anyhow!("scripted modulator failure"));
    }
    Ok(SendPrivatePayloadResponse { result: SendPrivatePayloadResult::Valid })
  }

  async fn receive_private_payload(
    &self,
    _request: ReceivePrivatePayloadRequest,
  ) -> anyhow::Result<ReceivePrivatePayloadResponse> {
    Ok(ReceivePrivatePayloadResponse { receiver: self.m2s_tx.subscribe() })
  }
}

pub struct Client {
  pub last_ping: Option<u32>,
  pub stream: Option<DuplexStream>,
  pub buf: Vec<u8>,
  pub closed: bool,
  pub stalled: bool,
}

// Splits what a client received into frames (header line, and payload + newline when the header
// announces one); headers are decoded with the real deserializer and rendered generically.
pub fn parse_frames(buf: &mut Vec<u8>, frames: &mut Vec<Value>) {
  loop {
    let Some(nl) = buf.iter().position(|&b| b == b'\n') else { return };
    let line = buf[..nl].to_vec();
    match deserialize(std::io::Cursor::new(&line[..])) {
      Ok(m) => {
        let plen = m.payload_info().map(|p| p.length);
        let mut j = msg_to_json(&m);
        j["raw"] = json!(hex(&line));
        match plen {
          Some(n) => {
            if buf.len() < nl + 1 + n + 1 {
              return; // incomplete payload: wait for more bytes
            }
            let pl = buf[nl + 1..nl + 1 + n].to_vec();
            j["payload"] = json!(hex(&pl));
            j["payload_nl"] = json!(buf[nl + 1 + n] == b'\n');
            buf.drain(..nl + 1 + n + 1);
          },
          None => {
            j["payload"] = Value::Null;
            buf.drain(..nl + 1);
          },
        }
        frames.push(j);
      },
      Err(_) => {
        frames.push(json!({"undecodable": hex(&line)}));
        buf.drain(..nl + 1);
      },
    }
  }
}

pub fn c2s_config(c: &Value) -> c2s::Config {
  let g = |k: &str, d: u64| c.get(k).and_then(|v| v.as_u64()).unwrap_or(d);
  let mut cfg = c2s::Config::default();
  cfg.listener.domain = c.get("domain").and_then(|v| v.as_str()).unwrap_or("localhost").to_string();
  cfg.connect_timeout = Duration::from_millis(g("connect_timeout_ms", 3_600_000));
  cfg.authenticate_timeout = Duration::from_millis(g("auth_timeout_ms", 3_600_000));
  cfg.keep_alive_interval = Duration::from_millis(g("keepalive_ms", 3_600_000));
  cfg.min_keep_alive_interval = Duration::from_millis(g("min_keepalive_ms", 1_000));
  cfg.request_timeout = Duration::from_millis(g("request_timeout_ms", 3_600_000));
  cfg.payload_read_timeout = Duration::from_millis(g("payload_read_timeout_ms", 3_600_000));
  cfg.limits.max_connections = g("max_conns", 16) as u32;
  cfg.limits.max_channels = g("max_channels", 100) as u32;
  cfg.limits.max_clients_per_channel = g("max_clients", 10) as u32;
  cfg.limits.max_channels_per_client = g("max_subs", 10) as u32;
  cfg.limits.max_message_size = g("max_message", 1024) as u32;
  cfg.limits.max_payload_size = g("max_payload", 1024) as u32;
  cfg.limits.payload_pool_memory_budget = g("budget", 1 << 22);
  cfg.limits.max_inflight_requests = g("max_inflight", 10) as u32;
  cfg.limits.outbound_message_queue_size = g("queue", 256) as u32;
  cfg.limits.rate_limit = g("rate_limit", 0) as u32;
  cfg
}

async fn drain(clients: &mut BTreeMap<u64, Client>, settle_ms: u64) -> Value {
  tokio::time::sleep(Duration::from_millis(settle_ms)).await;
  let mut per = serde_json::Map::new();
  for (k, cl) in clients.iter_mut() {
    let mut got = false;
    if cl.stalled {
      continue; // a peer that stopped reading
    }
    if let Some(s) = cl.stream.as_mut() {
      let mut tmp = [0u8; 65536];
      loop {
        match tokio::time::timeout(Duration::from_millis(1), s.read(&mut tmp)).await {
          Ok(Ok(0)) => {
            cl.closed = true;
            cl.stream = None;
            got = true;
            break;
          },
          Ok(Ok(n)) => {
            cl.buf.extend_from_slice(&tmp[..n]);
            got = true;
          },
          Ok(Err(_)) => {
            cl.closed = true;
            cl.stream = None;
            got = true;
            break;
          },
          Err(_) => break,
        }
      }
    }
    if got {
      let mut frames = Vec::new();
      parse_frames(&mut cl.buf, &mut frames);
      for f in frames.iter() {
        if let Some(raw) = f.get("raw").and_then(|r| r.as_str()) {
          let line = unhex(raw);
          if line.starts_with(b"PING id=") {
            cl.last_ping = std::str::from_utf8(&line[8..]).ok().and_then(|s| s.trim().parse::<u32>().ok());
          }
        }
      }
      let leftover = if cl.closed && !cl.buf.is_empty() { Some(hex(&cl.buf)) } else { None };
      per.insert(k.to_string(), json!({"frames": frames, "closed": cl.closed, "leftover": leftover}));
    }
  }
  Value::Object(per)
}

async fn run_history(c: &Value) -> Value {
  let cfgj = &c["cfg"];
  let c2s_cfg = Arc::new(c2s_config(cfgj));
  let conn_cfg: narwhal_common::conn::Config = c2s_cfg.as_ref().into();
  let _ = conn_config; // (framing driver helper; the server driver derives its Config from c2s::Config)
  let settle = cfgj.get("settle_ms").and_then(|v| v.as_u64()).unwrap_or(10);

  let mod_state = Arc::new(Mutex::new(ModState::default()));
  mod_state.lock().unwrap().ops_fail = cfgj.get("mod").and_then(|m| m.get("ops_fail")).and_then(|v| v.as_u64()).unwrap_or(0);
  let (m2s_tx, _m2s_rx0) = broadcast::channel::<OutboundPrivatePayload>(1024);
  let scripted: Option<ScriptMod> = match cfgj.get("mod") {
    Some(m) if !m.is_null() => Some(ScriptMod {
      ops: m["ops"].as_array().map(|a| a.iter().map(|x| x.as_str().unwrap().to_string()).collect()).unwrap_or_default(),
      proto: m.get("proto").and_then(|v| v.as_str()).unwrap_or("TEST/1.0").to_string(),
      st: mod_state.clone(),
      pool: Pool::new(64, 1 << 16),
      m2s_tx: m2s_tx.clone(),
    }),
    _ => None,
  };
  // "via": "s2m" puts the real S2M/M2S wire path (S2mClient, unix sockets, S2M/M2S dispatchers)
  // between the server and the scripted modulator
  let via_link = cfgj.get("mod").and_then(|m| m.get("via")).and_then(|v| v.as_str()) == Some("s2m");
  let (route_tx, _route_rx0) = broadcast::channel::<OutboundPrivatePayload>(1024);
  let mut _chain: Option<crate::link_drv::Chain> = None;
  let modulator: Option<Arc<dyn Modulator>> = if via_link && scripted.is_some() {
    let link = cfgj["mod"].get("link").cloned().unwrap_or(json!({}));
    match crate::link_drv::build_chain(&link, scripted.clone().unwrap(), route_tx.clone()).await {
      Ok(ch) => {
        let m = ch.modulator.clone();
        _chain = Some(ch);
        Some(m)
      },
      Err(e) => return json!({"setup_error": e.to_string()}),
    }
  } else {
    scripted.clone().map(|m| Arc::new(m) as Arc<dyn Modulator>)
  };

  let local_domain = StringAtom::from(c2s_cfg.listener.domain.as_str());
  let c2s_router = c2s::Router::new(local_domain.clone());
  let global_router = GlobalRouter::new(c2s_router.clone());
  let notifier = Notifier::new(global_router.clone(), modulator.clone());
  let channel_mng = ChannelManager::new(
    global_router.clone(),
    notifier.clone(),
    c2s_cfg.limits.max_channels,
    c2s_cfg.limits.max_clients_per_channel,
    c2s_cfg.limits.max_channels_per_client,
    c2s_cfg.limits.max_payload_size,
  );
  let factory = match c2s::conn::C2sDispatcherFactory::new(c2s_cfg.clone(), channel_mng.clone(), c2s_router.clone(), modulator.clone()).await {
    Ok(f) => f,
    Err(e) => return json!({"setup_error": e.to_string()}),
  };
  let mng: ConnManager<C2sService> = ConnManager::new(conn_cfg);
  // M2S private payload routing task (the real one), fed directly through the broadcast channel
  let direct_pool = Pool::new(64, 1 << 16);
  let (_route_handle, route_token) =
    c2s::route_m2s_private_payload(if via_link { route_tx.subscribe() } else { m2s_tx.subscribe() }, c2s_router.clone());

  let mut clients: BTreeMap<u64, Client> = BTreeMap::new();
  let mut tasks: HashMap<u64, tokio::task::JoinHandle<()>> = HashMap::new();
  let mut results = Vec::new();

  let t0 = tokio::time::Instant::now();
  for op in c["ops"].as_array().unwrap() {
    let t = op["t"].as_str().unwrap();
    if t == "until" {
      // absolute virtual time (ms since the start of the history) at which the NEXT action happens
      tokio::time::sleep_until(t0 + Duration::from_millis(op["ms"].as_u64().unwrap())).await;
    }
    let t_start = t0.elapsed().as_millis() as u64;
    if let Some(sc) = op.get("script").and_then(|s| s.as_array()) {
      let mut st = mod_state.lock().unwrap();
      st.script = sc.iter().cloned().collect();
    } else {
      mod_state.lock().unwrap().script.clear();
    }
    mod_state.lock().unwrap().log.clear();
    let mut note = Value::Null;
    match t {
      "open" => {
        let k = op["k"].as_u64().unwrap();
        let (cl, srv) = tokio::io::duplex(op.get("duplex").and_then(|v| v.as_u64()).unwrap_or(1 << 20) as usize);
        let mng2 = mng.clone();
        let f2 = factory.clone();
        let h = tokio::task::spawn_local(async move {
          mng2.run_connection(srv.compat(), f2).await;
        });
        tasks.insert(k, h);
        clients.insert(k, Client { last_ping: None, stream: Some(cl), buf: Vec::new(), closed: false, stalled: false });
      },
      "send" => {
        let k = op["k"].as_u64().unwrap();
        let bytes = unhex(op["bytes"].as_str().unwrap());
        if let Some(cl) = clients.get_mut(&k) {
          if let Some(s) = cl.stream.as_mut() {
            if s.write_all(&bytes).await.is_err() {
              note = json!("write failed");
            }
          } else {
            note = json!("closed");
          }
        }
      },
      "hangup" => {
        let k = op["k"].as_u64().unwrap();
        if let Some(cl) = clients.get_mut(&k) {
          cl.stream = None;
          cl.closed = true;
        }
      },
      "until" => {},
      "pong" => {
        let k = op["k"].as_u64().unwrap();
        if let Some(cl) = clients.get_mut(&k) {
          let id = match op.get("id").and_then(|v| v.as_u64()) {
            Some(i) => Some(i as u32),
            None => cl.last_ping.map(|p| if op.get("wrong").and_then(|w| w.as_bool()).unwrap_or(false) { p.wrapping_add(1).max(1) } else { p }),
          };
          match (id, cl.stream.as_mut()) {
            (Some(i), Some(s)) => {
              let _ = s.write_all(format!("PONG id={}\n", i).as_bytes()).await;
            },
            _ => note = json!("no ping seen / closed"),
          }
        }
      },
      "stall" => {
        let k = op["k"].as_u64().unwrap();
        if let Some(cl) = clients.get_mut(&k) {
          cl.stalled = op.get("on").and_then(|v| v.as_bool()).unwrap_or(true);
        }
      },
      "read_some" => {
        // a stalled reader takes up to n bytes off its socket and stalls again
        let k = op["k"].as_u64().unwrap();
        let n = op["n"].as_u64().unwrap_or(1024) as usize;
        if let Some(cl) = clients.get_mut(&k) {
          if let Some(s) = cl.stream.as_mut() {
            let mut tmp = vec![0u8; n];
            let mut got = 0usize;
            while got < n {
              match tokio::time::timeout(Duration::from_millis(1), s.read(&mut tmp[got..])).await {
                Ok(Ok(0)) | Ok(Err(_)) | Err(_) => break,
                Ok(Ok(m)) => got += m,
              }
            }
            cl.buf.extend_from_slice(&tmp[..got]);
            note = json!({"read": got});
          }
        }
      },
      "advance" => {
        tokio::time::sleep(Duration::from_millis(op["ms"].as_u64().unwrap())).await;
      },
      "release" => {
        let n = op["id"].as_u64().unwrap();
        let tx = mod_state.lock().unwrap().parked.remove(&n);
        match tx {
          Some(tx) => {
            let _ = tx.send(op.get("outcome").cloned().unwrap_or(json!("ok")));
          },
          None => note = json!("nothing parked under that id"),
        }
      },
      "batch" => {
        // several actions in ONE scheduler tick (no yield in between, duplex writes below the
        // pipe's capacity complete at once): {"a":"send","k":..,"bytes":..} | {"a":"release","id":..,"outcome":..}
        // | {"a":"hangup","k":..}.  The wake-ups are queued in this order.
        let mut notes = Vec::new();
        for a in op["acts"].as_array().unwrap() {
          match a["a"].as_str().unwrap_or("") {
            "send" => {
              let k = a["k"].as_u64().unwrap();
              let bytes = unhex(a["bytes"].as_str().unwrap());
              if let Some(cl) = clients.get_mut(&k) {
                if let Some(s) = cl.stream.as_mut() {
                  use futures::FutureExt;
                  match s.write_all(&bytes).now_or_never() {
                    Some(Ok(())) => {},
                    Some(Err(_)) => notes.push(json!("write failed")),
                    None => notes.push(json!("write would block")),
                  }
                } else {
                  notes.push(json!("closed"));
                }
              }
            },
            "release" => {
              let n = a["id"].as_u64().unwrap();
              let tx = mod_state.lock().unwrap().parked.remove(&n);
              match tx {
                Some(tx) => {
                  let _ = tx.send(a.get("outcome").cloned().unwrap_or(json!("ok")));
                },
                None => notes.push(json!("nothing parked under that id")),
              }
            },
            "hangup" => {
              let k = a["k"].as_u64().unwrap();
              if let Some(cl) = clients.get_mut(&k) {
                cl.stream = None;
                cl.closed = true;
              }
            },
            _ => notes.push(json!("unknown act")),
          }
        }
        if !notes.is_empty() {
          note = Value::Array(notes);
        }
      },
      "m2s_direct" => {
        let payload = unhex(op["payload"].as_str().unwrap());
        let mut b = direct_pool.acquire_buffer().await;
        b.as_mut_slice()[..payload.len()].copy_from_slice(&payload);
        let pb = b.freeze(payload.len());
        let targets: Vec<StringAtom> = op["targets"]
          .as_array()
          .unwrap()
          .iter()
          .map(|t| StringAtom::from(String::from_utf8(unhex(t.as_str().unwrap())).unwrap_or_default()))
          .collect();
        let _ = m2s_tx.send(OutboundPrivatePayload { payload: pb, targets });
      },
      "link_down" => {
        match _chain.as_mut() {
          Some(ch) => ch.s2m_down().await,
          None => note = json!("no wire path in this history"),
        }
      },
      "shutdown" => {
        let m2 = mng.clone();
        let r = tokio::time::timeout(Duration::from_millis(op.get("wait_ms").and_then(|v| v.as_u64()).unwrap_or(60_000)), m2.shutdown()).await;
        note = json!({"shutdown_completed": r.is_ok()});
      },
      _ => note = json!("unknown op"),
    }
    let per = drain(&mut clients, if t == "until" { 0 } else { op.get("settle_ms").and_then(|v| v.as_u64()).unwrap_or(settle) }).await;
    // which connection tasks have ended, and did any panic
    let mut ended = serde_json::Map::new();
    let ks: Vec<u64> = tasks.keys().cloned().collect();
    for k in ks {
      if tasks[&k].is_finished() {
        let h = tasks.remove(&k).unwrap();
        let panicked = match h.await {
          Ok(()) => false,
          Err(e) => e.is_panic(),
        };
        ended.insert(k.to_string(), json!({"panicked": panicked}));
      }
    }
    let (log, peak, parked) = {
      let mut st = mod_state.lock().unwrap();
      let l = std::mem::take(&mut st.log);
      let mut pk: Vec<u64> = st.parked.keys().cloned().collect();
      pk.sort();
      (l, st.inflight_peak, pk)
    };
    let t_end = t0.elapsed().as_millis() as u64;
    results.push(json!({"conns": per, "mod": log, "ended": ended, "note": note, "mod_peak": peak, "parked": parked, "t_start": t_start, "t_end": t_end}));
  }
  route_token.cancel();
  json!({"ops": results})
}

fn run_one(c: &Value) -> Value {
  let rt = tokio::runtime::Builder::new_current_thread().enable_all().start_paused(true).build().unwrap();
  let local = tokio::task::LocalSet::new();
  local.block_on(&rt, run_history(c))
}

pub fn run(cases: &Value) -> Value {
  // each history runs in a child-like isolation: a same-thread deadlock would hang the process,
  // so the caller runs this driver under a watchdog timeout
  Value::Array(cases.as_array().unwrap().iter().map(run_one).collect())
}

#[allow(dead_code)]
pub fn normalise(_m: &Message) {}
