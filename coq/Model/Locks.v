(* Lock protocol of the request handlers (crates/server/src/channel/mod.rs, c2s/router.rs,
   notifier/mod.rs) abstracted to the actions that matter for progress:
     - synchronous map-shard locks (DashMap): acquiring a held one BLOCKS THE WHOLE WORKER THREAD;
     - asynchronous per-channel RwLocks (async_lock): a task that cannot get one PARKS;
     - awaits of modulator calls: the task parks until the (arbitrarily late, possibly never) answer.
   Tasks are pinned to worker threads; a thread runs one task at a time and switches only when the
   running task parks or finishes.  Definitions only. *)
From NW Require Import Base.Bytes.

Inductive action :=
| SyncAcq (l : nat) | SyncRel (l : nat)
| AsyncAcqR (c : nat) | AsyncAcqW (c : nat) | AsyncRel (c : nat)
| AwaitMod                    (* suspension until the modulator answers *)
| Reply.

Definition program := list action.

(* map-shard locks *)
Definition CH : nat := 0.    (* channels map *)
Definition IX : nat := 1.    (* in_channels (reverse index) map *)
Definition RT : nat := 2.    (* connection router map *)

Definition sync_section (l : nat) : program := [SyncAcq l; SyncRel l].

(* the handlers, as they are after the guard-across-await fix *)
Definition p_join (c : nat) : program :=
  sync_section CH ++ [AsyncAcqW c] ++ sync_section CH ++ sync_section RT ++ sync_section IX
  ++ [AwaitMod] ++ sync_section IX ++ [AsyncRel c; Reply].
Definition p_leave (c : nat) : program :=
  sync_section CH ++ [AsyncAcqW c] ++ sync_section CH ++ [AwaitMod] ++ sync_section IX ++ sync_section CH
  ++ [AwaitMod; AsyncRel c; Reply].
Definition p_channels_owner (cs : list nat) : program :=
  sync_section IX ++ flat_map (fun c => sync_section CH ++ [AsyncAcqR c; AsyncRel c]) cs ++ [Reply].
Definition p_channels : program := sync_section IX ++ [Reply].
Definition p_read (c : nat) : program :=            (* MEMBERS / GET_CHAN_ACL / GET_CHAN_CONFIG *)
  sync_section CH ++ [AsyncAcqR c; AsyncRel c; Reply].
Definition p_write (c : nat) : program :=           (* SET_CHAN_ACL / SET_CHAN_CONFIG *)
  sync_section CH ++ [AsyncAcqW c; AsyncRel c; Reply].
Definition p_broadcast (c : nat) : program :=
  [AwaitMod] ++ sync_section CH ++ [AsyncAcqR c; AsyncRel c] ++ sync_section RT ++ [Reply].
Definition p_disconnect (cs : list nat) : program :=  (* unregister + leave_all_channels *)
  sync_section RT ++ sync_section RT ++ sync_section IX
  ++ flat_map (fun c => removelast (p_leave c)) cs.

(* the handler as it was before the fix: map guards kept across the await on the channel lock *)
Definition p_channels_owner_old (cs : list nat) : program :=
  [SyncAcq IX] ++ flat_map (fun c => [SyncAcq CH; AsyncAcqR c; AsyncRel c; SyncRel CH]) cs ++ [SyncRel IX; Reply].

(* ---------- discipline: what makes a program safe ---------- *)
(* no park point (AsyncAcq*, AwaitMod) while a sync lock is held; sync sections are properly nested
   single-lock sections; at most one channel lock held at a time *)
Fixpoint disciplined_from (held_sync : option nat) (held_async : option nat) (p : program) : bool :=
  match p with
  | [] => match held_sync, held_async with None, None => true | _, _ => false end
  | a :: r =>
      match a, held_sync, held_async with
      | SyncAcq l, None, _ => disciplined_from (Some l) held_async r
      | SyncRel l, Some l', _ => (l =? l')%nat && disciplined_from None held_async r
      | AsyncAcqR c, None, None => disciplined_from None (Some c) r
      | AsyncAcqW c, None, None => disciplined_from None (Some c) r
      | AsyncRel c, None, Some c' => (c =? c')%nat && disciplined_from None None r
      | AwaitMod, None, _ => disciplined_from None held_async r
      | Reply, None, _ => disciplined_from None held_async r
      | _, _, _ => false
      end
  end.
Definition disciplined (p : program) : bool := disciplined_from None None p.

(* ---------- operational semantics ---------- *)
Inductive tstatus := Ready | Parked | Done.

Record task := { t_thread : nat; t_prog : program; t_status : tstatus; t_async : option nat (* channel lock held *) }.

Inductive rw := RFree | RRead (n : nat) | RWrite.

Record lstate := {
  tasks : list task;
  sync_owner : list (nat * nat);      (* lock -> owning task index *)
  chan_lock : list (nat * rw);        (* channel -> lock state (absent = free) *)
  running : list (nat * nat)          (* thread -> index of the task it is currently executing *)
}.

Fixpoint lookup {A} (k : nat) (l : list (nat * A)) : option A :=
  match l with [] => None | (k', v) :: r => if (k =? k')%nat then Some v else lookup k r end.
Definition remove_key {A} (k : nat) (l : list (nat * A)) := filter (fun e => negb (k =? fst e)%nat) l.
Definition set_key {A} (k : nat) (v : A) (l : list (nat * A)) := (k, v) :: remove_key k l.

Fixpoint set_nth {A} (n : nat) (x : A) (l : list A) : list A :=
  match l, n with
  | [], _ => []
  | _ :: r, O => x :: r
  | y :: r, S n' => y :: set_nth n' x r
  end.

Definition chan_state (s : lstate) (c : nat) : rw := match lookup c (chan_lock s) with Some x => x | None => RFree end.

(* scheduler events *)
Inductive sev :=
| Run (i : nat)          (* the thread of task i executes that task's next action (if it is the running / can be picked) *)
| ModAnswer (i : nat)    (* the modulator answers the call task i is waiting for *)
| Cancel (i : nat).      (* request timeout / cancellation drops a PARKED task, releasing what it holds *)

Inductive lres := LOk (s : lstate) | LNoop | LBlockedThread (thread lock owner : nat).

Definition with_task (s : lstate) (i : nat) (t : task) : lstate :=
  {| tasks := set_nth i t (tasks s); sync_owner := sync_owner s; chan_lock := chan_lock s; running := running s |}.

Definition thread_free_for (s : lstate) (i : nat) (th : nat) : bool :=
  match lookup th (running s) with
  | None => true
  | Some j => (j =? i)%nat
  end.

(* one action of task i *)
Definition lstep (s : lstate) (e : sev) : lres :=
  match e with
  | Run i =>
      match nth_error (tasks s) i with
      | None => LNoop
      | Some t =>
          match t_status t, t_prog t with
          | Ready, a :: rest =>
              if negb (thread_free_for s i (t_thread t)) then LNoop      (* its thread is executing another task *)
              else
                let s_run := {| tasks := tasks s; sync_owner := sync_owner s; chan_lock := chan_lock s;
                                running := set_key (t_thread t) i (running s) |} in
                let advance_h (hold : option nat) (s' : lstate) := LOk (with_task s' i {| t_thread := t_thread t; t_prog := rest; t_status := Ready; t_async := hold |}) in
                let advance_ := advance_h (t_async t) in
                let yield_ (s' : lstate) (st : tstatus) (prog : program) :=
                  LOk {| tasks := set_nth i {| t_thread := t_thread t; t_prog := prog; t_status := st; t_async := t_async t |} (tasks s');
                         sync_owner := sync_owner s'; chan_lock := chan_lock s';
                         running := remove_key (t_thread t) (running s') |} in
                match a with
                | SyncAcq l =>
                    match lookup l (sync_owner s) with
                    | Some o => if (o =? i)%nat then LNoop else LBlockedThread (t_thread t) l o
                    | None => advance_ {| tasks := tasks s_run; sync_owner := set_key l i (sync_owner s_run);
                                          chan_lock := chan_lock s_run; running := running s_run |}
                    end
                | SyncRel l =>
                    advance_ {| tasks := tasks s_run; sync_owner := remove_key l (sync_owner s_run);
                                chan_lock := chan_lock s_run; running := running s_run |}
                | AsyncAcqR c =>
                    match chan_state s c with
                    | RFree => advance_h (Some c) {| tasks := tasks s_run; sync_owner := sync_owner s_run;
                                           chan_lock := set_key c (RRead 1) (chan_lock s_run); running := running s_run |}
                    | RRead n => advance_h (Some c) {| tasks := tasks s_run; sync_owner := sync_owner s_run;
                                             chan_lock := set_key c (RRead (S n)) (chan_lock s_run); running := running s_run |}
                    | RWrite => yield_ s_run Ready (a :: rest)       (* parks; retried when rescheduled *)
                    end
                | AsyncAcqW c =>
                    match chan_state s c with
                    | RFree => advance_h (Some c) {| tasks := tasks s_run; sync_owner := sync_owner s_run;
                                           chan_lock := set_key c RWrite (chan_lock s_run); running := running s_run |}
                    | _ => yield_ s_run Ready (a :: rest)
                    end
                | AsyncRel c =>
                    let st' := match chan_state s c with
                               | RRead (S (S n)) => RRead (S n)
                               | _ => RFree
                               end in
                    advance_h None {| tasks := tasks s_run; sync_owner := sync_owner s_run;
                                chan_lock := set_key c st' (chan_lock s_run); running := running s_run |}
                | AwaitMod => yield_ s_run Parked rest
                | Reply => advance_ s_run
                end
          | Ready, [] =>
              LOk {| tasks := set_nth i {| t_thread := t_thread t; t_prog := []; t_status := Done; t_async := t_async t |} (tasks s);
                     sync_owner := sync_owner s; chan_lock := chan_lock s;
                     running := if thread_free_for s i (t_thread t) then remove_key (t_thread t) (running s) else running s |}
          | _, _ => LNoop
          end
      end
  | ModAnswer i =>
      match nth_error (tasks s) i with
      | Some t => match t_status t with
                  | Parked => LOk (with_task s i {| t_thread := t_thread t; t_prog := t_prog t; t_status := Ready; t_async := t_async t |})
                  | _ => LNoop
                  end
      | None => LNoop
      end
  | Cancel i =>
      match nth_error (tasks s) i with
      | Some t => match t_status t with
                  | Parked =>
                      (* dropping the future releases the channel lock it may hold (guards are dropped) *)
                      LOk {| tasks := set_nth i {| t_thread := t_thread t; t_prog := []; t_status := Done; t_async := None |} (tasks s);
                             sync_owner := filter (fun e => negb (snd e =? i)%nat) (sync_owner s);
                             chan_lock := match t_async t with
                                          | Some c => set_key c (match chan_state s c with RRead (S (S n)) => RRead (S n) | _ => RFree end) (chan_lock s)
                                          | None => chan_lock s
                                          end;
                             running := running s |}
                  | _ => LNoop
                  end
      | None => LNoop
      end
  end.

(* a wedge: thread `th` is blocked on a sync lock whose owner cannot run: the owner is parked or done,
   or lives on the blocked thread itself, or is not the task its own thread is executing.  (An owner
   that is the running task of ANOTHER thread is merely inside its critical section and will leave it.) *)
Definition owner_stuck (s : lstate) (th o : nat) : bool :=
  match nth_error (tasks s) o with
  | Some t => match t_status t with
              | Ready => (t_thread t =? th)%nat
                         || match lookup (t_thread t) (running s) with
                            | Some j => negb (j =? o)%nat
                            | None => true
                            end
              | _ => true
              end
  | None => true
  end.

Fixpoint lrun (s : lstate) (evs : list sev) : lstate * option (nat * nat * nat) (* first wedge *) :=
  match evs with
  | [] => (s, None)
  | e :: r => match lstep s e with
              | LOk s' => lrun s' r
              | LNoop => lrun s r
              | LBlockedThread th l o => if owner_stuck s th o then (s, Some (th, l, o)) else lrun s r
              end
  end.

Definition mk_tasks (l : list (nat * program)) : lstate :=
  {| tasks := map (fun tp => {| t_thread := fst tp; t_prog := snd tp; t_status := Ready; t_async := None |}) l;
     sync_owner := []; chan_lock := []; running := [] |}.
