(* Deadlines and keep-alive of one connection (crates/common/src/conn.rs: schedule_timeout,
   run_ping_loop, dispatch_message's activity counter and pong mailbox; heartbeat clamping in the
   CONNECT handlers).  Virtual clock in milliseconds.  Definitions only. *)
From NW Require Import Base.Bytes.

Record tcfg := { connect_to : N; auth_to : N; hb_min : N; hb_max : N }.

(* heartbeat negotiation (C2S / S2M / M2S CONNECT handlers) *)
Definition negotiate (c : tcfg) (req : N) : N :=
  if req =? 0 then hb_max c
  else if req <? hb_min c then hb_min c
  else if hb_max c <? req then hb_max c
  else req.

Inductive tstate :=
| TConnecting (deadline : N)
| TConnected (deadline hb : N)
| TIdle (wake hb last cnt : N) (mailbox : bool)   (* ping task sleeping until `wake`; mailbox = an unsolicited PONG is queued *)
| TPingWait (deadline hb cnt : N)                  (* PING sent, waiting for its PONG *)
| TClosed.

Inductive tout :=
| EPing (at_ : N)
| ETimeout (at_ : N)         (* ERROR reason=TIMEOUT + close *)
| EBadPong (at_ : N).        (* ERROR reason=BAD_REQUEST "wrong pong id" + close *)

(* let the clock run up to `now` (inclusive): fire every timer whose deadline has passed *)
Fixpoint advance (fuel : nat) (s : tstate) (now : N) : tstate * list tout :=
  match fuel with
  | O => (s, [])
  | S f =>
      match s with
      | TConnecting d => if d <=? now then (TClosed, [ETimeout d]) else (s, [])
      | TConnected d _ => if d <=? now then (TClosed, [ETimeout d]) else (s, [])
      | TIdle wake hb last cnt mb =>
          if wake <=? now then
            if negb (cnt =? last) then advance f (TIdle (wake + hb) hb cnt cnt mb) now   (* activity: no ping *)
            else if mb then (TClosed, [EPing wake; EBadPong wake])   (* a stale PONG answers the new PING: wrong id *)
            else let '(s', o) := advance f (TPingWait (wake + 3 * hb) hb cnt) now in (s', EPing wake :: o)
          else (s, [])
      | TPingWait d _ _ => if d <=? now then (TClosed, [ETimeout d]) else (s, [])
      | TClosed => (s, [])
      end
  end.

Inductive tin :=
| IConnect (hb_req : N)    (* a valid CONNECT is processed *)
| IIdentify                (* authentication completes *)
| IRequest                 (* any non-PONG frame dispatched in the authenticated state *)
| IPongOk | IPongBad       (* PONG carrying the id of the outstanding PING / another id *)
| IRefused                 (* a pre-authentication frame answered without a phase change: IDENTIFY refused with a
                              recoverable error (USERNAME_IN_USE), AUTH answered with a failure or a challenge *)
| IObserve.                (* nothing happens; just look at the clock *)

Definition fuel_for (c : tcfg) (span : N) : nat := N.to_nat (span / N.max (hb_min c) 1) + 4.

(* one input at time `now` (the clock first runs up to `now`) *)
Definition tstep (c : tcfg) (t0 : N) (s : tstate) (now : N) (i : tin) : tstate * list tout :=
  let '(s1, o1) := advance (fuel_for c (now - t0)) s now in
  let '(s2, o2) :=
    match s1, i with
    | TConnecting _, IConnect req => (TConnected (now + auth_to c) (negotiate c req), [])
    | TConnected _ hb, IIdentify => (TIdle (now + hb) hb 0 0 false, [])
    | TIdle w hb last cnt mb, IRequest => (TIdle w hb last (cnt + 1) mb, [])
    | TPingWait d hb cnt, IRequest => (TPingWait d hb (cnt + 1), [])
    | TPingWait d hb cnt, IPongOk => (TIdle (now + hb) hb cnt cnt false, [])
    | TPingWait d hb cnt, IPongBad => (TClosed, [EBadPong now])
    | TIdle w hb last cnt _, (IPongOk | IPongBad) => (TIdle w hb last cnt true, [])   (* unsolicited: sits in the mailbox *)
    | _, _ => (s1, [])
    end in
  (s2, o1 ++ o2).

Fixpoint trun (c : tcfg) (t0 : N) (s : tstate) (evs : list (N * tin)) : tstate * list tout :=
  match evs with
  | [] => (s, [])
  | (now, i) :: r => let '(s1, o1) := tstep c t0 s now i in
                     let '(s2, o2) := trun c t0 s1 r in (s2, o1 ++ o2)
  end.

Definition topen (c : tcfg) (t0 : N) : tstate := TConnecting (t0 + connect_to c).
