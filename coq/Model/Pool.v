(* BucketedPool geometry (crates/util/src/pool.rs: new_with_memory_budget, acquire_buffer). *)
From NW Require Import Base.Bytes.

(* bucket sizes min, min*g, ... <= max  (ascending) *)
Fixpoint sizes_fuel (fuel : nat) (cur max g : N) : list N :=
  match fuel with
  | O => []
  | S f => if cur <=? max then cur :: sizes_fuel f (cur * g) max g else []
  end.
Definition ladder (min max g : N) : list N := sizes_fuel 80 min max g.
(* the ladder, plus `max` itself as top bucket when the ladder stops short of it *)
Definition bucket_sizes (min max g : N) : list N :=
  let l := ladder min max g in
  match rev l with
  | last :: _ => if last <? max then l ++ [max] else l
  | [] => l
  end.

(* top-down allocation over sizes in descending order; decay = dn/dd (0.5 = 1/2);
   floor(remaining * decay) is exact in f64 below 2^53 *)
Fixpoint alloc (desc : list N) (remaining cap dn dd : N) : list (N * N) :=
  match desc with
  | [] => []
  | size :: rest =>
      let target := match rest with [] => remaining | _ => N.min (remaining * dn / dd) remaining end in
      let count := N.min (target / size) cap in
      if 0 <? count then (count, size) :: alloc rest (remaining - count * size) cap dn dd
      else alloc rest remaining cap dn dd
  end.

(* (count, size) ascending by size *)
Definition geometry (min max budget cap g dn dd : N) : list (N * N) :=
  rev (alloc (rev (bucket_sizes min max g)) budget cap dn dd).

(* which bucket serves a request when every bucket has a free buffer: the first suitable *)
Definition bucket_for (geo : list (N * N)) (size : N) : option N :=
  match filter (fun b => size <=? snd b) geo with
  | [] => None
  | b :: _ => Some (snd b)
  end.

Definition total_bytes (geo : list (N * N)) : N := fold_right (fun b acc => fst b * snd b + acc) 0 geo.
Definition total_count (geo : list (N * N)) : N := fold_right (fun b acc => fst b + acc) 0 geo.
