(* Sequential model of the C2S server logic:
     crates/server/src/c2s/conn.rs   (C2sDispatcher: per-state message handling)
     crates/server/src/channel/mod.rs (ChannelManager, Channel, Acl)
     crates/server/src/c2s/router.rs, router/mod.rs, notifier/mod.rs
     crates/common/src/conn.rs       (dispatch_message / notify_error / shutdown, in-flight gate)
   One op = one client action processed to quiescence (every modulator call is answered
   immediately from the op's script).  Identifiers are the real strings.  Definitions only. *)
From NW Require Import Base.Bytes Model.SchemaTypes Model.Codec Model.MsgInfo Model.Pool Model.Framing Model.Ids Gen.Schema Gen.Errors.


(* ---------- generic helpers ---------- *)
Fixpoint alookup {A} (k : str) (l : list (str * A)) : option A :=
  match l with
  | [] => None
  | (k', v) :: r => if list_eqb k k' then Some v else alookup k r
  end.
Fixpoint aremove {A} (k : str) (l : list (str * A)) : list (str * A) :=
  match l with
  | [] => []
  | (k', v) :: r => if list_eqb k k' then aremove k r else (k', v) :: aremove k r
  end.
Definition aset {A} (k : str) (v : A) (l : list (str * A)) : list (str * A) := (k, v) :: aremove k l.

Definition smem (x : str) (l : list str) : bool := existsb (list_eqb x) l.
Definition sadd (x : str) (l : list str) : list str := if smem x l then l else l ++ [x].
Definition sdel (x : str) (l : list str) : list str := filter (fun y => negb (list_eqb x y)) l.

Definition nmem (x : nid) (l : list nid) : bool := existsb (nid_eqb x) l.
Definition nadd (x : nid) (l : list nid) : list nid := if nmem x l then l else l ++ [x].
Definition ndel (x : nid) (l : list nid) : list nid := filter (fun y => negb (nid_eqb x y)) l.

Fixpoint insert_by {A} (lt : A -> A -> bool) (x : A) (l : list A) : list A :=
  match l with
  | [] => [x]
  | y :: r => if lt x y then x :: l else y :: insert_by lt x r
  end.
Definition sort_by {A} (lt : A -> A -> bool) (l : list A) : list A := fold_right (insert_by lt) [] l.

Definition isempty {A} (l : list A) : bool := match l with [] => true | _ => false end.

(* ---------- building and reading generic messages by parameter name ---------- *)
Fixpoint find_kind (sch : list kschema) (i : nat) (name : str) : option (nat * kschema) :=
  match sch with
  | [] => None
  | k :: r => if list_eqb name (k_name k) then Some (i, k) else find_kind r (S i) name
  end.

Definition build (name : string) (vals : list (str * fval)) : msg :=
  match find_kind schema 0 (bs name) with
  | Some (i, k) =>
      {| m_kind := i;
         m_fields := map (fun f => match alookup (f_param f) vals with Some v => v | None => default_val f end) (k_fields k) |}
  | None => {| m_kind := 0; m_fields := [] |}
  end.

Definition kind_name (m : msg) : str :=
  match nth_error schema (m_kind m) with Some k => k_name k | None => [] end.
Definition is_kind (m : msg) (name : string) : bool := list_eqb (kind_name m) (bs name).

Definition getf (m : msg) (p : string) : option fval :=
  match nth_error schema (m_kind m) with
  | Some k => option_map snd (field_by_param (k_fields k) (m_fields m) (bs p))
  | None => None
  end.
Definition get_str (m : msg) (p : string) : str :=
  match getf m p with Some (VStr s) => s | Some (VOStr (Some s)) => s | _ => [] end.
Definition get_ostr (m : msg) (p : string) : option str :=
  match getf m p with Some (VOStr o) => o | Some (VStr s) => Some s | _ => None end.
Definition get_num (m : msg) (p : string) : N :=
  match getf m p with Some (VNum n) => n | Some (VONum (Some n)) => n | _ => 0 end.
Definition get_onum (m : msg) (p : string) : option N :=
  match getf m p with Some (VONum o) => o | Some (VNum n) => Some n | _ => None end.
Definition get_bool (m : msg) (p : string) : bool :=
  match getf m p with Some (VBool b) => b | Some (VOBool (Some b)) => b | _ => false end.
Definition get_vec (m : msg) (p : string) : list str :=
  match getf m p with Some (VVec l) => l | _ => [] end.

(* ---------- errors ---------- *)
Inductive perr :=
| PErr (id : option N) (reason : string)     (* narwhal_protocol::Error; reason = wire string *)
| PInternal.                                 (* any other anyhow error: INTERNAL_SERVER_ERROR, close *)

Fixpoint variant_of_wire (w : str) (t : list (string * list N)) : option string :=
  match t with
  | [] => None
  | (v, s) :: r => if list_eqb w s then Some v else variant_of_wire w r
  end.
Definition is_recoverable (reason : string) : bool :=
  match variant_of_wire (bs reason) reason_to_str with
  | Some v => existsb (String.eqb v) recoverable
  | None => false
  end.

Definition err_msg (id : option N) (reason : string) : msg :=
  build "ERROR" [(bs "id", VONum id); (bs "reason", VStr (bs reason))].

(* ---------- ACL ---------- *)
Definition acl := list (str * list str).       (* domain -> users; an empty user set = bare domain *)

Definition acl_add (a : acl) (n : nid) : acl :=
  let us := match alookup (nd n) a with Some us => us | None => [] end in
  let us' := match nu n with [] => us | u => sadd u us end in
  match alookup (nd n) a with
  | Some _ => map (fun e => if list_eqb (fst e) (nd n) then (fst e, us') else e) a
  | None => a ++ [(nd n, us')]
  end.
Definition acl_remove (a : acl) (n : nid) : acl :=
  match alookup (nd n) a with
  | Some us => let us' := sdel (nu n) us in
               if isempty us' then aremove (nd n) a
               else map (fun e => if list_eqb (fst e) (nd n) then (fst e, us') else e) a
  | None => a
  end.
Definition acl_update (a : acl) (ns : list nid) (add : bool) : acl :=
  fold_left (fun acc n => if add then acl_add acc n else acl_remove acc n) ns a.

Definition acl_allowed (a : acl) (n : nid) : bool :=
  match a with
  | [] => true
  | _ => match alookup (nd n) a with
         | Some us => if isempty us then true else smem (nu n) us
         | None => false
         end
  end.

Definition nid_lt (x y : nid) : bool :=
  if bytes_ltb (nu x) (nu y) then true
  else if bytes_ltb (nu y) (nu x) then false
  else bytes_ltb (nd x) (nd y).

Definition acl_allow_list (a : acl) : list nid :=
  sort_by nid_lt (flat_map (fun e => match snd e with
                                     | [] => [{| nu := []; nd := fst e |}]
                                     | us => map (fun u => {| nu := u; nd := fst e |}) us
                                     end) a).
Definition acl_total (a : acl) : N :=
  fold_right (fun e acc => N.max (N.of_nat (length (snd e))) 1 + acc) 0 a.

(* ---------- state ---------- *)
Record chan := {
  ch_owner : option nid; ch_members : list nid;
  ch_max_clients : N; ch_max_payload : N;
  ch_join : acl; ch_pub : acl; ch_read : acl;
  ch_targets : list nid }.

Inductive phase := Connecting | Connected | Authenticated.
Record conn := { c_phase : phase; c_nid : option nid; c_hb : N }.

Record scfg := {
  domain : str;
  has_mod : bool; op_auth : bool; op_fbp : bool; op_fev : bool; op_spp : bool;
  proto : str;
  max_clients : N; max_subs : N; max_payload_cfg : N; max_inflight : N; max_message : N;
  keepalive : N; min_keepalive : N; max_conns : N;
  pool_budget : N; max_channels : N }.
Definition auth_required (c : scfg) : bool := has_mod c && op_auth c.

Record state := {
  conns : list (N * conn);
  router : list (str * list N);          (* username -> handlers, registration order *)
  chans : list (str * chan);             (* channel handler -> channel *)
  inch : list (str * list str) }.        (* username -> full channel ids *)
Definition init : state := {| conns := []; router := []; chans := []; inch := [] |}.

Fixpoint nlookup {A} (k : N) (l : list (N * A)) : option A :=
  match l with [] => None | (k', v) :: r => if k =? k' then Some v else nlookup k r end.
Definition nremove {A} (k : N) (l : list (N * A)) : list (N * A) := filter (fun e => negb (k =? fst e)) l.
Definition nset {A} (k : N) (v : A) (l : list (N * A)) : list (N * A) := (k, v) :: nremove k l.

(* ---------- modulator script and outputs ---------- *)
Inductive moutcome :=
| MOk | MErr | MInvalid | MAltered (p : list N)
| MAuthSuccess (u : str) | MAuthContinue (c : str) | MAuthFail.

Inductive modcall :=
| McAuth (token : str)
| McFbp (from : str) (channel : str) (payload : list N)
| McEvent (kind : str) (channel : str) (nid : str) (owner : bool)
| McSpp (from : str) (payload : list N).

Inductive out :=
| OSend (h : N) (m : msg) (p : option (list N))
| OClose (h : N) (m : msg)          (* error frame written, then the connection ends *)
| OOverloaded (h : N)               (* raw SERVER_OVERLOADED line, connection refused *)
| ODrop (h : N)                     (* the connection ends without an error frame *)
| OMod (c : modcall).

Record ctx := { st : state; script : list moutcome; hints : list (str * nid); outs : list out; closing : list N }.

Definition emit (o : out) (c : ctx) : ctx :=
  {| st := st c; script := script c; hints := hints c; outs := outs c ++ [o]; closing := closing c |}.
Definition with_st (s : state) (c : ctx) : ctx :=
  {| st := s; script := script c; hints := hints c; outs := outs c; closing := closing c |}.
Definition next_outcome (c : ctx) : moutcome * ctx :=
  match script c with
  | [] => (MOk, c)
  | o :: r => (o, {| st := st c; script := r; hints := hints c; outs := outs c; closing := closing c |})
  end.
Definition request_close (h : N) (m : msg) (c : ctx) : ctx :=
  if existsb (N.eqb h) (closing c) then c   (* close channel has capacity 1: the first close wins *)
  else {| st := st c; script := script c; hints := hints c; outs := outs c ++ [OClose h m]; closing := closing c ++ [h] |}.

Definition drop_conn (h : N) (c : ctx) : ctx :=
  if existsb (N.eqb h) (closing c) then c
  else {| st := st c; script := script c; hints := hints c; outs := outs c ++ [ODrop h]; closing := closing c ++ [h] |}.

(* routing: every live connection of each local target, except the excluded handler *)
Definition route (cfg : scfg) (m : msg) (p : option (list N)) (targets : list nid) (excl : option N) (c : ctx) : ctx :=
  fold_left (fun acc t =>
               if list_eqb (nd t) (domain cfg) then
                 match alookup (nu t) (router (st acc)) with
                 | Some hs => fold_left (fun acc2 h => match excl with
                                                      | Some e => if h =? e then acc2 else emit (OSend h m p) acc2
                                                      | None => emit (OSend h m p) acc2
                                                      end) hs acc
                 | None => acc
                 end
               else acc) targets c.

Definition event_msg (kind chan_full nidf : str) (owner : bool) : msg :=
  build "EVENT" [(bs "kind", VStr kind); (bs "channel", VOStr (Some chan_full));
                 (bs "nid", VOStr (Some nidf)); (bs "owner", VOBool (Some owner))].

(* Notifier::notify : true = ok, false = the modulator's event forwarding failed *)
Definition notify (cfg : scfg) (kind : string) (handler : str) (n : nid) (owner : bool)
           (targets : list nid) (excl : option N) (c : ctx) : bool * ctx :=
  let chf := chan_full handler (domain cfg) in
  let '(ok, c1) :=
    if has_mod cfg && op_fev cfg then
      let c0 := emit (OMod (McEvent (bs kind) chf (nid_full n) owner)) c in
      let '(o, c0') := next_outcome c0 in
      (match o with MErr => false | _ => true end, c0')
    else (true, c) in
  if ok then (true, route cfg (event_msg (bs kind) chf (nid_full n) owner) None targets excl c1)
  else (false, c1).

Definition targets_of (ch : chan) : list nid := filter (acl_allowed (ch_read ch)) (ch_members ch).
Definition retarget (ch : chan) : chan :=
  {| ch_owner := ch_owner ch; ch_members := ch_members ch; ch_max_clients := ch_max_clients ch;
     ch_max_payload := ch_max_payload ch; ch_join := ch_join ch; ch_pub := ch_pub ch; ch_read := ch_read ch;
     ch_targets := targets_of ch |}.
Definition insert_member (ch : chan) (n : nid) : chan :=
  retarget {| ch_owner := match ch_owner ch with None => Some n | o => o end; ch_members := nadd n (ch_members ch);
              ch_max_clients := ch_max_clients ch; ch_max_payload := ch_max_payload ch;
              ch_join := ch_join ch; ch_pub := ch_pub ch; ch_read := ch_read ch; ch_targets := ch_targets ch |}.
Definition is_owner (ch : chan) (n : nid) : bool :=
  match ch_owner ch with Some o => nid_eqb o n | None => false end.
Definition remove_member (ch : chan) (n : nid) : chan :=
  retarget {| ch_owner := if is_owner ch n then None else ch_owner ch; ch_members := ndel n (ch_members ch);
              ch_max_clients := ch_max_clients ch; ch_max_payload := ch_max_payload ch;
              ch_join := ch_join ch; ch_pub := ch_pub ch; ch_read := ch_read ch; ch_targets := ch_targets ch |}.
Definition set_owner (ch : chan) (o : option nid) : chan :=
  {| ch_owner := o; ch_members := ch_members ch; ch_max_clients := ch_max_clients ch; ch_max_payload := ch_max_payload ch;
     ch_join := ch_join ch; ch_pub := ch_pub ch; ch_read := ch_read ch; ch_targets := ch_targets ch |}.
Definition set_acl (ch : chan) (ty : str) (a : acl) : chan :=
  retarget {| ch_owner := ch_owner ch; ch_members := ch_members ch; ch_max_clients := ch_max_clients ch;
              ch_max_payload := ch_max_payload ch;
              ch_join := if list_eqb ty (bs "join") then a else ch_join ch;
              ch_pub := if list_eqb ty (bs "publish") then a else ch_pub ch;
              ch_read := if list_eqb ty (bs "read") then a else ch_read ch;
              ch_targets := ch_targets ch |}.
Definition get_acl (ch : chan) (ty : str) : acl :=
  if list_eqb ty (bs "join") then ch_join ch else if list_eqb ty (bs "publish") then ch_pub ch else ch_read ch.
Definition set_config (ch : chan) (mc mp : N) : chan :=
  {| ch_owner := ch_owner ch; ch_members := ch_members ch;
     ch_max_clients := if 0 <? mc then mc else ch_max_clients ch;
     ch_max_payload := if 0 <? mp then mp else ch_max_payload ch;
     ch_join := ch_join ch; ch_pub := ch_pub ch; ch_read := ch_read ch; ch_targets := ch_targets ch |}.

Definition put_chan (h : str) (ch : chan) (s : state) : state :=
  {| conns := conns s; router := router s;
     chans := match alookup h (chans s) with
              | Some _ => map (fun e => if list_eqb (fst e) h then (h, ch) else e) (chans s)
              | None => chans s ++ [(h, ch)]
              end;
     inch := inch s |}.
Definition del_chan (h : str) (s : state) : state :=
  {| conns := conns s; router := router s; chans := aremove h (chans s); inch := inch s |}.
Definition set_inch (i : list (str * list str)) (s : state) : state :=
  {| conns := conns s; router := router s; chans := chans s; inch := i |}.
Definition set_router (r : list (str * list N)) (s : state) : state :=
  {| conns := conns s; router := r; chans := chans s; inch := inch s |}.
Definition set_conns (cs : list (N * conn)) (s : state) : state :=
  {| conns := cs; router := router s; chans := chans s; inch := inch s |}.

Definition has_connection (s : state) (u : str) : bool :=
  match alookup u (router s) with Some hs => negb (isempty hs) | None => false end.

Definition index_add (u : str) (cf : str) (s : state) : state :=
  let cur := match alookup u (inch s) with Some l => l | None => [] end in
  set_inch (match alookup u (inch s) with
            | Some _ => map (fun e => if list_eqb (fst e) u then (u, sadd cf cur) else e) (inch s)
            | None => inch s ++ [(u, [cf])]
            end) s.
Definition index_del (u : str) (cf : str) (s : state) : state :=
  match alookup u (inch s) with
  | Some l => let l' := sdel cf l in
              set_inch (if isempty l' then aremove u (inch s)
                        else map (fun e => if list_eqb (fst e) u then (u, l') else e) (inch s)) s
  | None => s
  end.

(* ---------- pagination (after the arithmetic fix: page 0 is page 1, no wrap-around) ---------- *)
Definition paginate {A} (page size : N) (l : list A) : list A :=
  let page := N.max page 1 in
  let start := (page - 1) * size in
  let len := N.of_nat (length l) in
  (* (never convert a client-controlled number to nat: clamp to the list length first) *)
  if len <=? start then [] else firstn (N.to_nat (N.min size len)) (skipn (N.to_nat start) l).

Definition opt_default (o : option N) (d : N) : N := match o with Some v => v | None => d end.

(* ---------- request handlers: (ctx, None) = Ok, (ctx, Some e) = Err e ---------- *)
Definition hres := (ctx * option perr)%type.
Definition ok (c : ctx) : hres := (c, None).
Definition fail (c : ctx) (e : perr) : hres := (c, Some e).

Section Handlers.
  Variable cfg : scfg.

  Definition local (d : str) : bool := list_eqb d (domain cfg).

  Definition new_chan : chan :=
    {| ch_owner := None; ch_members := []; ch_max_clients := max_clients cfg; ch_max_payload := max_payload_cfg cfg;
       ch_join := []; ch_pub := []; ch_read := []; ch_targets := [] |}.

  Definition h_join (h : N) (me : nid) (m : msg) (c : ctx) : hres :=
    let id := get_num m "id" in
    match chan_parse (get_str m "channel") with
    | None => fail c (PErr None "BAD_REQUEST")
    | Some (hd, dom) =>
        let ob := match get_ostr m "on_behalf" with
                  | Some s => match nid_parse s with Some n => Some (Some n) | None => None end
                  | None => Some None
                  end in
        match ob with
        | None => fail c (PErr None "BAD_REQUEST")
        | Some on_behalf =>
            if negb (local dom) then fail c (PErr (Some id) "NOT_IMPLEMENTED")
            else if match alookup hd (chans (st c)) with Some _ => false | None => true end
                    && (max_channels cfg <=? N.of_nat (length (chans (st c))))
                 then fail c (PErr (Some id) "SERVER_OVERLOADED")
            else
              let created := match alookup hd (chans (st c)) with Some _ => false | None => true end in
              let ch := match alookup hd (chans (st c)) with Some ch => ch | None => new_chan end in
              (* a refusal leaves no trace: the channel is only stored on success *)
              let refuse (e : perr) : hres := fail c e in
              let who :=
                match on_behalf with
                | Some n => if negb (is_owner ch me) then inl (PErr (Some id) "FORBIDDEN")
                            else if negb (local (nd n)) || negb (has_connection (st c) (nu n)) then inl (PErr (Some id) "USER_NOT_REGISTERED")
                            else inr n
                | None => inr me
                end in
              match who with
              | inl e => refuse e
              | inr n =>
                  if negb (acl_allowed (ch_join ch) n) then refuse (PErr (Some id) "NOT_ALLOWED")
                  else if nmem n (ch_members ch) then refuse (PErr (Some id) "USER_IN_CHANNEL")
                  else if ch_max_clients ch <=? N.of_nat (length (ch_members ch)) then refuse (PErr (Some id) "CHANNEL_IS_FULL")
                  else if max_subs cfg <=? N.of_nat (length (match alookup (nu n) (inch (st c)) with Some l => l | None => [] end))
                       then refuse (PErr (Some id) "POLICY_VIOLATION")
                  else
                    let ch1 := insert_member ch n in
                    let '(okn, c1) := notify cfg "MEMBER_JOINED" hd n created (ch_members ch1) (Some h) c in
                    if negb okn then fail c1 PInternal     (* rolled back: state unchanged *)
                    else
                      let s2 := index_add (nu n) (get_str m "channel") (put_chan hd ch1 (st c1)) in
                      ok (emit (OSend h (build "JOIN_ACK" [(bs "id", VNum id); (bs "channel", VStr (get_str m "channel"))]) None)
                               (with_st s2 c1))
              end
        end
    end.

  Definition hd_default (l : list nid) (d : nid) : nid := match l with x :: _ => x | [] => d end.

  (* leave_channel: `requester` = Some handler for a LEAVE request, None for the disconnect clean-up *)
  Definition leave_core (requester : option N) (id : N) (me : nid) (hd dom : str) (cf : str)
             (on_behalf : option nid) (c : ctx) : hres :=
    if negb (local dom) then fail c (PErr (Some id) "NOT_IMPLEMENTED")
    else match alookup hd (chans (st c)) with
         | None => fail c (PErr (Some id) "CHANNEL_NOT_FOUND")
         | Some ch =>
             let who := match on_behalf with
                        | Some n => if negb (is_owner ch me) then inl (PErr (Some id) "FORBIDDEN") else inr n
                        | None => inr me
                        end in
             match who with
             | inl e => fail c e
             | inr n =>
                 if negb (nmem n (ch_members ch)) then fail c (PErr (Some id) "USER_NOT_IN_CHANNEL")
                 else
                   let was_owner := is_owner ch n in
                   let '(ok_left, c1) := notify cfg "MEMBER_LEFT" hd n was_owner (ch_members ch) requester c in
                   let ch1 := remove_member ch n in
                   let s1 := index_del (nu n) cf (st c1) in
                   let '(ok_joined, c2) :=
                     if isempty (ch_members ch1) then (true, with_st (del_chan hd s1) c1)
                     else if was_owner then
                       let pick := match alookup hd (hints c1) with
                                   | Some o => if nmem o (ch_members ch1) then o else hd_default (ch_members ch1) n
                                   | None => hd_default (ch_members ch1) n
                                   end in
                       let ch2 := set_owner ch1 (Some pick) in
                       notify cfg "MEMBER_JOINED" hd pick true (ch_members ch2) None (with_st (put_chan hd ch2 s1) c1)
                     else (true, with_st (put_chan hd ch1 s1) c1) in
                   if negb ok_left then fail c2 PInternal
                   else
                     let c3 := match requester with
                               | Some h => emit (OSend h (build "LEAVE_ACK" [(bs "id", VNum id)]) None) c2
                               | None => c2
                               end in
                     if negb ok_joined then fail c3 PInternal else ok c3
             end
         end.

  Definition h_leave (h : N) (me : nid) (m : msg) (c : ctx) : hres :=
    let id := get_num m "id" in
    match chan_parse (get_str m "channel") with
    | None => fail c (PErr None "BAD_REQUEST")
    | Some (hd, dom) =>
        match get_ostr m "on_behalf" with
        | Some s => match nid_parse s with
                    | Some n => leave_core (Some h) id me hd dom (get_str m "channel") (Some n) c
                    | None => fail c (PErr None "BAD_REQUEST")
                    end
        | None => leave_core (Some h) id me hd dom (get_str m "channel") None c
        end
    end.

  (* leave_all_channels: every channel of the reverse index, failures do not stop the loop *)
  Definition leave_all (me : nid) (c : ctx) : ctx :=
    match alookup (nu me) (inch (st c)) with
    | None => c
    | Some cfs =>
        let c0 := with_st (set_inch (aremove (nu me) (inch (st c))) (st c)) c in
        fold_left (fun acc cf =>
                     match chan_parse cf with
                     | Some (hd, dom) => fst (leave_core None 0 me hd dom cf None acc)
                     | None => acc
                     end) cfs c0
    end.

  Definition h_channels (h : N) (me : nid) (m : msg) (c : ctx) : hres :=
    let id := get_num m "id" in
    let mine := match alookup (nu me) (inch (st c)) with Some l => l | None => [] end in
    let sel := if get_bool m "owner"
               then filter (fun cf => match chan_parse cf with
                                      | Some (hd, _) => match alookup hd (chans (st c)) with
                                                        | Some ch => is_owner ch me
                                                        | None => false
                                                        end
                                      | None => false
                                      end) mine
               else mine in
    let all := sort_by bytes_ltb sel in
    let page := N.max (opt_default (get_onum m "page") 1) 1 in
    let size := N.min (opt_default (get_onum m "page_size") 20) 50 in
    let pg := paginate page size all in
    let info := (length pg <? length all)%nat in
    ok (emit (OSend h (build "CHANNELS_ACK"
                             [(bs "id", VNum id); (bs "channels", VVec pg);
                              (bs "page", VONum (if info then Some page else None));
                              (bs "page_size", VONum (if info then Some size else None));
                              (bs "total_count", VONum (if info then Some (N.of_nat (length all)) else None))]) None) c).

  Definition h_members (h : N) (me : nid) (m : msg) (c : ctx) : hres :=
    let id := get_num m "id" in
    match chan_parse (get_str m "channel") with
    | None => fail c (PErr None "BAD_REQUEST")
    | Some (hd, dom) =>
        if negb (local dom) then fail c (PErr (Some id) "NOT_IMPLEMENTED")
        else match alookup hd (chans (st c)) with
             | None => fail c (PErr (Some id) "CHANNEL_NOT_FOUND")
             | Some ch =>
                 if negb (nmem me (ch_members ch)) then fail c (PErr (Some id) "USER_NOT_IN_CHANNEL")
                 else
                   let all := sort_by bytes_ltb (map nid_full (ch_members ch)) in
                   let page := N.max (opt_default (get_onum m "page") 1) 1 in
                   let size := N.min (opt_default (get_onum m "page_size") 20) 100 in
                   let pg := paginate page size all in
                   let info := (length pg <? length all)%nat in
                   ok (emit (OSend h (build "MEMBERS_ACK"
                                            [(bs "id", VNum id); (bs "channel", VStr (get_str m "channel")); (bs "members", VVec pg);
                                             (bs "page", VONum (if info then Some page else None));
                                             (bs "page_size", VONum (if info then Some size else None));
                                             (bs "total_count", VONum (if info then Some (N.of_nat (length all)) else None))]) None) c)
             end
    end.

  Definition h_get_acl (h : N) (me : nid) (m : msg) (c : ctx) : hres :=
    let id := get_num m "id" in
    match chan_parse (get_str m "channel") with
    | None => fail c (PErr None "BAD_REQUEST")
    | Some (hd, dom) =>
        if negb (local dom) then fail c (PErr (Some id) "NOT_ALLOWED")
        else match alookup hd (chans (st c)) with
             | None => fail c (PErr (Some id) "CHANNEL_NOT_FOUND")
             | Some ch =>
                 if negb (is_owner ch me) then fail c (PErr (Some id) "FORBIDDEN")
                 else
                   let all := map nid_full (acl_allow_list (get_acl ch (get_str m "type"))) in
                   let total := N.of_nat (length all) in
                   let '(nids, pinfo) :=
                     match get_onum m "page", get_onum m "page_size" with
                     | Some p, Some sz => (paginate p sz all, Some (N.max p 1, sz))
                     | _, _ => (all, None)
                     end in
                   ok (emit (OSend h (build "CHAN_ACL"
                                            [(bs "id", VNum id); (bs "channel", VStr (get_str m "channel"));
                                             (bs "type", VStr (get_str m "type")); (bs "nids", VVec nids);
                                             (bs "page", VONum (option_map fst pinfo));
                                             (bs "page_size", VONum (option_map snd pinfo));
                                             (bs "total_count", VONum (option_map (fun _ => total) pinfo))]) None) c)
             end
    end.

  Fixpoint parse_nids (l : list str) : option (list nid) :=
    match l with
    | [] => Some []
    | s :: r => match nid_parse s, parse_nids r with
                | Some n, Some ns => Some (n :: ns)
                | _, _ => None
                end
    end.

  Definition h_set_acl (h : N) (me : nid) (m : msg) (c : ctx) : hres :=
    let id := get_num m "id" in
    match chan_parse (get_str m "channel") with
    | None => fail c (PErr None "BAD_REQUEST")
    | Some (hd, dom) =>
        match parse_nids (get_vec m "nids") with
        | None => fail c (PErr None "BAD_REQUEST")
        | Some ns =>
            if negb (local dom) then fail c (PErr (Some id) "NOT_ALLOWED")
            else match alookup hd (chans (st c)) with
                 | None => fail c (PErr (Some id) "CHANNEL_NOT_FOUND")
                 | Some ch =>
                     if negb (is_owner ch me) then fail c (PErr (Some id) "FORBIDDEN")
                     else
                       let a := acl_update (get_acl ch (get_str m "type")) ns (list_eqb (get_str m "action") (bs "add")) in
                       if ch_max_clients ch <? acl_total a then fail c (PErr (Some id) "POLICY_VIOLATION")
                       else ok (emit (OSend h (build "SET_CHAN_ACL_ACK" [(bs "id", VNum id)]) None)
                                     (with_st (put_chan hd (set_acl ch (get_str m "type") a) (st c)) c))
                 end
        end
    end.

  Definition h_get_config (h : N) (me : nid) (m : msg) (c : ctx) : hres :=
    let id := get_num m "id" in
    match chan_parse (get_str m "channel") with
    | None => fail c (PErr None "BAD_REQUEST")
    | Some (hd, _) =>    (* no local-domain check in get_channel_configuration *)
        match alookup hd (chans (st c)) with
        | None => fail c (PErr (Some id) "CHANNEL_NOT_FOUND")
        | Some ch =>
            if negb (nmem me (ch_members ch)) then fail c (PErr (Some id) "FORBIDDEN")
            else ok (emit (OSend h (build "CHAN_CONFIG"
                                          [(bs "id", VNum id); (bs "channel", VStr (get_str m "channel"));
                                           (bs "max_clients", VNum (ch_max_clients ch));
                                           (bs "max_payload_size", VNum (ch_max_payload ch))]) None) c)
        end
    end.

  Definition h_set_config (h : N) (me : nid) (m : msg) (c : ctx) : hres :=
    let id := get_num m "id" in
    match chan_parse (get_str m "channel") with
    | None => fail c (PErr None "BAD_REQUEST")
    | Some (hd, dom) =>
        if negb (local dom) then fail c (PErr (Some id) "NOT_ALLOWED")
        else if max_clients cfg <? get_num m "max_clients" then fail c (PErr (Some id) "BAD_REQUEST")
        else if max_payload_cfg cfg <? get_num m "max_payload_size" then fail c (PErr (Some id) "BAD_REQUEST")
        else match alookup hd (chans (st c)) with
             | None => fail c (PErr (Some id) "CHANNEL_NOT_FOUND")
             | Some ch =>
                 if negb (is_owner ch me) then fail c (PErr (Some id) "FORBIDDEN")
                 else ok (emit (OSend h (build "SET_CHAN_CONFIG_ACK" [(bs "id", VNum id)]) None)
                               (with_st (put_chan hd (set_config ch (get_num m "max_clients") (get_num m "max_payload_size")) (st c)) c))
             end
    end.

  Definition h_broadcast (h : N) (me : nid) (m : msg) (payload : list N) (c : ctx) : hres :=
    let id := get_num m "id" in
    match chan_parse (get_str m "channel") with
    | None => fail c (PErr None "BAD_REQUEST")
    | Some (hd, dom) =>
        (* the modulator gate is consulted whenever a modulator exists *)
        let gate : (option (list N) * option perr) * ctx :=
          if has_mod cfg then
            let c0 := emit (OMod (McFbp (nid_full me) hd payload)) c in
            let '(o, c1) := next_outcome c0 in
            match o with
            | MAltered p' => ((Some p', None), c1)
            | MInvalid => ((None, Some (PErr (Some id) "BAD_REQUEST")), c1)
            | MErr => ((None, Some (PErr (Some id) "INTERNAL_SERVER_ERROR")), c1)
            | _ => ((Some payload, None), c1)
            end
          else ((Some payload, None), c) in
        match gate with
        | ((_, Some e), c1) => fail c1 e
        | ((None, None), c1) => fail c1 PInternal
        | ((Some p, None), c1) =>
            if negb (local dom) then fail c1 (PErr (Some id) "NOT_IMPLEMENTED")
            else match alookup hd (chans (st c1)) with
                 | None => fail c1 (PErr (Some id) "CHANNEL_NOT_FOUND")
                 | Some ch =>
                     if negb (nmem me (ch_members ch)) then fail c1 (PErr (Some id) "FORBIDDEN")
                     else if negb (acl_allowed (ch_pub ch) me) then fail c1 (PErr (Some id) "NOT_ALLOWED")
                     else if ch_max_payload ch <? N.of_nat (length p) then fail c1 (PErr (Some id) "POLICY_VIOLATION")
                     else
                       let ack := OSend h (build "BROADCAST_ACK" [(bs "id", VNum id)]) None in
                       let q0 := match get_onum m "qos" with Some 0 => true | _ => false end in
                       let c2 := if q0 then emit ack c1 else c1 in
                       let mm := build "MESSAGE" [(bs "from", VStr (nid_full me)); (bs "channel", VStr (get_str m "channel"));
                                                  (bs "length", VNum (N.of_nat (length p)))] in
                       let c3 := route cfg mm (Some p) (ch_targets ch) (Some h) c2 in
                       ok (if q0 then c3 else emit ack c3)
                 end
        end
    end.

  Definition h_mod_direct (h : N) (me : nid) (m : msg) (payload : list N) (c : ctx) : hres :=
    if negb (has_mod cfg) then fail c (PErr None "UNEXPECTED_MESSAGE")
    else if negb (op_spp cfg) then fail c (PErr None "UNEXPECTED_MESSAGE")
    else match get_onum m "id" with
         | None => fail c (PErr None "BAD_REQUEST")
         | Some id =>
             let c0 := emit (OMod (McSpp (nu me) payload)) c in
             let '(o, c1) := next_outcome c0 in
             match o with
             | MErr => fail c1 PInternal
             | MInvalid => fail c1 (PErr (Some id) "BAD_REQUEST")
             | _ => ok (emit (OSend h (build "MOD_DIRECT_ACK" [(bs "id", VNum id)]) None) c1)
             end
         end.

  Definition dispatch_auth (h : N) (me : nid) (m : msg) (p : option (list N)) (c : ctx) : hres :=
    let pl := match p with Some x => x | None => [] end in
    if is_kind m "BROADCAST" then h_broadcast h me m pl c
    else if is_kind m "GET_CHAN_ACL" then h_get_acl h me m c
    else if is_kind m "GET_CHAN_CONFIG" then h_get_config h me m c
    else if is_kind m "JOIN" then h_join h me m c
    else if is_kind m "LEAVE" then h_leave h me m c
    else if is_kind m "CHANNELS" then h_channels h me m c
    else if is_kind m "MEMBERS" then h_members h me m c
    else if is_kind m "MOD_DIRECT" then h_mod_direct h me m pl c
    else if is_kind m "SET_CHAN_ACL" then h_set_acl h me m c
    else if is_kind m "SET_CHAN_CONFIG" then h_set_config h me m c
    else fail c (PErr None "UNEXPECTED_MESSAGE").

  (* Conn::notify_error *)
  Definition notify_error (h : N) (e : perr) (c : ctx) : ctx :=
    match e with
    | PErr id reason => if is_recoverable reason then emit (OSend h (err_msg id reason) None) c
                        else request_close h (err_msg id reason) c
    | PInternal => request_close h (err_msg None "INTERNAL_SERVER_ERROR") c
    end.

  Definition set_conn (h : N) (cn : conn) (c : ctx) : ctx := with_st (set_conns (nset h cn (conns (st c))) (st c)) c.

  Definition negotiate_hb (req : N) : N :=
    if req =? 0 then keepalive cfg
    else if req <? min_keepalive cfg then min_keepalive cfg
    else if keepalive cfg <? req then keepalive cfg
    else req.

  Definition register (u : str) (h : N) (exclusive : bool) (s : state) : option state :=
    let cur := match alookup u (router s) with Some hs => hs | None => [] end in
    if exclusive && negb (isempty cur) then None
    else Some (set_router (match alookup u (router s) with
                           | Some _ => map (fun e => if list_eqb (fst e) u then (u, cur ++ [h]) else e) (router s)
                           | None => router s ++ [(u, [h])]
                           end) s).

  (* one decoded frame on connection h *)
  Definition on_frame (h : N) (m : msg) (p : option (list N)) (c : ctx) : ctx :=
    match nlookup h (conns (st c)) with
    | None => c
    | Some cn =>
        if existsb (N.eqb h) (closing c) then c else
        match c_phase cn with
        | Connecting =>
            if is_kind m "CONNECT" then
              if negb (get_num m "version" =? 1) then notify_error h (PErr None "UNSUPPORTED_PROTOCOL_VERSION") c
              else
                let hb := negotiate_hb (get_num m "heartbeat_interval") in
                let ack := build "CONNECT_ACK"
                             [(bs "auth_required", VBool (auth_required cfg));
                              (bs "application_protocol", VOStr (if has_mod cfg then Some (proto cfg) else None));
                              (bs "heartbeat_interval", VNum hb);
                              (bs "max_subscriptions", VNum (max_subs cfg));
                              (bs "max_message_size", VNum (max_message cfg));
                              (bs "max_payload_size", VNum (max_payload_cfg cfg));
                              (bs "max_inflight_requests", VNum (max_inflight cfg))] in
                set_conn h {| c_phase := Connected; c_nid := None; c_hb := hb |} (emit (OSend h ack None) c)
            else notify_error h (PErr None "UNEXPECTED_MESSAGE") c
        | Connected =>
            if is_kind m "AUTH" then
              if negb (auth_required cfg) then notify_error h (PErr None "UNEXPECTED_MESSAGE") c
              else
                let c0 := emit (OMod (McAuth (get_str m "token"))) c in
                let '(o, c1) := next_outcome c0 in
                match o with
                | MAuthSuccess u =>
                    match make_local_nid (domain cfg) u with
                    | None => notify_error h (PErr None "INTERNAL_SERVER_ERROR") c1
                    | Some n =>
                        match register (nu n) h false (st c1) with
                        | None => c1
                        | Some s2 =>
                            set_conn h {| c_phase := Authenticated; c_nid := Some n; c_hb := c_hb cn |}
                                     (emit (OSend h (build "AUTH_ACK" [(bs "succeeded", VOBool (Some true));
                                                                        (bs "nid", VOStr (Some (nid_full n)))]) None)
                                           (with_st s2 c1))
                        end
                    end
                | MAuthContinue ch => emit (OSend h (build "AUTH_ACK" [(bs "challenge", VOStr (Some ch))]) None) c1
                | MAuthFail => emit (OSend h (build "AUTH_ACK" [(bs "succeeded", VOBool (Some false))]) None) c1
                | _ => notify_error h (PErr None "INTERNAL_SERVER_ERROR") c1
                end
            else if is_kind m "IDENTIFY" then
              if auth_required cfg then notify_error h (PErr None "UNEXPECTED_MESSAGE") c
              else
                match make_local_nid (domain cfg) (trim (get_str m "username")) with
                | None => notify_error h (PErr None "BAD_REQUEST") c
                | Some n =>
                    match register (nu n) h true (st c) with
                    | None => notify_error h (PErr None "USERNAME_IN_USE") c
                    | Some s2 =>
                        set_conn h {| c_phase := Authenticated; c_nid := Some n; c_hb := c_hb cn |}
                                 (emit (OSend h (build "IDENTIFY_ACK" [(bs "nid", VStr (nid_full n))]) None) (with_st s2 c))
                    end
                end
            else notify_error h (PErr None "UNEXPECTED_MESSAGE") c
        | Authenticated =>
            if is_kind m "PONG" then c
            else if max_inflight cfg =? 0 then drop_conn h c   (* submit_request fails: loop breaks, nothing written *)
            else match c_nid cn with
                 | None => c
                 | Some me =>
                     let '(c1, r) := dispatch_auth h me m p c in
                     match r with
                     | None => c1
                     | Some e => notify_error h e c1
                     end
                 end
        end
    end.

  (* C2sDispatcher::shutdown: unregister; the last connection of a name leaves every channel *)
  Definition teardown (h : N) (c : ctx) : ctx :=
    match nlookup h (conns (st c)) with
    | None => c
    | Some cn =>
        let c0 := with_st (set_conns (nremove h (conns (st c))) (st c)) c in
        match c_nid cn with
        | None => c0
        | Some me =>
            match alookup (nu me) (router (st c0)) with
            | None => c0
            | Some hs =>
                let hs' := filter (fun x => negb (x =? h)) hs in
                if isempty hs' then leave_all me (with_st (set_router (aremove (nu me) (router (st c0))) (st c0)) c0)
                else with_st (set_router (map (fun e => if list_eqb (fst e) (nu me) then (fst e, hs') else e) (router (st c0))) (st c0)) c0
            end
        end
    end.

  (* run the teardown of every connection whose close was requested during this op *)
  Definition flush_closes (c : ctx) : ctx :=
    let c1 := fold_left (fun acc h => teardown h acc) (closing c) c in
    {| st := st c1; script := script c1; hints := hints c1; outs := outs c1; closing := [] |}.
End Handlers.

(* ---------- the connection read path in front of the dispatcher ---------- *)
Definition reader_cfg (cfg : scfg) : rcfg :=
  {| max_msg := N.to_nat (max_message cfg); max_payload := max_payload_cfg cfg;
     geo := geometry 256 (max_payload_cfg cfg) (pool_budget cfg) (max_conns cfg + max_conns cfg * 128) 2 1 2 |}.

Definition on_item (cfg : scfg) (h : N) (it : ritem) (c : ctx) : ctx :=
  match it with
  | Dispatch m p => on_frame cfg h m p c
  | EMaxLine => request_close h (err_msg None "POLICY_VIOLATION") c
  | EPayloadTooLarge id => request_close h (err_msg id "POLICY_VIOLATION") c
  | EBadRequest => request_close h (err_msg None "BAD_REQUEST") c
  | EInvalidPayload id => request_close h (err_msg id "BAD_REQUEST") c
  | EInternal => request_close h (err_msg None "INTERNAL_SERVER_ERROR") c
  | EofQuiet => c                       (* end of this chunk of whole frames *)
  | PanicPool | PanicDecode | RFuel => drop_conn h c
  end.

(* route_m2s_private_payload: MOD_DIRECT from=<domain> to every connection of each distinct target *)
Fixpoint dedup (l : list str) : list str :=
  match l with
  | [] => []
  | x :: r => x :: filter (fun y => negb (list_eqb x y)) (dedup r)
  end.
Definition direct_msg (cfg : scfg) (payload : list N) : msg :=
  build "MOD_DIRECT" [(bs "from", VStr (domain cfg)); (bs "length", VNum (N.of_nat (length payload)))].
Definition direct_outs (cfg : scfg) (s : state) (targets : list str) (payload : list N) : list out :=
  flat_map (fun t => match alookup t (router s) with
                     | Some hs => map (fun h => OSend h (direct_msg cfg payload) (Some payload)) hs
                     | None => []
                     end) targets.

(* ---------- operations ---------- *)
Inductive op :=
| Open (h : N)
| Frame (h : N) (m : msg) (payload : option (list N)) (script : list moutcome) (hints : list (str * nid))
| BadFrame (h : N)                                   (* an undecodable header line: BAD_REQUEST + close *)
| Bytes (h : N) (bytes : list N) (script : list moutcome) (hints : list (str * nid))
                                                     (* whole frames as written by the client *)
| Hangup (h : N) (script : list moutcome) (hints : list (str * nid))    (* the peer closes its end *)
| Direct (targets : list str) (payload : list N).                      (* M2S_MOD_DIRECT accepted from the modulator *)

Definition step (cfg : scfg) (s : state) (o : op) : state * list out :=
  match o with
  | Open h =>
      if max_conns cfg <=? N.of_nat (length (conns s)) then (s, [OOverloaded h])
      else (set_conns (nset h {| c_phase := Connecting; c_nid := None; c_hb := 0 |} (conns s)) s, [])
  | Frame h m p sc hi =>
      let c := {| st := s; script := sc; hints := hi; outs := []; closing := [] |} in
      let c1 := flush_closes cfg (on_frame cfg h m p c) in
      (st c1, outs c1)
  | BadFrame h =>
      let c := {| st := s; script := []; hints := []; outs := []; closing := [] |} in
      let c1 := match nlookup h (conns s) with
                | Some _ => flush_closes cfg (request_close h (err_msg None "BAD_REQUEST") c)
                | None => c
                end in
      (st c1, outs c1)
  | Bytes h bytes sc hi =>
      let c := {| st := s; script := sc; hints := hi; outs := []; closing := [] |} in
      let items := parse_stream schema Checked (reader_cfg cfg) bytes in
      let c1 := match nlookup h (conns s) with
                | Some _ => flush_closes cfg (fold_left (fun acc it => on_item cfg h it acc) items c)
                | None => c
                end in
      (st c1, outs c1)
  | Hangup h sc hi =>
      let c := {| st := s; script := sc; hints := hi; outs := []; closing := [] |} in
      let c1 := teardown cfg h c in
      (st c1, outs c1)
  | Direct targets payload =>
      (s, direct_outs cfg s (dedup targets) payload)
  end.

Fixpoint run (cfg : scfg) (s : state) (ops : list op) : list (list out) :=
  match ops with
  | [] => []
  | o :: r => let '(s', os) := step cfg s o in os :: run cfg s' r
  end.

Fixpoint run_state (cfg : scfg) (s : state) (ops : list op) : state :=
  match ops with
  | [] => s
  | o :: r => run_state cfg (fst (step cfg s o)) r
  end.
