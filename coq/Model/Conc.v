(* Interleaved model of the channel manager and the C2S router:
     crates/server/src/channel/mod.rs  (join_channel, leave_channel, leave_all_channels, broadcast_payload, list_members, list_channels)
     crates/server/src/c2s/router.rs   (register_connection, unregister_connection)
     crates/server/src/c2s/conn.rs     (C2sDispatcher::shutdown)
     crates/common/src/conn.rs         (submit_request: one task per request, cancelled when its connection ends,
                                        dropped at request_timeout; Conn::shutdown)
   Model/Server.v processes one client action to quiescence.  Here every request is a task that runs from one
   suspension point to the next: a modulator call (event forwarding, payload validation), a wait for a channel's
   write lock.  Between two suspension points a task is atomic (one worker thread: connections of a worker are
   spawn_local tasks of a current-thread runtime).  A schedule is a list of events [ev]; which task runs next, what the
   modulator answers and when, which connection goes away when, which request is dropped by its time-out are all
   chosen by the schedule.  The theorems (Proofs/ConcProofs.v) quantify over every schedule.
   Identifiers are numbers here (the strings are the business of Model/Server.v); allow-lists hold plain user ids
   (an empty list admits everybody; domains and bare-domain entries are the sequential model's business); pagination is
   left out.
   Two flags describe the source (read off it on every run, Gen/ConcFlags.v):
     ptr_check : after its wait for the channel lock a JOIN checks that the map still holds THAT channel object
                 (fix 8cc81f1; false = only that it holds some channel of that name)
     idx_early : a JOIN writes the user's channel index before its announcement can suspend it (fix 05c7804;
                 false = after the announcement, the channel lock released)
   Definitions only. *)
From Coq Require Import List NArith Bool.
Import ListNotations.
Open Scope N_scope.

Definition user := N.
Definition chan := N.
Definition oid := N.
Definition conn := N.
Definition tid := N.

Definition upd {A} (m : N -> A) (k : N) (v : A) : N -> A := fun x => if x =? k then v else m x.
Definition mem (u : N) (l : list N) : bool := existsb (N.eqb u) l.
Definition del (u : N) (l : list N) : list N := filter (fun x => negb (x =? u)) l.
Definition add (u : N) (l : list N) : list N := if mem u l then l else l ++ [u].
Definition isnil {A} (l : list A) : bool := match l with [] => true | _ => false end.
Definition len {A} (l : list A) : N := N.of_nat (length l).

Record ccfg := {
  fwd_event : bool;        (* the modulator declared event forwarding *)
  fwd_payload : bool;      (* a modulator exists: every broadcast payload is validated *)
  ptr_check : bool;
  idx_early : bool;
  c_max_subs : N;
  c_max_clients : N }.

(* a channel object (ChannelInner behind its Arc<RwLock>); objects are never destroyed, only taken out of the map *)
Record cobj := {
  members : list user; owner : option user;
  jacl : list user; pacl : list user; racl : list user;     (* join / publish / read allow-lists; [] = everybody *)
  targets : list user }.                                     (* cached delivery list: the members the read list admits *)
Definition empty_obj : cobj := {| members := []; owner := None; jacl := []; pacl := []; racl := []; targets := [] |}.
Definition allowed (a : list user) (u : user) : bool := isnil a || mem u a.
Definition is_owner (o : cobj) (u : user) : bool := match owner o with Some x => x =? u | None => false end.
(* ChannelInner::update_allowed_targets *)
Definition retarget (o : cobj) : cobj :=
  {| members := members o; owner := owner o; jacl := jacl o; pacl := pacl o; racl := racl o;
     targets := filter (allowed (racl o)) (members o) |}.
Definition obj_insert (o : cobj) (n : user) : cobj :=
  retarget {| members := add n (members o); owner := match owner o with None => Some n | x => x end;
              jacl := jacl o; pacl := pacl o; racl := racl o; targets := targets o |}.
Definition obj_remove (o : cobj) (n : user) : cobj :=
  retarget {| members := del n (members o); owner := if is_owner o n then None else owner o;
              jacl := jacl o; pacl := pacl o; racl := racl o; targets := targets o |}.
Definition obj_set_owner (o : cobj) (n : user) : cobj :=
  {| members := members o; owner := Some n; jacl := jacl o; pacl := pacl o; racl := racl o; targets := targets o |}.
(* allow-list types: 1 join, 2 publish, anything else read *)
Definition acl_of (o : cobj) (ty : N) : list user := if ty =? 1 then jacl o else if ty =? 2 then pacl o else racl o.
Definition obj_set_acl (o : cobj) (ty : N) (a : list user) : cobj :=
  retarget {| members := members o; owner := owner o;
              jacl := if ty =? 1 then a else jacl o;
              pacl := if ty =? 1 then pacl o else if ty =? 2 then a else pacl o;
              racl := if ty =? 1 then racl o else if ty =? 2 then racl o else a;
              targets := targets o |}.
Definition acl_update (a : list user) (us : list user) (adding : bool) : list user :=
  fold_left (fun acc u => if adding then add u acc else del u acc) us a.

Record gst := {
  objs : oid -> cobj;
  next_oid : oid;
  cmap : chan -> option oid;          (* ChannelManagerInner.channels *)
  idx : user -> list chan;            (* ChannelManagerInner.in_channels ([] = no entry) *)
  reg : user -> list conn;            (* c2s::Router.connections *)
  wl : oid -> option tid;             (* holder of the channel's write lock *)
  cuser : conn -> option user }.      (* the user a live connection authenticated as *)

Definition ginit : gst :=
  {| objs := fun _ => empty_obj; next_oid := 0; cmap := fun _ => None;
     idx := fun _ => []; reg := fun _ => []; wl := fun _ => None; cuser := fun _ => None |}.

Definition set_objs (g : gst) v := {| objs := v; next_oid := next_oid g; cmap := cmap g; idx := idx g; reg := reg g; wl := wl g; cuser := cuser g |}.
Definition set_next (g : gst) v := {| objs := objs g; next_oid := v; cmap := cmap g; idx := idx g; reg := reg g; wl := wl g; cuser := cuser g |}.
Definition set_cmap (g : gst) v := {| objs := objs g; next_oid := next_oid g; cmap := v; idx := idx g; reg := reg g; wl := wl g; cuser := cuser g |}.
Definition set_idx (g : gst) v := {| objs := objs g; next_oid := next_oid g; cmap := cmap g; idx := v; reg := reg g; wl := wl g; cuser := cuser g |}.
Definition set_reg (g : gst) v := {| objs := objs g; next_oid := next_oid g; cmap := cmap g; idx := idx g; reg := v; wl := wl g; cuser := cuser g |}.
Definition set_wl (g : gst) v := {| objs := objs g; next_oid := next_oid g; cmap := cmap g; idx := idx g; reg := reg g; wl := v; cuser := cuser g |}.
Definition set_cuser (g : gst) v := {| objs := objs g; next_oid := next_oid g; cmap := cmap g; idx := idx g; reg := reg g; wl := wl g; cuser := v |}.

Definition put_obj (g : gst) (o : oid) (b : cobj) : gst := set_objs g (upd (objs g) o b).
Definition lock (g : gst) (o : oid) (t : tid) : gst := set_wl g (upd (wl g) o (Some t)).
Definition unlock (g : gst) (o : oid) : gst := set_wl g (upd (wl g) o None).
Definition lock_free (g : gst) (o : oid) : bool := match wl g o with None => true | Some _ => false end.
Definition idx_add (g : gst) (u : user) (ch : chan) : gst := set_idx g (upd (idx g) u (add ch (idx g u))).
Definition idx_del (g : gst) (u : user) (ch : chan) : gst := set_idx g (upd (idx g) u (del ch (idx g u))).
Definition unmap (g : gst) (ch : chan) : gst := set_cmap g (upd (cmap g) ch None).

(* requests and the places where a request can be suspended *)
Inductive req :=
| RJoin (ch : chan) (ob : option user) (id : N)
| RLeave (ch : chan) (ob : option user) (id : N)
| RBcast (ch : chan) (payload : N) (id : N)
| RMembers (ch : chan) (id : N)
| RChannels (id : N)
| RSetAcl (ch : chan) (ty : N) (adding : bool) (us : list user) (id : N)
| RGetAcl (ch : chan) (ty : N) (id : N).

Inductive pc :=
| PStart (r : req)
| PJoinWait (ch : chan) (o : oid) (ob : option user) (id : N)                  (* waits for o's write lock *)
| PJoinNotify (ch : chan) (o : oid) (created : bool) (n : user) (id : N)       (* holds it; MEMBER_JOINED forwarded *)
| PLeaveWait (ch : chan) (o : oid) (ob : option user) (id : N)
| PLeaveN1 (ch : chan) (o : oid) (n : user) (was_owner : bool) (id : N)        (* holds it; MEMBER_LEFT forwarded *)
| PLeaveN2 (ch : chan) (o : oid) (ok1 : bool) (id : N)                         (* holds it; new owner's MEMBER_JOINED forwarded *)
| PBcastGate (ch : chan) (payload : N) (id : N)                                (* payload validation *)
| PBcastWait (ch : chan) (o : oid) (payload : N) (id : N)                      (* waits for o's read lock *)
| PMembersWait (ch : chan) (o : oid) (id : N)
| PSetAclWait (ch : chan) (o : oid) (ty : N) (adding : bool) (us : list user) (id : N)     (* waits for o's write lock *)
| PGetAclWait (ch : chan) (o : oid) (ty : N) (id : N)                                      (* waits for o's read lock *)
| PDone.

Record task := {
  t_conn : option conn;       (* the requesting connection; None = the clean-up after a user's last connection *)
  t_me : user;
  t_rest : list chan;         (* clean-up: channels still to leave *)
  t_pc : pc }.

(* error reasons (wire names in lib/conclib.py) *)
Definition E_FORBIDDEN := 1.
Definition E_USER_NOT_REGISTERED := 2.
Definition E_NOT_ALLOWED := 3.
Definition E_USER_IN_CHANNEL := 4.
Definition E_CHANNEL_IS_FULL := 5.
Definition E_POLICY_VIOLATION := 6.
Definition E_RESOURCE_CONFLICT := 7.
Definition E_CHANNEL_NOT_FOUND := 8.
Definition E_USER_NOT_IN_CHANNEL := 9.
Definition E_INTERNAL := 10.
Definition E_USERNAME_IN_USE := 11.
Definition closing_reason (r : N) : bool := (r =? E_POLICY_VIOLATION) || (r =? E_INTERNAL).

Definition K_JOINED := 1.
Definition K_LEFT := 2.
Definition A_JOIN := 1.
Definition A_LEAVE := 2.
Definition A_BCAST := 3.
Definition A_IDENT := 4.
Definition A_SETACL := 5.

Inductive cout :=
| OAck (c : conn) (id : N) (kind : N)
| OErr (c : conn) (id : N) (reason : N)          (* ERROR frame, the connection stays *)
| OClose (c : conn) (reason : N)                 (* ERROR frame, then the server ends the connection *)
| OEvent (c : conn) (kind : N) (ch : chan) (u : user) (own : bool)
| OMsg (c : conn) (ch : chan) (from : user) (payload : N)
| OMembers (c : conn) (id : N) (l : list user)
| OChannels (c : conn) (id : N) (l : list chan)
| OAcl (c : conn) (id : N) (l : list user)
| ODirect (c : conn) (payload : N)                (* MOD_DIRECT pushed by the modulator (M2S) *)
| OModEvent (kind : N) (ch : chan) (u : user) (own : bool)
| OModPayload (from : user) (ch : chan) (payload : N).

Definition err_out (tc : option conn) (id reason : N) : list cout :=
  match tc with
  | None => []                                      (* clean-up: failures are swallowed *)
  | Some c => if closing_reason reason then [OClose c reason] else [OErr c id reason]
  end.

Definition conns_of (g : gst) (us : list user) (excl : option conn) : list conn :=
  flat_map (fun u => filter (fun c => match excl with Some e => negb (c =? e) | None => true end) (reg g u)) us.
Definition events (g : gst) (targets : list user) (excl : option conn) (kind : N) (ch : chan) (n : user) (own : bool) : list cout :=
  map (fun c => OEvent c kind ch n own) (conns_of g targets excl).

Definition step_res := (gst * pc * list cout)%type.

Section Steps.
  Variable cf : ccfg.
  Variable t : tid.
  Variable tc : option conn.
  Variable me : user.

  (* --- JOIN --- *)
  Definition join_finish (g : gst) (ch : chan) (o : oid) (created : bool) (n : user) (id : N) (ok : bool) : step_res :=
    if ok then
      let g1 := if idx_early cf then g else idx_add g n ch in
      (unlock g1 o, PDone,
       events g (members (objs g o)) tc K_JOINED ch n created
       ++ match tc with Some c => [OAck c id A_JOIN] | None => [] end)
    else
      let g1 := put_obj g o (obj_remove (objs g o) n) in
      let g2 := if idx_early cf then idx_del g1 n ch else g1 in
      let g3 := if created then unmap g2 ch else g2 in
      (unlock g3 o, PDone, err_out tc id E_INTERNAL).

  (* the channel lock is free and is taken now *)
  Definition join_locked (g : gst) (ch : chan) (o : oid) (created : bool) (ob : option user) (id : N) : step_res :=
    let still := match cmap g ch with
                 | Some o' => if ptr_check cf then o' =? o else true
                 | None => false
                 end in
    if negb still then (g, PDone, err_out tc id E_RESOURCE_CONFLICT)
    else
      let b := objs g o in
      let refuse (e : N) : step_res := ((if created then unmap g ch else g), PDone, err_out tc id e) in
      let who := match ob with
                 | Some n => if negb (is_owner b me) then inl E_FORBIDDEN
                             else if isnil (reg g n) then inl E_USER_NOT_REGISTERED
                             else inr n
                 | None => inr me
                 end in
      match who with
      | inl e => refuse e
      | inr n =>
          if negb (allowed (jacl b) n) then refuse E_NOT_ALLOWED
          else if mem n (members b) then refuse E_USER_IN_CHANNEL
          else if c_max_clients cf <=? len (members b) then refuse E_CHANNEL_IS_FULL
          else if c_max_subs cf <=? len (idx g n) then refuse E_POLICY_VIOLATION
          else
            let g1 := put_obj g o (obj_insert b n) in
            let g2 := if idx_early cf then idx_add g1 n ch else g1 in
            if fwd_event cf then (lock g2 o t, PJoinNotify ch o created n id, [OModEvent K_JOINED ch n created])
            else join_finish g2 ch o created n id true
      end.

  Definition join_start (g : gst) (ch : chan) (ob : option user) (id : N) : step_res :=
    match cmap g ch with
    | Some o => if lock_free g o then join_locked g ch o false ob id else (g, PJoinWait ch o ob id, [])
    | None =>
        let o := next_oid g in
        let g1 := set_cmap (set_next (put_obj g o empty_obj) (o + 1)) (upd (cmap g) ch (Some o)) in
        join_locked g1 ch o true ob id
    end.

  (* --- LEAVE (a request, or one round of the disconnect clean-up) --- *)
  Definition leave_end (g : gst) (o : oid) (id : N) (ok1 ok2 : bool) : step_res :=
    (unlock g o, PDone,
     if negb ok1 then err_out tc id E_INTERNAL
     else match tc with Some c => [OAck c id A_LEAVE] | None => [] end ++ (if negb ok2 then err_out tc id E_INTERNAL else [])).

  Definition leave_after_n2 (g : gst) (ch : chan) (o : oid) (id : N) (ok1 ok2 : bool) : step_res :=
    let b := objs g o in
    let '(g', p, os) := leave_end g o id ok1 ok2 in
    (g', p, (if ok2 then match owner b with Some pick => events g (members b) None K_JOINED ch pick true | None => [] end else []) ++ os).

  Definition leave_after_n1 (g : gst) (ch : chan) (o : oid) (n : user) (was_owner : bool) (id : N) (ok1 : bool) (hint : user) : step_res :=
    let b := objs g o in
    let os1 := if ok1 then events g (members b) tc K_LEFT ch n was_owner else [] in
    let b1 := obj_remove b n in
    let g1 := idx_del (put_obj g o b1) n ch in
    if isnil (members b1) then
      let '(g', p, os) := leave_end (unmap g1 ch) o id ok1 true in (g', p, os1 ++ os)
    else if was_owner then
      let pick := if mem hint (members b1) then hint else hd n (members b1) in
      let g2 := put_obj g1 o (obj_set_owner b1 pick) in
      if fwd_event cf then (lock g2 o t, PLeaveN2 ch o ok1 id, os1 ++ [OModEvent K_JOINED ch pick true])
      else let '(g', p, os) := leave_after_n2 g2 ch o id ok1 true in (g', p, os1 ++ os)
    else
      let '(g', p, os) := leave_end g1 o id ok1 true in (g', p, os1 ++ os).

  Definition leave_locked (g : gst) (ch : chan) (o : oid) (ob : option user) (id : N) (hint : user) : step_res :=
    match cmap g ch with
    | None => (g, PDone, err_out tc id E_CHANNEL_NOT_FOUND)
    | Some _ =>
        let b := objs g o in
        let who := match ob with
                   | Some z => if negb (is_owner b me) then inl E_FORBIDDEN else inr z
                   | None => inr me
                   end in
        match who with
        | inl e => (g, PDone, err_out tc id e)
        | inr n =>
            if negb (mem n (members b)) then (g, PDone, err_out tc id E_USER_NOT_IN_CHANNEL)
            else
              let was_owner := is_owner b n in
              if fwd_event cf then (lock g o t, PLeaveN1 ch o n was_owner id, [OModEvent K_LEFT ch n was_owner])
              else leave_after_n1 g ch o n was_owner id true hint
        end
    end.

  Definition leave_start (g : gst) (ch : chan) (ob : option user) (id : N) (hint : user) : step_res :=
    match cmap g ch with
    | None => (g, PDone, err_out tc id E_CHANNEL_NOT_FOUND)
    | Some o => if lock_free g o then leave_locked g ch o ob id hint else (g, PLeaveWait ch o ob id, [])
    end.

  (* --- BROADCAST --- *)
  Definition bcast_read (g : gst) (ch : chan) (o : oid) (payload id : N) : step_res :=
    let b := objs g o in
    if negb (mem me (members b)) then (g, PDone, err_out tc id E_FORBIDDEN)
    else if negb (allowed (pacl b) me) then (g, PDone, err_out tc id E_NOT_ALLOWED)
    else (g, PDone, map (fun c => OMsg c ch me payload) (conns_of g (targets b) tc)
                    ++ match tc with Some c => [OAck c id A_BCAST] | None => [] end).

  Definition bcast_lookup (g : gst) (ch : chan) (payload id : N) : step_res :=
    match cmap g ch with
    | None => (g, PDone, err_out tc id E_CHANNEL_NOT_FOUND)
    | Some o => if lock_free g o then bcast_read g ch o payload id else (g, PBcastWait ch o payload id, [])
    end.

  (* --- listings --- *)
  Definition members_read (g : gst) (o : oid) (id : N) : step_res :=
    let b := objs g o in
    if negb (mem me (members b)) then (g, PDone, err_out tc id E_USER_NOT_IN_CHANNEL)
    else (g, PDone, match tc with Some c => [OMembers c id (members b)] | None => [] end).

  (* --- allow-lists (the owner's business; an update needs the write lock, a report the read lock) --- *)
  Definition set_acl_locked (g : gst) (o : oid) (ty : N) (adding : bool) (us : list user) (id : N) : step_res :=
    let b := objs g o in
    if negb (is_owner b me) then (g, PDone, err_out tc id E_FORBIDDEN)
    else
      let a := acl_update (acl_of b ty) us adding in
      if c_max_clients cf <? len a then (g, PDone, err_out tc id E_POLICY_VIOLATION)
      else (put_obj g o (obj_set_acl b ty a), PDone, match tc with Some c => [OAck c id A_SETACL] | None => [] end).

  Definition get_acl_read (g : gst) (o : oid) (ty : N) (id : N) : step_res :=
    let b := objs g o in
    if negb (is_owner b me) then (g, PDone, err_out tc id E_FORBIDDEN)
    else (g, PDone, match tc with Some c => [OAcl c id (acl_of b ty)] | None => [] end).

  (* one segment of a task: from where it stands to its next suspension point (or its end).
     [ok] answers the modulator call the task is parked on, [hint] picks the new owner. *)
  Definition seg (g : gst) (p : pc) (ok : bool) (hint : user) : step_res :=
    match p with
    | PStart (RJoin ch ob id) => join_start g ch ob id
    | PStart (RLeave ch ob id) => leave_start g ch ob id hint
    | PStart (RBcast ch payload id) =>
        if fwd_payload cf then (g, PBcastGate ch payload id, [OModPayload me ch payload]) else bcast_lookup g ch payload id
    | PStart (RMembers ch id) =>
        match cmap g ch with
        | None => (g, PDone, err_out tc id E_CHANNEL_NOT_FOUND)
        | Some o => if lock_free g o then members_read g o id else (g, PMembersWait ch o id, [])
        end
    | PStart (RChannels id) => (g, PDone, match tc with Some c => [OChannels c id (idx g me)] | None => [] end)
    | PStart (RSetAcl ch ty adding us id) =>
        match cmap g ch with
        | None => (g, PDone, err_out tc id E_CHANNEL_NOT_FOUND)
        | Some o => if lock_free g o then set_acl_locked g o ty adding us id else (g, PSetAclWait ch o ty adding us id, [])
        end
    | PStart (RGetAcl ch ty id) =>
        match cmap g ch with
        | None => (g, PDone, err_out tc id E_CHANNEL_NOT_FOUND)
        | Some o => if lock_free g o then get_acl_read g o ty id else (g, PGetAclWait ch o ty id, [])
        end
    | PSetAclWait ch o ty adding us id => if lock_free g o then set_acl_locked g o ty adding us id else (g, p, [])
    | PGetAclWait ch o ty id => if lock_free g o then get_acl_read g o ty id else (g, p, [])
    | PJoinWait ch o ob id => if lock_free g o then join_locked g ch o false ob id else (g, p, [])
    | PJoinNotify ch o created n id => join_finish g ch o created n id ok
    | PLeaveWait ch o ob id => if lock_free g o then leave_locked g ch o ob id hint else (g, p, [])
    | PLeaveN1 ch o n was_owner id => leave_after_n1 g ch o n was_owner id ok hint
    | PLeaveN2 ch o ok1 id => leave_after_n2 g ch o id ok1 ok
    | PBcastGate ch payload id => if ok then bcast_lookup g ch payload id else (g, PDone, err_out tc id E_INTERNAL)
    | PBcastWait ch o payload id => if lock_free g o then bcast_read g ch o payload id else (g, p, [])
    | PMembersWait ch o id => if lock_free g o then members_read g o id else (g, p, [])
    | PDone => (g, PDone, [])
    end.
End Steps.

(* ---------- the system: global state + live tasks ---------- *)
Record cstate := { cg : gst; tasks : list (tid * task); next_tid : tid }.
Definition cinit : cstate := {| cg := ginit; tasks := []; next_tid := 0 |}.

Fixpoint tlookup (t : tid) (l : list (tid * task)) : option task :=
  match l with [] => None | (k, v) :: r => if t =? k then Some v else tlookup t r end.
Definition tremove (t : tid) (l : list (tid * task)) : list (tid * task) := filter (fun e => negb (fst e =? t)) l.
Fixpoint tset (t : tid) (v : task) (l : list (tid * task)) : list (tid * task) :=
  match l with [] => [] | (k, x) :: r => if t =? k then (k, v) :: r else (k, x) :: tset t v r end.

Definition with_pc (k : task) (p : pc) : task := {| t_conn := t_conn k; t_me := t_me k; t_rest := t_rest k; t_pc := p |}.

(* leave_all_channels walks a HashSet: the order of the rounds is the schedule's choice *)
Definition pick_next (hint : chan) (rest : list chan) : chan * list chan :=
  if mem hint rest then (hint, del hint rest) else match rest with ch :: r => (ch, r) | [] => (0, []) end.

(* a finished clean-up round starts the next one; a finished task disappears *)
Definition settle (t : tid) (k : task) (p : pc) (hint : chan) (l : list (tid * task)) : list (tid * task) :=
  match p with
  | PDone => match t_conn k, t_rest k with
             | None, _ :: _ => let '(ch, r) := pick_next hint (t_rest k) in
                               tset t {| t_conn := None; t_me := t_me k; t_rest := r; t_pc := PStart (RLeave ch None 0) |} l
             | _, _ => tremove t l
             end
  | _ => tset t (with_pc k p) l
  end.

(* locks held by a task that is dropped (cancelled with its connection, or timed out) are released *)
Definition holds (p : pc) : option oid :=
  match p with
  | PJoinNotify _ o _ _ _ => Some o
  | PLeaveN1 _ o _ _ _ => Some o
  | PLeaveN2 _ o _ _ => Some o
  | _ => None
  end.
Definition release_of (g : gst) (k : task) : gst := match holds (t_pc k) with Some o => unlock g o | None => g end.

Definition of_conn (c : conn) (k : task) : bool := match t_conn k with Some c' => c' =? c | None => false end.

Inductive ev :=
| EIdentify (c : conn) (u : user) (exclusive : bool)    (* IDENTIFY (exclusive) / successful AUTH (not exclusive) *)
| EReq (c : conn) (r : req)                             (* a request frame is read: its task is spawned *)
| ERun (t : tid) (ok : bool) (hint : user)              (* task t runs one segment *)
| EHangup (c : conn) (hint : chan)                      (* the connection ends (peer, error path or requested close) *)
| EDrop (t : tid)                                       (* request time-out: the request is dropped where it stands *)
| EDirect (targets : list user) (payload : N).          (* the modulator pushes a private payload to these users (M2S_MOD_DIRECT) *)

(* route_m2s_private_payload: every connection registered for each DISTINCT target, at that moment *)
Fixpoint dedup (l : list N) : list N :=
  match l with [] => [] | x :: r => x :: del x (dedup r) end.
Definition direct_outs (g : gst) (targets : list user) (payload : N) : list cout :=
  flat_map (fun u => map (fun c => ODirect c payload) (reg g u)) (dedup targets).

Definition cstep (cf : ccfg) (s : cstate) (e : ev) : cstate * list cout :=
  let g := cg s in
  match e with
  | EIdentify c u exclusive =>
      match cuser g c with
      | Some _ => (s, [])
      | None =>
          if exclusive && negb (isnil (reg g u)) then (s, [OErr c 0 E_USERNAME_IN_USE])
          else ({| cg := set_cuser (set_reg g (upd (reg g) u (reg g u ++ [c]))) (upd (cuser g) c (Some u));
                   tasks := tasks s; next_tid := next_tid s |}, [OAck c 0 A_IDENT])
      end
  | EReq c r =>
      match cuser g c with
      | None => (s, [])
      | Some u => ({| cg := g; tasks := tasks s ++ [(next_tid s, {| t_conn := Some c; t_me := u; t_rest := []; t_pc := PStart r |})];
                      next_tid := next_tid s + 1 |}, [])
      end
  | ERun t ok hint =>
      match tlookup t (tasks s) with
      | None => (s, [])
      | Some k =>
          let '(g', p, os) := seg cf t (t_conn k) (t_me k) g (t_pc k) ok hint in
          ({| cg := g'; tasks := settle t k p hint (tasks s); next_tid := next_tid s |}, os)
      end
  | EHangup c hint =>
      match cuser g c with
      | None => (s, [])
      | Some u =>
          (* Conn::shutdown: the connection's requests are cancelled first *)
          let g1 := fold_left (fun acc e => if of_conn c (snd e) then release_of acc (snd e) else acc) (tasks s) g in
          let ts := filter (fun e => negb (of_conn c (snd e))) (tasks s) in
          (* C2sDispatcher::shutdown: unregister; the last connection of the name starts the clean-up *)
          let rest := del c (reg g1 u) in
          let g2 := set_cuser (set_reg g1 (upd (reg g1) u rest)) (upd (cuser g1) c None) in
          if isnil rest then
            ({| cg := set_idx g2 (upd (idx g2) u []);
                tasks := match idx g2 u with
                         | [] => ts
                         | _ :: _ => let '(ch, r) := pick_next hint (idx g2 u) in
                                     ts ++ [(next_tid s, {| t_conn := None; t_me := u; t_rest := r; t_pc := PStart (RLeave ch None 0) |})]
                         end;
                next_tid := next_tid s + 1 |}, [])
          else ({| cg := g2; tasks := ts; next_tid := next_tid s |}, [])
      end
  | EDrop t =>
      match tlookup t (tasks s) with
      | None => (s, [])
      | Some k => match t_conn k with
                  | None => (s, [])                    (* the clean-up is not subject to the request time-out *)
                  | Some _ => ({| cg := release_of g k; tasks := tremove t (tasks s); next_tid := next_tid s |}, [])
                  end
      end
  | EDirect targets payload => (s, direct_outs g targets payload)
  end.

Fixpoint crun (cf : ccfg) (s : cstate) (es : list ev) : cstate * list cout :=
  match es with
  | [] => (s, [])
  | e :: r => let '(s1, o1) := cstep cf s e in let '(s2, o2) := crun cf s1 r in (s2, o1 ++ o2)
  end.
Definition cstate_after (cf : ccfg) (es : list ev) : cstate := fst (crun cf cinit es).
