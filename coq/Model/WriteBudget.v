(* Message-buffer budget of the connection engine (crates/common/src/conn.rs): ONE pool of message buffers shared by
   all connections of a ConnManager, sized  2 * max_connections + head-room.  Each connection keeps a read buffer for
   its whole life; its write arm takes a first buffer for the batch it is about to write (awaiting it), further
   buffers for the same batch, and gives everything back after the vectored write — which may never complete when the
   peer does not read.  With [guarded = true] (the code after fix 6419742) a further buffer is taken only against a
   permit of a shared head-room semaphore acquired WITHOUT waiting; with [guarded = false] (the code before) further
   buffers are simply awaited while the connection holds the ones it already has.
   Definitions only; theorems in Proofs/WriteBudgetProofs.v. *)
From Coq Require Import List Arith Bool.
Import ListNotations.

Record wconn := { w_first : bool;      (* holds the first buffer of a write batch (or a transient error-frame buffer) *)
                  w_extras : nat }.    (* further buffers of the batch *)

Record wcfg := { maxc : nat; headroom : nat; guarded : bool }.

Definition capacity (c : wcfg) : nat := 2 * maxc c + headroom c.

(* live connections, by slot; every live connection holds its read buffer *)
Definition wstate := list (option wconn).

Definition conn_use (o : option wconn) : nat :=
  match o with None => 0 | Some w => 1 + (if w_first w then 1 else 0) + w_extras w end.
Fixpoint in_use (s : wstate) : nat := match s with [] => 0 | o :: r => conn_use o + in_use r end.
Fixpoint live (s : wstate) : nat := match s with [] => 0 | Some _ :: r => S (live r) | None :: r => live r end.
Fixpoint extras (s : wstate) : nat :=
  match s with [] => 0 | Some w :: r => w_extras w + extras r | None :: r => extras r end.
Definition available (c : wcfg) (s : wstate) : nat := capacity c - in_use s.

Inductive wev :=
| WConnect                 (* a new connection is admitted (if the table has room) and takes its read buffer *)
| WFirst (i : nat)         (* connection i, holding no write buffer, takes the first buffer of a batch (awaited) *)
| WExtra (i : nat)         (* connection i adds a message to its batch *)
| WFlush (i : nat)         (* its write completed: buffers (and permits) go back *)
| WDrop (i : nat).         (* the connection ends: everything it holds goes back *)

Inductive wres :=
| WOk (s : wstate)
| WNoop                    (* not applicable (no such connection, table full, batch not started, head-room used up) *)
| WWaits.                  (* the step has to WAIT for a buffer while the state stays as it is *)

Fixpoint set_slot (s : wstate) (i : nat) (o : option wconn) : wstate :=
  match s, i with
  | [], _ => []
  | _ :: r, O => o :: r
  | x :: r, S i' => x :: set_slot r i' o
  end.

Definition get_slot (s : wstate) (i : nat) : option wconn :=
  match nth_error s i with Some (Some w) => Some w | _ => None end.

Definition wstep (c : wcfg) (s : wstate) (e : wev) : wres :=
  match e with
  | WConnect =>
      if live s <? maxc c
      then if 1 <=? available c s then WOk (s ++ [Some {| w_first := false; w_extras := 0 |}]) else WWaits
      else WNoop
  | WFirst i =>
      match get_slot s i with
      | Some w => if w_first w then WNoop
                  else if 1 <=? available c s then WOk (set_slot s i (Some {| w_first := true; w_extras := w_extras w |}))
                       else WWaits
      | None => WNoop
      end
  | WExtra i =>
      match get_slot s i with
      | Some w => if negb (w_first w) then WNoop
                  else if guarded c && negb (extras s <? headroom c) then WNoop      (* no permit: the batch stops growing *)
                  else if 1 <=? available c s then WOk (set_slot s i (Some {| w_first := true; w_extras := S (w_extras w) |}))
                       else WWaits
      | None => WNoop
      end
  | WFlush i =>
      match get_slot s i with
      | Some w => WOk (set_slot s i (Some {| w_first := false; w_extras := 0 |}))
      | None => WNoop
      end
  | WDrop i =>
      match get_slot s i with
      | Some w => WOk (set_slot s i None)
      | None => WNoop
      end
  end.

(* run a schedule; report the first step that has to wait *)
Fixpoint wrun (c : wcfg) (s : wstate) (evs : list wev) : wstate * option wev :=
  match evs with
  | [] => (s, None)
  | e :: r => match wstep c s e with
              | WOk s' => wrun c s' r
              | WNoop => wrun c s r
              | WWaits => (s, Some e)
              end
  end.
