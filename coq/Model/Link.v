(* The modulator links (crates/modulator/src/conn.rs, client.rs) on top of the generic connection
   engine (crates/common/src/conn.rs):
     - S2mDispatcher : the S2M server side living in the modulator process (S2M_CONNECT handshake with
       version + shared secret, then S2M_AUTH / S2M_FORWARD_BROADCAST_PAYLOAD / S2M_FORWARD_EVENT /
       S2M_MOD_DIRECT delegated to the Modulator implementation);
     - M2sDispatcher : the M2S server side living in the narwhal server (M2S_CONNECT handshake, then
       M2S_MOD_DIRECT pushed to the private-payload router);
     - S2mClient     : how the narwhal server maps each reply (or the absence of one) to the
       Modulator trait's results.
   Sequential semantics: one request runs to completion before the next frame is looked at.
   Definitions only. *)
From NW Require Import Base.Bytes Model.SchemaTypes Gen.Schema Gen.Errors Model.Codec Model.MsgInfo Model.Pool
     Model.Framing Model.Ids Model.Server.

Record lcfg := {
  l_secret : str;                      (* configured shared secret; [] = none *)
  l_keepalive : N; l_min_keepalive : N;
  l_max_message : N; l_max_payload : N; l_max_inflight : N;
  l_max_conns : N; l_budget : N;
  l_proto : str;
  lop_auth : bool; lop_fbp : bool; lop_fev : bool; lop_spp : bool; lop_rpp : bool }.

Inductive lphase := LConnecting | LAuth (hb : N).

Inductive lout :=
| LSend (m : msg) (p : option (list N))
| LClose (m : msg)                   (* error frame written, then the link ends *)
| LDrop                              (* the link ends without an error frame *)
| LMod (c : modcall)                 (* a call reaches the Modulator implementation *)
| LRoute (targets : list str) (payload : list N).   (* handed to the private-payload router *)

Record lctx := { lph : lphase; lscript : list moutcome; louts : list lout; lclosed : bool }.

Definition lemit (o : lout) (c : lctx) : lctx :=
  {| lph := lph c; lscript := lscript c; louts := louts c ++ [o]; lclosed := lclosed c |}.
Definition lclose (m : msg) (c : lctx) : lctx :=
  if lclosed c then c else {| lph := lph c; lscript := lscript c; louts := louts c ++ [LClose m]; lclosed := true |}.
Definition ldrop (c : lctx) : lctx :=
  if lclosed c then c else {| lph := lph c; lscript := lscript c; louts := louts c ++ [LDrop]; lclosed := true |}.
Definition lset_phase (p : lphase) (c : lctx) : lctx :=
  {| lph := p; lscript := lscript c; louts := louts c; lclosed := lclosed c |}.
Definition lnext (c : lctx) : moutcome * lctx :=
  match lscript c with
  | [] => (MOk, c)
  | o :: r => (o, {| lph := lph c; lscript := r; louts := louts c; lclosed := lclosed c |})
  end.

(* Conn::notify_error *)
Definition lnotify_error (e : perr) (c : lctx) : lctx :=
  match e with
  | PErr id reason => if is_recoverable reason then lemit (LSend (err_msg id reason) None) c
                      else lclose (err_msg id reason) c
  | PInternal => lclose (err_msg None "INTERNAL_SERVER_ERROR") c
  end.

(* a reply goes through the writer (Conn::serialize_message): one that is too large for the message buffer
   is replaced by ERROR RESPONSE_TOO_LARGE carrying its correlation id (the payload, if any, still follows);
   one that cannot be serialized at all ends the link silently *)
Definition lreply (cfg : lcfg) (m : msg) (p : option (list N)) (c : lctx) : lctx :=
  let cap := N.to_nat (l_max_message cfg) in
  match serialize schema m cap with
  | SerOk _ => lemit (LSend m p) c
  | SerTooLarge =>
      match correlation_id schema m with
      | Some id =>
          let e := err_msg (Some id) "RESPONSE_TOO_LARGE" in
          match serialize schema (build "ERROR" [(bs "id", VONum (Some id)); (bs "reason", VStr (bs "RESPONSE_TOO_LARGE"));
                                                 (bs "detail", VOStr (Some (bs "response exceeded maximum message size")))]) cap with
          | SerOk _ => lemit (LSend e p) c
          | _ => ldrop c
          end
      | None => ldrop c
      end
  | SerOther => ldrop c
  end.

Definition lnegotiate_hb (cfg : lcfg) (req : N) : N :=
  if req =? 0 then l_keepalive cfg
  else if req <? l_min_keepalive cfg then l_min_keepalive cfg
  else if l_keepalive cfg <? req then l_keepalive cfg
  else req.

(* narwhal_modulator::init_modulator: the size limit the server goes on to run with, given its own configured limit and
   the one the modulator's S2M_CONNECT_ACK advertises *)
Definition adjust_limit (configured advertised : N) : N := N.min advertised configured.

Definition secret_ok (cfg : lcfg) (m : msg) : bool :=
  match l_secret cfg with
  | [] => true
  | s => match get_ostr m "secret" with Some s' => list_eqb s s' | None => false end
  end.

Definition ops_wire (cfg : lcfg) : list str :=
  (if lop_auth cfg then [bs "auth"] else []) ++
  (if lop_fbp cfg then [bs "fwd-broadcast-payload"] else []) ++
  (if lop_fev cfg then [bs "fwd-event"] else []) ++
  (if lop_spp cfg then [bs "send-private-payload"] else []) ++
  (if lop_rpp cfg then [bs "recv-private-payload"] else []).

(* ------------------------------------------------------------------ S2M dispatcher *)
Definition s2m_connect_ack (cfg : lcfg) (hb : N) : msg :=
  build "S2M_CONNECT_ACK"
        [(bs "application_protocol", VStr (l_proto cfg)); (bs "operations", VVec (ops_wire cfg));
         (bs "heartbeat_interval", VNum hb); (bs "max_message_size", VNum (l_max_message cfg));
         (bs "max_payload_size", VNum (l_max_payload cfg)); (bs "max_inflight_requests", VNum (l_max_inflight cfg))].

Definition auth_ack (id : N) (o : moutcome) : option msg :=
  match o with
  | MAuthSuccess u => Some (build "S2M_AUTH_ACK" [(bs "id", VNum id); (bs "username", VOStr (Some u)); (bs "succeeded", VBool true)])
  | MAuthContinue ch => Some (build "S2M_AUTH_ACK" [(bs "id", VNum id); (bs "challenge", VOStr (Some ch)); (bs "succeeded", VBool false)])
  | MAuthFail => Some (build "S2M_AUTH_ACK" [(bs "id", VNum id); (bs "succeeded", VBool false)])
  | _ => None
  end.

Definition fbp_ack (id : N) (valid altered : bool) (len : N) : msg :=
  build "S2M_FORWARD_BROADCAST_PAYLOAD_ACK"
        [(bs "id", VNum id); (bs "valid", VBool valid); (bs "altered_payload", VBool altered);
         (bs "altered_payload_length", VNum len)].

Definition event_kind_ok (k : str) : bool := list_eqb k (bs "MEMBER_JOINED") || list_eqb k (bs "MEMBER_LEFT").

Definition s2m_request (cfg : lcfg) (m : msg) (p : option (list N)) (c : lctx) : lctx :=
  let pl := match p with Some b => b | None => [] end in
  if is_kind m "S2M_AUTH" then
    if negb (lop_auth cfg) then lnotify_error (PErr None "UNEXPECTED_MESSAGE") c
    else
      let c0 := lemit (LMod (McAuth (get_str m "token"))) c in
      let '(o, c1) := lnext c0 in
      match auth_ack (get_num m "id") o with
      | Some a => lreply cfg a None c1
      | None => lnotify_error PInternal c1
      end
  else if is_kind m "S2M_MOD_DIRECT" then
    if negb (lop_spp cfg) then lnotify_error (PErr None "UNEXPECTED_MESSAGE") c
    else
      let c0 := lemit (LMod (McSpp (get_str m "from") pl)) c in
      let '(o, c1) := lnext c0 in
      match o with
      | MErr => lnotify_error PInternal c1
      | MInvalid => lreply cfg (build "S2M_MOD_DIRECT_ACK" [(bs "id", VNum (get_num m "id")); (bs "valid", VBool false)]) None c1
      | _ => lreply cfg (build "S2M_MOD_DIRECT_ACK" [(bs "id", VNum (get_num m "id")); (bs "valid", VBool true)]) None c1
      end
  else if is_kind m "S2M_FORWARD_BROADCAST_PAYLOAD" then
    if negb (lop_fbp cfg) then lnotify_error (PErr None "UNEXPECTED_MESSAGE") c
    else
      match nid_parse (get_str m "from") with
      | None => lnotify_error (PErr (Some (get_num m "id")) "BAD_REQUEST") c
      | Some n =>
          let c0 := lemit (LMod (McFbp (nid_full n) (get_str m "channel") pl)) c in
          let '(o, c1) := lnext c0 in
          match o with
          | MErr => lnotify_error PInternal c1
          | MInvalid => lreply cfg (fbp_ack (get_num m "id") false false 0) None c1
          | MAltered a => lreply cfg (fbp_ack (get_num m "id") true true (N.of_nat (length a))) (Some a) c1
          | _ => lreply cfg (fbp_ack (get_num m "id") true false 0) None c1
          end
      end
  else if is_kind m "S2M_FORWARD_EVENT" then
    if negb (lop_fev cfg) then lnotify_error (PErr None "UNEXPECTED_MESSAGE") c
    else if negb (event_kind_ok (get_str m "kind")) then lnotify_error PInternal c
    else
      let c0 := lemit (LMod (McEvent (get_str m "kind")
                                     (match get_ostr m "channel" with Some s => s | None => [] end)
                                     (match get_ostr m "nid" with Some s => s | None => [] end)
                                     (match getf m "owner" with Some (VOBool (Some b)) => b | _ => false end))) c in
      let '(o, c1) := lnext c0 in
      match o with
      | MErr => lnotify_error PInternal c1
      | _ => lreply cfg (build "S2M_FORWARD_EVENT_ACK" [(bs "id", VNum (get_num m "id"))]) None c1
      end
  else lnotify_error (PErr None "UNEXPECTED_MESSAGE") c.

Definition s2m_frame (cfg : lcfg) (m : msg) (p : option (list N)) (c : lctx) : lctx :=
  if lclosed c then c else
  match lph c with
  | LConnecting =>
      if is_kind m "S2M_CONNECT" then
        if negb (get_num m "version" =? 1) then lnotify_error (PErr None "UNSUPPORTED_PROTOCOL_VERSION") c
        else if negb (secret_ok cfg m) then lnotify_error (PErr None "UNAUTHORIZED") c
        else
          let hb := lnegotiate_hb cfg (get_num m "heartbeat_interval") in
          lset_phase (LAuth hb) (lreply cfg (s2m_connect_ack cfg hb) None c)
      else lnotify_error (PErr None "UNEXPECTED_MESSAGE") c
  | LAuth _ =>
      if is_kind m "PONG" then c
      else if l_max_inflight cfg =? 0 then ldrop c
      else s2m_request cfg m p c
  end.

(* ------------------------------------------------------------------ M2S dispatcher *)
Definition m2s_connect_ack (cfg : lcfg) (hb : N) : msg :=
  build "M2S_CONNECT_ACK"
        [(bs "heartbeat_interval", VNum hb); (bs "max_message_size", VNum (l_max_message cfg));
         (bs "max_payload_size", VNum (l_max_payload cfg)); (bs "max_inflight_requests", VNum (l_max_inflight cfg))].

Definition m2s_frame (cfg : lcfg) (m : msg) (p : option (list N)) (c : lctx) : lctx :=
  if lclosed c then c else
  match lph c with
  | LConnecting =>
      if is_kind m "M2S_CONNECT" then
        if negb (get_num m "version" =? 1) then lnotify_error (PErr None "UNSUPPORTED_PROTOCOL_VERSION") c
        else if negb (secret_ok cfg m) then lnotify_error (PErr None "UNAUTHORIZED") c
        else
          let hb := lnegotiate_hb cfg (get_num m "heartbeat_interval") in
          lset_phase (LAuth hb) (lreply cfg (m2s_connect_ack cfg hb) None c)
      else lnotify_error (PErr None "UNEXPECTED_MESSAGE") c
  | LAuth _ =>
      if is_kind m "PONG" then c
      else if l_max_inflight cfg =? 0 then ldrop c
      else if is_kind m "M2S_MOD_DIRECT" then
        match p with
        | Some b =>
            lreply cfg (build "M2S_MOD_DIRECT_ACK" [(bs "id", VNum (get_num m "id"))]) None
                   (lemit (LRoute (get_vec m "targets") b) c)
        | None => lnotify_error (PErr None "BAD_REQUEST") c
        end
      else lnotify_error (PErr None "UNEXPECTED_MESSAGE") c
  end.

(* ------------------------------------------------------------------ the read path in front *)
Definition link_rcfg (cfg : lcfg) : rcfg :=
  {| max_msg := N.to_nat (l_max_message cfg); max_payload := l_max_payload cfg;
     geo := geometry 256 (l_max_payload cfg) (l_budget cfg) (l_max_conns cfg + l_max_conns cfg * 128) 2 1 2 |}.

Inductive lkind := KS2m | KM2s.

Definition link_item (k : lkind) (cfg : lcfg) (it : ritem) (c : lctx) : lctx :=
  match it with
  | Dispatch m p => match k with KS2m => s2m_frame cfg m p c | KM2s => m2s_frame cfg m p c end
  | EMaxLine => lclose (err_msg None "POLICY_VIOLATION") c
  | EPayloadTooLarge id => lclose (err_msg id "POLICY_VIOLATION") c
  | EBadRequest => lclose (err_msg None "BAD_REQUEST") c
  | EInvalidPayload id => lclose (err_msg id "BAD_REQUEST") c
  | EInternal => lclose (err_msg None "INTERNAL_SERVER_ERROR") c
  | EofQuiet => c
  | PanicPool | PanicDecode | RFuel => ldrop c
  end.

(* one chunk of whole frames written by the peer; the per-chunk modulator script *)
Definition link_bytes (k : lkind) (cfg : lcfg) (ph : lphase) (closed : bool) (bytes : list N) (script : list moutcome)
  : lphase * bool * list lout :=
  if closed then (ph, true, []) else
  let c := {| lph := ph; lscript := script; louts := []; lclosed := false |} in
  let c1 := fold_left (fun acc it => link_item k cfg it acc) (parse_stream schema Checked (link_rcfg cfg) bytes) c in
  (lph c1, lclosed c1, louts c1).

Fixpoint link_run (k : lkind) (cfg : lcfg) (ph : lphase) (closed : bool) (chunks : list (list N * list moutcome))
  : list (list lout) :=
  match chunks with
  | [] => []
  | (b, sc) :: r => let '(ph', cl', os) := link_bytes k cfg ph closed b sc in os :: link_run k cfg ph' cl' r
  end.

(* ------------------------------------------------------------------ S2mClient reply mapping *)
(* what the pending request resolves to *)
Inductive creply :=
| CrMsg (m : msg) (p : option (list N))   (* a reply frame carrying the request's correlation id *)
| CrFail.                                 (* timeout / link lost / response channel dropped *)

Inductive cresult :=
| RAuthSuccess (u : str) | RAuthContinue (c : str) | RAuthFail
| RValid | RAltered (p : list N) | RInvalid
| REventOk
| RErr                                    (* Err(_) returned to the server *)
| RPanic.                                 (* username.unwrap() on a success ack without a username *)

(* the call is refused locally when the handshake did not declare the operation *)
Definition c_auth (declared : bool) (r : creply) : cresult :=
  if negb declared then RErr else
  match r with
  | CrFail => RErr
  | CrMsg m _ =>
      if is_kind m "S2M_AUTH_ACK" then
        if get_bool m "succeeded" then
          match get_ostr m "username" with Some u => RAuthSuccess u | None => RPanic end
        else match get_ostr m "challenge" with Some ch => RAuthContinue ch | None => RAuthFail end
      else RErr
  end.

Definition c_fbp (declared : bool) (r : creply) : cresult :=
  if negb declared then RErr else
  match r with
  | CrFail => RErr
  | CrMsg m p =>
      if is_kind m "S2M_FORWARD_BROADCAST_PAYLOAD_ACK" then
        if get_bool m "valid" then match p with Some a => RAltered a | None => RValid end
        else RInvalid
      else RErr
  end.

Definition c_event (declared : bool) (r : creply) : cresult :=
  if negb declared then RErr else
  match r with
  | CrFail => RErr
  | CrMsg m _ => if is_kind m "S2M_FORWARD_EVENT_ACK" then REventOk else RErr
  end.

Definition c_spp (declared : bool) (r : creply) : cresult :=
  if negb declared then RErr else
  match r with
  | CrFail => RErr
  | CrMsg m _ =>
      if is_kind m "S2M_MOD_DIRECT_ACK" then (if get_bool m "valid" then RValid else RInvalid) else RErr
  end.

(* what the C2S server's handlers make of a result (Model/Server.v consumes moutcome) *)
Definition outcome_of (r : cresult) : moutcome :=
  match r with
  | RAuthSuccess u => MAuthSuccess u
  | RAuthContinue c => MAuthContinue c
  | RAuthFail => MAuthFail
  | RValid | REventOk => MOk
  | RAltered p => MAltered p
  | RInvalid => MInvalid
  | RErr | RPanic => MErr
  end.

(* ------------------------------------------------------------------ one delegated call end to end *)
(* The client's request frame for a Modulator-trait call *)
Definition req_frame (id : N) (call : modcall) : msg * option (list N) :=
  match call with
  | McAuth t => (build "S2M_AUTH" [(bs "id", VNum id); (bs "token", VStr t)], None)
  | McFbp f ch p => (build "S2M_FORWARD_BROADCAST_PAYLOAD"
                           [(bs "id", VNum id); (bs "from", VStr f); (bs "channel", VStr ch);
                            (bs "length", VNum (N.of_nat (length p)))], Some p)
  | McEvent k ch n o => (build "S2M_FORWARD_EVENT"
                               [(bs "id", VNum id); (bs "kind", VStr k); (bs "channel", VOStr (Some ch));
                                (bs "nid", VOStr (Some n)); (bs "owner", VOBool (Some o))], None)
  | McSpp f p => (build "S2M_MOD_DIRECT" [(bs "id", VNum id); (bs "from", VStr f);
                                          (bs "length", VNum (N.of_nat (length p)))], Some p)
  end.

Definition declared_for (cfg : lcfg) (call : modcall) : bool :=
  match call with
  | McAuth _ => lop_auth cfg | McFbp _ _ _ => lop_fbp cfg | McEvent _ _ _ _ => lop_fev cfg | McSpp _ _ => lop_spp cfg
  end.

Definition map_reply (cfg : lcfg) (call : modcall) (r : creply) : cresult :=
  match call with
  | McAuth _ => c_auth (lop_auth cfg) r
  | McFbp _ _ _ => c_fbp (lop_fbp cfg) r
  | McEvent _ _ _ _ => c_event (lop_fev cfg) r
  | McSpp _ _ => c_spp (lop_spp cfg) r
  end.

(* the reply the client correlates with request id: the first frame sent back that carries it;
   an ERROR without id, a closed link or nothing at all resolve to CrFail (after the timeout) *)
Fixpoint reply_for (id : N) (os : list lout) : creply :=
  match os with
  | [] => CrFail
  | LSend m p :: r => match correlation_id schema m with
                      | Some i => if i =? id then CrMsg m p else reply_for id r
                      | None => reply_for id r
                      end
  | LClose m :: r => match correlation_id schema m with
                     | Some i => if i =? id then CrMsg m None else reply_for id r
                     | None => reply_for id r
                     end
  | _ :: r => reply_for id r
  end.

(* An established link serving one delegated call whose Modulator implementation answers `o` *)
Definition via_link (cfg : lcfg) (hb id : N) (call : modcall) (o : moutcome) : list lout * cresult :=
  if negb (declared_for cfg call) then ([], RErr) else
  let '(m, p) := req_frame id call in
  let c := s2m_frame cfg m p {| lph := LAuth hb; lscript := [o]; louts := []; lclosed := false |} in
  (louts c, map_reply cfg call (reply_for id (louts c))).
