(* Request engine of narwhal_common::client (crates/common/src/client.rs): pending-request table keyed
   by correlation id, each entry owning an in-flight semaphore permit; reader task matching replies;
   per-request timeout wrapper.  One connection (max_idle_connections = 1).  Definitions only. *)
From NW Require Import Base.Bytes.

Record entry := { e_id : N; e_sender : bool (* response sender still present *) }.

Record cstate := {
  max_inflight : nat;
  permits : nat;                 (* free in-flight permits *)
  pending : list entry;          (* each entry holds one permit *)
  waiting : list N;              (* requests parked on the semaphore, FIFO *)
  broken : bool;                 (* the link is down: nothing more is read or written *)
  releases_on_timeout : bool     (* does a timed-out request give its table entry (and permit) back? *)
}.

Definition init_client (k : nat) (rel : bool) : cstate :=
  {| max_inflight := k; permits := k; pending := []; waiting := []; broken := false; releases_on_timeout := rel |}.

Inductive cev :=
| Issue (id : N)          (* a caller starts a request with this correlation id *)
| PeerReply (id : N)      (* a frame carrying this correlation id arrives (solicited or not) *)
| PeerPing (id : N)       (* a PING arrives *)
| PeerPush                (* a frame without correlation id arrives (goes to the inbound queue) *)
| Timeout (id : N)        (* the request's timer fires before a reply *)
| LinkBreak.              (* EOF / read error *)

Inductive cout :=
| Written (id : N)        (* the request frame reached the writer *)
| Completed (id : N)      (* the caller's future completed with the reply carrying this id *)
| TimedOut (id : N)
| Pong (id : N)
| Inbound                 (* delivered to the unsolicited-message queue *)
| Ignored (id : N).       (* reply matched no waiting request: dropped *)

Definition has_entry (id : N) (l : list entry) : bool := existsb (fun e => e_id e =? id) l.
Definition sender_present (id : N) (l : list entry) : bool := existsb (fun e => (e_id e =? id) && e_sender e) l.
Definition remove_entry (id : N) (l : list entry) : list entry := filter (fun e => negb (e_id e =? id)) l.
Definition take_sender (id : N) (l : list entry) : list entry :=
  map (fun e => if e_id e =? id then {| e_id := id; e_sender := false |} else e) l.

Definition with_ (s : cstate) pe pd wt br : cstate :=
  {| max_inflight := max_inflight s; permits := pe; pending := pd; waiting := wt; broken := br;
     releases_on_timeout := releases_on_timeout s |}.

(* a freed permit goes to one of the parked requests, which registers itself and is written.  Which
   one is an oracle choice (the semaphore lets a polled acquirer barge): `pick` names the preferred
   ids (the correspondence passes the ids the peer saw being written); default: the oldest. *)
Definition choose_waiter (pick : list N) (w : list N) : option N :=
  match filter (fun x => existsb (N.eqb x) pick) w with
  | x :: _ => Some x
  | [] => match w with x :: _ => Some x | [] => None end
  end.

Definition grant (pick : list N) (s : cstate) : cstate * list cout :=
  match permits s, choose_waiter pick (waiting s) with
  | S p, Some id => (with_ s p (pending s ++ [{| e_id := id; e_sender := true |}])
                            (filter (fun x => negb (x =? id)) (waiting s)) (broken s),
                     if broken s then [] else [Written id])
  | _, _ => (s, [])
  end.

Definition cstep_pick (pick : list N) (s : cstate) (e : cev) : cstate * list cout :=
  match e with
  | Issue id =>
      (* an unhealthy connection is replaced on the next request: fresh table and permits
         (get_or_create_connection); requests of the old link just run into their timeouts *)
      let s := if broken s then with_ s (max_inflight s) [] [] false else s in
      match permits s with
      | S p => (with_ s p (pending s ++ [{| e_id := id; e_sender := true |}]) (waiting s) (broken s),
                if broken s then [] else [Written id])
      | O => (with_ s O (pending s) (waiting s ++ [id]) (broken s), [])
      end
  | PeerReply id =>
      if broken s then (s, [])
      else if sender_present id (pending s) then
        (* the reader hands the reply to the waiting caller, which then removes its entry *)
        let s1 := with_ s (S (permits s)) (remove_entry id (pending s)) (waiting s) (broken s) in
        let '(s2, o) := grant pick s1 in (s2, Completed id :: o)
      else (s, [Ignored id])
  | PeerPing id => if broken s then (s, []) else (s, [Pong id])
  | PeerPush => if broken s then (s, []) else (s, [Inbound])
  | Timeout id =>
      if has_entry id (pending s) then
        if releases_on_timeout s then
          let s1 := with_ s (S (permits s)) (remove_entry id (pending s)) (waiting s) (broken s) in
          let '(s2, o) := grant pick s1 in (s2, TimedOut id :: o)
        else (with_ s (permits s) (take_sender id (pending s)) (waiting s) (broken s), [TimedOut id])
      else if existsb (N.eqb id) (waiting s) then
        (with_ s (permits s) (pending s) (filter (fun x => negb (x =? id)) (waiting s)) (broken s), [TimedOut id])
      else (s, [TimedOut id])      (* a request of a replaced connection *)
  | LinkBreak => (with_ s (permits s) (pending s) (waiting s) true, [])
  end.

Definition cstep := cstep_pick [].

Fixpoint crun (s : cstate) (evs : list cev) : cstate * list (list cout) :=
  match evs with
  | [] => (s, [])
  | e :: r => let '(s1, o) := cstep s e in let '(s2, os) := crun s1 r in (s2, o :: os)
  end.

(* unique, non-zero, wrapping correlation ids (ClientInner::next_id) *)
Definition next_id (cur : N) : N := let n := (cur + 1) mod 4294967296 in if n =? 0 then 1 else n.
