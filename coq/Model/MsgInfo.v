(* Message::payload_info and Message::correlation_id, driven by the generated schema table. *)
From NW Require Import Base.Bytes Model.SchemaTypes Model.Codec.

Definition field_num (fs : list field) (vs : list fval) (pn : list N) : option N :=
  match field_by_param fs vs pn with
  | Some (_, VNum n) => Some n
  | Some (_, VONum o) => o
  | _ => None
  end.

Definition field_bool (fs : list field) (vs : list fval) (pn : list N) : bool :=
  match field_by_param fs vs pn with
  | Some (_, VBool b) => b
  | _ => false
  end.

Definition pid_val (fs : list field) (vs : list fval) (i : pid) : option N :=
  match i with
  | PidNone => None
  | _ => field_num fs vs str_id
  end.

(* Some (id, length) when the message is followed by a payload *)
Definition payload_info (sch : list kschema) (m : msg) : option (option N * N) :=
  match nth_error sch (m_kind m) with
  | None => None
  | Some k =>
      let fs := k_fields k in let vs := m_fields m in
      match k_payload k with
      | PNone => None
      | PAlways i lp => Some (pid_val fs vs i, match field_num fs vs lp with Some n => n | None => 0 end)
      | PIf cp i lp => if field_bool fs vs cp
                       then Some (pid_val fs vs i, match field_num fs vs lp with Some n => n | None => 0 end)
                       else None
      end
  end.

Definition correlation_id (sch : list kschema) (m : msg) : option N :=
  match nth_error sch (m_kind m) with
  | None => None
  | Some k => match k_corr k with
              | CNone => None
              | _ => field_num (k_fields k) (m_fields m) str_id
              end
  end.
