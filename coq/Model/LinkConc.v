(* Several delegated calls in flight on ONE established S2M link (crates/modulator/src/conn.rs, client.rs on top of
   crates/common/src/conn.rs): the dispatcher spawns one task per request, the Modulator implementation answers them
   with arbitrary latencies, the replies are written in completion order, and the client correlates every reply with
   its request by correlation id.  An error reply that ends the link (non-recoverable error, or a reply that cannot be
   written at all) closes it: nothing more is written and the requests still pending fail (time out).
   Built on the per-request semantics of Model/Link.v (`via_link`): answering one request writes exactly the frames
   its sequential handling writes.
   Definitions only. *)
From NW Require Import Base.Bytes Model.SchemaTypes Gen.Schema Gen.Errors Model.Codec Model.MsgInfo Model.Pool
     Model.Framing Model.Ids Model.Server Model.Link.

Inductive lev :=
| LReq (id : N) (call : modcall)       (* the client sends a request with a fresh correlation id *)
| LAns (id : N) (o : moutcome).        (* the modulator implementation answers that request *)

Record lcstate := {
  lc_pending : list (N * modcall);                 (* accepted, not answered yet *)
  lc_answered : list (N * modcall * moutcome);     (* answered while the link was alive, in completion order *)
  lc_wire : list lout;                             (* what the dispatcher wrote back, in order (LSend / LClose only) *)
  lc_closed : bool }.

Definition lc_init : lcstate := {| lc_pending := []; lc_answered := []; lc_wire := []; lc_closed := false |}.

(* every request the client got onto the link, with the call it was issued for *)
Definition lc_issued (s : lcstate) : list (N * modcall) := lc_pending s ++ map fst (lc_answered s).
Definition lc_ids (s : lcstate) : list N := map fst (lc_issued s).

(* the outputs of a request's handling that are frames on the wire, and those that end the link *)
Definition is_wire_frame (x : lout) : bool := match x with LSend _ _ | LClose _ => true | _ => false end.
Definition ends_link (x : lout) : bool := match x with LClose _ | LDrop => true | _ => false end.

(* the correlation id a written frame carries *)
Definition frame_id (x : lout) : option N :=
  match x with LSend m _ | LClose m => correlation_id schema m | _ => None end.

Definition lc_step (cfg : lcfg) (hb : N) (s : lcstate) (e : lev) : lcstate :=
  match e with
  | LReq id call =>
      if lc_closed s || mem id (lc_ids s) || negb (declared_for cfg call) then s
      else {| lc_pending := lc_pending s ++ [(id, call)]; lc_answered := lc_answered s;
              lc_wire := lc_wire s; lc_closed := lc_closed s |}
  | LAns id o =>
      if lc_closed s then s else
      match nlookup id (lc_pending s) with
      | None => s
      | Some call =>
          let outs := fst (via_link cfg hb id call o) in
          {| lc_pending := nremove id (lc_pending s);
             lc_answered := lc_answered s ++ [(id, call, o)];
             lc_wire := lc_wire s ++ filter is_wire_frame outs;
             lc_closed := existsb ends_link outs |}
      end
  end.

Definition lc_run (cfg : lcfg) (hb : N) (evs : list lev) : lcstate := fold_left (lc_step cfg hb) evs lc_init.

(* the client's view of request `id`, issued for `call`: the first frame on the wire that carries the id, mapped as
   S2mClient does; a request whose reply never appears resolves to CrFail, i.e. times out *)
Definition lc_result (cfg : lcfg) (s : lcstate) (id : N) (call : modcall) : cresult :=
  map_reply cfg call (reply_for id (lc_wire s)).
