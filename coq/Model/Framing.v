(* Inbound framing: StreamReader (crates/util/src/codec.rs) as a pure state machine over a list
   of network segments, and the read path of Conn::run_connection_loop (crates/common/src/conn.rs:
   header line -> deserialize -> payload_info -> size check -> pool buffer -> read_raw len ->
   read_raw 1 must be a newline).  Definitions only. *)
From NW Require Import Base.Bytes Model.SchemaTypes Model.Codec Model.MsgInfo Model.Pool.

(* buf[0..current_pos) and line_pos *)
Record sr := { data : list N; line : option nat }.

Definition compact (st : sr) : sr :=
  match line st with
  | Some pos => if (pos <? length (data st))%nat then {| data := skipn (S pos) (data st); line := None |}
                else {| data := []; line := None |}
  | None => st
  end.

Inductive next_res := NLine (pos : nat) | NMaxLine | NEof | NFuel.

(* the loop of StreamReader::next; each read returns min(|segment|, free space) bytes *)
Fixpoint next_loop (fuel cap : nat) (d : list N) (src : list (list N)) : next_res * list N * list (list N) :=
  match fuel with
  | O => (NFuel, d, src)
  | S f =>
      match find_index (N.eqb NL) d with
      | Some pos => (NLine pos, d, src)
      | None =>
          if (length d =? cap)%nat then (NMaxLine, d, src)
          else match src with
               | [] => (NEof, d, src)
               | seg :: rest =>
                   let k := Nat.min (length seg) (cap - length d) in
                   next_loop f cap (d ++ firstn k seg)
                             (if (k <? length seg)%nat then skipn k seg :: rest else rest)
               end
      end
  end.

Definition src_len (src : list (list N)) : nat := length (concat src).

Definition sr_next (cap : nat) (st : sr) (src : list (list N)) : next_res * sr * list (list N) :=
  let st1 := compact st in
  match next_loop (S (src_len src)) cap (data st1) src with
  | (NLine pos, d, src') => (NLine pos, {| data := d; line := Some pos |}, src')
  | (r, d, src') => (r, {| data := d; line := None |}, src')
  end.

Definition remaining_bytes_count (st : sr) : nat :=
  match line st with
  | Some lp => if (lp + 1 <? length (data st))%nat then (length (data st) - (lp + 1))%nat else O
  | None => length (data st)
  end.

(* extract_remaining(buf, max_bytes) with buf.len() = buflen *)
Definition extract_remaining (st : sr) (buflen max_bytes : nat) : list N * sr :=
  let st1 := compact st in
  let avail := length (data st1) in
  let max_extract := if (max_bytes =? 0)%nat then avail else Nat.min max_bytes avail in
  let n := Nat.min buflen max_extract in
  if (0 <? n)%nat then
    (firstn n (data st1),
     if (n <? avail)%nat then {| data := skipn n (data st1); line := None |} else {| data := []; line := None |})
  else ([], st1).

(* read_exact on the underlying reader: None = EOF before n bytes were available *)
Fixpoint read_exact (src : list (list N)) (n : nat) : option (list N * list (list N)) :=
  match n with
  | O => Some ([], src)
  | _ =>
      match src with
      | [] => None
      | seg :: rest =>
          if (length seg <=? n)%nat then
            match read_exact rest (n - length seg) with
            | Some (out, src') => Some (seg ++ out, src')
            | None => None
            end
          else Some (firstn n seg, skipn n seg :: rest)
      end
  end.

(* StreamReader::read_raw(buf) with buf.len() = n : None = Err (EOF) *)
Definition read_raw (st : sr) (src : list (list N)) (n : nat) : option (list N * sr * list (list N)) :=
  let '(got, st1) :=
    if (0 <? remaining_bytes_count st)%nat then extract_remaining st n n else ([], st) in
  if (length got <? n)%nat then
    match read_exact src (n - length got) with
    | Some (more, src') => Some (got ++ more, st1, src')
    | None => None
    end
  else Some (got, st1, src).

(* what the connection does with the stream *)
Inductive ritem :=
| Dispatch (m : msg) (payload : option (list N))
| EMaxLine                         (* POLICY_VIOLATION "max message size exceeded" + close *)
| EPayloadTooLarge (id : option N) (* POLICY_VIOLATION "payload too large" + close *)
| EBadRequest                      (* BAD_REQUEST <decode error> + close *)
| EInvalidPayload (id : option N)  (* BAD_REQUEST "invalid payload format" + close *)
| EInternal                        (* INTERNAL_SERVER_ERROR + close (EOF inside a payload) *)
| EofQuiet                         (* peer closed between frames / inside a header: silent close *)
| PanicPool                        (* acquire_buffer(len) returned None and the caller unwrapped *)
| PanicDecode                      (* deserialize panicked *)
| RFuel.

Record rcfg := { max_msg : nat; max_payload : N; geo : list (N * N) }.

Fixpoint conn_read (fuel : nat) (sch : list kschema) (md : mode) (c : rcfg) (st : sr) (src : list (list N)) : list ritem :=
  match fuel with
  | O => [RFuel]
  | S f =>
      match sr_next (max_msg c) st src with
      | (NMaxLine, _, _) => [EMaxLine]
      | (NEof, _, _) => [EofQuiet]
      | (NFuel, _, _) => [RFuel]
      | (NLine pos, st1, src1) =>
          match deserialize sch md (firstn pos (data st1)) with
          | Err => [EBadRequest]
          | Panic => [PanicDecode]
          | OutOfFuel => [RFuel]
          | Ok m =>
              match payload_info sch m with
              | None => Dispatch m None :: conn_read f sch md c st1 src1
              | Some (id, len) =>
                  if max_payload c <? len then [EPayloadTooLarge id]
                  else match bucket_for (geo c) len with
                       | None => [PanicPool]
                       | Some _ =>
                           match read_raw st1 src1 (N.to_nat len) with
                           | None => [EInternal]
                           | Some (pl, st2, src2) =>
                               match read_raw st2 src2 1 with
                               | None => [EInternal]
                               | Some (nl, st3, src3) =>
                                   if list_eqb nl [NL] then Dispatch m (Some pl) :: conn_read f sch md c st3 src3
                                   else [EInvalidPayload id]
                               end
                           end
                       end
              end
          end
      end
  end.

Definition run_reader (sch : list kschema) (md : mode) (c : rcfg) (segs : list (list N)) : list ritem :=
  conn_read (S (src_len segs)) sch md c {| data := []; line := None |} segs.

(* ---- the specification on the unsegmented stream: a one-pass parser with no buffer ---- *)

Inductive split_res := SLine (l rest : list N) | SMaxLine | SEof.

(* first newline within the first cap bytes *)
Definition split_line (cap : nat) (s : list N) : split_res :=
  match find_index (N.eqb NL) (firstn cap s) with
  | Some pos => SLine (firstn pos s) (skipn (S pos) s)
  | None => if (cap <=? length s)%nat then SMaxLine else SEof
  end.

Fixpoint frames (fuel : nat) (sch : list kschema) (md : mode) (c : rcfg) (s : list N) : list ritem :=
  match fuel with
  | O => [RFuel]
  | S f =>
      match split_line (max_msg c) s with
      | SMaxLine => [EMaxLine]
      | SEof => [EofQuiet]
      | SLine l rest =>
          match deserialize sch md l with
          | Err => [EBadRequest]
          | Panic => [PanicDecode]
          | OutOfFuel => [RFuel]
          | Ok m =>
              match payload_info sch m with
              | None => Dispatch m None :: frames f sch md c rest
              | Some (id, len) =>
                  if max_payload c <? len then [EPayloadTooLarge id]
                  else match bucket_for (geo c) len with
                       | None => [PanicPool]
                       | Some _ =>
                           let n := N.to_nat len in
                           if (length rest <? n + 1)%nat then [EInternal]
                           else if nth n rest 0 =? NL
                                then Dispatch m (Some (firstn n rest)) :: frames f sch md c (skipn (S n) rest)
                                else [EInvalidPayload id]
                       end
              end
          end
      end
  end.

Definition parse_stream (sch : list kschema) (md : mode) (c : rcfg) (s : list N) : list ritem :=
  frames (S (length s)) sch md c s.
