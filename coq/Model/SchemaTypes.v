(* Types of the generated message schema table (Gen/Schema.v) and of generic message values. *)
From NW Require Import Base.Bytes.

Inductive fty := TAtom | TU8 | TU16 | TU32 | TBool.
Inductive fkind := KReg | KOpt | KVec.
Inductive fvalid := VdNone | VdNonZero | VdNonEmpty.

Record field := { f_param : list N; f_kind : fkind; f_ty : fty; f_valid : fvalid }.

Inductive extra :=
| XEnum (param : list N) (allowed : list (list N))
| XQos (param : list N) (allowed : list N).

Inductive pid := PidSome | PidOpt | PidNone.
Inductive payload_spec :=
| PNone
| PAlways (i : pid) (len_param : list N)
| PIf (cond_param : list N) (i : pid) (len_param : list N).
Inductive corr_spec := CNone | CSome | COpt.

Record kschema := {
  k_name : list N;                  (* Message::name() *)
  k_from_names : list (list N);     (* names Message::from_name maps to this variant *)
  k_fields : list field;            (* declaration order *)
  k_extra : list extra;
  k_payload : payload_spec;
  k_corr : corr_spec }.

(* generic field values; the constructor is determined by (f_kind, f_ty) *)
Inductive fval :=
| VStr (s : list N)
| VNum (n : N)
| VBool (b : bool)
| VOStr (o : option (list N))
| VONum (o : option N)
| VOBool (o : option bool)
| VVec (l : list (list N)).

Record msg := { m_kind : nat; m_fields : list fval }.

Definition ty_max (t : fty) : N :=
  match t with TU8 => 255 | TU16 => 65535 | TU32 => 4294967295 | _ => 0 end.

Definition default_val (f : field) : fval :=
  match f_kind f, f_ty f with
  | KReg, TAtom => VStr []
  | KReg, TBool => VBool false
  | KReg, _ => VNum 0
  | KOpt, TAtom => VOStr None
  | KOpt, TBool => VOBool None
  | KOpt, _ => VONum None
  | KVec, _ => VVec []
  end.

(* does a value have the shape its field demands (and numbers fit their type)? *)
Definition val_shape_ok (f : field) (v : fval) : bool :=
  match f_kind f, f_ty f, v with
  | KReg, TAtom, VStr _ => true
  | KReg, TBool, VBool _ => true
  | KReg, (TU8 | TU16 | TU32), VNum n => n <=? ty_max (f_ty f)
  | KOpt, TAtom, VOStr _ => true
  | KOpt, TBool, VOBool _ => true
  | KOpt, (TU8 | TU16 | TU32), VONum None => true
  | KOpt, (TU8 | TU16 | TU32), VONum (Some n) => n <=? ty_max (f_ty f)
  | KVec, TAtom, VVec _ => true
  | _, _, _ => false
  end.
