(* Exclusive registration of a name in the connection table (crates/server/src/c2s/router.rs, Router::register_connection
   with exclusive = true) under real concurrency: worker threads of different connections register at the same time.
   [atomic = true]: the test "nobody holds the name" and the insertion happen under ONE acquisition of the shard's write
   lock (DashMap::entry), as the code does; [atomic = false]: the test is made first (under a read lock) and the insertion
   afterwards, in a separate critical section (seeded change C07-exclusive-check-then-insert).  Definitions only. *)
From Coq Require Import List Arith Bool.
Import ListNotations.

Inductive tpc := TStart | TChecked (free : bool) | TDone (won : bool).

Record xstate := { holders : nat; threads : list tpc }.

Fixpoint set_pc (l : list tpc) (i : nat) (p : tpc) : list tpc :=
  match l, i with
  | [], _ => []
  | _ :: r, O => p :: r
  | x :: r, S i' => x :: set_pc r i' p
  end.

(* one scheduling step: thread i performs its next critical section *)
Definition xstep (atomic : bool) (s : xstate) (i : nat) : xstate :=
  match nth_error (threads s) i with
  | Some TStart =>
      if atomic
      then let won := holders s =? 0 in
           {| holders := (if won then S (holders s) else holders s); threads := set_pc (threads s) i (TDone won) |}
      else {| holders := holders s; threads := set_pc (threads s) i (TChecked (holders s =? 0)) |}
  | Some (TChecked true) => {| holders := S (holders s); threads := set_pc (threads s) i (TDone true) |}
  | Some (TChecked false) => {| holders := holders s; threads := set_pc (threads s) i (TDone false) |}
  | _ => s
  end.

Definition xrun (atomic : bool) (s : xstate) (sched : list nat) : xstate := fold_left (xstep atomic) sched s.
Definition xinit (n : nat) : xstate := {| holders := 0; threads := repeat TStart n |}.

Definition winners (s : xstate) : nat :=
  length (filter (fun p => match p with TDone true => true | _ => false end) (threads s)).
