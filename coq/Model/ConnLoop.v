(* Which arm of the connection loop (crates/common/src/conn.rs, run_connection_loop) is being polled when: the loop is
   either waiting in its select! (all arms polled: inbound line, outbound queue, close request, shutdown) or inside the
   write arm, awaiting the vectored write of a batch.  A close request (outbound queue overflow, keep-alive timeout, a
   handler's fatal error) or the shutdown signal arriving meanwhile is noticed at once when the write is raced with
   them ([raced = true], the code after the fix), and only once the write has completed otherwise — which is never when
   the peer does not read.  Definitions only. *)
From Coq Require Import List Bool.
Import ListNotations.

Inductive lphase := LIdle | LWriting | LEnded.

Record lstate := { ph : lphase; queued : nat; close_pending : bool }.

Inductive linput :=
| IEnqueue          (* a message is queued for this connection *)
| IClose            (* ConnTx::close: a close request is put into the one-slot close channel *)
| IShutdown         (* the shutdown token is cancelled *)
| IWriteDone        (* the transport accepted the whole batch *)
| ITick.            (* the loop is scheduled: it picks up whatever is ready *)

Definition lstep (raced : bool) (s : lstate) (i : linput) : lstate :=
  match ph s with
  | LEnded => s
  | LIdle =>
      match i with
      | IClose | IShutdown => {| ph := LEnded; queued := queued s; close_pending := true |}
      | IEnqueue => {| ph := LWriting; queued := 0; close_pending := close_pending s |}      (* the write arm takes the batch *)
      | IWriteDone | ITick => if close_pending s then {| ph := LEnded; queued := queued s; close_pending := true |} else s
      end
  | LWriting =>
      match i with
      | IClose | IShutdown => if raced then {| ph := LEnded; queued := queued s; close_pending := true |}
                              else {| ph := LWriting; queued := queued s; close_pending := true |}
      | IEnqueue => {| ph := LWriting; queued := S (queued s); close_pending := close_pending s |}
      | IWriteDone => if close_pending s then {| ph := LEnded; queued := queued s; close_pending := true |}
                      else {| ph := (match queued s with O => LIdle | S _ => LWriting end); queued := 0; close_pending := false |}
      | ITick => s
      end
  end.

Definition lrun (raced : bool) (s : lstate) (is_ : list linput) : lstate := fold_left (lstep raced) is_ s.
Definition linit : lstate := {| ph := LIdle; queued := 0; close_pending := false |}.

Definition is_close (i : linput) : bool := match i with IClose | IShutdown => true | _ => false end.
Definition is_write_done (i : linput) : bool := match i with IWriteDone => true | _ => false end.
