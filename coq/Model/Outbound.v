(* Outbound path of a connection (crates/common/src/conn.rs: write arm, prepare_iovs, write_iovs;
   crates/util/src/io.rs: write_all_vectored; ConnTx::send_message_with_payload / close).
   Definitions only. *)
From NW Require Import Base.Bytes Model.SchemaTypes Model.Codec.

(* a queued item: serialized header line (ends in \n) and optional payload *)
Definition item := (list N * option (list N))%type.

(* prepare_iovs: header, then payload and a one-byte newline slice for payload-bearing items *)
Definition iovs_of (it : item) : list (list N) :=
  match snd it with
  | Some p => [fst it; p; [NL]]
  | None => [fst it]
  end.
Definition prepare_iovs (batch : list item) : list (list N) := flat_map iovs_of batch.

Definition frame_bytes (it : item) : list N := concat (iovs_of it).

(* IoSlice::advance_slices: drop fully written slices (also empty ones met on the way), trim the next *)
Fixpoint advance_slices (bufs : list (list N)) (n : nat) : list (list N) :=
  match bufs with
  | [] => []
  | b :: r => if (length b <=? n)%nat then advance_slices r (n - length b)
              else skipn n b :: r
  end.

Definition total (bufs : list (list N)) : nat := length (concat bufs).

(* what the transport does with one write_vectored call *)
Inductive wres := Accept (k : nat) | WErr.

Inductive wout := WDone | WFailed | WStarved.   (* all written | error or zero-length write | oracle exhausted *)

(* write_all_vectored against a transport oracle (one entry per write_vectored call);
   returns the bytes that reached the transport, the outcome and the unused oracle *)
Fixpoint write_all (oracle : list wres) (bufs : list (list N)) (written : list N) : list N * wout * list wres :=
  match bufs with
  | [] => (written, WDone, oracle)
  | _ =>
      match oracle with
      | [] => (written, WStarved, [])
      | WErr :: o' => (written, WFailed, o')
      | Accept k :: o' =>
          let n := Nat.min k (total bufs) in
          if (n =? 0)%nat then (written, WFailed, o')
          else write_all o' (advance_slices bufs n) (written ++ firstn n (concat bufs))
      end
  end.

(* the writer loop: queued items are written batch by batch (each batch: 1..max_iovs items, as
   drained from the queue); a failed write ends the connection *)
Fixpoint write_batches (oracle : list wres) (batches : list (list item)) (written : list N) : list N * wout :=
  match batches with
  | [] => (written, WDone)
  | b :: r =>
      match write_all oracle (prepare_iovs b) written with
      | (w, WDone, o') => write_batches o' r w
      | (w, res, _) => (w, res)
      end
  end.

(* ConnTx::send_message_with_payload on a bounded queue: accepted, or overflow => close requested *)
Definition try_send (cap : nat) (queue : list item) (it : item) : list item * bool (* close requested *) :=
  if (length queue <? cap)%nat then (queue ++ [it], false) else (queue, true).

Fixpoint enqueue_all (cap : nat) (queue : list item) (its : list item) : list item * bool :=
  match its with
  | [] => (queue, false)
  | it :: r => let '(q, c) := try_send cap queue it in
               let '(q', c') := enqueue_all cap q r in (q', c || c')
  end.

(* header line of a queued message as Conn::serialize_message produces it *)
Definition header_of (sch : list kschema) (m : msg) (cap : nat) : option (list N) :=
  match serialize sch m cap with SerOk l => Some l | _ => None end.
