(* Identifiers (crates/protocol/src/id.rs): Nid / ChannelId parsing and validation over bytes,
   str::trim, and the local-NID construction of the C2S dispatcher.  Definitions only. *)
From NW Require Import Base.Bytes Model.Codec Gen.Unicode.

Definition str := list N.

Fixpoint in_ranges (rs : list (N * N)) (c : N) : bool :=
  match rs with
  | [] => false
  | (a, b) :: r => if c <? a then false else if c <=? b then true else in_ranges r c
  end.

(* char::is_alphanumeric / char::is_whitespace on Unicode scalar values (tables from Rust std) *)
Definition is_alnum_cp (c : N) : bool := in_ranges alnum_ranges c.
Definition is_ws_cp (c : N) : bool := in_ranges ws_ranges c.

(* decode valid UTF-8 into scalar values (input is always a Rust &str) *)
Fixpoint utf8_decode_fuel (fuel : nat) (l : list N) : list N :=
  match fuel with
  | O => []
  | S f =>
      match l with
      | [] => []
      | b0 :: r =>
          if b0 <? 128 then b0 :: utf8_decode_fuel f r
          else if b0 <? 224 then
            match r with b1 :: r' => ((b0 - 192) * 64 + (b1 - 128)) :: utf8_decode_fuel f r' | _ => [] end
          else if b0 <? 240 then
            match r with b1 :: b2 :: r' => ((b0 - 224) * 4096 + (b1 - 128) * 64 + (b2 - 128)) :: utf8_decode_fuel f r' | _ => [] end
          else
            match r with b1 :: b2 :: b3 :: r' =>
              ((b0 - 240) * 262144 + (b1 - 128) * 4096 + (b2 - 128) * 64 + (b3 - 128)) :: utf8_decode_fuel f r'
            | _ => [] end
      end
  end.
Definition utf8_decode (l : list N) : list N := utf8_decode_fuel (length l) l.

Definition cp_len (c : N) : nat := if c <? 128 then 1%nat else if c <? 2048 then 2%nat else if c <? 65536 then 3%nat else 4%nat.

(* str::trim : strip leading and trailing White_Space characters *)
Fixpoint drop_ws (bytes : list N) (cps : list N) : list N :=
  match cps with
  | [] => bytes
  | c :: r => if is_ws_cp c then drop_ws (skipn (cp_len c) bytes) r else bytes
  end.
Definition count_trailing_ws (cps : list N) : nat :=
  let fix go (l : list N) (acc : nat) :=
    match l with [] => acc | c :: r => if is_ws_cp c then go r (acc + cp_len c)%nat else acc end in
  go (rev cps) 0%nat.
Definition trim (s : str) : str :=
  let s1 := drop_ws s (utf8_decode s) in
  let t := count_trailing_ws (utf8_decode s1) in
  firstn (length s1 - t) s1.

Definition USERNAME_MAX : nat := 256.
Definition HANDLER_MAX : nat := 256.
Definition DOMAIN_MAX : nat := 253.

Definition is_ascii_alpha (c : N) : bool := ((65 <=? c) && (c <=? 90)) || ((97 <=? c) && (c <=? 122)).
Definition is_hex (c : N) : bool := is_digit c || ((65 <=? c) && (c <=? 70)) || ((97 <=? c) && (c <=? 102)).

(* split on a separator byte *)
Fixpoint split_on (sep : N) (l : list N) (cur : list N) : list (list N) :=
  match l with
  | [] => [rev cur]
  | c :: r => if c =? sep then rev cur :: split_on sep r [] else split_on sep r (c :: cur)
  end.

Definition len_between (lo hi : nat) (l : list N) : bool := (lo <=? length l)%nat && (length l <=? hi)%nat.

(* (?:[a-zA-Z0-9-]{1,63}\.)+[a-zA-Z]{2,63} *)
Definition host_form (s : str) : bool :=
  match rev (split_on 46 s []) with
  | last :: (_ :: _) as pre =>
      len_between 2 63 last && forallb is_ascii_alpha last
      && forallb (fun lb => len_between 1 63 lb && forallb (fun c => is_ascii_alpha c || is_digit c || (c =? 45)) lb) pre
  | _ => false
  end.
(* \[[0-9a-fA-F:]+\] *)
Definition bracket_form (s : str) : bool :=
  match s with
  | 91 :: r => match rev r with
               | 93 :: mid => negb (match mid with [] => true | _ => false end) && forallb (fun c => is_hex c || (c =? 58)) mid
               | _ => false
               end
  | _ => false
  end.
(* \d{1,3}\.\d{1,3}\.\d{1,3}\.\d{1,3}  (ASCII digits; regex \d also admits other Unicode digits: not modelled) *)
Definition ipv4_form (s : str) : bool :=
  match split_on 46 s [] with
  | [a; b; c; d] => forallb (fun p => len_between 1 3 p && forallb is_digit p) [a; b; c; d]
  | _ => false
  end.
Definition main_form (s : str) : bool := host_form s || bracket_form s || ipv4_form s.

(* optional :port suffix of 1..5 digits *)
Definition domain_regex (s : str) : bool :=
  main_form s ||
  match find_index (N.eqb 58) (rev s) with
  | Some k => let port := skipn (length s - k) s in
              let main := firstn (length s - k - 1) s in
              len_between 1 5 port && forallb is_digit port && main_form main
  | None => false
  end.

Definition LOCALHOST : str := [108; 111; 99; 97; 108; 104; 111; 115; 116].

Definition validate_domain (d : str) : bool :=
  negb (match d with [] => true | _ => false end) && (length d <=? DOMAIN_MAX)%nat
  && (list_eqb d LOCALHOST || domain_regex d).

Definition username_char (c : N) : bool := is_alnum_cp c || (c =? 45) || (c =? 46) || (c =? 95).

Definition nid_validate (u d : str) : bool :=
  (length u <=? USERNAME_MAX)%nat && forallb username_char (utf8_decode u) && validate_domain d.

Record nid := { nu : str; nd : str }.

Definition AT : N := 64.
Definition nid_full (n : nid) : str := match nu n with [] => nd n | u => u ++ [AT] ++ nd n end.

(* Nid::from_str *)
Definition nid_parse (s : str) : option nid :=
  match find_index (N.eqb AT) s with
  | Some k =>
      let u := firstn k s in let d := skipn (S k) s in
      match u with
      | [] => None
      | _ => if nid_validate u d then Some {| nu := u; nd := d |} else None
      end
  | None => if nid_validate [] s then Some {| nu := []; nd := s |} else None
  end.

(* ChannelId: (handler, domain) *)
Definition BANG : N := 33.
Definition chan_validate (h d : str) : bool :=
  negb (match h with [] => true | _ => false end) && (length h <=? HANDLER_MAX)%nat
  && forallb is_alnum_cp (utf8_decode h) && validate_domain d.

Definition chan_parse (s : str) : option (str * str) :=
  match s with
  | 33 :: _ =>
      match find_index (N.eqb AT) s with
      | Some k => let h := firstn (k - 1) (skipn 1 s) in let d := skipn (S k) s in
                  if chan_validate h d then Some (h, d) else None
      | None => None
      end
  | _ => None
  end.
Definition chan_full (h d : str) : str := [BANG] ++ h ++ [AT] ++ d.

(* C2sDispatcherInner::make_local_nid (with the empty-username guard) *)
Definition make_local_nid (domain u : str) : option nid :=
  match u with
  | [] => None
  | _ => if nid_validate u domain then Some {| nu := u; nd := domain |} else None
  end.

Definition nid_eqb (a b : nid) : bool := list_eqb (nu a) (nu b) && list_eqb (nd a) (nd b).
