(* The classes of values on which encode/decode is NOT the identity (known findings K11a-f),
   as executable predicates; wf_rt = "outside every class".  Used by the theorems (hypothesis)
   and by the monitor that classifies round-trip failures observed on the implementation. *)
From NW Require Import Base.Bytes Model.SchemaTypes Gen.Consts Model.Codec.

Definition starts_esc (s : list N) : bool :=
  match s with b :: e :: _ => (b =? BACKSLASH) && is_escape_char e | _ => false end.

(* state of the scanner's "pending backslash" flag after scanning s inside \e ... \e;
   a backslash in the very first position does not arm it (to = from) *)
Fixpoint armed_after (first armed : bool) (s : list N) : bool :=
  match s with
  | [] => armed
  | b :: r => if (b =? BACKSLASH) && negb armed then armed_after false (negb first) r
              else armed_after false false r
  end.

(* 0 = round-trips; otherwise the number of the known class *)
Definition str_class (s : list N) : N :=
  match s with
  | [] => 1                                            (* K11a empty string *)
  | _ =>
      if mem 0 s then 2                                (* K11b NUL byte *)
      else if mem NL s then 9                          (* frame delimiter: outside the property *)
      else if negb (utf8_valid s) then 8               (* not a Rust string *)
      else if negb (has_space s) then
        (if starts_esc s then 3                        (* K11c raw value looks escaped *)
         else if list_eqb s [BACKSLASH] then 4         (* K11d lone backslash (fails in last position) *)
         else 0)
      else match first_free_esc ser_escape_chars s with
           | None => 7                                 (* not encodable *)
           | Some _ => if armed_after true false s then 5   (* K11e trailing backslash *)
                       else 0
           end
  end.

Definition max_class (a b : N) : N := if a =? 0 then b else a.

Definition fval_class (v : fval) : N :=
  match v with
  | VStr s => str_class s
  | VOStr (Some s) => str_class s
  | VVec l => fold_right (fun s acc => max_class (str_class s) acc) 0 l
  | _ => 0
  end.

(* class of a whole message: 0 = wf_rt; 6 = violates its own validation rules (K11f);
   10 = ill-shaped for the schema *)
Definition msg_class (sch : list kschema) (m : msg) : N :=
  match nth_error sch (m_kind m) with
  | None => 10
  | Some k =>
      if negb (shapes_ok (k_fields k) (m_fields m)) then 10
      else let c := fold_right (fun v acc => max_class (fval_class v) acc) 0 (m_fields m) in
           if negb (c =? 0) then c
           else if negb (validate k (m_fields m)) then 6 else 0
  end.

Definition wf_rt (sch : list kschema) (m : msg) : bool := msg_class sch m =? 0.
