(* Outbound frames that do not fit the message buffer (Conn::serialize_message, crates/common/src/conn.rs):
   a frame carrying a correlation id is replaced by ERROR RESPONSE_TOO_LARGE with that id (the payload, if any, still
   follows); an unsolicited frame (EVENT, MESSAGE, MOD_DIRECT without id, ...) makes the receiving connection's loop end
   with an error: nothing of the batch being assembled is written, the connection is torn down (its user leaves its
   channels when it was the last connection) — exactly a Hangup of that connection right after the op.
   `step_x` wraps Model/Server.step accordingly.  Definitions only. *)
From NW Require Import Base.Bytes Model.SchemaTypes Gen.Schema Model.Codec Model.MsgInfo Model.Ids Model.Server.

Definition oversize (cfg : scfg) (m : msg) : bool :=
  match serialize schema m (N.to_nat (max_message cfg)) with SerOk _ => false | _ => true end.

(* replies: too large -> RESPONSE_TOO_LARGE *)
Definition shrink_reply (cfg : scfg) (o : out) : out :=
  match o with
  | OSend h m p =>
      if oversize cfg m then
        match correlation_id schema m with
        | Some id => OSend h (err_msg (Some id) "RESPONSE_TOO_LARGE") p
        | None => o
        end
      else o
  | _ => o
  end.

Definition kills (cfg : scfg) (o : out) : option N :=
  match o with
  | OSend h m _ => if oversize cfg m then match correlation_id schema m with None => Some h | Some _ => None end else None
  | _ => None
  end.

Fixpoint ndedup (l : list N) : list N :=
  match l with
  | [] => []
  | x :: r => x :: filter (fun y => negb (y =? x)) (ndedup r)
  end.

Definition victims (cfg : scfg) (os : list out) : list N :=
  ndedup (flat_map (fun o => match kills cfg o with Some h => [h] | None => [] end) os).

(* what a victim still receives from this op: nothing (the batch is dropped); others: replies possibly shrunk *)
Definition deliver (cfg : scfg) (vs : list N) (os : list out) : list out :=
  flat_map (fun o => match o with
                     | OSend h _ _ => if existsb (N.eqb h) vs then [] else [shrink_reply cfg o]
                     | _ => [o]
                     end) os.

(* the connections killed by an op are torn down one after the other; a tear-down's own events may kill more *)
Fixpoint settle (fuel : nat) (cfg : scfg) (hi : list (str * nid)) (s : state) (os : list out) (dead : list N) : state * list out * list N :=
  match fuel with
  | O => (s, deliver cfg dead os, dead)
  | S f =>
      match filter (fun h => negb (existsb (N.eqb h) dead)) (victims cfg os) with
      | [] => (s, deliver cfg dead os, dead)
      | h :: _ =>
          let '(s1, os1) := step cfg s (Hangup h [] hi) in
          settle f cfg hi s1 (os ++ os1) (dead ++ [h])
      end
  end.

Definition op_hints (o : op) : list (str * nid) :=
  match o with Frame _ _ _ _ hi | Bytes _ _ _ hi | Hangup _ _ hi => hi | _ => [] end.

(* returns the new state, the frames actually written / closes, and the connections that died of an oversize frame *)
Definition step_x (cfg : scfg) (s : state) (o : op) : state * list out * list N :=
  let '(s1, os1) := step cfg s o in
  settle (S (length (conns s1))) cfg (op_hints o) s1 os1 [].

Fixpoint run_state_x (cfg : scfg) (s : state) (ops : list op) : state :=
  match ops with
  | [] => s
  | o :: r => run_state_x cfg (fst (fst (step_x cfg s o))) r
  end.

(* the plain op list that reaches the same state: every op followed by the Hangups of its victims *)
Fixpoint settle_ops (fuel : nat) (cfg : scfg) (hi : list (str * nid)) (s : state) (os : list out) (dead : list N) : list op :=
  match fuel with
  | O => []
  | S f =>
      match filter (fun h => negb (existsb (N.eqb h) dead)) (victims cfg os) with
      | [] => []
      | h :: _ =>
          let '(s1, os1) := step cfg s (Hangup h [] hi) in
          Hangup h [] hi :: settle_ops f cfg hi s1 (os ++ os1) (dead ++ [h])
      end
  end.

Fixpoint expand (cfg : scfg) (s : state) (ops : list op) : list op :=
  match ops with
  | [] => []
  | o :: r =>
      let '(s1, os1) := step cfg s o in
      let extra := settle_ops (S (length (conns s1))) cfg (op_hints o) s1 os1 [] in
      o :: extra ++ expand cfg (fst (fst (step_x cfg s o))) r
  end.
