(* Executable model of crates/protocol/src/{deserialize,serialize}.rs and of the code the
   derive macro (crates/protocol-macros) generates, generic in the schema table Gen/Schema.v.

   The cursor is (buf, pos); every function returns the new position exactly as the Rust code
   leaves it, because `unread_bytes` is relative to the absolute position.  Definitions only. *)
From NW Require Import Base.Bytes Model.SchemaTypes Gen.Consts.

Definition is_space (b : N) : bool := mem b de_space_chars.
Definition is_escape_char (b : N) : bool := mem b de_escape_chars.
Definition BACKSLASH : N := 92.

(* read_byte: 0 at the end of the buffer *without advancing* *)
Definition read_byte (buf : list N) (p : nat) : N * nat :=
  match nth_error buf p with Some b => (b, S p) | None => (0, p) end.

(* seek_char on the suffix starting at p: (Some start | None, new position) *)
Fixpoint seek_aux (suf : list N) (p : nat) : option nat * nat :=
  match suf with
  | [] => (None, p)
  | b :: r => if b =? 0 then (None, S p)
              else if is_space b then seek_aux r (S p)
              else (Some p, p)
  end.
Definition seek_char (buf : list N) (p : nat) := seek_aux (skipn p buf) p.

(* the loop of read_string: returns (to, new position) *)
Fixpoint rs_aux (suf : list N) (p to : nat) : nat * nat :=
  match suf with
  | [] => (to, p)
  | b :: r => if (b =? 0) || is_space b then (to, S p) else rs_aux r (S p) (S to)
  end.

Definition read_string (buf : list N) (p : nat) : option (list N) * nat :=
  match seek_char buf p with
  | (None, p') => (None, p')
  | (Some from, _) =>
      let '(to, p'') := rs_aux (skipn from buf) from from in
      (Some (slice buf from to), p'')
  end.

(* the loop of read_escaped_string; `to = from` encodes "no pending backslash" as in the code *)
Fixpoint esc_loop (suf : list N) (p from to : nat) (e : N) : res (nat * nat) :=
  match suf with
  | [] => Err                      (* read_byte yields 0: third branch *)
  | b :: r =>
      if (b =? BACKSLASH) && (to =? from)%nat then esc_loop r (S p) from p e
      else if (b =? e) && negb (to =? from)%nat then Ok (to, S p)
      else if b =? 0 then Err
      else if negb (to =? from)%nat then esc_loop r (S p) from from e
      else esc_loop r (S p) from to e
  end.

Definition read_escaped_string (buf : list N) (p : nat) : res (option (list N) * nat) :=
  match seek_char buf p with
  | (None, p') => Ok (None, p')
  | (Some from0, _) =>
      let '(b1, p1) := read_byte buf from0 in
      if negb (b1 =? BACKSLASH) then Ok (read_string buf (p1 - 1))
      else
        let '(e, p2) := read_byte buf p1 in
        if negb (is_escape_char e) then
          (if (p2 <? 2)%nat then Err (* seek before 0 *) else Ok (read_string buf (p2 - 2)))
        else
          '(to, p3) <- esc_loop (skipn p2 buf) p2 p2 p2 e ;;
          Ok (Some (slice buf p2 to), p3)
  end.

Fixpoint find_index (f : N -> bool) (l : list N) : option nat :=
  match l with
  | [] => None
  | x :: r => if f x then Some 0%nat else option_map S (find_index f r)
  end.

Definition is_digit (b : N) : bool := (48 <=? b) && (b <=? 57).

Fixpoint digits_val (acc : N) (l : list N) : option N :=
  match l with
  | [] => Some acc
  | d :: r => if is_digit d then digits_val (acc * 10 + (d - 48)) r else None
  end.

(* Rust's <unsigned>::from_str: optional '+', at least one digit, overflow is an error *)
Definition parse_uint (max : N) (s : list N) : option N :=
  let ds := match s with 43 :: r => r | _ => s end in
  match ds with
  | [] => None
  | _ => match digits_val 0 ds with
         | Some v => if v <=? max then Some v else None
         | None => None
         end
  end.

Definition USIZE_MAX : N := 18446744073709551615.

Definition is_name_char (c : N) : bool :=
  is_digit c || ((65 <=? c) && (c <=? 90)) || ((97 <=? c) && (c <=? 122)) || (c =? 95).

(* read_parameter: Ok None = end of parameters; Ok (Some (name, count, newpos)) *)
Definition read_parameter (buf : list N) (p : nat) : res (option (list N * N) * nat) :=
  match seek_char buf p with
  | (None, p') => Ok (None, p')
  | (Some pos, _) =>
      let rest := skipn pos buf in
      match find_index (N.eqb 61) rest with
      | None => Err
      | Some eq =>
          let name := firstn eq rest in
          match find_index (N.eqb 58) name with
          | None =>
              if forallb is_name_char name then Ok (Some (name, 1), (pos + eq + 1)%nat) else Err
          | Some c =>
              match parse_uint USIZE_MAX (skipn (S c) name) with
              | None => Err
              | Some cnt =>
                  let name' := firstn c name in
                  if negb (forallb is_name_char name') then Err
                  else if de_rejects_zero_count && (cnt =? 0) then Err
                  else Ok (Some (name', cnt), (pos + eq + 1)%nat)
              end
          end
      end
  end.

(* --- UTF-8 validity (std::str::from_utf8) --- *)
Definition in_rng (lo hi b : N) : bool := (lo <=? b) && (b <=? hi).
Definition cont (b : N) : bool := in_rng 128 191 b.

Fixpoint utf8_valid_fuel (fuel : nat) (l : list N) : bool :=
  match fuel with
  | O => match l with [] => true | _ => false end
  | S fuel' =>
      match l with
      | [] => true
      | b0 :: r =>
          if b0 <=? 127 then utf8_valid_fuel fuel' r
          else if in_rng 194 223 b0 then
            match r with b1 :: r' => cont b1 && utf8_valid_fuel fuel' r' | _ => false end
          else if in_rng 224 239 b0 then
            match r with
            | b1 :: b2 :: r' =>
                (if b0 =? 224 then in_rng 160 191 b1
                 else if b0 =? 237 then in_rng 128 159 b1
                 else cont b1) && cont b2 && utf8_valid_fuel fuel' r'
            | _ => false
            end
          else if in_rng 240 244 b0 then
            match r with
            | b1 :: b2 :: b3 :: r' =>
                (if b0 =? 240 then in_rng 144 191 b1
                 else if b0 =? 244 then in_rng 128 143 b1
                 else cont b1) && cont b2 && cont b3 && utf8_valid_fuel fuel' r'
            | _ => false
            end
          else false
      end
  end.
Definition utf8_valid (l : list N) : bool := utf8_valid_fuel (length l) l.

Definition str_true : list N := [116; 114; 117; 101].
Definition str_false : list N := [102; 97; 108; 115; 101].

(* Parameter::as_* for a field type *)
Inductive pval := PStr (s : list N) | PNum (n : N) | PBool (b : bool).
Definition parse_value (t : fty) (v : list N) : option pval :=
  match t with
  | TAtom => if utf8_valid v then Some (PStr v) else None
  | TBool => if list_eqb v str_true then Some (PBool true)
             else if list_eqb v str_false then Some (PBool false) else None
  | _ => option_map PNum (parse_uint (ty_max t) v)
  end.

(* assignment performed by the generated `decode` for one parameter *)
Definition store (f : field) (old : fval) (pv : pval) : fval :=
  match f_kind f, pv, old with
  | KReg, PStr s, _ => VStr s
  | KReg, PNum n, _ => VNum n
  | KReg, PBool b, _ => VBool b
  | KOpt, PStr s, _ => VOStr (Some s)
  | KOpt, PNum n, _ => VONum (Some n)
  | KOpt, PBool b, _ => VOBool (Some b)
  | KVec, PStr s, VVec l => VVec (l ++ [s])
  | KVec, _, _ => old
  end.

(* first field (declaration order) whose parameter name matches *)
Fixpoint assign (fs : list field) (vs : list fval) (name value : list N) : option (list fval) :=
  match fs, vs with
  | f :: fs', v :: vs' =>
      if list_eqb name (f_param f) then
        match parse_value (f_ty f) value with
        | Some pv => Some (store f v pv :: vs')
        | None => None
        end
      else option_map (cons v) (assign fs' vs' name value)
  | _, _ => Some vs      (* unknown parameter names are ignored *)
  end.

(* ParameterReader::next + the decode loop.
   cur = (current_name, current_value_count) when an array is being read. *)
Fixpoint decode_loop (fuel : nat) (md : mode) (buf : list N) (p : nat)
         (cur : option (list N * N)) (fs : list field) (vs : list fval) : res (list fval) :=
  match fuel with
  | O => OutOfFuel
  | S fuel' =>
      let hdr : res (option (list N * N) * nat) :=
        match cur with
        | Some c => Ok (Some c, p)
        | None => read_parameter buf p
        end in
      '(h, p1) <- hdr ;;
      match h with
      | None => Ok vs
      | Some (name, cnt) =>
          '(v, p2) <- read_escaped_string buf p1 ;;
          match v with
          | None => Err
          | Some value =>
              (* current_value_count -= 1 *)
              cnt' <- (if cnt =? 0 then
                         match md with Checked => Panic | Wrapping => Ok USIZE_MAX end
                       else Ok (cnt - 1)) ;;
              let cur' := if cnt' =? 0 then None else Some (name, cnt') in
              match assign fs vs name value with
              | None => Err
              | Some vs' => decode_loop fuel' md buf p2 cur' fs vs'
              end
          end
      end
  end.

Definition field_by_param (fs : list field) (vs : list fval) (name : list N) : option (field * fval) :=
  let fix go fs vs :=
    match fs, vs with
    | f :: fs', v :: vs' => if list_eqb name (f_param f) then Some (f, v) else go fs' vs'
    | _, _ => None
    end in go fs vs.

Definition validate_field (f : field) (v : fval) : bool :=
  match f_valid f, v with
  | VdNone, _ => true
  | VdNonZero, VNum n => negb (n =? 0)
  | VdNonEmpty, VStr s => negb (match s with [] => true | _ => false end)
  | VdNonEmpty, VVec l => negb (match l with [] => true | _ => false end)
  | _, _ => true
  end.

Fixpoint validate_fields (fs : list field) (vs : list fval) : bool :=
  match fs, vs with
  | f :: fs', v :: vs' => validate_field f v && validate_fields fs' vs'
  | _, _ => true
  end.

Definition validate_extra (fs : list field) (vs : list fval) (x : extra) : bool :=
  match x with
  | XEnum pn allowed =>
      match field_by_param fs vs pn with
      | Some (_, VStr s) => existsb (list_eqb s) allowed
      | Some (_, VOStr (Some s)) => existsb (list_eqb s) allowed
      | _ => true
      end
  | XQos pn allowed =>
      match field_by_param fs vs pn with
      | Some (_, VONum (Some q)) => mem q allowed
      | Some (_, VNum q) => mem q allowed
      | _ => true
      end
  end.

Definition validate (k : kschema) (vs : list fval) : bool :=
  validate_fields (k_fields k) vs && forallb (validate_extra (k_fields k) vs) (k_extra k).

(* Message::from_name *)
Fixpoint kind_of_name (sch : list kschema) (i : nat) (name : list N) : option (nat * kschema) :=
  match sch with
  | [] => None
  | k :: r => if existsb (list_eqb name) (k_from_names k) then Some (i, k) else kind_of_name r (S i) name
  end.

Definition deserialize (sch : list kschema) (md : mode) (buf : list N) : res msg :=
  match read_string buf 0 with
  | (None, _) => Err
  | (Some name, p) =>
      match kind_of_name sch 0 name with
      | None => Err
      | Some (i, k) =>
          vs <- decode_loop (S (length buf)) md buf p None (k_fields k) (map default_val (k_fields k)) ;;
          if validate k vs then Ok {| m_kind := i; m_fields := vs |} else Err
      end
  end.

(* ------------------------------------------------------------------ serialize *)

Definition has_space (s : list N) : bool := existsb (fun c => mem c ser_space_chars) s.

Fixpoint first_free_esc (cands : list N) (s : list N) : option N :=
  match cands with
  | [] => None
  | e :: r => if mem e s then first_free_esc r s else Some e
  end.

(* <&str as ParameterValueDisplay>::fmt_param ; None = "unable to escape parameter value" *)
Definition fmt_str (s : list N) : option (list N) :=
  match s with
  | [] => Some [BACKSLASH; 34; BACKSLASH; 34]
  | _ => if negb (has_space s) then Some s
         else match first_free_esc ser_escape_chars s with
              | Some e => Some ([BACKSLASH; e] ++ s ++ [BACKSLASH; e])
              | None => None
              end
  end.

(* decimal rendering of a number (Display for u8/u16/u32) *)
Fixpoint dec_digits (fuel : nat) (n : N) (acc : list N) : list N :=
  match fuel with
  | O => acc
  | S f => let acc' := (48 + n mod 10) :: acc in
           if n / 10 =? 0 then acc' else dec_digits f (n / 10) acc'
  end.
Definition fmt_num (n : N) : list N := dec_digits 40 n [].
Definition fmt_bool (b : bool) : list N := if b then str_true else str_false.

Inductive chunk := Bytes (l : list N) | Unescapable.

Definition chunk_of_opt (o : option (list N)) : chunk :=
  match o with Some l => Bytes l | None => Unescapable end.

Definition SP : N := 32.
Definition EQ : N := 61.
Definition COLON : N := 58.
Definition NL : N := 10.

Fixpoint vec_chunks (first : bool) (l : list (list N)) : list chunk :=
  match l with
  | [] => []
  | s :: r => (if first then [] else [Bytes [SP]]) ++ [chunk_of_opt (fmt_str s)] ++ vec_chunks false r
  end.

(* write_param / write_param_slice for one field *)
Definition field_chunks (f : field) (v : fval) : list chunk :=
  let hdr := Bytes ([SP] ++ f_param f ++ [EQ]) in
  match v with
  | VStr s => [hdr; chunk_of_opt (fmt_str s)]
  | VNum n => [hdr; Bytes (fmt_num n)]
  | VBool b => [hdr; Bytes (fmt_bool b)]
  | VOStr (Some s) => [hdr; chunk_of_opt (fmt_str s)]
  | VONum (Some n) => [hdr; Bytes (fmt_num n)]
  | VOBool (Some b) => [hdr; Bytes (fmt_bool b)]
  | VOStr None | VONum None | VOBool None => []
  | VVec [] => []
  | VVec l => [Bytes ([SP] ++ f_param f ++ [COLON] ++ fmt_num (N.of_nat (length l))); Bytes [EQ]] ++ vec_chunks true l
  end.

(* canonical order of the derive macro: `id` first, the others sorted by parameter name *)
Definition str_id : list N := [105; 100].
Fixpoint insert_sorted (x : field * fval) (l : list (field * fval)) : list (field * fval) :=
  match l with
  | [] => [x]
  | y :: r => if bytes_ltb (f_param (fst x)) (f_param (fst y)) then x :: l else y :: insert_sorted x r
  end.
(* stable insertion sort (Rust's sort_by is stable) *)
Definition sort_fields (l : list (field * fval)) : list (field * fval) :=
  fold_right insert_sorted [] l.
Definition canon_order (fs : list field) (vs : list fval) : list (field * fval) :=
  let all := combine fs vs in
  let ids := filter (fun x => list_eqb (f_param (fst x)) str_id) all in
  let others := filter (fun x => negb (list_eqb (f_param (fst x)) str_id)) all in
  (* the macro keeps the *last* field named id as id_field; there is at most one *)
  (match rev ids with [] => [] | x :: _ => [x] end) ++ sort_fields others.

Inductive ser_res := SerOk (l : list N) | SerTooLarge | SerOther.

Fixpoint run_chunks (cap : nat) (acc : list N) (cs : list chunk) : ser_res :=
  match cs with
  | [] => SerOk acc
  | Unescapable :: _ => SerOther
  | Bytes l :: r =>
      let acc' := acc ++ l in
      if (cap <? length acc')%nat then SerTooLarge else run_chunks cap acc' r
  end.

Definition msg_chunks (sch : list kschema) (m : msg) : option (list chunk) :=
  match nth_error sch (m_kind m) with
  | None => None
  | Some k =>
      Some ([Bytes (k_name k)]
              ++ flat_map (fun x => field_chunks (fst x) (snd x)) (canon_order (k_fields k) (m_fields m))
              ++ [Bytes [NL]])
  end.

Definition serialize (sch : list kschema) (m : msg) (cap : nat) : ser_res :=
  match msg_chunks sch m with
  | None => SerOther
  | Some cs => run_chunks cap [] cs
  end.

(* well-shaped message for the schema *)
Fixpoint shapes_ok (fs : list field) (vs : list fval) : bool :=
  match fs, vs with
  | [], [] => true
  | f :: fs', v :: vs' => val_shape_ok f v && shapes_ok fs' vs'
  | _, _ => false
  end.
Definition msg_shape_ok (sch : list kschema) (m : msg) : bool :=
  match nth_error sch (m_kind m) with
  | Some k => shapes_ok (k_fields k) (m_fields m)
  | None => false
  end.
