(* Per-connection in-flight accounting (crates/common/src/conn.rs, Conn::submit_request): a request is admitted while the
   counter is below max_inflight_requests and the counter is incremented; when its task ends — reply, error, request
   timeout or cancellation alike — the counter goes down again.  [live = true]: the task re-reads the counter and
   decrements it (saturating), as the code does; [live = false]: it writes back the value it saw when the request was
   admitted (seeded change C13-inflight-restored-from-snapshot).  Definitions only. *)
From Coq Require Import List Arith Bool.
Import ListNotations.

Record istate := { counter : nat; running : list (nat * nat) (* request id, counter value seen at admission *) }.

Inductive iev :=
| IAdmit (id : nat)      (* a request frame arrives *)
| IEnd (id : nat).       (* that request's task ends (whatever the reason) *)

Inductive ires := IOk (s : istate) | IRefused (* "max inflight requests reached": the connection is dropped *) | INoop.

Fixpoint find_run (id : nat) (l : list (nat * nat)) : option nat :=
  match l with [] => None | (i, c) :: r => if i =? id then Some c else find_run id r end.
Fixpoint drop_run (id : nat) (l : list (nat * nat)) : list (nat * nat) :=
  match l with [] => [] | (i, c) :: r => if i =? id then r else (i, c) :: drop_run id r end.

Definition istep (live : bool) (limit : nat) (s : istate) (e : iev) : ires :=
  match e with
  | IAdmit id =>
      match find_run id (running s) with
      | Some _ => INoop                                   (* ids in flight are distinct *)
      | None => if limit <=? counter s then IRefused
                else IOk {| counter := S (counter s); running := running s ++ [(id, counter s)] |}
      end
  | IEnd id =>
      match find_run id (running s) with
      | None => INoop
      | Some seen => IOk {| counter := (if live then pred (counter s) else seen); running := drop_run id (running s) |}
      end
  end.

(* run a schedule; stop at the first refusal *)
Fixpoint irun (live : bool) (limit : nat) (s : istate) (evs : list iev) : istate * bool (* refused *) :=
  match evs with
  | [] => (s, false)
  | e :: r => match istep live limit s e with
              | IOk s' => irun live limit s' r
              | INoop => irun live limit s r
              | IRefused => (s, true)
              end
  end.

Definition iinit : istate := {| counter := 0; running := [] |}.
