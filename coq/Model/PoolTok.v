(* Buffer pool ownership protocol (crates/util/src/pool.rs): Pool (semaphore + ArrayQueue),
   MutablePoolBuffer / PoolBuffer (freeze, clone, Drop), release_buffers, and BucketedPool's
   bucket selection.  The model is a transition system over MICRO-steps (the individual atomic
   operations on the semaphore and the queue), so that theorems quantify over every interleaving
   of any number of tasks / threads.  Definitions only. *)
From NW Require Import Base.Bytes.

Definition bufid := nat.

Inductive hstate :=
| HMut                    (* MutablePoolBuffer: exclusive, writable *)
| HFrozen (refs : nat).   (* PoolBuffer shared by refs >= 1 clones, read-only *)

Record pool := {
  cap : nat;
  avail : list bufid;               (* ArrayQueue contents, front first *)
  permits : nat;                    (* semaphore permits available *)
  held : list (bufid * hstate);     (* buffers owned by some holder *)
  acquiring : nat;                  (* tasks that own a permit but have not popped yet *)
  returning : nat;                  (* buffers pushed back whose permit has not been returned yet *)
  contents : list (bufid * list N)  (* bytes of each buffer *)
}.

Definition init_pool (n : nat) : pool :=
  {| cap := n; avail := seq 0 n; permits := n; held := []; acquiring := 0; returning := 0;
     contents := map (fun i => (i, [])) (seq 0 n) |}.

Fixpoint hlookup (i : bufid) (l : list (bufid * hstate)) : option hstate :=
  match l with [] => None | (j, h) :: r => if (i =? j)%nat then Some h else hlookup i r end.
Definition hremove (i : bufid) (l : list (bufid * hstate)) := filter (fun e => negb (i =? fst e)%nat) l.
Definition hset (i : bufid) (h : hstate) (l : list (bufid * hstate)) := (i, h) :: hremove i l.

Definition set_contents (i : bufid) (b : list N) (l : list (bufid * list N)) :=
  (i, b) :: filter (fun e => negb (i =? fst e)%nat) l.

(* micro-steps *)
Inductive mstep :=
| AcqPermit                 (* sem.acquire_owned() succeeds *)
| Pop                       (* available.pop().unwrap() — must never find the queue empty *)
| Write (i : bufid) (b : list N)   (* as_mut_slice() write: needs a mutable handle *)
| Freeze (i : bufid)        (* MutablePoolBuffer::freeze: data, pool and permit move into the shared cell *)
| Clone (i : bufid)         (* PoolBuffer::clone *)
| DropRef (i : bufid)       (* drop of a clone that is not the last one *)
| PushBack (i : bufid)      (* Drop of the last owner, first half: force_push the buffer *)
| RetPermit                 (* second half: the OwnedSemaphorePermit is dropped *)
| BatchUnwrap (i : bufid)   (* release_buffers: try_unwrap succeeded, permit forgotten, force_push *)
| BatchAddPermit.           (* release_buffers: add_permits (one unit per unwrapped buffer) *)

Inductive sres := SOk (p : pool) | SDisabled | SPanic.   (* SPanic = pop on an empty queue *)

Definition upd (p : pool) av pe he ac re co : pool :=
  {| cap := cap p; avail := av; permits := pe; held := he; acquiring := ac; returning := re; contents := co |}.

Definition step (p : pool) (s : mstep) : sres :=
  match s with
  | AcqPermit =>
      match permits p with
      | O => SDisabled                       (* the task stays parked on the semaphore *)
      | S n => SOk (upd p (avail p) n (held p) (S (acquiring p)) (returning p) (contents p))
      end
  | Pop =>
      match acquiring p with
      | O => SDisabled
      | S a => match avail p with
               | [] => SPanic
               | i :: r => SOk (upd p r (permits p) (hset i HMut (held p)) a (returning p) (contents p))
               end
      end
  | Write i b =>
      match hlookup i (held p) with
      | Some HMut => SOk (upd p (avail p) (permits p) (held p) (acquiring p) (returning p) (set_contents i b (contents p)))
      | _ => SDisabled                       (* no &mut access without a MutablePoolBuffer *)
      end
  | Freeze i =>
      match hlookup i (held p) with
      | Some HMut => SOk (upd p (avail p) (permits p) (hset i (HFrozen 1) (held p)) (acquiring p) (returning p) (contents p))
      | _ => SDisabled
      end
  | Clone i =>
      match hlookup i (held p) with
      | Some (HFrozen n) => SOk (upd p (avail p) (permits p) (hset i (HFrozen (S n)) (held p)) (acquiring p) (returning p) (contents p))
      | _ => SDisabled
      end
  | DropRef i =>
      match hlookup i (held p) with
      | Some (HFrozen (S (S n))) => SOk (upd p (avail p) (permits p) (hset i (HFrozen (S n)) (held p)) (acquiring p) (returning p) (contents p))
      | _ => SDisabled
      end
  | PushBack i =>
      match hlookup i (held p) with
      | Some HMut | Some (HFrozen 1) =>
          SOk (upd p (avail p ++ [i]) (permits p) (hremove i (held p)) (acquiring p) (S (returning p)) (contents p))
      | _ => SDisabled
      end
  | RetPermit =>
      match returning p with
      | O => SDisabled
      | S r => SOk (upd p (avail p) (S (permits p)) (held p) (acquiring p) r (contents p))
      end
  | BatchUnwrap i =>
      match hlookup i (held p) with
      | Some (HFrozen 1) =>
          SOk (upd p (avail p ++ [i]) (permits p) (hremove i (held p)) (acquiring p) (S (returning p)) (contents p))
      | _ => SDisabled
      end
  | BatchAddPermit =>
      match returning p with
      | O => SDisabled
      | S r => SOk (upd p (avail p) (S (permits p)) (held p) (acquiring p) r (contents p))
      end
  end.

(* run a schedule of micro-steps; disabled steps are skipped (the task stays blocked) *)
Fixpoint run (p : pool) (sched : list mstep) : option pool :=
  match sched with
  | [] => Some p
  | s :: r => match step p s with
              | SOk p' => run p' r
              | SDisabled => run p r
              | SPanic => None
              end
  end.

(* counters reported by the implementation *)
Definition in_use_count (p : pool) : nat := cap p - length (avail p).
Definition available_count (p : pool) : nat := length (avail p).

(* ---------- op-level (run-to-completion) semantics used by the correspondence ---------- *)
Inductive pop_ :=
| OAcquire                 (* polled once: Some id, or parks *)
| OWrite (i : bufid) (b : list N)
| OFreeze (i : bufid)
| OClone (i : bufid)
| ODropMut (i : bufid)
| ODropShared (i : bufid)
| ORelease (ids : list bufid).   (* release_buffers on a batch of shared handles *)

Definition acquire_now (p : pool) : option (bufid * pool) :=
  match step p AcqPermit with
  | SOk p1 => match avail p1 with
              | i :: _ => match step p1 Pop with SOk p2 => Some (i, p2) | _ => None end
              | [] => None
              end
  | _ => None
  end.

Definition drop_last (p : pool) (i : bufid) : pool :=
  match step p (PushBack i) with
  | SOk p1 => match step p1 RetPermit with SOk p2 => p2 | _ => p1 end
  | _ => p
  end.

Definition drop_shared (p : pool) (i : bufid) : pool :=
  match hlookup i (held p) with
  | Some (HFrozen 1) => drop_last p i
  | Some (HFrozen _) => match step p (DropRef i) with SOk p' => p' | _ => p end
  | _ => p
  end.

Fixpoint release_batch (p : pool) (ids : list bufid) : pool :=
  match ids with
  | [] => p
  | i :: r =>
      match hlookup i (held p) with
      | Some (HFrozen 1) =>
          match step p (BatchUnwrap i) with
          | SOk p1 => match step (release_batch p1 r) BatchAddPermit with SOk p2 => p2 | _ => release_batch p1 r end
          | _ => release_batch p r
          end
      | Some (HFrozen _) => release_batch (drop_shared p i) r    (* still shared elsewhere: this handle is just dropped *)
      | _ => release_batch p r
      end
  end.

(* ---------- BucketedPool::acquire_buffer bucket choice (sizes ascending) ---------- *)
(* buckets: (size, free buffers).  Some (idx, parks) : which bucket the task goes to and whether it
   parks there; None: no bucket is large enough. *)
Fixpoint choose_bucket (bs : list (N * nat)) (idx : nat) (size : N) (fallback : option nat) : option (nat * bool) :=
  match bs with
  | [] => match fallback with Some i => Some (i, true) | None => None end
  | (sz, free) :: r =>
      if size <=? sz then
        match free with
        | O => choose_bucket r (S idx) size (Some idx)
        | _ => Some (idx, false)
        end
      else choose_bucket r (S idx) size fallback
  end.
