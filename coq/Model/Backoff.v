(* Reconnection back-off of the client engine (crates/util/src/backoff.rs, ExponentialBackoff::retry_with_backoff, as the
   client engine configures it: jitter on): after the k-th failed attempt the task sleeps  delay_k + j_k  with a random
   0 <= j_k < delay_k (j_k = 0 when delay_k = 0), then  delay_{k+1} = min(delay_k * factor, max_delay).
   [capped = false] is the variant in which the stored delay keeps growing and only the sleep's base is capped while the
   jitter is still drawn from the stored delay (seeded change C16-backoff-jitter-from-uncapped-delay).
   Durations in milliseconds; the factor is a rational num/den >= 1.  Definitions only. *)
From Coq Require Import NArith List.
Import ListNotations.
Local Open Scope N_scope.

Record bcfg := { b_initial : N; b_max : N; b_num : N; b_den : N; b_capped : bool }.

Definition grow (c : bcfg) (d : N) : N := d * b_num c / b_den c.
Definition next_delay (c : bcfg) (d : N) : N := if b_capped c then N.min (grow c d) (b_max c) else grow c d.

(* the sleep after a failed attempt, given the stored delay and the random draw *)
Definition sleep_of (c : bcfg) (d j : N) : N := (if b_capped c then d else N.min d (b_max c)) + j.

(* a draw is legal for a stored delay *)
Definition draw_ok (d j : N) : Prop := j < d \/ (d = 0 /\ j = 0).

(* total time slept over the failed attempts, one draw per attempt *)
Fixpoint total_sleep (c : bcfg) (d : N) (draws : list N) : N :=
  match draws with
  | [] => 0
  | j :: r => sleep_of c d j + total_sleep c (next_delay c d) r
  end.

Fixpoint draws_ok (c : bcfg) (d : N) (draws : list N) : Prop :=
  match draws with
  | [] => True
  | j :: r => draw_ok d j /\ draws_ok c (next_delay c d) r
  end.

(* the bound the configuration allows for: every sleep is below twice the larger of the initial and the maximal delay *)
Definition sleep_bound (c : bcfg) : N := 2 * N.max (b_initial c) (b_max c).
