(* C11 — Wire codec: decoding is total and encode/decode round-trips losslessly.
   Pinned statements only; proofs live in Proofs/.  See DESIGN.md section 4/C11. *)
From NW Require Import Base.Bytes Model.SchemaTypes Gen.Consts Gen.Schema Model.Codec Model.CodecWf.
From NW Require Import Proofs.CodecNoPanic.

(* Decoding any byte string never panics (overflow-checked profile). The proof needs the
   generated constant de_rejects_zero_count (read from deserialize.rs) to be true. *)
Theorem C11_decode_no_panic : forall buf, deserialize schema Checked buf <> Panic.
Proof. exact (deserialize_no_panic eq_refl schema). Qed.
Print Assumptions C11_decode_no_panic.
