(* C11 — Wire codec: decoding is total and encode/decode round-trips losslessly.
   Pinned statements only; proofs live in Proofs/.  See DESIGN.md section 4/C11. *)
From NW Require Import Base.Bytes Model.SchemaTypes Gen.Consts Gen.Schema Model.Codec Model.CodecWf.
From NW Require Import Proofs.CodecNoPanic Proofs.CodecTotal Proofs.CodecOneLine Proofs.CodecValueRT Proofs.CodecMsgRT.

Definition mk_msg (k : nat) (fs : list fval) : msg := {| m_kind := k; m_fields := fs |}.

(* Decoding any byte string never panics (overflow-checked profile). The proof needs the
   generated constant de_rejects_zero_count (read from deserialize.rs) to be true. *)
Theorem C11_decode_no_panic : forall buf, deserialize schema Checked buf <> Panic.
Proof. exact (deserialize_no_panic eq_refl schema). Qed.
Print Assumptions C11_decode_no_panic.

(* Decoding terminates for every byte string, in both arithmetic profiles: the fuel S (length buf)
   of the parameter loop always suffices (each iteration consumes at least one byte). *)
Theorem C11_decode_total : forall md buf, deserialize schema md buf <> OutOfFuel.
Proof. intros. apply deserialize_total. Qed.

(* hence decoding always returns a message or an error (overflow-checked profile) *)
Theorem C11_decode_message_or_error : forall buf,
  (exists m, deserialize schema Checked buf = Ok m) \/ deserialize schema Checked buf = Err.
Proof.
  intro buf. pose proof (C11_decode_no_panic buf) as Hp. pose proof (C11_decode_total Checked buf) as Hf.
  destruct (deserialize schema Checked buf) as [m| | |]; [left; eauto | right; reflexivity | congruence | congruence].
Qed.

(* the generated schema table satisfies the side conditions of the round-trip theorem
   (re-checked by computation against whatever message.rs says now) *)
Theorem C11_schema_ok : schema_ok schema = true /\ schema_names_ok schema = true.
Proof. split; [exact schema_ok_current | exact schema_names_ok_current]. Qed.

(* An encoded message is exactly one newline-terminated line (fields free of the frame delimiter). *)
Theorem C11_one_line : forall m cap l,
  forallb fval_no_nl (m_fields m) = true -> serialize schema m cap = SerOk l ->
  exists body, l = body ++ [NL] /\ mem NL body = false.
Proof. intros m cap l. apply serialize_one_line. exact schema_names_ok_current. Qed.

(* Lossless round trip for all 45 kinds and every message outside the known classes K11a-f
   (wf_rt = class 0; vector lengths below 2^64): decoding the encoded line yields the original. *)
Theorem C11_roundtrip : forall md m cap l,
  wf_rt schema m = true -> forallb fval_len_ok (m_fields m) = true ->
  serialize schema m cap = SerOk l -> exists body, l = body ++ [NL] /\ deserialize schema md body = Ok m.
Proof. exact roundtrip_current. Qed.

(* the scanner/printer pair on one string value in context (where the class boundaries come from) *)
Theorem C11_value_roundtrip : forall pre s enc post,
  str_class s = 0 -> fmt_str s = Some enc -> (post = [] \/ exists r, post = SP :: r) ->
  read_escaped_string (pre ++ enc ++ post) (length pre)
  = Ok (Some s, (length pre + length enc + if has_space s then 0 else match post with [] => 0 | _ => 1 end)%nat).
Proof. exact value_roundtrip. Qed.

(* ---- the known classes are real: each has a witness that encodes but does not decode to itself ---- *)
Definition rt_fails (m : msg) : Prop :=
  msg_shape_ok schema m = true /\
  exists l, serialize schema m 4096 = SerOk l /\ deserialize schema Checked (removelast l) <> Ok m.
Definition errm (detail : list N) : msg :=
  mk_msg 8 [VONum (Some 5); VStr (bs "BAD_REQUEST"); VOStr (Some detail)].

Theorem C11_K11a_empty_string_refuted : msg_class schema (errm []) = 1 /\ rt_fails (errm []).
Proof. split; [reflexivity|]. split; [reflexivity|]. eexists; split; [vm_compute; reflexivity | vm_compute; discriminate]. Qed.
Theorem C11_K11b_nul_refuted : msg_class schema (mk_msg 0 [VStr [97; 0; 98]]) = 2 /\ rt_fails (mk_msg 0 [VStr [97; 0; 98]]).
Proof. split; [reflexivity|]. split; [reflexivity|]. eexists; split; [vm_compute; reflexivity | vm_compute; discriminate]. Qed.
Theorem C11_K11c_leading_escape_refuted : msg_class schema (mk_msg 0 [VStr [92; 34; 97]]) = 3 /\ rt_fails (mk_msg 0 [VStr [92; 34; 97]]).
Proof. split; [reflexivity|]. split; [reflexivity|]. eexists; split; [vm_compute; reflexivity | vm_compute; discriminate]. Qed.
Theorem C11_K11d_lone_backslash_refuted : msg_class schema (mk_msg 0 [VStr [92]]) = 4 /\ rt_fails (mk_msg 0 [VStr [92]]).
Proof. split; [reflexivity|]. split; [reflexivity|]. eexists; split; [vm_compute; reflexivity | vm_compute; discriminate]. Qed.
Theorem C11_K11e_trailing_backslash_refuted : msg_class schema (errm [97; 32; 92]) = 5 /\ rt_fails (errm [97; 32; 92]).
Proof. split; [reflexivity|]. split; [reflexivity|]. eexists; split; [vm_compute; reflexivity | vm_compute; discriminate]. Qed.
Theorem C11_K11f_invalid_message_refuted : msg_class schema (mk_msg 29 [VNum 0]) = 6 /\ rt_fails (mk_msg 29 [VNum 0]).
Proof. split; [reflexivity|]. split; [reflexivity|]. eexists; split; [vm_compute; reflexivity | vm_compute; discriminate]. Qed.

Print Assumptions C11_roundtrip.
Print Assumptions C11_decode_total.
