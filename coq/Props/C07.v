(* C07 — Client identities are well-formed, unique while live, and cannot be forged.
   Pinned statements (types pasted verbatim from the proved lemmas by tools/pin.py); proofs in Proofs/Server*.v. *)
From NW Require Import Base.Bytes Model.SchemaTypes Gen.Schema Model.Codec Model.MsgInfo Model.Ids Model.Server.
From NW Require Import Proofs.ServerLib Proofs.ServerRoute Proofs.ServerHandlers Proofs.ServerSteps Proofs.ServerPhases.
From NW Require Import Proofs.ServerInvBase Proofs.ServerInv Proofs.ServerUniq Proofs.ServerInvCor.
From NW Require Import Proofs.ServerDelivery Proofs.ServerEvents Proofs.ServerIdentity.

Theorem C07_alnum_is_not_space_nor_at :
  forall c : N, is_alnum_cp c = true -> is_ws_cp c = false /\ c <> 64.
Proof. exact alnum_not_ws_not_at. Qed.

Theorem C07_local_nid_wellformed :
  forall (dom u : str) (n : nid),
    make_local_nid dom u = Some n ->
    nu n = u /\ nd n = dom /\ u <> [] /\ forallb username_char (utf8_decode u) = true.
Proof. exact C07_wellformed. Qed.

Theorem C07_no_space_no_at :
  forall (dom u : str) (n : nid),
    make_local_nid dom u = Some n ->
    forall c : N, In c (utf8_decode (nu n)) -> is_ws_cp c = false /\ c <> 64.
Proof. exact C07_no_ws_no_at. Qed.

Theorem C07_never_bare_domain :
  forall (dom u : str) (n : nid),
    make_local_nid dom u = Some n -> nid_full n = u ++ [64] ++ dom /\ nid_full n <> dom.
Proof. exact C07_full_form. Qed.

Theorem C07_assigned_in_reachable_states :
  forall (cfg : scfg) (ops : list op) (h : N) (cn : conn) (n : nid),
    let s := run_state cfg init ops in
    nlookup h (conns s) = Some cn ->
    c_nid cn = Some n ->
    nd n = domain cfg /\
    nu n <> [] /\
    forallb username_char (utf8_decode (nu n)) = true /\
    (forall c : N, In c (utf8_decode (nu n)) -> is_ws_cp c = false /\ c <> 64) /\
    nid_full n = nu n ++ [64] ++ domain cfg /\
    nid_full n <> domain cfg /\
    (Datatypes.length (nu n) <= USERNAME_MAX)%nat /\ validate_domain (domain cfg) = true.
Proof. exact C07_assigned_wellformed_all. Qed.

Theorem C07_unique_while_live :
  forall (cfg : scfg) (ops : list op) (u : str) (hs : list N),
    auth_required cfg = false ->
    ops_ok cfg init ops ->
    alookup u (router (run_state cfg init ops)) = Some hs -> Datatypes.length hs = 1%nat.
Proof. exact C07_unique_live. Qed.

Theorem C07_needs_no_auth_witness :
  ~
    (forall (cfg : scfg) (ops : list op) (u : str) (hs : list N),
     ops_ok cfg init ops ->
     alookup u (router (run_state cfg init ops)) = Some hs -> Datatypes.length hs = 1%nat).
Proof. exact C07_unique_live_needs_no_auth. Qed.

Theorem C07_name_free_again :
  forall (cfg : scfg) (s : state) (h : N) (cn : conn) (n : nid) (sc : list moutcome)
      (hi : list (str * nid)),
    Inv cfg s ->
    nlookup h (conns s) = Some cn ->
    c_nid cn = Some n ->
    alookup (nu n) (router s) = Some [h] ->
    let s' := fst (step cfg s (Hangup h sc hi)) in
    alookup (nu n) (router s') = None /\ (forall h' : N, register (nu n) h' true s' <> None).
Proof. exact C07_name_free_after_close. Qed.

Theorem C07_sender_identity_in_messages :
  forall (cfg : scfg) (h : N) (me : nid) (m : msg) (payload : list N) 
      (c : ctx) (h' : N) (m' : msg) (q : list N),
    In (OSend h' m' (Some q)) (new_outs c (fst (h_broadcast cfg h me m payload c))) ->
    is_kind m' "MESSAGE" = true /\
    get_str m' "from" = nid_full me /\
    get_str m' "channel" = get_str m "channel" /\
    get_num m' "length" = N.of_nat (Datatypes.length q) /\ h' <> h.
Proof. exact C08_message_attribution. Qed.

(* ---- exclusive registration under real concurrency (Model/Exclusive.v; proofs in Proofs/ExclusiveProofs.v) ---- *)
From NW Require Import Model.Exclusive Proofs.ExclusiveProofs Gen.LockLint.
Local Open Scope nat_scope.

Theorem C07_at_most_one_thread_wins_a_name : forall n sched, winners (xrun true (xinit n) sched) <= 1.
Proof. exact atomic_at_most_one_winner. Qed.

Theorem C07_exactly_one_wins_once_all_have_tried : forall n sched,
  1 <= n -> forallb is_done (threads (xrun true (xinit n) sched)) = true ->
  winners (xrun true (xinit n) sched) = 1.
Proof. exact atomic_exactly_one_when_all_done. Qed.

Theorem C07_check_then_insert_two_winners_refuted : winners (xrun false (xinit 2) [0; 1; 0; 1]) = 2.
Proof. exact split_two_winners_refuted. Qed.

(* the current source tests and inserts through one entry guard (translator/locklint.py) *)
Theorem C07_source_exclusive_check_under_entry_guard : NW.Gen.LockLint.exclusive_check_under_entry_guard = true.
Proof. reflexivity. Qed.
