(* C05 — Membership views stay consistent and are cleaned up when a user goes away.
   Pinned statements; proofs in Proofs/ServerInv*.v.  `ops_ok` only demands that Open uses a
   handler id that is not a live authenticated connection (ConnManager hands out fresh ids). *)
From NW Require Import Base.Bytes Model.SchemaTypes Gen.Schema Model.Codec Model.Ids Model.Server.
From NW Require Import Proofs.ServerInvBase Proofs.ServerInv Proofs.ServerUniq Proofs.ServerInvCor.
From NW Require Import Model.ServerX Proofs.ServerXProofs.

(* the model computes: a client connects, identifies and creates a channel *)
Example C05_model_smoke :
  let cfg := {| domain := bs "localhost"; has_mod := false; op_auth := false; op_fbp := false; op_fev := false; op_spp := false;
                proto := []; max_clients := 10; max_subs := 10; max_payload_cfg := 1024; max_inflight := 10; max_message := 1024;
                keepalive := 60000; min_keepalive := 1000; max_conns := 16; pool_budget := 4194304; max_channels := 100 |} in
  let s := run_state cfg init [Open 1; Bytes 1 (bs "CONNECT version=1 heartbeat_interval=0" ++ [NL]) [] [];
                               Bytes 1 (bs "IDENTIFY username=alice" ++ [NL]) [] [];
                               Bytes 1 (bs "JOIN id=1 channel=!c1@localhost" ++ [NL]) [] []] in
  map fst (chans s) = [bs "c1"] /\ map fst (router s) = [bs "alice"].
Proof. vm_compute. split; reflexivity. Qed.

(* In every reachable state — for every history of client actions, every byte string sent, every
   script of modulator outcomes (failures included) and every new-owner choice — the two membership
   views agree, no channel is empty, every channel has exactly one owner who is a member, the
   reader cache equals the members filtered by the read ACL, and every member has a live connection. *)
Theorem C05_views_agree_reachable : forall cfg ops,
  ops_ok cfg init ops -> InvSpec cfg (run_state cfg init ops).
Proof. intros cfg ops H. apply Inv_spec. apply inv_reachable. exact H. Qed.

Theorem C05_index_is_membership : forall cfg ops u cf,
  ops_ok cfg init ops ->
  let s := run_state cfg init ops in
  smem cf (match alookup u (inch s) with Some l => l | None => [] end) = true <->
  exists hd ch, chan_parse cf = Some (hd, domain cfg) /\ alookup hd (chans s) = Some ch /\
                nmem {| nu := u; nd := domain cfg |} (ch_members ch) = true.
Proof. intros cfg ops u cf H. exact (sp_index _ _ (C05_views_agree_reachable cfg ops H) u cf). Qed.

Theorem C05_no_empty_channel : forall cfg ops hd ch,
  ops_ok cfg init ops -> alookup hd (chans (run_state cfg init ops)) = Some ch -> ch_members ch <> [].
Proof. intros cfg ops hd ch H. exact (sp_nonempty _ _ (C05_views_agree_reachable cfg ops H) hd ch). Qed.

(* When the last connection of a user ends, whatever the modulator does with the notifications,
   the user is removed from every channel, from the reverse index and from the router. *)
Theorem C05_disconnect_cleans_up : forall cfg s h cn n sc hi,
  Inv cfg s ->
  nlookup h (conns s) = Some cn -> c_nid cn = Some n -> alookup (nu n) (router s) = Some [h] ->
  let s' := fst (step cfg s (Hangup h sc hi)) in
  alookup (nu n) (inch s') = None /\
  alookup (nu n) (router s') = None /\
  forall hd ch, alookup hd (chans s') = Some ch -> nmem n (ch_members ch) = false.
Proof. exact hangup_last_connection_cleans_up. Qed.

(* a JOIN of a non-existent channel creates it afresh: default configuration, empty ACLs, joiner owns it *)
Theorem C05_fresh_channel_defaults : forall cfg h me m c c' hd dom,
  chan_parse (get_str m "channel") = Some (hd, dom) ->
  alookup hd (chans (st c)) = None ->
  h_join cfg h me m c = (c', None) ->
  exists ch, alookup hd (chans (st c')) = Some ch /\
    ch_owner ch = Some me /\ ch_members ch = [me] /\ ch_targets ch = [me] /\
    ch_join ch = [] /\ ch_pub ch = [] /\ ch_read ch = [] /\
    ch_max_clients ch = max_clients cfg /\ ch_max_payload ch = max_payload_cfg cfg.
Proof. exact fresh_channel_defaults. Qed.

(* a refused JOIN (any reason, including a failed announcement) changes nothing *)
Theorem C05_refused_join_changes_nothing : forall cfg h me m c c' e,
  h_join cfg h me m c = (c', Some e) -> st c' = st c.
Proof. exact refused_join_changes_nothing. Qed.

(* the side condition is exactly what is needed: re-opening a live authenticated handler id would break it *)
Theorem C05_invariant_side_condition_tight : forall cfg s o,
  Inv cfg s -> (op_ok cfg s o <-> Inv cfg (fst (step cfg s o))).
Proof. exact op_ok_iff. Qed.

Print Assumptions C05_views_agree_reachable.
Print Assumptions C05_disconnect_cleans_up.

Theorem C05_oversize_outbound_is_a_disconnect :
  forall (cfg : scfg) (ops : list op) (s : state),
    run_state_x cfg s ops = run_state cfg s (expand cfg s ops).
Proof. exact run_state_x_is_plain_ops. Qed.

Theorem C05_invariant_with_oversize_outbound :
  forall (cfg : scfg) (ops : list op),
    ops_ok_x cfg init ops -> Inv cfg (run_state_x cfg init ops).
Proof. exact inv_reachable_x. Qed.
