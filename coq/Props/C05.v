(* C05 — Membership views stay consistent and are cleaned up when a user goes away.
   Pinned statements; proofs in Proofs/ServerInv*.v.  `ops_ok` only demands that Open uses a
   handler id that is not a live authenticated connection (ConnManager hands out fresh ids). *)
From NW Require Import Base.Bytes Model.SchemaTypes Gen.Schema Model.Codec Model.Ids Model.Server.
From NW Require Import Proofs.ServerInvBase Proofs.ServerInv Proofs.ServerUniq Proofs.ServerInvCor.
From NW Require Import Model.ServerX Proofs.ServerXProofs.

(* the model computes: a client connects, identifies and creates a channel *)
Example C05_model_smoke :
  let cfg := {| domain := bs "localhost"; has_mod := false; op_auth := false; op_fbp := false; op_fev := false; op_spp := false;
                proto := []; max_clients := 10; max_subs := 10; max_payload_cfg := 1024; max_inflight := 10; max_message := 1024;
                keepalive := 60000; min_keepalive := 1000; max_conns := 16; pool_budget := 4194304; max_channels := 100 |} in
  let s := run_state cfg init [Open 1; Bytes 1 (bs "CONNECT version=1 heartbeat_interval=0" ++ [NL]) [] [];
                               Bytes 1 (bs "IDENTIFY username=alice" ++ [NL]) [] [];
                               Bytes 1 (bs "JOIN id=1 channel=!c1@localhost" ++ [NL]) [] []] in
  map fst (chans s) = [bs "c1"] /\ map fst (router s) = [bs "alice"].
Proof. vm_compute. split; reflexivity. Qed.

(* In every reachable state — for every history of client actions, every byte string sent, every
   script of modulator outcomes (failures included) and every new-owner choice — the two membership
   views agree, no channel is empty, every channel has exactly one owner who is a member, the
   reader cache equals the members filtered by the read ACL, and every member has a live connection. *)
Theorem C05_views_agree_reachable : forall cfg ops,
  ops_ok cfg init ops -> InvSpec cfg (run_state cfg init ops).
Proof. intros cfg ops H. apply Inv_spec. apply inv_reachable. exact H. Qed.

Theorem C05_index_is_membership : forall cfg ops u cf,
  ops_ok cfg init ops ->
  let s := run_state cfg init ops in
  smem cf (match alookup u (inch s) with Some l => l | None => [] end) = true <->
  exists hd ch, chan_parse cf = Some (hd, domain cfg) /\ alookup hd (chans s) = Some ch /\
                nmem {| nu := u; nd := domain cfg |} (ch_members ch) = true.
Proof. intros cfg ops u cf H. exact (sp_index _ _ (C05_views_agree_reachable cfg ops H) u cf). Qed.

Theorem C05_no_empty_channel : forall cfg ops hd ch,
  ops_ok cfg init ops -> alookup hd (chans (run_state cfg init ops)) = Some ch -> ch_members ch <> [].
Proof. intros cfg ops hd ch H. exact (sp_nonempty _ _ (C05_views_agree_reachable cfg ops H) hd ch). Qed.

(* When the last connection of a user ends, whatever the modulator does with the notifications,
   the user is removed from every channel, from the reverse index and from the router. *)
Theorem C05_disconnect_cleans_up : forall cfg s h cn n sc hi,
  Inv cfg s ->
  nlookup h (conns s) = Some cn -> c_nid cn = Some n -> alookup (nu n) (router s) = Some [h] ->
  let s' := fst (step cfg s (Hangup h sc hi)) in
  alookup (nu n) (inch s') = None /\
  alookup (nu n) (router s') = None /\
  forall hd ch, alookup hd (chans s') = Some ch -> nmem n (ch_members ch) = false.
Proof. exact hangup_last_connection_cleans_up. Qed.

(* a JOIN of a non-existent channel creates it afresh: default configuration, empty ACLs, joiner owns it *)
Theorem C05_fresh_channel_defaults : forall cfg h me m c c' hd dom,
  chan_parse (get_str m "channel") = Some (hd, dom) ->
  alookup hd (chans (st c)) = None ->
  h_join cfg h me m c = (c', None) ->
  exists ch, alookup hd (chans (st c')) = Some ch /\
    ch_owner ch = Some me /\ ch_members ch = [me] /\ ch_targets ch = [me] /\
    ch_join ch = [] /\ ch_pub ch = [] /\ ch_read ch = [] /\
    ch_max_clients ch = max_clients cfg /\ ch_max_payload ch = max_payload_cfg cfg.
Proof. exact fresh_channel_defaults. Qed.

(* a refused JOIN (any reason, including a failed announcement) changes nothing *)
Theorem C05_refused_join_changes_nothing : forall cfg h me m c c' e,
  h_join cfg h me m c = (c', Some e) -> st c' = st c.
Proof. exact refused_join_changes_nothing. Qed.

(* the side condition is exactly what is needed: re-opening a live authenticated handler id would break it *)
Theorem C05_invariant_side_condition_tight : forall cfg s o,
  Inv cfg s -> (op_ok cfg s o <-> Inv cfg (fst (step cfg s o))).
Proof. exact op_ok_iff. Qed.

Print Assumptions C05_views_agree_reachable.
Print Assumptions C05_disconnect_cleans_up.

Theorem C05_oversize_outbound_is_a_disconnect :
  forall (cfg : scfg) (ops : list op) (s : state),
    run_state_x cfg s ops = run_state cfg s (expand cfg s ops).
Proof. exact run_state_x_is_plain_ops. Qed.

Theorem C05_invariant_with_oversize_outbound :
  forall (cfg : scfg) (ops : list op),
    ops_ok_x cfg init ops -> Inv cfg (run_state_x cfg init ops).
Proof. exact inv_reachable_x. Qed.

(* ---------- interleaved semantics (Model/Conc.v): every schedule of suspended requests, disconnects, time-outs ---------- *)
From Coq Require Import List NArith.
From NW Require Import Model.Conc Proofs.ConcDefs Proofs.ConcEv Proofs.ConcInv Proofs.ConcSmall Proofs.ConcMore Proofs.ConcProgress Proofs.ConcSource Gen.ConcFlags.
Import ListNotations.
Local Open Scope N_scope.

Theorem C05_conc_views_agree_at_quiescence :
  forall (cf : ccfg) (es : list ev),
    fixed cf -> quiescent (cstate_after cf es) -> views_agree (cg (cstate_after cf es)).
Proof. exact conc_views_agree_at_quiescence. Qed.

Theorem C05_conc_listed_is_member_always :
  forall (cf : ccfg) (es : list ev) (u : user) (ch : chan),
    fixed cf ->
    is_listed (cg (cstate_after cf es)) u ch -> is_member (cg (cstate_after cf es)) u ch.
Proof. exact conc_listed_is_member_always. Qed.

Theorem C05_conc_disconnected_member_is_being_removed :
  forall (cf : ccfg) (es : list ev) (u : user) (ch : chan) (o : oid),
    fixed cf ->
    let s := cstate_after cf es in
    cmap (cg s) ch = Some o ->
    In u (members (objs (cg s) o)) -> reg (cg s) u = [] -> covered s u ch o.
Proof. exact conc_disconnected_member_is_being_removed. Qed.

Theorem C05_conc_released_channel_stays_empty :
  forall (cf : ccfg) (es : list ev) (o : oid),
    fixed cf ->
    (forall ch : chan, cmap (cg (cstate_after cf es)) ch <> Some o) ->
    members (objs (cg (cstate_after cf es)) o) = [].
Proof. exact conc_released_channel_stays_empty. Qed.

Theorem C05_conc_invariant_every_schedule :
  forall (cf : ccfg) (es : list ev), fixed cf -> CInv (cstate_after cf es).
Proof. exact cinv_reachable. Qed.

Theorem C05_conc_waiting_join_admitted_to_released_channel_refuted :
  let s := cstate_after (cf_of false true) orphan_schedule in
    quiescent s /\
    is_listed (cg s) 20 7 /\
    ~ is_member (cg s) 20 7 /\
    In (OAck 2 2 A_JOIN) (snd (crun (cf_of false true) cinit orphan_schedule)).
Proof. exact conc_waiting_join_admitted_to_released_channel_refuted. Qed.

Theorem C05_conc_waiting_join_refused_now :
  let s := cstate_after (cf_of true true) orphan_schedule in
    quiescent s /\
    ~ is_listed (cg s) 20 7 /\
    In (OErr 2 2 E_RESOURCE_CONFLICT) (snd (crun (cf_of true true) cinit orphan_schedule)).
Proof. exact conc_waiting_join_refused_now. Qed.

Theorem C05_conc_late_index_leaves_ghost_member_refuted :
  let s := cstate_after (cf_of true false) ghost_schedule in
    quiescent s /\ is_member (cg s) 20 7 /\ reg (cg s) 20 = [].
Proof. exact conc_late_index_leaves_ghost_member_refuted. Qed.

Theorem C05_conc_early_index_no_ghost_now :
  let s :=
      fst (crun (cf_of true true) cinit (ghost_schedule ++ [ERun 2 true 0; ERun 2 true 0])) in
    quiescent s /\ ~ is_member (cg s) 20 7.
Proof. exact conc_early_index_no_ghost_now. Qed.

Theorem C05_source_is_the_fixed_model :
  forall (fe fp : bool) (ms mc : N), fixed (src_cfg fe fp ms mc).
Proof. exact source_is_fixed. Qed.

Theorem C05_source_segment_layout :
  forallb snd conc_source_shape = true.
Proof. exact source_segment_layout. Qed.

Theorem C05_source_views_agree_at_quiescence :
  forall (fe fp : bool) (ms mc : N) (es : list ev),
    quiescent (cstate_after (src_cfg fe fp ms mc) es) ->
    views_agree (cg (cstate_after (src_cfg fe fp ms mc) es)).
Proof. exact source_views_agree. Qed.


Theorem C05_source_refusal_order :
  conc_source_refusals = model_refusals.
Proof. exact source_refusal_order. Qed.
