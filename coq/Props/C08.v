(* C08 — pinned statements; proofs live in Proofs/. *)
From NW Require Import Base.Bytes Model.SchemaTypes Gen.Schema Model.Codec Model.Ids Model.Server.

(* the model computes: a client connects, identifies and creates a channel *)
Example C08_model_smoke :
  let cfg := {| domain := bs "localhost"; has_mod := false; op_auth := false; op_fbp := false; op_fev := false; op_spp := false;
                proto := []; max_clients := 10; max_subs := 10; max_payload_cfg := 1024; max_inflight := 10; max_message := 1024;
                keepalive := 60000; min_keepalive := 1000; max_conns := 16; pool_budget := 4194304 |} in
  let s := run_state cfg init [Open 1; Bytes 1 (bs "CONNECT version=1 heartbeat_interval=0" ++ [NL]) [] [];
                               Bytes 1 (bs "IDENTIFY username=alice" ++ [NL]) [] [];
                               Bytes 1 (bs "JOIN id=1 channel=!c1@localhost" ++ [NL]) [] []] in
  map fst (chans s) = [bs "c1"] /\ map fst (router s) = [bs "alice"].
Proof. vm_compute. split; reflexivity. Qed.
