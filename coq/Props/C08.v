(* C08 — Modulator payload gate is fail-closed; alterations are delivered faithfully.
   Pinned statements (types pasted verbatim from the proved lemmas by tools/pin.py); proofs in Proofs/Server*.v. *)
From NW Require Import Base.Bytes Model.SchemaTypes Gen.Schema Model.Codec Model.MsgInfo Model.Ids Model.Server.
From NW Require Import Proofs.ServerLib Proofs.ServerRoute Proofs.ServerHandlers Proofs.ServerSteps Proofs.ServerPhases.
From NW Require Import Proofs.ServerInvBase Proofs.ServerInv Proofs.ServerUniq Proofs.ServerInvCor.
From NW Require Import Gen.Errors Model.Pool Model.Framing Model.Link Proofs.LinkProofs.
From NW Require Import Model.LinkConc Proofs.LinkConcProofs.

Theorem C08_gate_fail_closed :
  forall (cfg : scfg) (h : N) (me : nid) (m : msg) (payload : list N) (c : ctx),
    has_mod cfg = true ->
    head_outcome (script c) = MInvalid \/ head_outcome (script c) = MErr ->
    st (fst (h_broadcast cfg h me m payload c)) = st c /\
    (forall (h' : N) (m' : msg) (q : option (list N)),
     ~ In (OSend h' m' q) (new_outs c (fst (h_broadcast cfg h me m payload c)))) /\
    (forall hd dom : str,
     chan_parse (get_str m "channel") = Some (hd, dom) ->
     new_outs c (fst (h_broadcast cfg h me m payload c)) =
     [OMod (McFbp (nid_full me) hd payload)] /\
     snd (h_broadcast cfg h me m payload c) =
     Some
       (PErr (Some (get_num m "id"))
          match head_outcome (script c) with
          | MInvalid => "BAD_REQUEST"
          | _ => "INTERNAL_SERVER_ERROR"
          end)) /\
    (chan_parse (get_str m "channel") = None ->
     h_broadcast cfg h me m payload c = (c, Some (PErr None "BAD_REQUEST"))).
Proof. exact C08_fail_closed. Qed.

Theorem C08_alteration_exact :
  forall (cfg : scfg) (h : N) (me : nid) (m : msg) (payload : list N) (c : ctx) (p' : list N),
    has_mod cfg = true ->
    head_outcome (script c) = MAltered p' ->
    forall (h' : N) (m' : msg) (q : list N),
    In (OSend h' m' (Some q)) (new_outs c (fst (h_broadcast cfg h me m payload c))) ->
    q = p' /\ get_num m' "length" = N.of_nat (Datatypes.length p').
Proof. exact C08_altered. Qed.

Theorem C08_no_alteration_passthrough :
  forall (cfg : scfg) (h : N) (me : nid) (m : msg) (payload : list N) (c : ctx),
    has_mod cfg = false \/ (forall p' : list N, head_outcome (script c) <> MAltered p') ->
    forall (h' : N) (m' : msg) (q : list N),
    In (OSend h' m' (Some q)) (new_outs c (fst (h_broadcast cfg h me m payload c))) ->
    q = payload.
Proof. exact C08_passthrough. Qed.

Theorem C08_attribution :
  forall (cfg : scfg) (h : N) (me : nid) (m : msg) (payload : list N) 
      (c : ctx) (h' : N) (m' : msg) (q : list N),
    In (OSend h' m' (Some q)) (new_outs c (fst (h_broadcast cfg h me m payload c))) ->
    is_kind m' "MESSAGE" = true /\
    get_str m' "from" = nid_full me /\
    get_str m' "channel" = get_str m "channel" /\
    get_num m' "length" = N.of_nat (Datatypes.length q) /\ h' <> h.
Proof. exact C08_message_attribution. Qed.

Theorem C08_whole_frame :
  forall (cfg : scfg) (h : N) (m : msg) (p : option (list N)) (c : ctx) (cn : conn) (me : nid),
    nlookup h (conns (st c)) = Some cn ->
    c_phase cn = Authenticated ->
    c_nid cn = Some me ->
    existsb (N.eqb h) (closing c) = false ->
    max_inflight cfg <> 0 ->
    is_kind m "BROADCAST" = true ->
    let pl := match p with
              | Some x => x
              | None => []
              end in
    let c' := on_frame cfg h m p c in
    st c' = st c /\
    (forall (h' : N) (m' : msg) (q : list N),
     In (OSend h' m' (Some q)) (new_outs c c') ->
     q = eff_payload cfg pl (script c) /\ m' = message_for me m q /\ h' <> h) /\
    (has_mod cfg = true ->
     head_outcome (script c) = MInvalid \/ head_outcome (script c) = MErr ->
     forall (h' : N) (m' : msg) (q : list N), ~ In (OSend h' m' (Some q)) (new_outs c c')).
Proof. exact C08_on_frame. Qed.

Theorem C08_client_accepts_only_valid :
  forall (d : bool) (r : creply),
    c_fbp d r = RValid \/ (exists a : list N, c_fbp d r = RAltered a) ->
    d = true /\
    (exists (m : msg) (p : option (list N)),
       r = CrMsg m p /\
       is_kind m "S2M_FORWARD_BROADCAST_PAYLOAD_ACK" = true /\
       get_bool m "valid" = true /\
       (forall a : list N, c_fbp d r = RAltered a -> p = Some a) /\
       (c_fbp d r = RValid -> p = None)).
Proof. exact c_fbp_accept_only_valid. Qed.

Theorem C08_link_transparent :
  forall (cfg : lcfg) (hb id : N) (f ch : str) (p : list N) (o : moutcome) (n : nid),
    lop_fbp cfg = true ->
    l_max_inflight cfg <> 0 ->
    nid_parse f = Some n ->
    fbp_ack_fits cfg id o = true ->
    snd (via_link cfg hb id (McFbp f ch p) o) = fbp_expected o /\
    In (LMod (McFbp f ch p)) (fst (via_link cfg hb id (McFbp f ch p) o)).
Proof. exact via_link_fbp_transparent'. Qed.

Theorem C08_link_fail_closed :
  forall (cfg : lcfg) (hb id : N) (o : moutcome),
    (forall t u : str,
     outcome_of (snd (via_link cfg hb id (McAuth t) o)) = MAuthSuccess u -> o = MAuthSuccess u) /\
    (forall (f ch : str) (p : list N),
     outcome_of (snd (via_link cfg hb id (McFbp f ch p) o)) = MOk ->
     o <> MErr /\ o <> MInvalid /\ (forall a : list N, o <> MAltered a)) /\
    (forall (f ch : str) (p a : list N),
     outcome_of (snd (via_link cfg hb id (McFbp f ch p) o)) = MAltered a -> o = MAltered a).
Proof. exact via_link_fail_closed. Qed.

Theorem C08_reply_is_correlated :
  forall (id : N) (os : list lout) (m : msg) (p : option (list N)),
    reply_for id os = CrMsg m p ->
    correlation_id schema m = Some id /\ (In (LSend m p) os \/ p = None /\ In (LClose m) os).
Proof. exact reply_for_correlated. Qed.

Theorem C08_outcome_accept_only :
  forall r : cresult,
    (outcome_of r = MOk -> r = RValid \/ r = REventOk) /\
    (forall a : list N, outcome_of r = MAltered a -> r = RAltered a).
Proof. exact outcome_of_accept_only. Qed.

Theorem C08_concurrent_requests_transparent :
  forall (cfg : lcfg) (hb : N) (evs : list lev) (id : N) (call : modcall) (o : moutcome),
    let s := lc_run cfg hb evs in
    In (id, call, o) (lc_answered s) ->
    lc_result cfg s id call = snd (via_link cfg hb id call o).
Proof. exact lc_concurrent_transparent. Qed.

Theorem C08_concurrent_unanswered_fails :
  forall (cfg : lcfg) (hb : N) (evs : list lev) (id : N) (call : modcall),
    let s := lc_run cfg hb evs in
    (forall (c : modcall) (o : moutcome), ~ In (id, c, o) (lc_answered s)) ->
    lc_result cfg s id call = RErr.
Proof. exact lc_unanswered_fails. Qed.

Theorem C08_concurrent_fail_closed :
  forall (cfg : lcfg) (hb : N) (evs : list lev) (id : N),
    let s := lc_run cfg hb evs in
    (forall (f ch : str) (p : list N),
     In (id, McFbp f ch p) (lc_issued s) ->
     outcome_of (lc_result cfg s id (McFbp f ch p)) = MOk ->
     exists o : moutcome,
       In (id, McFbp f ch p, o) (lc_answered s) /\
       o <> MErr /\ o <> MInvalid /\ (forall a : list N, o <> MAltered a)) /\
    (forall (f ch : str) (p a : list N),
     In (id, McFbp f ch p) (lc_issued s) ->
     outcome_of (lc_result cfg s id (McFbp f ch p)) = MAltered a ->
     In (id, McFbp f ch p, MAltered a) (lc_answered s)) /\
    (forall t u : str,
     In (id, McAuth t) (lc_issued s) ->
     outcome_of (lc_result cfg s id (McAuth t)) = MAuthSuccess u ->
     In (id, McAuth t, MAuthSuccess u) (lc_answered s)).
Proof. exact lc_fail_closed. Qed.

Theorem C08_concurrent_example :
  let s := lc_run ConcWitness.cfg 10 ConcWitness.evs in
    lc_result ConcWitness.cfg s 7 (McFbp ConcWitness.alice ConcWitness.c1 [1; 2; 3]) =
    RAltered [9; 9] /\
    lc_result ConcWitness.cfg s 8 (McAuth ConcWitness.tok) = RAuthSuccess ConcWitness.u /\
    lc_result ConcWitness.cfg s 9 (McFbp ConcWitness.bob ConcWitness.c1 [4]) = RInvalid /\
    lc_answered s =
    [(9, McFbp ConcWitness.bob ConcWitness.c1 [4], MInvalid);
     (7, McFbp ConcWitness.alice ConcWitness.c1 [1; 2; 3], MAltered [9; 9]);
     (8, McAuth ConcWitness.tok, MAuthSuccess ConcWitness.u)] /\
    lc_pending s = [] /\
    lc_closed s = false /\ map frame_id (lc_wire s) = [Some 9; Some 7; Some 8].
Proof. exact ConcWitness.lc_interleaved_example. Qed.
