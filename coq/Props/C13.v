(* C13 — pinned statements; proofs live in Proofs/LockProofs.v. *)
From NW Require Import Base.Bytes Model.Locks.
Local Open Scope nat_scope.

(* the model exhibits the historical deadlock of the pre-fix code: LEAVE and CHANNELS owner=true pipelined
   on one worker thread, with the modulator answering the LEAVE's event late *)
Example C13_model_smoke :
  snd (lrun (mk_tasks [(0, p_leave 0); (0, p_channels_owner_old [0])])
            ([Run 0; Run 0; Run 0; Run 0; Run 0; Run 0] ++ [Run 1; Run 1; Run 1] ++ [ModAnswer 0; Run 0]))
  = Some (0, 1, 1)
  /\
  snd (lrun (mk_tasks [(0, p_leave 0); (0, p_channels_owner [0])])
            ([Run 0; Run 0; Run 0; Run 0; Run 0; Run 0] ++ [Run 1; Run 1; Run 1; Run 1; Run 1] ++ [ModAnswer 0]
             ++ [Run 0; Run 0; Run 0; Run 0; Run 0; Run 0; Run 0; Run 1; Run 1; Run 1]))
  = None.
Proof. vm_compute. split; reflexivity. Qed.
