(* C13 — pinned statements; proofs live in Proofs/LockProofs.v. *)
From NW Require Import Base.Bytes Model.Locks Gen.LockLint.
Local Open Scope nat_scope.

(* the model exhibits the historical deadlock of the pre-fix code: LEAVE and CHANNELS owner=true pipelined
   on one worker thread, with the modulator answering the LEAVE's event late *)
Example C13_model_smoke :
  snd (lrun (mk_tasks [(0, p_leave 0); (0, p_channels_owner_old [0])])
            ([Run 0; Run 0; Run 0; Run 0; Run 0; Run 0] ++ [Run 1; Run 1; Run 1] ++ [ModAnswer 0; Run 0]))
  = Some (0, 1, 1)
  /\
  snd (lrun (mk_tasks [(0, p_leave 0); (0, p_channels_owner [0])])
            ([Run 0; Run 0; Run 0; Run 0; Run 0; Run 0] ++ [Run 1; Run 1; Run 1; Run 1; Run 1] ++ [ModAnswer 0]
             ++ [Run 0; Run 0; Run 0; Run 0; Run 0; Run 0; Run 0; Run 1; Run 1; Run 1]))
  = None.
Proof. vm_compute. split; reflexivity. Qed.

(* ---- theorems (types pasted verbatim from Proofs/LockProofs.v by tools/pin.py) ---- *)
From NW Require Import Proofs.LockProofs.

Theorem C13_no_wedge_all_schedules :
  forall (ts : list (nat * program)) (evs : list sev),
    Forall (fun tp : nat * program => disciplined (snd tp) = true) ts ->
    snd (lrun (mk_tasks ts) evs) = None.
Proof. exact no_wedge. Qed.

Theorem C13_current_handlers_never_wedge :
  forall (hs : list (nat * handler)) (evs : list sev),
    snd
      (lrun (mk_tasks (map (fun th : nat * handler => (fst th, handler_prog (snd th))) hs)) evs) =
    None.
Proof. exact handlers_never_wedge. Qed.

Theorem C13_all_handlers_disciplined :
  forall h : handler, disciplined (handler_prog h) = true.
Proof. exact handler_disciplined. Qed.

Theorem C13_blocked_thread_resumes :
  forall (s : lstate) (e : sev) (th l o : nat),
    Inv s ->
    lstep s e = LBlockedThread th l o ->
    exists s' : lstate, lstep s (Run o) = LOk s' /\ lookup l (sync_owner s') = None.
Proof. exact blocked_owner_releases. Qed.

Theorem C13_parked_task_holds_no_map_lock :
  forall (s : lstate) (i : nat) (t : task) (l : nat),
    Inv s -> nth_error (tasks s) i = Some t -> t_status t <> Ready -> ~ In (l, i) (sync_owner s).
Proof. exact parked_owns_no_sync. Qed.

Theorem C13_timeout_releases_locks :
  forall (s : lstate) (i : nat) (t : task),
    nth_error (tasks s) i = Some t ->
    t_status t = Parked ->
    exists s' : lstate,
      lstep s (Cancel i) = LOk s' /\
      nth_error (tasks s') i =
      Some {| t_thread := t_thread t; t_prog := []; t_status := Done; t_async := None |} /\
      (forall l : nat, ~ In (l, i) (sync_owner s')) /\
      (forall l : nat, lookup l (sync_owner s') <> Some i) /\
      (forall c : nat,
       t_async t = Some c ->
       chan_state s' c = rw_release (chan_state s c) /\
       (forall c' : nat, c' <> c -> chan_state s' c' = chan_state s c')) /\
      (t_async t = None -> chan_lock s' = chan_lock s).
Proof. exact cancel_releases. Qed.

Theorem C13_guard_across_await_deadlock_refuted :
  exists (ts : list (nat * program)) (evs : list sev),
      ts = [(0%nat, p_leave 0); (0%nat, p_channels_owner_old [0%nat])] /\
      snd (lrun (mk_tasks ts) evs) <> None.
Proof. exact old_channels_owner_wedges. Qed.

Theorem C13_old_handler_undisciplined :
  forall (c : nat) (cs : list nat), disciplined (p_channels_owner_old (c :: cs)) = false.
Proof. exact channels_owner_old_not_disciplined. Qed.

(* The discipline the handler table of Model/Locks.v assumes ("a parked task holds no map-shard lock") is read
   off the CURRENT source by translator/locklint.py (coq/Gen/LockLint.v is regenerated on every run): no access to
   a sharded map has its guard alive across an await point, and the scan saw the channel manager's and the
   router's accesses. *)
Theorem C13_source_no_map_guard_across_await :
  NW.Gen.LockLint.guard_across_await = [] /\ (20 <=? NW.Gen.LockLint.map_access_sites)%N = true.
Proof. split; reflexivity. Qed.

(* ---- deadlock freedom, channel locks included (types pasted from Proofs/LockProgress.v by tools/pin.py) ---- *)
From NW Require Import Proofs.LockProgress.

Theorem C13_deadlock_free_from_every_reachable_state :
  forall (wk : bool) (ts : list (nat * program)) (evs : list sev),
    Forall (fun tp : nat * program => disciplined (snd tp) = true) ts ->
    exists evs' : list sev,
      Forall (ev_ok wk) evs' /\ all_done (fst (lrun (fst (lrun (mk_tasks ts) evs)) evs')).
Proof. exact deadlock_free. Qed.

Theorem C13_current_handlers_deadlock_free :
  forall (wk : bool) (hs : list (nat * handler)) (evs : list sev),
    exists evs' : list sev,
      Forall (ev_ok wk) evs' /\
      all_done
        (fst
           (lrun
              (fst
                 (lrun
                    (mk_tasks
                       (map (fun th : nat * handler => (fst th, handler_prog (snd th))) hs)) evs))
              evs')).
Proof. exact handlers_deadlock_free. Qed.

Theorem C13_progress_or_done :
  forall (wk : bool) (s : lstate),
    Inv2 s ->
    all_done s \/
    (exists (e : sev) (s' : lstate), ev_ok wk e /\ lstep s e = LOk s' /\ (M s' < M s)%nat).
Proof. exact progress. Qed.

Theorem C13_extended_invariant_preserved :
  forall (s : lstate) (e : sev) (s' : lstate), Inv2 s -> lstep s e = LOk s' -> Inv2 s'.
Proof. exact lstep_inv2. Qed.

(* non-vacuity of the deadlock-freedom theorem: a cross pattern over two channels and two threads, stopped half-way *)
Example C13_deadlock_free_smoke :
  let ts := [(0, p_join 1); (0, p_leave 2); (1, p_join 2); (1, p_leave 1)] in
  let mid := fst (lrun (mk_tasks ts) [Run 0; Run 0; Run 0; Run 2; Run 2; Run 2; Run 1; Run 3]) in
  ~ all_done mid /\ exists evs', Forall (ev_ok true) evs' /\ all_done (fst (lrun mid evs')).
Proof. exact deadlock_free_smoke. Qed.

(* "at most one channel lock at a time" — the part of the discipline deadlock freedom rests on — read off the
   CURRENT source: no per-channel lock guard is alive where another channel lock is taken (directly or through a
   call of a function of the channel manager that takes one), and the manager-wide lock is never write-locked. *)
Theorem C13_source_one_channel_lock_at_a_time :
  NW.Gen.LockLint.chan_lock_nested = [] /\ (8 <=? NW.Gen.LockLint.chan_lock_sites)%N = true.
Proof. split; reflexivity. Qed.

(* the shared message-buffer pool cannot be exhausted by connections whose writes do not complete (Model/WriteBudget.v),
   under the conditions read off the current source (coq/Gen/Headroom.v) *)
From NW Require Import Model.WriteBudget Proofs.WriteBudgetProofs Gen.Headroom.

Theorem C13_message_pool_never_exhausted :
  forall (c : wcfg) (evs : list wev), guarded c = true -> snd (wrun c [] evs) = None.
Proof. exact guarded_never_waits. Qed.

Theorem C13_source_write_budget :
  (2 <=? NW.Gen.Headroom.pool_per_connection)%N = true /\
  (1 <=? NW.Gen.Headroom.permits_per_iovs)%N = true /\
  (NW.Gen.Headroom.permits_per_iovs <=? NW.Gen.Headroom.pool_per_iovs)%N = true /\
  NW.Gen.Headroom.extras_guarded = true /\
  NW.Gen.Headroom.permits_kept_until_release = true.
Proof. repeat split; reflexivity. Qed.

(* ---- the lock programs of the CURRENT source (coq/Gen/LockPrograms.v, regenerated on every run by
        translator/locklint.py: per function, map accesses as synchronous sections over their guard's lexical region, the
        channel lock, every other await as a park point; types pasted from Proofs/LockSource.v by tools/pin.py) ---- *)
From NW Require Import Gen.LockPrograms Proofs.LockSource.

Theorem C13_source_lock_programs_disciplined :
  forall c : nat,
    forallb (fun np : string * program => disciplined (snd np)) (src_programs c) = true.
Proof. exact src_programs_disciplined. Qed.

Theorem C13_source_handlers_never_wedge :
  forall (ts : list (nat * nat * list part)) (evs : list sev),
    snd (lrun (mk_tasks (map src_task ts)) evs) = None.
Proof. exact source_handlers_never_wedge. Qed.

Theorem C13_source_handlers_deadlock_free :
  forall (wk : bool) (ts : list (nat * nat * list part)) (evs : list sev),
    exists evs' : list sev,
      Forall (ev_ok wk) evs' /\
      all_done (fst (lrun (fst (lrun (mk_tasks (map src_task ts)) evs)) evs')).
Proof. exact source_handlers_deadlock_free. Qed.

Theorem C13_source_lock_programs_cover :
  forall c : nat, (12 <=? Datatypes.length (src_programs c))%nat = true.
Proof. exact src_programs_cover. Qed.

(* a request that ends — answered, failed or timed out — gives its in-flight slot back, in whatever order requests end
   (Model/Inflight.v) *)
From NW Require Import Model.Inflight Proofs.InflightProofs.
Theorem C13_idle_connection_has_its_whole_window : forall limit evs,
  let s := fst (irun true limit iinit evs) in running s = [] -> counter s = 0%nat.
Proof. exact live_idle_connection_has_its_window. Qed.

Theorem C13_source_inflight_decrements_live_counter : NW.Gen.Headroom.inflight_decrements_live_counter = true.
Proof. reflexivity. Qed.

(* ---------- interleaved semantics (Model/Conc.v): every schedule of suspended requests, disconnects, time-outs ---------- *)
From Coq Require Import List NArith.
From NW Require Import Model.Conc Proofs.ConcDefs Proofs.ConcEv Proofs.ConcInv Proofs.ConcSmall Proofs.ConcMore Proofs.ConcProgress Proofs.ConcSource Gen.ConcFlags.
Import ListNotations.
Local Open Scope N_scope.

Theorem C13_conc_always_drains :
  forall (cf : ccfg) (es : list ev),
    fixed cf ->
    exists es' : list ev, runs_only es' /\ quiescent (fst (crun cf (cstate_after cf es) es')).
Proof. exact conc_always_drains. Qed.

Theorem C13_source_segment_layout :
  forallb snd conc_source_shape = true.
Proof. exact source_segment_layout. Qed.
