(* C15 — Outbound frames arrive intact and in order; a slow consumer only hurts itself.
   Pinned statements; proofs in Proofs/OutboundProofs.v. *)
From NW Require Import Base.Bytes Model.SchemaTypes Model.Codec Model.Outbound Proofs.OutboundProofs.

Example C15_model_smoke :
  write_batches [Accept 1; Accept 1; Accept 2; Accept 1000] [[([1; 2; 10], Some [10; 10]); ([3; 10], None)]] []
  = ([1; 2; 10; 10; 10; 10; 3; 10], WDone).
Proof. vm_compute. reflexivity. Qed.

(* a frame is the header line, and for payload-bearing messages the payload followed by a newline *)
Theorem C15_frame_shape : forall h p,
  frame_bytes (h, Some p) = h ++ p ++ [NL] /\ frame_bytes (h, None) = h.
Proof. exact frame_bytes_shape. Qed.

(* For every batching of the queued items and every pattern of partial writes (every accepted
   count >= 1, down to one byte per call), the transport receives exactly the concatenation of
   whole frames in queue order. *)
Theorem C15_bytes_are_frames : forall bs oracle written,
  Forall pos oracle -> Forall (fun it => fst it <> []) (concat bs) ->
  (length (concat (map frame_bytes (concat bs))) <= length oracle)%nat ->
  write_batches oracle bs written = (written ++ concat (map frame_bytes (concat bs)), WDone).
Proof. exact write_batches_complete_headers. Qed.

Theorem C15_batching_irrelevant : forall bs1 bs2 o1 o2 written,
  concat bs1 = concat bs2 -> Forall wf_item (concat bs1) -> Forall pos o1 -> Forall pos o2 ->
  (length (concat (map frame_bytes (concat bs1))) <= length o1)%nat ->
  (length (concat (map frame_bytes (concat bs1))) <= length o2)%nat ->
  write_batches o1 bs1 written = write_batches o2 bs2 written /\
  write_batches o1 bs1 written = (written ++ concat (map frame_bytes (concat bs1)), WDone).
Proof. exact batching_irrelevant. Qed.

(* whatever the transport does (errors, zero-length writes, starvation), what was written is a prefix *)
Theorem C15_prefix_on_failure : forall bs oracle written w res,
  write_batches oracle bs written = (w, res) ->
  exists k, (k <= length (concat (map frame_bytes (concat bs))))%nat /\
            w = written ++ firstn k (concat (map frame_bytes (concat bs))) /\
            (res = WDone -> k = length (concat (map frame_bytes (concat bs)))).
Proof. exact write_batches_prefix. Qed.

(* bounded queue: exactly the items that fit are kept, in order; an overflow always requests a close *)
Theorem C15_overflow_requests_close : forall cap q its q' c,
  enqueue_all cap q its = (q', c) ->
  q' = q ++ firstn (cap - length q) its /\ (c = true <-> (cap - length q < length its)%nat).
Proof. exact enqueue_all_spec. Qed.

(* enqueueing for one connection never touches another connection's queue *)
Theorem C15_non_interference : forall cap qs i it j, j <> i ->
  nth_error (fst (send_to cap qs i it)) j = nth_error qs j.
Proof. exact try_send_other_queues. Qed.

Print Assumptions C15_bytes_are_frames.
Print Assumptions C15_prefix_on_failure.
