(* C15 — Outbound frames arrive intact and in order; a slow consumer only hurts itself.
   Pinned statements; proofs in Proofs/OutboundProofs.v. *)
From NW Require Import Base.Bytes Model.SchemaTypes Model.Codec Model.Outbound Proofs.OutboundProofs.

Example C15_model_smoke :
  write_batches [Accept 1; Accept 1; Accept 2; Accept 1000] [[([1; 2; 10], Some [10; 10]); ([3; 10], None)]] []
  = ([1; 2; 10; 10; 10; 10; 3; 10], WDone).
Proof. vm_compute. reflexivity. Qed.

(* a frame is the header line, and for payload-bearing messages the payload followed by a newline *)
Theorem C15_frame_shape : forall h p,
  frame_bytes (h, Some p) = h ++ p ++ [NL] /\ frame_bytes (h, None) = h.
Proof. exact frame_bytes_shape. Qed.

(* For every batching of the queued items and every pattern of partial writes (every accepted
   count >= 1, down to one byte per call), the transport receives exactly the concatenation of
   whole frames in queue order. *)
Theorem C15_bytes_are_frames : forall bs oracle written,
  Forall pos oracle -> Forall (fun it => fst it <> []) (concat bs) ->
  (length (concat (map frame_bytes (concat bs))) <= length oracle)%nat ->
  write_batches oracle bs written = (written ++ concat (map frame_bytes (concat bs)), WDone).
Proof. exact write_batches_complete_headers. Qed.

Theorem C15_batching_irrelevant : forall bs1 bs2 o1 o2 written,
  concat bs1 = concat bs2 -> Forall wf_item (concat bs1) -> Forall pos o1 -> Forall pos o2 ->
  (length (concat (map frame_bytes (concat bs1))) <= length o1)%nat ->
  (length (concat (map frame_bytes (concat bs1))) <= length o2)%nat ->
  write_batches o1 bs1 written = write_batches o2 bs2 written /\
  write_batches o1 bs1 written = (written ++ concat (map frame_bytes (concat bs1)), WDone).
Proof. exact batching_irrelevant. Qed.

(* whatever the transport does (errors, zero-length writes, starvation), what was written is a prefix *)
Theorem C15_prefix_on_failure : forall bs oracle written w res,
  write_batches oracle bs written = (w, res) ->
  exists k, (k <= length (concat (map frame_bytes (concat bs))))%nat /\
            w = written ++ firstn k (concat (map frame_bytes (concat bs))) /\
            (res = WDone -> k = length (concat (map frame_bytes (concat bs)))).
Proof. exact write_batches_prefix. Qed.

(* bounded queue: exactly the items that fit are kept, in order; an overflow always requests a close *)
Theorem C15_overflow_requests_close : forall cap q its q' c,
  enqueue_all cap q its = (q', c) ->
  q' = q ++ firstn (cap - length q) its /\ (c = true <-> (cap - length q < length its)%nat).
Proof. exact enqueue_all_spec. Qed.

(* enqueueing for one connection never touches another connection's queue *)
Theorem C15_non_interference : forall cap qs i it j, j <> i ->
  nth_error (fst (send_to cap qs i it)) j = nth_error qs j.
Proof. exact try_send_other_queues. Qed.

Print Assumptions C15_bytes_are_frames.
Print Assumptions C15_prefix_on_failure.

(* ---- the shared message-buffer budget: a connection whose write never completes cannot starve the others
        (Model/WriteBudget.v; types pasted from Proofs/WriteBudgetProofs.v by tools/pin.py) ---- *)
From NW Require Import Model.WriteBudget Proofs.WriteBudgetProofs Gen.Headroom.
Local Open Scope nat_scope.

Theorem C15_no_connection_ever_waits_for_a_message_buffer :
  forall (c : wcfg) (evs : list wev), guarded c = true -> snd (wrun c nil evs) = None.
Proof. exact guarded_never_waits. Qed.

Theorem C15_buffers_in_use_bounded :
  forall (c : wcfg) (evs : list wev),
    guarded c = true ->
    let s := fst (wrun c nil evs) in in_use s <= 2 * live s + headroom c /\ live s <= maxc c.
Proof. exact guarded_reachable_bound. Qed.

Theorem C15_unguarded_batches_starve_others_refuted :
  let s := fst (wrun old_cfg nil old_witness) in
    snd (wrun old_cfg nil old_witness) = None /\
    get_slot s 1 = Some {| w_first := false; w_extras := 0 |} /\
    wstep old_cfg s (WFirst 1) = WWaits /\
    wstep old_cfg s WConnect = WWaits /\
    (let c' := {| maxc := 3; headroom := 2; guarded := true |} in
     let s' := fst (wrun c' nil old_witness) in
     (exists s1 : wstate, wstep c' s' (WFirst 1) = WOk s1) /\
     (exists s2 : wstate, wstep c' s' WConnect = WOk s2)).
Proof. exact unguarded_starves. Qed.

Theorem C15_unguarded_stuck_until_the_stalled_write_ends :
  forall e : wev,
    let s := fst (wrun old_cfg nil old_witness) in
    match e with
    | WFlush _ | WDrop _ => True
    | _ => match wstep old_cfg s e with
           | WOk _ => False
           | _ => True
           end
    end.
Proof. exact unguarded_stuck_until_flush. Qed.

(* the conditions of that theorem, read off the CURRENT source by translator/headroom.py (coq/Gen/Headroom.v is
   regenerated on every run): the pool holds two buffers per connection plus at least the head-room the permit
   semaphore hands out; every buffer a write batch takes beyond its first is taken against a permit acquired without
   waiting; the permits are kept with the batch and go back after the buffers *)
Theorem C15_source_write_budget :
  (2 <=? NW.Gen.Headroom.pool_per_connection)%N = true /\
  (1 <=? NW.Gen.Headroom.permits_per_iovs)%N = true /\
  (NW.Gen.Headroom.permits_per_iovs <=? NW.Gen.Headroom.pool_per_iovs)%N = true /\
  NW.Gen.Headroom.extras_guarded = true /\
  NW.Gen.Headroom.permits_kept_until_release = true /\
  (3 <=? NW.Gen.Headroom.single_buffer_sites)%N = true.
Proof. repeat split; reflexivity. Qed.

(* ---- a close request against a pending write (Model/ConnLoop.v; proofs in Proofs/ConnLoopProofs.v) ----
   Whether the batch write is raced with the close channel and the shutdown token is read off the current source
   (Gen/Headroom.write_raced_with_close).  If it is, a close request ends the connection at once after any history; if it
   is not — the current code, known finding K15a — a connection whose write never completes outlives every close
   request (while a peer that does take the batch is closed right after it). *)
From NW Require Import Model.ConnLoop Proofs.ConnLoopProofs.

Theorem C15_close_request_against_a_pending_write :
  if NW.Gen.Headroom.write_raced_with_close
  then forall pre i rest, is_close i = true -> ph (lrun true linit (pre ++ i :: rest)) = LEnded
  else (forall rest, forallb (fun i => negb (is_write_done i)) rest = true ->
                     ph (lrun false linit (IEnqueue :: IClose :: rest)) = LWriting)
       /\ (forall s, ph s = LWriting -> ph (lrun false s [IClose; IWriteDone]) = LEnded).
Proof.
  destruct NW.Gen.Headroom.write_raced_with_close.
  - exact raced_after_any_history.
  - split; [exact unraced_stalled_peer_is_never_closed_refuted | exact unraced_closes_after_the_write].
Qed.
