(* C20 — pinned statements; proofs live in Proofs/TimerProofs.v. *)
From NW Require Import Base.Bytes Model.Timers.

Example C20_model_smoke :
  let c := {| connect_to := 1000; auth_to := 2000; hb_min := 1000; hb_max := 4000 |} in
  snd (trun c 0 (topen c 0) [(500, IConnect 1500); (900, IIdentify); (2500, IObserve); (2600, IPongOk); (10000, IObserve)])
  = [EPing 2400; EPing 4100; ETimeout 8600].
Proof. vm_compute. reflexivity. Qed.

(* ---- theorems (types pasted verbatim from Proofs/TimerProofs.v by tools/pin.py) ---- *)
From NW Require Import Proofs.TimerProofs.
From NW Require Import Model.Link.

Theorem C20_heartbeat_is_clamped :
  forall (c : tcfg) (req : N), hb_min c <= hb_max c -> hb_min c <= negotiate c req <= hb_max c.
Proof. exact C20_heartbeat_clamped. Qed.

Theorem C20_heartbeat_zero_is_max :
  forall c : tcfg, negotiate c 0 = hb_max c.
Proof. exact C20_heartbeat_default. Qed.

Theorem C20_heartbeat_in_range_kept :
  forall (c : tcfg) (req : N),
    hb_min c <= req <= hb_max c -> req <> 0 -> negotiate c req = req.
Proof. exact C20_heartbeat_in_range. Qed.

Theorem C20_connect_deadline_exact :
  forall (c : tcfg) (t0 d now req : N) (f : nat),
    advance (S f) (TConnecting d) now =
    (if d <=? now then (TClosed, [ETimeout d]) else (TConnecting d, [])) /\
    (now < d ->
     tstep c t0 (TConnecting d) now (IConnect req) =
     (TConnected (now + auth_to c) (negotiate c req), [])) /\
    (d <= now -> tstep c t0 (TConnecting d) now (IConnect req) = (TClosed, [ETimeout d])).
Proof. exact C20_connect_deadline. Qed.

Theorem C20_auth_deadline_exact :
  forall (c : tcfg) (t0 d hb now : N) (f : nat),
    advance (S f) (TConnected d hb) now =
    (if d <=? now then (TClosed, [ETimeout d]) else (TConnected d hb, [])) /\
    (now < d -> tstep c t0 (TConnected d hb) now IIdentify = (TIdle (now + hb) hb 0 0 false, [])) /\
    (d <= now -> tstep c t0 (TConnected d hb) now IIdentify = (TClosed, [ETimeout d])).
Proof. exact C20_auth_deadline. Qed.

Theorem C20_handshake_in_time_no_timeout :
  forall (c : tcfg) (t0 t1 t2 req : N),
    t1 < t0 + connect_to c ->
    t2 < t1 + auth_to c ->
    trun c t0 (topen c t0) [(t1, IConnect req); (t2, IIdentify)] =
    (TIdle (t2 + negotiate c req) (negotiate c req) 0 0 false, []).
Proof. exact C20_handshake_in_time. Qed.

Theorem C20_idle_is_pinged_within_two_intervals :
  forall (f : nat) (w hb last cnt now : N),
    (3 <= f)%nat ->
    w + hb <= now ->
    exists (t : N) (s' : tstate) (o : list tout),
      advance f (TIdle w hb last cnt false) now = (s', EPing t :: o) /\
      w <= t <= w + hb /\ (cnt = last -> t = w) /\ (cnt <> last -> t = w + hb).
Proof. exact C20_idle_pinged_within_two. Qed.

Theorem C20_ping_timeout_exact :
  forall (c : tcfg) (t0 d hb cnt now : N) (f : nat),
    (advance (S f) (TPingWait d hb cnt) now = (TClosed, [ETimeout d]) <-> d <= now) /\
    (now < d -> advance (S f) (TPingWait d hb cnt) now = (TPingWait d hb cnt, [])) /\
    (now < d ->
     tstep c t0 (TPingWait d hb cnt) now IPongOk = (TIdle (now + hb) hb cnt cnt false, [])) /\
    (now < d -> tstep c t0 (TPingWait d hb cnt) now IPongBad = (TClosed, [EBadPong now])) /\
    (d <= now -> forall i : tin, tstep c t0 (TPingWait d hb cnt) now i = (TClosed, [ETimeout d])).
Proof. exact C20_ping_timeout. Qed.

Theorem C20_ping_then_wait_three_intervals :
  forall (f : nat) (w hb last cnt : N) (mb : bool) (now : N) (s' : tstate) 
      (o : list tout) (t : N),
    (3 <= f)%nat ->
    advance f (TIdle w hb last cnt mb) now = (s', o) ->
    In (EPing t) o ->
    (t = w \/ t = w + hb) /\
    t <= now /\
    (s' = TPingWait (t + 3 * hb) hb cnt /\ o = [EPing t] /\ now < t + 3 * hb /\ mb = false \/
     s' = TClosed /\ o = [EPing t; ETimeout (t + 3 * hb)] /\ t + 3 * hb <= now /\ mb = false \/
     s' = TClosed /\ o = [EPing t; EBadPong t] /\ mb = true).
Proof. exact C20_ping_creates_wait. Qed.

Theorem C20_active_is_never_pinged :
  forall (c : tcfg) (t0 tc ti req t1 : N) (ts : list N) (now : N),
    tc < t0 + connect_to c ->
    ti < tc + auth_to c ->
    t1 < ti + negotiate c req ->
    gaps_ok (negotiate c req) t1 ts ->
    now < last ts t1 + negotiate c req ->
    exists w' last' cnt' : N,
      trun c t0 (topen c t0)
        ((tc, IConnect req) :: (ti, IIdentify) :: reqs (t1 :: ts) ++ [(now, IObserve)]) =
      (TIdle w' (negotiate c req) last' cnt' false, []) /\ now < w'.
Proof. exact C20_active_connection_never_pinged. Qed.

Theorem C20_stale_pong_gets_closed :
  forall (c : tcfg) (t0 w hb cnt p now : N),
    p < w ->
    w <= now ->
    trun c t0 (TIdle w hb cnt cnt false) [(p, IPongOk); (now, IObserve)] =
    (TClosed, [EPing w; EBadPong w]).
Proof. exact C20_unsolicited_pong_then_close. Qed.

Theorem C20_closed_is_final :
  forall (c : tcfg) (t0 : N) (evs : list (N * tin)), trun c t0 TClosed evs = (TClosed, []).
Proof. exact C20_closed_final_trun. Qed.

Theorem C20_fuel_is_adequate :
  forall (c : tcfg) (t0 : N) (s : tstate) (now : N) (i : tin),
    tstep c t0 s now i =
    (let
     '(s1, o1) := advance_spec s now in let '(s2, o2) := apply_in c now s1 i in (s2, o1 ++ o2)).
Proof. exact C20_tstep_fuel_adequate. Qed.

Theorem C20_output_times_bounded :
  forall (c : tcfg) (t0 : N) (s : tstate) (now : N) (i : tin) (e : tout),
    In e (snd (tstep c t0 s now i)) ->
    tout_time e <= now /\ (due_le s (tout_time e) \/ e = EBadPong now /\ i = IPongBad).
Proof. exact C20_tstep_output_times. Qed.

Theorem C20_refused_attempt_keeps_auth_deadline :
  forall (c : tcfg) (t0 d hb t1 t2 : N),
    t1 < d ->
    d <= t2 ->
    tstep c t0 (TConnected d hb) t1 IRefused = (TConnected d hb, []) /\
    trun c t0 (TConnected d hb) [(t1, IRefused); (t2, IObserve)] = (TClosed, [ETimeout d]).
Proof. exact C20_refused_keeps_deadline. Qed.

Theorem C20_refused_attempt_example :
  trun {| connect_to := 1000; auth_to := 2000; hb_min := 1000; hb_max := 4000 |} 0
      (TConnected 2050 4000) [(300, IRefused); (900, IRefused); (2060, IObserve)] =
    (TClosed, [ETimeout 2050]).
Proof. exact C20_refused_keeps_deadline_example. Qed.

(* the S2M / M2S handshakes (Model/Link.v) negotiate the heartbeat with the very same clamp as the C2S handshake *)
Theorem C20_link_negotiation_is_the_same_clamp :
  forall (cfg : NW.Model.Link.lcfg) (req : N),
    NW.Model.Link.lnegotiate_hb cfg req =
    negotiate {| connect_to := 0; auth_to := 0; hb_min := NW.Model.Link.l_min_keepalive cfg; hb_max := NW.Model.Link.l_keepalive cfg |} req.
Proof. intros cfg req. reflexivity. Qed.
