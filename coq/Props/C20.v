(* C20 — pinned statements; proofs live in Proofs/TimerProofs.v. *)
From NW Require Import Base.Bytes Model.Timers.

Example C20_model_smoke :
  let c := {| connect_to := 1000; auth_to := 2000; hb_min := 1000; hb_max := 4000 |} in
  snd (trun c 0 (topen c 0) [(500, IConnect 1500); (900, IIdentify); (2500, IObserve); (2600, IPongOk); (10000, IObserve)])
  = [EPing 2400; EPing 4100; ETimeout 8600].
Proof. vm_compute. reflexivity. Qed.
