(* C19 — pinned statements; proofs live in Proofs/PoolProofs.v. *)
From NW Require Import Base.Bytes Model.PoolTok.

Example C19_model_smoke :
  option_map (fun p => (avail p, permits p, length (held p)))
             (run (init_pool 2) [AcqPermit; AcqPermit; Pop; Pop; Freeze 0%nat; Clone 0%nat; PushBack 1%nat; DropRef 0%nat; RetPermit; PushBack 0%nat; RetPermit])
  = Some ([1; 0]%nat, 2%nat, 0%nat).
Proof. vm_compute. reflexivity. Qed.
