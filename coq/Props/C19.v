(* C19 — pinned statements; proofs live in Proofs/PoolProofs.v. *)
From NW Require Import Base.Bytes Model.PoolTok Gen.PoolOrder.

Example C19_model_smoke :
  option_map (fun p => (avail p, permits p, length (held p)))
             (run (init_pool 2) [AcqPermit; AcqPermit; Pop; Pop; Freeze 0%nat; Clone 0%nat; PushBack 1%nat; DropRef 0%nat; RetPermit; PushBack 0%nat; RetPermit])
  = Some ([1; 0]%nat, 2%nat, 0%nat).
Proof. vm_compute. reflexivity. Qed.

(* ---- theorems (types pasted verbatim from Proofs/PoolProofs.v by tools/pin.py) ---- *)
From NW Require Import Proofs.PoolProofs.

Theorem C19_invariant_every_interleaving :
  forall (sched : list mstep) (p p' : pool), PInv p -> run p sched = Some p' -> PInv p'.
Proof. exact pinv_run. Qed.

Theorem C19_no_underflow :
  forall (n : nat) (sched : list mstep), run (init_pool n) sched <> None.
Proof. exact run_never_panics. Qed.

Theorem C19_conservation :
  forall p : pool, PInv p -> (available_count p + in_use_count p)%nat = cap p.
Proof. exact available_plus_in_use. Qed.

Theorem C19_exclusive :
  forall p p' : pool,
    PInv p ->
    step p Pop = SOk p' ->
    exists i : bufid,
      hlookup i (held p') = Some HMut /\
      hlookup i (held p) = None /\ ~ In i (avail p') /\ avail p = i :: avail p'.
Proof. exact exclusive_handout. Qed.

Theorem C19_mut_unshared :
  forall (p : pool) (i : bufid),
    PInv p ->
    hlookup i (held p) = Some HMut ->
    (forall h : hstate, In (i, h) (held p) -> h = HMut) /\
    count_occ Nat.eq_dec (map fst (held p)) i = 1%nat /\ ~ In i (avail p).
Proof. exact mut_is_unshared. Qed.

Theorem C19_frozen_bytes_constant :
  forall (sched : list mstep) (p p' : pool) (i : bufid),
    PInv p ->
    frozen i p ->
    ~ In (PushBack i) sched ->
    ~ In (BatchUnwrap i) sched ->
    run p sched = Some p' -> frozen i p' /\ clookup i (contents p') = clookup i (contents p).
Proof. exact frozen_bytes_constant_until_returned. Qed.

Theorem C19_write_needs_mut :
  forall (p : pool) (i : bufid) (b : list N) (p' : pool),
    step p (Write i b) = SOk p' -> hlookup i (held p) = Some HMut.
Proof. exact write_needs_mut. Qed.

Theorem C19_all_returned :
  forall (n : nat) (sched : list mstep) (p : pool),
    run (init_pool n) sched = Some p ->
    held p = [] ->
    acquiring p = 0%nat ->
    returning p = 0%nat ->
    Datatypes.length (avail p) = n /\
    permits p = n /\ Permutation.Permutation (avail p) (seq 0 n).
Proof. exact all_returned_reachable. Qed.

Theorem C19_blocks_only_if_empty :
  forall p : pool,
    PInv p ->
    acquiring p = 0%nat -> returning p = 0%nat -> step p AcqPermit = SDisabled <-> avail p = [].
Proof. exact quiescent_acquire_blocks_iff_empty. Qed.

Theorem C19_release_batch :
  forall (ids : list bufid) (p : pool),
    PInv p ->
    exists ret : list bufid,
      avail (release_batch p ids) = avail p ++ ret /\
      permits (release_batch p ids) = (permits p + Datatypes.length ret)%nat /\
      NoDup ret /\
      (forall i : bufid,
       In i ret <->
       (exists n : nat,
          hlookup i (held p) = Some (HFrozen n) /\ (1 <= n <= count_occ Nat.eq_dec ids i)%nat)) /\
      (forall i : bufid,
       hlookup i (held (release_batch p ids)) =
       after_release (hlookup i (held p)) (count_occ Nat.eq_dec ids i)).
Proof. exact release_batch_spec. Qed.

Theorem C19_bucket_choice :
  forall (bs : list (N * nat)) (size : N),
    (forall i : nat, choose_bucket bs 0 size None = Some (i, false) <-> first_free_fit bs size i) /\
    (forall i : nat,
     choose_bucket bs 0 size None = Some (i, true) <-> no_free_fit bs size /\ last_fit bs size i) /\
    (choose_bucket bs 0 size None = None <-> none_fit bs size).
Proof. exact choose_bucket_spec. Qed.

Theorem C19_waits_although_buffer_available_refuted :
  exists (bs bs' : list (N * nat)) (size : N) (i j : nat),
      choose_bucket bs 0 size None = Some (i, true) /\
      Datatypes.length bs' = Datatypes.length bs /\
      map fst bs' = map fst bs /\
      snd (bkt bs' i) = 0%nat /\
      j <> i /\
      fits size (bkt bs' j) /\
      has_free (bkt bs' j) /\ choose_bucket bs' 0 size None = Some (j, false).
Proof. exact bucketed_waits_although_buffer_available_refuted. Qed.

(* The micro-step order Model/PoolTok.v builds in (Pop is enabled only for a task that owns a permit; RetPermit /
   BatchAddPermit only after the matching PushBack / BatchUnwrap, one unit each) is read off the CURRENT source by
   translator/poolorder.py (coq/Gen/PoolOrder.v is regenerated on every run). *)
Theorem C19_source_statement_order :
  NW.Gen.PoolOrder.acquire_permit_before_pop = true /\
  NW.Gen.PoolOrder.drop_push_before_permit = true /\
  NW.Gen.PoolOrder.release_push_then_one_permit_each = true.
Proof. repeat split; reflexivity. Qed.

(* ---- connection life cycles and the shared message pool (Model/WriteBudget.v; types pasted from
        Proofs/WriteBudgetProofs.v by tools/pin.py) ---- *)
From NW Require Import Model.WriteBudget Proofs.WriteBudgetProofs.
Local Open Scope nat_scope.

Theorem C19_all_connections_ended_all_message_buffers_back :
  forall (c : wcfg) (evs : list wev),
    let s := fst (wrun c nil evs) in live s = 0 -> in_use s = 0 /\ available c s = capacity c.
Proof. exact all_ended_all_returned. Qed.

Theorem C19_ending_connection_returns_what_it_held :
  forall (c : wcfg) (s : wstate) (i : nat) (w : wconn) (s' : wstate),
    get_slot s i = Some w ->
    wstep c s (WDrop i) = WOk s' -> in_use s' + conn_use (Some w) = in_use s.
Proof. exact drop_returns_its_buffers. Qed.

(* A buffer stays with its holder until the holder is done with it: the connection loop gives the buffers of a write
   batch back to the pool only after the vectored write of that batch has been awaited (read off the CURRENT source by
   translator/headroom.py) — released earlier, another connection could acquire and overwrite the very bytes a pending
   write still reads. *)
From NW Require Import Gen.Headroom.
Theorem C19_source_batch_released_after_the_write : NW.Gen.Headroom.batch_released_after_write = true.
Proof. reflexivity. Qed.
