(* C02 — Broadcast completeness: each eligible reader gets the payload once, intact.
   Pinned statements (types pasted verbatim from the proved lemmas by tools/pin.py); proofs in Proofs/Server*.v. *)
From NW Require Import Base.Bytes Model.SchemaTypes Gen.Schema Model.Codec Model.MsgInfo Model.Ids Model.Server.
From NW Require Import Proofs.ServerLib Proofs.ServerRoute Proofs.ServerHandlers Proofs.ServerSteps Proofs.ServerPhases.
From NW Require Import Proofs.ServerInvBase Proofs.ServerInv Proofs.ServerUniq Proofs.ServerInvCor.
From NW Require Import Proofs.ServerDelivery Proofs.ServerEvents Proofs.ServerIdentity.
From NW Require Import Gen.LockLint.

Theorem C02_complete_exactly_once :
  forall (cfg : scfg) (h : N) (req : msg) (p : option (list N)) (c : ctx) 
      (cn : conn) (me : nid) (d : list out),
    Inv cfg (st c) ->
    nlookup h (conns (st c)) = Some cn ->
    c_phase cn = Authenticated ->
    c_nid cn = Some me ->
    is_kind req "BROADCAST" = true ->
    outs (on_frame cfg h req p c) = outs c ++ d ->
    (exists (ack : msg) (pa : option (list N)),
       In (OSend h ack pa) d /\ is_kind ack "BROADCAST_ACK" = true) ->
    let q := eff_payload cfg (payload_of p) (script c) in
    exists (hd : str) (ch : chan),
      chan_parse (get_str req "channel") = Some (hd, domain cfg) /\
      alookup hd (chans (st c)) = Some ch /\
      nmem me (ch_members ch) = true /\
      acl_allowed (ch_pub ch) me = true /\
      N.of_nat (Datatypes.length q) <= ch_max_payload ch /\
      (has_mod cfg = true ->
       head_outcome (script c) <> MInvalid /\ head_outcome (script c) <> MErr) /\
      (forall (n : nid) (hs : list N) (h' : N),
       nmem n (ch_members ch) = true ->
       acl_allowed (ch_read ch) n = true ->
       alookup (nu n) (router (st c)) = Some hs ->
       In h' hs -> h' <> h -> deliveries h' d = [(message_for me req q, q)]) /\
      (forall h' : N, (Datatypes.length (deliveries h' d) <= 1)%nat) /\
      deliveries h d = [] /\
      (forall (h' : N) (m' : msg) (q' : list N),
       In (OSend h' m' (Some q')) d -> m' = message_for me req q /\ q' = q /\ h' <> h) /\
      st (on_frame cfg h req p c) = st c.
Proof. exact C02_completeness. Qed.

Theorem C02_complete_whole_step :
  forall (cfg : scfg) (s : state) (h : N) (req : msg) (p : option (list N))
      (sc : list moutcome) (hi : list (str * nid)) (s' : state) (os : list out) 
      (cn : conn) (me : nid),
    Inv cfg s ->
    step cfg s (Frame h req p sc hi) = (s', os) ->
    nlookup h (conns s) = Some cn ->
    c_phase cn = Authenticated ->
    c_nid cn = Some me ->
    is_kind req "BROADCAST" = true ->
    (exists (ack : msg) (pa : option (list N)),
       In (OSend h ack pa) os /\ is_kind ack "BROADCAST_ACK" = true) ->
    let q := eff_payload cfg (payload_of p) sc in
    exists (hd : str) (ch : chan),
      chan_parse (get_str req "channel") = Some (hd, domain cfg) /\
      alookup hd (chans s) = Some ch /\
      nmem me (ch_members ch) = true /\
      acl_allowed (ch_pub ch) me = true /\
      (forall (n : nid) (hs : list N) (h' : N),
       nmem n (ch_members ch) = true ->
       acl_allowed (ch_read ch) n = true ->
       alookup (nu n) (router s) = Some hs ->
       In h' hs -> h' <> h -> deliveries h' os = [(message_for me req q, q)]) /\
      (forall h' : N, (Datatypes.length (deliveries h' os) <= 1)%nat) /\
      deliveries h os = [] /\
      (forall (h' : N) (m' : msg) (q' : list N),
       In (OSend h' m' (Some q')) os -> m' = message_for me req q /\ q' = q /\ h' <> h).
Proof. exact C02_completeness_step. Qed.

Theorem C02_each_connection_once :
  forall (cfg : scfg) (m : msg) (p : option (list N)) (targets : list nid) 
      (excl : option N) (c : ctx),
    NoDup targets ->
    router_wf (router (st c)) ->
    exists hs : list N,
      NoDup hs /\
      new_outs c (route cfg m p targets excl c) = map (fun h : N => OSend h m p) hs /\
      (forall h : N, excl = Some h -> ~ In h hs).
Proof. exact broadcast_each_once. Qed.

Theorem C02_router_wellformed :
  forall (cfg : scfg) (s : state), Inv cfg s -> router_wf (router s).
Proof. exact inv_router_wf. Qed.

(* Deliveries look receivers up in sharded maps.  translator/locklint.py lists, from the CURRENT source, the map accesses
   that can make a present receiver disappear for an instant: guards alive across an await and non-blocking (the try_ family)
   lookups, which report a shard that is merely being written as unavailable.  The list must be empty. *)
Theorem C02_source_no_lossy_map_lookup : NW.Gen.LockLint.guard_across_await = [].
Proof. reflexivity. Qed.

(* ---------- interleaved semantics (Model/Conc.v): every schedule of suspended requests, disconnects, time-outs ---------- *)
From Coq Require Import List NArith.
From NW Require Import Model.Conc Proofs.ConcDefs Proofs.ConcEv Proofs.ConcInv Proofs.ConcSmall Proofs.ConcMore Proofs.ConcProgress Proofs.ConcSource Gen.ConcFlags.
Import ListNotations.
Local Open Scope N_scope.

Theorem C02_source_segment_layout :
  forallb snd conc_source_shape = true.
Proof. exact source_segment_layout. Qed.

Theorem C02_conc_broadcast_complete :
  forall (cf : ccfg) (es : list ev) (t : tid) (ok : bool) (hint : user) (c : conn) (id : N),
    let s := cstate_after cf es in
    In (OAck c id A_BCAST) (snd (cstep cf s (ERun t ok hint))) ->
    exists (k : task) (ch : chan) (payload : N) (o : oid),
      In (t, k) (tasks s) /\
      t_conn k = Some c /\
      ((exists id' : N, t_pc k = PStart (RBcast ch payload id')) \/
       (exists id' : N, t_pc k = PBcastGate ch payload id') \/
       (exists id' : N, t_pc k = PBcastWait ch o payload id')) /\
      In (t_me k) (members (objs (cg s) o)) /\
      (forall (u : user) (c' : conn),
       In u (members (objs (cg s) o)) ->
       allowed (racl (objs (cg s) o)) u = true ->
       In c' (reg (cg s) u) ->
       c' <> c -> In (OMsg c' ch (t_me k) payload) (snd (cstep cf s (ERun t ok hint)))).
Proof. exact conc_broadcast_complete. Qed.
