(* C09 — Modulator-delegated authentication is fail-closed.
   Pinned statements (types pasted verbatim from the proved lemmas by tools/pin.py); proofs in Proofs/Server*.v. *)
From NW Require Import Base.Bytes Model.SchemaTypes Gen.Schema Model.Codec Model.MsgInfo Model.Ids Model.Server.
From NW Require Import Proofs.ServerLib Proofs.ServerRoute Proofs.ServerHandlers Proofs.ServerSteps Proofs.ServerPhases.
From NW Require Import Proofs.ServerInvBase Proofs.ServerInv Proofs.ServerUniq Proofs.ServerInvCor.

Theorem C09_only_success :
  forall (cfg : scfg) (h : N) (m : msg) (p : option (list N)) (c : ctx) (cn : conn),
    auth_required cfg = true ->
    nlookup h (conns (st c)) = Some cn ->
    c_phase cn = Connected ->
    existsb (N.eqb h) (closing c) = false ->
    let c' := on_frame cfg h m p c in
    exists cn' : conn,
      nlookup h (conns (st c')) = Some cn' /\
      (c_phase cn' = Authenticated ->
       is_kind m "AUTH" = true /\
       (exists (u : str) (rest : list moutcome),
          script c = MAuthSuccess u :: rest /\
          u <> [] /\
          nid_validate u (domain cfg) = true /\ c_nid cn' = Some {| nu := u; nd := domain cfg |})) /\
      ((forall u : str, head_outcome (script c) <> MAuthSuccess u) ->
       cn' = cn /\ router (st c') = router (st c)) /\
      (c_phase cn' <> Authenticated -> cn' = cn /\ router (st c') = router (st c)) /\
      (is_kind m "IDENTIFY" = true ->
       c' =
       {|
         st := st c;
         script := script c;
         hints := hints c;
         outs := outs c ++ [OClose h (err_msg None "UNEXPECTED_MESSAGE")];
         closing := closing c ++ [h]
       |}).
Proof. exact C09_only_success_authenticates. Qed.

Theorem C09_preauth_moves :
  forall (cfg : scfg) (h : N) (m : msg) (p : option (list N)) (c : ctx) (cn : conn),
    nlookup h (conns (st c)) = Some cn ->
    c_phase cn = Connecting \/ c_phase cn = Connected ->
    existsb (N.eqb h) (closing c) = false -> preauth_summary cfg h m c (on_frame cfg h m p c) cn.
Proof. exact C06_preauth_inert. Qed.
