(* C09 — Modulator-delegated authentication is fail-closed.
   Pinned statements (types pasted verbatim from the proved lemmas by tools/pin.py); proofs in Proofs/Server*.v. *)
From NW Require Import Base.Bytes Model.SchemaTypes Gen.Schema Model.Codec Model.MsgInfo Model.Ids Model.Server.
From NW Require Import Proofs.ServerLib Proofs.ServerRoute Proofs.ServerHandlers Proofs.ServerSteps Proofs.ServerPhases.
From NW Require Import Proofs.ServerInvBase Proofs.ServerInv Proofs.ServerUniq Proofs.ServerInvCor.
From NW Require Import Gen.Errors Model.Pool Model.Framing Model.Link Proofs.LinkProofs.
From NW Require Import Model.LinkConc Proofs.LinkConcProofs.

Theorem C09_only_success :
  forall (cfg : scfg) (h : N) (m : msg) (p : option (list N)) (c : ctx) (cn : conn),
    auth_required cfg = true ->
    nlookup h (conns (st c)) = Some cn ->
    c_phase cn = Connected ->
    existsb (N.eqb h) (closing c) = false ->
    let c' := on_frame cfg h m p c in
    exists cn' : conn,
      nlookup h (conns (st c')) = Some cn' /\
      (c_phase cn' = Authenticated ->
       is_kind m "AUTH" = true /\
       (exists (u : str) (rest : list moutcome),
          script c = MAuthSuccess u :: rest /\
          u <> [] /\
          nid_validate u (domain cfg) = true /\ c_nid cn' = Some {| nu := u; nd := domain cfg |})) /\
      ((forall u : str, head_outcome (script c) <> MAuthSuccess u) ->
       cn' = cn /\ router (st c') = router (st c)) /\
      (c_phase cn' <> Authenticated -> cn' = cn /\ router (st c') = router (st c)) /\
      (is_kind m "IDENTIFY" = true ->
       c' =
       {|
         st := st c;
         script := script c;
         hints := hints c;
         outs := outs c ++ [OClose h (err_msg None "UNEXPECTED_MESSAGE")];
         closing := closing c ++ [h]
       |}).
Proof. exact C09_only_success_authenticates. Qed.

Theorem C09_preauth_moves :
  forall (cfg : scfg) (h : N) (m : msg) (p : option (list N)) (c : ctx) (cn : conn),
    nlookup h (conns (st c)) = Some cn ->
    c_phase cn = Connecting \/ c_phase cn = Connected ->
    existsb (N.eqb h) (closing c) = false -> preauth_summary cfg h m c (on_frame cfg h m p c) cn.
Proof. exact C06_preauth_inert. Qed.

Theorem C09_client_success_only :
  forall (d : bool) (r : creply) (u : str),
    c_auth d r = RAuthSuccess u ->
    d = true /\
    (exists (m : msg) (p : option (list N)),
       r = CrMsg m p /\
       is_kind m "S2M_AUTH_ACK" = true /\
       get_bool m "succeeded" = true /\ get_ostr m "username" = Some u).
Proof. exact c_auth_success_only. Qed.

Theorem C09_client_continue_only :
  forall (d : bool) (r : creply) (ch : str),
    c_auth d r = RAuthContinue ch ->
    d = true /\
    (exists (m : msg) (p : option (list N)),
       r = CrMsg m p /\
       is_kind m "S2M_AUTH_ACK" = true /\
       get_bool m "succeeded" = false /\ get_ostr m "challenge" = Some ch).
Proof. exact c_auth_continue_only. Qed.

Theorem C09_link_transparent :
  forall (cfg : lcfg) (hb id : N) (t : str) (o : moutcome),
    lop_auth cfg = true ->
    l_max_inflight cfg <> 0 ->
    auth_ack_fits cfg id o = true ->
    snd (via_link cfg hb id (McAuth t) o) =
    match o with
    | MAuthSuccess u => RAuthSuccess u
    | MAuthContinue c => RAuthContinue c
    | MAuthFail => RAuthFail
    | _ => RErr
    end /\ In (LMod (McAuth t)) (fst (via_link cfg hb id (McAuth t) o)).
Proof. exact via_link_auth_transparent. Qed.

Theorem C09_outcome_success_only :
  forall (r : cresult) (u : str), outcome_of r = MAuthSuccess u -> r = RAuthSuccess u.
Proof. exact outcome_of_success_only. Qed.

Theorem C09_concurrent_authentications_transparent :
  forall (cfg : lcfg) (hb : N) (evs : list lev) (id : N) (call : modcall) (o : moutcome),
    let s := lc_run cfg hb evs in
    In (id, call, o) (lc_answered s) ->
    lc_result cfg s id call = snd (via_link cfg hb id call o).
Proof. exact lc_concurrent_transparent. Qed.

Theorem C09_concurrent_fail_closed :
  forall (cfg : lcfg) (hb : N) (evs : list lev) (id : N),
    let s := lc_run cfg hb evs in
    (forall (f ch : str) (p : list N),
     In (id, McFbp f ch p) (lc_issued s) ->
     outcome_of (lc_result cfg s id (McFbp f ch p)) = MOk ->
     exists o : moutcome,
       In (id, McFbp f ch p, o) (lc_answered s) /\
       o <> MErr /\ o <> MInvalid /\ (forall a : list N, o <> MAltered a)) /\
    (forall (f ch : str) (p a : list N),
     In (id, McFbp f ch p) (lc_issued s) ->
     outcome_of (lc_result cfg s id (McFbp f ch p)) = MAltered a ->
     In (id, McFbp f ch p, MAltered a) (lc_answered s)) /\
    (forall t u : str,
     In (id, McAuth t) (lc_issued s) ->
     outcome_of (lc_result cfg s id (McAuth t)) = MAuthSuccess u ->
     In (id, McAuth t, MAuthSuccess u) (lc_answered s)).
Proof. exact lc_fail_closed. Qed.
