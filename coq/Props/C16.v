(* C16 — pinned statements; proofs live in Proofs/ClientProofs.v. *)
From NW Require Import Base.Bytes Model.ClientEngine.

Example C16_model_smoke :
  snd (crun (init_client 1 true) [Issue 1; Issue 2; PeerReply 2; PeerReply 1; PeerReply 1; PeerReply 2])
  = [[Written 1]; []; [Ignored 2]; [Completed 1; Written 2]; [Ignored 1]; [Completed 2]].
Proof. vm_compute. reflexivity. Qed.
