(* C16 — pinned statements; proofs live in Proofs/ClientProofs.v. *)
From NW Require Import Base.Bytes Model.ClientEngine.

Example C16_model_smoke :
  snd (crun (init_client 1 true) [Issue 1; Issue 2; PeerReply 2; PeerReply 1; PeerReply 1; PeerReply 2])
  = [[Written 1]; []; [Ignored 2]; [Completed 1; Written 2]; [Ignored 1]; [Completed 2]].
Proof. vm_compute. reflexivity. Qed.

(* ---- theorems (types pasted verbatim from Proofs/ClientProofs.v by tools/pin.py) ---- *)
From NW Require Import Proofs.ClientProofs.

Theorem C16_invariant_all_histories :
  forall (k : nat) (rel : bool) (h : list (list N * cev)),
    fresh_hist (init_client k rel) h -> CInv (fst (crun_pick (init_client k rel) h)).
Proof. exact cinv_run_init. Qed.

Theorem C16_own_reply :
  forall (pick : list N) (s : cstate) (e : cev) (id : N),
    In (Completed id) (snd (cstep_pick pick s e)) ->
    e = PeerReply id /\ broken s = false /\ sender_present id (pending s) = true.
Proof. exact C16_own_reply_only. Qed.

Theorem C16_no_cross :
  forall (pick : list N) (s : cstate) (i j : N),
    i <> j -> ~ In (Completed i) (snd (cstep_pick pick s (PeerReply j))).
Proof. exact C16_no_cross_attribution. Qed.

Theorem C16_duplicates_ignored :
  forall (pick pick' : list N) (s : cstate) (e : cev) (id : N),
    CInv s ->
    In (Completed id) (snd (cstep_pick pick s e)) ->
    let s' := fst (cstep_pick pick s e) in
    cstep_pick pick' s' (PeerReply id) = (s', [Ignored id]).
Proof. exact C16_duplicate_reply_ignored. Qed.

Theorem C16_late_ignored :
  forall (pick pick' : list N) (s : cstate) (e : cev) (id : N),
    CInv s ->
    In (TimedOut id) (snd (cstep_pick pick s e)) ->
    let s' := fst (cstep_pick pick s e) in
    cstep_pick pick' s' (PeerReply id) = (s', if broken s' then [] else [Ignored id]).
Proof. exact C16_late_reply_ignored. Qed.

Theorem C16_resolved_final :
  forall (pick : list N) (s : cstate) (e : cev) (id : N) (h : list (list N * cev)),
    CInv s ->
    In (Completed id) (snd (cstep_pick pick s e)) \/
    In (TimedOut id) (snd (cstep_pick pick s e)) ->
    (forall p : list N, ~ In (p, Issue id) h) ->
    forall o : list cout,
    In o (snd (crun_pick (fst (cstep_pick pick s e)) h)) -> ~ In (Completed id) o.
Proof. exact C16_resolved_is_final. Qed.

Theorem C16_window_bound :
  forall (k : nat) (rel : bool) (h1 h2 : list (list N * cev)),
    fresh_hist (init_client k rel) (h1 ++ h2) ->
    (Datatypes.length (pending (fst (crun_pick (init_client k rel) h1))) <= k)%nat.
Proof. exact C16_window_run. Qed.

Theorem C16_written_means_registered :
  forall (pick : list N) (s : cstate) (e : cev) (id : N),
    CInv s ->
    (forall j : N, e = Issue j -> fresh s j) ->
    In (Written id) (snd (cstep_pick pick s e)) ->
    let s' := fst (cstep_pick pick s e) in
    (e = Issue id \/ In id (waiting s)) /\
    ~ In id (map e_id (pending s)) /\
    sender_present id (pending s') = true /\
    broken s' = false /\ (Datatypes.length (pending s') <= max_inflight s')%nat.
Proof. exact C16_written_registers. Qed.

Theorem C16_no_hang :
  forall (pick : list N) (s : cstate) (id : N),
    CInv s ->
    In id (map e_id (pending s) ++ waiting s) ->
    let s' := fst (cstep_pick pick s (Timeout id)) in
    In (TimedOut id) (snd (cstep_pick pick s (Timeout id))) /\
    ~ In id (waiting s') /\
    (releases_on_timeout s = true -> ~ In id (map e_id (pending s'))) /\
    sender_present id (pending s') = false.
Proof. exact C16_timeout_resolves. Qed.

Theorem C16_capacity :
  forall (k : nat) (h : list (list N * cev)) (b : list (list N * N)),
    let s0 := init_client k true in
    fresh_hist s0 h ->
    all_resolved h (snd (crun_pick s0 h)) ->
    (Datatypes.length b <= k)%nat ->
    let s := fst (crun_pick s0 h) in
    pending s = [] /\
    waiting s = [] /\
    permits s = k /\
    snd (crun_pick s (issue_batch b)) = map (fun pi : list N * N => [Written (snd pi)]) b.
Proof. exact C16_capacity_restored_run. Qed.

Theorem C16_leak_refuted :
  forall p1 p2 p3 p4 : list N,
    snd
      (crun_pick (init_client 1 false)
         [(p1, Issue 1); (p2, Timeout 1); (p3, Issue 2); (p4, PeerReply 2)]) =
    [[Written 1]; [TimedOut 1]; []; [Ignored 2]].
Proof. exact C16_timeout_leak_refuted. Qed.

Theorem C16_ids_distinct :
  forall (i j : nat) (c : N),
    c < 4294967296 ->
    (1 <= i)%nat ->
    (i < j)%nat -> N.of_nat (j - i) < 4294967295 -> Nat.iter i next_id c <> Nat.iter j next_id c.
Proof. exact next_id_injective_window. Qed.

Theorem C16_ids_nonzero :
  forall c : N, c < 4294967296 -> next_id c <> 0 /\ next_id c < 4294967296.
Proof. exact next_id_nonzero. Qed.

Theorem C16_ping :
  forall (pick : list N) (s : cstate) (id : N),
    broken s = false -> cstep_pick pick s (PeerPing id) = (s, [Pong id]).
Proof. exact C16_ping_pong. Qed.

(* ---- reconnection back-off with the peer away (Model/Backoff.v; types pasted from Proofs/BackoffProofs.v by
        tools/pin.py): a request that finds the link down costs at most attempts x 2 x max(initial, max_delay) of
        waiting, whatever the random jitter; with the stored delay left uncapped the wait is unbounded ---- *)
From NW Require Import Model.Backoff Proofs.BackoffProofs.
Local Open Scope N_scope.

Theorem C16_reconnect_wait_bounded :
  forall (c : bcfg) (draws : list N),
    b_capped c = true ->
    draws_ok c (b_initial c) draws ->
    total_sleep c (b_initial c) draws <= N.of_nat (length draws) * sleep_bound c.
Proof. exact capped_request_fails_in_time. Qed.

Theorem C16_reconnect_wait_bounded_from_any_delay :
  forall (c : bcfg) (draws : list N) (d : N),
    b_capped c = true ->
    d <= N.max (b_initial c) (b_max c) ->
    draws_ok c d draws ->
    total_sleep c d draws <= N.of_nat (length draws) * sleep_bound c.
Proof. exact capped_total_bounded. Qed.

Theorem C16_uncapped_jitter_unbounded_refuted :
  let draws := greedy un_cfg (b_initial un_cfg) 30 in
  draws_ok un_cfg (b_initial un_cfg) draws /\
  100 * (N.of_nat (length draws) * sleep_bound un_cfg) < total_sleep un_cfg (b_initial un_cfg) draws.
Proof. exact uncapped_sleep_unbounded_refuted. Qed.
