(* C10 — Inbound framing: a byte stream means the same however it is segmented.
   Pinned statements only; proofs live in Proofs/. *)
From NW Require Import Base.Bytes Model.SchemaTypes Gen.Schema Model.Codec Model.MsgInfo Model.Pool Model.Framing Conf.FramingConf.
From NW Require Import Proofs.FramingSeg Proofs.FramingOpaque Proofs.PoolGeo Proofs.FramingCorollaries.

(* For every way of splitting the peer's byte stream into (non-empty) network segments, the
   buffered reader + connection read path acts on exactly the frames the one-pass parser finds
   in the unsegmented stream — same dispatched headers and payloads, same terminal error. *)
Theorem C10_segmentation_independent : forall sch md c segs,
  Forall (fun s => s <> []) segs ->
  run_reader sch md c segs = parse_stream sch md c (concat segs).
Proof. exact run_reader_segmentation_independent_gen. Qed.

Theorem C10_segmentations_agree : forall sch md c segs1 segs2,
  (0 < max_msg c)%nat ->
  Forall (fun s => s <> []) segs1 -> Forall (fun s => s <> []) segs2 ->
  concat segs1 = concat segs2 ->
  run_reader sch md c segs1 = run_reader sch md c segs2.
Proof. exact segmentations_agree. Qed.

(* Payload bytes are opaque: whatever `rest` contains (newlines, header look-alikes, any byte),
   it is dispatched verbatim and parsing resumes right after its terminating newline. *)
Theorem C10_payload_opaque : forall sch md c segs segs' l m id len rest,
  Forall (fun s => s <> []) segs -> Forall (fun s => s <> []) segs' ->
  ~ In NL l -> (length l < max_msg c)%nat ->
  deserialize sch md l = Ok m ->
  payload_info sch m = Some (id, len) ->
  (len <=? max_payload c)%N = true ->
  bucket_for (geo c) len <> None ->
  length rest = N.to_nat len ->
  concat segs = l ++ [NL] ++ rest ++ [NL] ++ concat segs' ->
  run_reader sch md c segs = Dispatch m (Some rest) :: run_reader sch md c segs'.
Proof.
  intros sch md c segs segs' l m id len rest H1 H2 H3 H4 H5 H6 H7 H8 H9 H10.
  eapply payload_opaque_reader; eassumption.
Qed.

(* Every legal payload length finds a pool buffer when the budget covers twice the limit. *)
Theorem C10_all_lengths_accepted : forall max budget cap len,
  256 <= max -> 1 <= cap -> 2 * max <= budget -> len <= max ->
  bucket_for (geometry 256 max budget cap 2 1 2) len <> None.
Proof. exact all_lengths_accepted_gen. Qed.

(* default configuration (64 KiB payloads, 256 MiB budget, 10 000 connections): the largest legal
   payload finds a bucket — the hypotheses of C10_all_lengths_accepted are satisfiable *)
Example C10_geometry_example_default :
  bucket_for (conn_geo 65536 268435456 (10000 + 10000 * 128)) 65536 = Some 65536.
Proof. vm_compute. reflexivity. Qed.

(* Fixed (was K10a): a max_payload_size that is not 256*2^k now gets its own top bucket *)
Example C10_non_bucket_limit_has_top_bucket :
  bucket_for (conn_geo 1000 1048576 (2 + 2 * 128)) 600 = Some 1000.
Proof. vm_compute. reflexivity. Qed.

(* Known finding K10b: a budget below twice the largest bucket gives that bucket no buffer *)
Theorem C10_small_budget_refuted :
  exists budget conns len, 1 <= len /\ len <= 1024 /\
    bucket_for (conn_geo 1024 budget (conns + conns * 128)) len = None.
Proof. exists 1500, 2, 1024. vm_compute. repeat split; congruence. Qed.

Print Assumptions C10_segmentation_independent.
Print Assumptions C10_payload_opaque.
Print Assumptions C10_all_lengths_accepted.
