(* C10 — Inbound framing: a byte stream means the same however it is segmented.
   Pinned statements only; proofs live in Proofs/. *)
From NW Require Import Base.Bytes Model.SchemaTypes Gen.Schema Model.Codec Model.Pool Model.Framing Conf.FramingConf.

(* default configuration (64 KiB payloads, 256 MiB budget, 10 000 connections): the largest legal
   payload finds a bucket — the hypotheses of C10_all_lengths_accepted are satisfiable *)
Example C10_geometry_example_default :
  bucket_for (conn_geo 65536 268435456 (10000 + 10000 * 128)) 65536 = Some 65536.
Proof. vm_compute. reflexivity. Qed.

(* Fixed (was K10a): a max_payload_size that is not 256*2^k now gets its own top bucket *)
Example C10_non_bucket_limit_has_top_bucket :
  bucket_for (conn_geo 1000 1048576 (2 + 2 * 128)) 600 = Some 1000.
Proof. vm_compute. reflexivity. Qed.

(* Known finding K10b: a budget below twice the largest bucket gives that bucket no buffer *)
Theorem C10_small_budget_refuted :
  exists budget conns len, 1 <= len /\ len <= 1024 /\
    bucket_for (conn_geo 1024 budget (conns + conns * 128)) len = None.
Proof. exists 1500, 2, 1024. vm_compute. repeat split; congruence. Qed.
