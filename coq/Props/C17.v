(* C17 — Direct messages reach exactly their targets; client ones reach the modulator.
   Pinned statements (types pasted verbatim from the proved lemmas by tools/pin.py); proofs in Proofs/Server*.v. *)
From NW Require Import Base.Bytes Model.SchemaTypes Gen.Schema Model.Codec Model.MsgInfo Model.Ids Model.Server.
From NW Require Import Proofs.ServerLib Proofs.ServerRoute Proofs.ServerHandlers Proofs.ServerSteps Proofs.ServerPhases.
From NW Require Import Proofs.ServerInvBase Proofs.ServerInv Proofs.ServerUniq Proofs.ServerInvCor.
From NW Require Import Proofs.ServerDelivery Proofs.ServerEvents Proofs.ServerIdentity.
From NW Require Import Gen.Errors Model.Pool Model.Framing Model.Link Proofs.LinkProofs.

Theorem C17_direct_outputs_exact :
  forall (cfg : scfg) (s : state) (targets : list str) (payload : list N),
    step cfg s (Direct targets payload) =
    (s,
     map (fun h : N => OSend h (direct_msg cfg payload) (Some payload))
       (direct_handles s targets)) /\
    (forall h : N,
     In h (direct_handles s targets) <->
     (exists (t : str) (hs : list N), In t targets /\ alookup t (router s) = Some hs /\ In h hs)) /\
    get_str (direct_msg cfg payload) "from" = domain cfg /\
    get_num (direct_msg cfg payload) "length" = N.of_nat (Datatypes.length payload) /\
    is_kind (direct_msg cfg payload) "MOD_DIRECT" = true.
Proof. exact C17_direct_exact. Qed.

Theorem C17_direct_once_per_connection :
  forall (cfg : scfg) (s : state) (targets : list str) (payload : list N) 
      (s' : state) (os : list out),
    Inv cfg s ->
    step cfg s (Direct targets payload) = (s', os) ->
    s' = s /\
    (forall h : N,
     (exists (t : str) (hs : list N), In t targets /\ alookup t (router s) = Some hs /\ In h hs) ->
     deliveries h os = [(direct_msg cfg payload, payload)]) /\
    (forall h : N,
     ~
     (exists (t : str) (hs : list N), In t targets /\ alookup t (router s) = Some hs /\ In h hs) ->
     deliveries h os = [] /\ (forall (m : msg) (p : option (list N)), ~ In (OSend h m p) os)) /\
    (forall o : out,
     In o os -> exists h : N, o = OSend h (direct_msg cfg payload) (Some payload)).
Proof. exact C17_direct_once. Qed.

Theorem C17_direct_only_listed_users :
  forall (cfg : scfg) (s : state) (targets : list str) (payload : list N) 
      (s' : state) (os : list out) (h : N) (cn : conn) (u : str),
    Inv cfg s ->
    step cfg s (Direct targets payload) = (s', os) ->
    nlookup h (conns s) = Some cn ->
    c_phase cn = Authenticated ->
    c_nid cn = Some {| nu := u; nd := domain cfg |} ->
    (In u targets -> deliveries h os = [(direct_msg cfg payload, payload)]) /\
    (~ In u targets ->
     deliveries h os = [] /\ (forall (m : msg) (p : option (list N)), ~ In (OSend h m p) os)).
Proof. exact C17_direct_by_user. Qed.

Theorem C17_client_direct_forwarded :
  forall (cfg : scfg) (h : N) (me : nid) (m : msg) (payload : list N) (c : ctx),
    let r := h_mod_direct cfg h me m payload c in
    (has_mod cfg = false \/ op_spp cfg = false -> r = (c, Some (PErr None "UNEXPECTED_MESSAGE"))) /\
    (has_mod cfg = true ->
     op_spp cfg = true ->
     (get_onum m "id" = None -> r = (c, Some (PErr None "BAD_REQUEST"))) /\
     (forall id : N,
      get_onum m "id" = Some id ->
      let o := head_outcome (script c) in
      st (fst r) = st c /\
      closing (fst r) = closing c /\
      hints (fst r) = hints c /\
      outs (fst r) =
      outs c ++
      OMod (McSpp (nu me) payload)
      :: match o with
         | MErr | MInvalid => []
         | _ => [md_ack h id]
         end /\
      snd r =
      match o with
      | MErr => Some PInternal
      | MInvalid => Some (PErr (Some id) "BAD_REQUEST")
      | _ => None
      end)).
Proof. exact C17_client_direct. Qed.

Theorem C17_client_direct_ack_iff_valid :
  forall (cfg : scfg) (h : N) (me : nid) (m : msg) (payload : list N) 
      (c : ctx) (id : N) (d : list out),
    has_mod cfg = true ->
    op_spp cfg = true ->
    get_onum m "id" = Some id ->
    outs (fst (h_mod_direct cfg h me m payload c)) = outs c ++ d ->
    In (OMod (McSpp (nu me) payload)) d /\
    (forall mc : modcall, In (OMod mc) d -> mc = McSpp (nu me) payload) /\
    (In (md_ack h id) d <->
     head_outcome (script c) <> MErr /\ head_outcome (script c) <> MInvalid) /\
    ((exists (a : msg) (pa : option (list N)),
        In (OSend h a pa) d /\ is_kind a "MOD_DIRECT_ACK" = true) <->
     head_outcome (script c) <> MErr /\ head_outcome (script c) <> MInvalid) /\
    (snd (h_mod_direct cfg h me m payload c) = None <->
     head_outcome (script c) <> MErr /\ head_outcome (script c) <> MInvalid).
Proof. exact C17_client_direct_ack. Qed.

Theorem C17_m2s_direct_exact :
  forall (cfg : lcfg) (hb : N) (m : msg) (b : list N) (c : lctx),
    lph c = LAuth hb ->
    lclosed c = false ->
    l_max_inflight cfg <> 0 ->
    is_kind m "M2S_MOD_DIRECT" = true ->
    exists tail : list lout,
      louts (m2s_frame cfg m (Some b) c) = louts c ++ LRoute (get_vec m "targets") b :: tail /\
      quiet tail.
Proof. exact m2s_direct_exact. Qed.

(* The router reaches every live connection of a listed user only if its lookups WAIT for a busy map shard: a
   non-blocking lookup (the try_ family) reports a shard that is merely being written as unavailable, and a pushed
   direct message would be acknowledged and silently dropped.  Read off the CURRENT source by translator/locklint.py
   (coq/Gen/LockLint.v is regenerated on every run): no such lookup, no guard alive across an await. *)
From NW Require Import Gen.LockLint.
Theorem C17_source_no_lossy_map_lookup : NW.Gen.LockLint.guard_across_await = [].
Proof. reflexivity. Qed.

(* ---------- interleaved semantics (Model/Conc.v): every schedule of suspended requests, disconnects, time-outs ---------- *)
From Coq Require Import List NArith String.
From NW Require Import Model.Conc Proofs.ConcDefs Proofs.ConcEv Proofs.ConcInv Proofs.ConcSmall Proofs.ConcMore Proofs.ConcProgress Proofs.ConcSource Gen.ConcFlags.
Import ListNotations.
Local Open Scope N_scope.

Theorem C17_conc_direct_exact :
  forall (cf : ccfg) (es : list ev) (targets : list user) (payload : N),
    let s := cstate_after cf es in
    let r := cstep cf s (EDirect targets payload) in
    fst r = s /\
    (forall o : cout, In o (snd r) -> exists c : conn, o = ODirect c payload) /\
    (forall c : conn,
     In (ODirect c payload) (snd r) <-> (exists u : user, In u targets /\ In c (reg (cg s) u))) /\
    (forall (c : conn) (u : user),
     In u targets -> In c (reg (cg s) u) -> cuser (cg s) c = Some u) /\ 
    NoDup (snd r).
Proof. exact conc_direct_exact. Qed.
