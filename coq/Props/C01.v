(* C01 — Broadcast confinement: only current read-permitted members receive a payload.
   Pinned statements (types pasted verbatim from the proved lemmas by tools/pin.py); proofs in Proofs/Server*.v. *)
From NW Require Import Base.Bytes Model.SchemaTypes Gen.Schema Model.Codec Model.MsgInfo Model.Ids Model.Server.
From NW Require Import Proofs.ServerLib Proofs.ServerRoute Proofs.ServerHandlers Proofs.ServerSteps Proofs.ServerPhases.
From NW Require Import Proofs.ServerInvBase Proofs.ServerInv Proofs.ServerUniq Proofs.ServerInvCor.
From NW Require Import Proofs.ServerDelivery Proofs.ServerEvents Proofs.ServerIdentity.

Theorem C01_confinement_every_op :
  forall (cfg : scfg) (s : state) (o : op) (s' : state) (os : list out),
    Inv cfg s ->
    op_ok cfg s o ->
    step cfg s o = (s', os) ->
    forall (h : N) (m : msg) (q : list N),
    In (OSend h m (Some q)) os -> is_kind m "MESSAGE" = true -> delivery_justified cfg s o h m q.
Proof. exact C01_confinement. Qed.

Theorem C01_confinement_frame :
  forall (cfg : scfg) (h0 : N) (req : msg) (p : option (list N)) (c : ctx),
    Inv cfg (st c) ->
    exists d : list out,
      outs (on_frame cfg h0 req p c) = outs c ++ d /\
      (forall (h : N) (m : msg) (q : list N),
       In (OSend h m (Some q)) d -> justified cfg (st c) h0 req (payload_of p) (script c) h m q).
Proof. exact C01_on_frame. Qed.

Theorem C01_only_messages_and_directs_carry_payloads :
  forall (cfg : scfg) (s : state) (o : op) (s' : state) (os : list out),
    Inv cfg s ->
    step cfg s o = (s', os) ->
    forall (h : N) (m : msg) (q : list N),
    In (OSend h m (Some q)) os ->
    is_kind m "MESSAGE" = true /\ delivery_justified cfg s o h m q \/
    is_kind m "MOD_DIRECT" = true /\ (exists ts : list str, o = Direct ts q).
Proof. exact C01_only_messages_carry_payload. Qed.

Theorem C01_no_cross_channel_leak :
  forall (cfg : scfg) (s : state) (h0 : N) (req : msg) (p : option (list N))
      (sc : list moutcome) (hi : list (str * nid)) (s' : state) (os : list out),
    Inv cfg s ->
    step cfg s (Frame h0 req p sc hi) = (s', os) ->
    forall (h : N) (m : msg) (q : list N),
    In (OSend h m (Some q)) os ->
    is_kind req "BROADCAST" = true /\
    get_str m "channel" = get_str req "channel" /\
    q = eff_payload cfg (payload_of p) sc /\
    get_num m "length" = N.of_nat (Datatypes.length q) /\ h <> h0.
Proof. exact C01_no_cross_channel. Qed.

Theorem C01_targets_cache_is_filtered_members :
  forall (cfg : scfg) (s : state), Inv cfg s -> InvSpec cfg s.
Proof. exact Inv_spec. Qed.

Theorem C01_disconnected_user_is_no_member :
  forall (cfg : scfg) (s : state) (h : N) (cn : conn) (n : nid) (sc : list moutcome)
      (hi : list (str * nid)),
    Inv cfg s ->
    nlookup h (conns s) = Some cn ->
    c_nid cn = Some n ->
    alookup (nu n) (router s) = Some [h] ->
    let s' := fst (step cfg s (Hangup h sc hi)) in
    alookup (nu n) (inch s') = None /\
    alookup (nu n) (router s') = None /\
    (forall (hd : str) (ch : chan),
     alookup hd (chans s') = Some ch -> nmem n (ch_members ch) = false).
Proof. exact hangup_last_connection_cleans_up. Qed.

(* ---- outbound frames that do not fit the message buffer (Model/ServerX.v; types pasted from Proofs/ServerXProofs.v) ---- *)
From NW Require Import Model.ServerX Proofs.ServerXProofs.

Theorem C01_oversize_settling_invents_no_frame :
  forall (cfg : scfg) (vs : list N) (os : list out) (o : out),
    In o (deliver cfg vs os) ->
    In o os /\ match o with
               | OSend _ _ _ => False
               | _ => True
               end \/
    (exists (h : N) (m : SchemaTypes.msg) (p : option (list N)),
       In (OSend h m p) os /\ existsb (N.eqb h) vs = false /\ o = shrink_reply cfg (OSend h m p)).
Proof. exact deliver_sound. Qed.

Theorem C01_oversize_settling_invents_no_payload :
  forall (cfg : scfg) (vs : list N) (os : list out) (h : N) (m : SchemaTypes.msg) (q : list N),
    In (OSend h m (Some q)) (deliver cfg vs os) ->
    exists m0 : SchemaTypes.msg, In (OSend h m0 (Some q)) os.
Proof. exact deliver_payloads. Qed.

(* ---------- interleaved semantics (Model/Conc.v): every schedule of suspended requests, disconnects, time-outs ---------- *)
From Coq Require Import List NArith.
From NW Require Import Model.Conc Proofs.ConcDefs Proofs.ConcEv Proofs.ConcInv Proofs.ConcSmall Proofs.ConcMore Proofs.ConcProgress Proofs.ConcSource Gen.ConcFlags.
Import ListNotations.
Local Open Scope N_scope.

Theorem C01_conc_message_confinement :
  forall (cf : ccfg) (es : list ev) (e : ev) (c : conn) (ch : chan) 
      (from : user) (payload : N),
    let s := cstate_after cf es in
    In (OMsg c ch from payload) (snd (cstep cf s e)) ->
    exists (u : user) (o : oid),
      cuser (cg s) c = Some u /\
      In u (members (objs (cg s) o)) /\
      In from (members (objs (cg s) o)) /\
      allowed (racl (objs (cg s) o)) u = true /\
      allowed (pacl (objs (cg s) o)) from = true /\
      (exists (t : tid) (k : task) (ok : bool) (hint : user),
         e = ERun t ok hint /\
         In (t, k) (tasks s) /\
         t_me k = from /\
         t_conn k <> Some c /\
         ((exists id : N, t_pc k = PStart (RBcast ch payload id)) \/
          (exists id : N, t_pc k = PBcastGate ch payload id) \/
          (exists id : N, t_pc k = PBcastWait ch o payload id))).
Proof. exact conc_message_confinement. Qed.

Theorem C01_conc_targets_cache :
  forall (cf : ccfg) (es : list ev) (o : oid),
    let g := cg (cstate_after cf es) in
    targets (objs g o) = filter (allowed (racl (objs g o))) (members (objs g o)).
Proof. exact conc_targets_cache. Qed.

Theorem C01_source_segment_layout :
  forallb snd conc_source_shape = true.
Proof. exact source_segment_layout. Qed.

Theorem C01_conc_namesake_inherits_during_cleanup_refuted :
  let r := crun cf_k cinit namesake_schedule in
    In (OMsg 3 7 10 5) (snd r) /\
    forallb (fun e : ev => match e with
                           | EReq 3 _ => false
                           | _ => true
                           end) namesake_schedule = true /\
    (exists o : oid, cmap (cg (fst r)) 7 = Some o /\ covered (fst r) 20 7 o).
Proof. exact conc_namesake_inherits_during_cleanup_refuted. Qed.

From NW Require Import Proofs.ConcLeak.

Theorem C01_conc_no_cross_channel_leak :
  forall (cf : ccfg) (es : list ev) (e : ev) (c : conn) (ch : chan) 
      (from : user) (payload : N),
    fixed cf ->
    let s := cstate_after cf es in
    In (OMsg c ch from payload) (snd (cstep cf s e)) ->
    exists (u : user) (o : oid),
      cuser (cg s) c = Some u /\
      cmap (cg s) ch = Some o /\
      In u (members (objs (cg s) o)) /\
      In from (members (objs (cg s) o)) /\
      allowed (racl (objs (cg s) o)) u = true /\
      allowed (pacl (objs (cg s) o)) from = true /\ (is_listed (cg s) u ch \/ covered s u ch o).
Proof. exact conc_no_cross_channel_leak. Qed.
