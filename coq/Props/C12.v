(* C12 — Every accepted request gets exactly one reply, carrying its own id.
   Pinned statements (types pasted verbatim from the proved lemmas by tools/pin.py); proofs in Proofs/Server*.v. *)
From NW Require Import Base.Bytes Model.SchemaTypes Gen.Schema Model.Codec Model.MsgInfo Model.Ids Model.Server.
From NW Require Import Proofs.ServerLib Proofs.ServerRoute Proofs.ServerHandlers Proofs.ServerSteps Proofs.ServerPhases.
From NW Require Import Proofs.ServerInvBase Proofs.ServerInv Proofs.ServerUniq Proofs.ServerInvCor.

Theorem C12_exactly_one_reply :
  forall (cfg : scfg) (h : N) (m : msg) (p : option (list N)) (c : ctx) 
      (cn : conn) (me : nid) (i : N),
    nlookup h (conns (st c)) = Some cn ->
    c_phase cn = Authenticated ->
    c_nid cn = Some me ->
    existsb (N.eqb h) (closing c) = false ->
    max_inflight cfg <> 0 ->
    is_request m = true ->
    (if is_kind m "MOD_DIRECT" then get_onum m "id" = Some i else get_num m "id" = i) ->
    let c' := on_frame cfg h m p c in
    let d := new_outs c c' in
    outs c' = outs c ++ d /\
    (replies_to h i d <= 1)%nat /\
    (replies_to h i d = 1%nat \/ closes h d = true) /\
    (replies_to h i d = 1%nat /\ closes h d = false \/
     replies_to h i d = 0%nat /\ closes h d = true \/
     replies_to h i d = 1%nat /\ closes h d = true /\ is_kind m "LEAVE" = true) /\
    (forall (h' : N) (m' : msg) (p' : option (list N)) (j : N),
     In (OSend h' m' p') d -> correlation_id schema m' = Some j -> h' = h /\ j = i).
Proof. exact C12_one_reply. Qed.

Theorem C12_any_frame :
  forall (cfg : scfg) (h : N) (m : msg) (p : option (list N)) (c : ctx) (cn : conn) (me : nid),
    nlookup h (conns (st c)) = Some cn ->
    c_phase cn = Authenticated ->
    c_nid cn = Some me ->
    existsb (N.eqb h) (closing c) = false ->
    max_inflight cfg <> 0 ->
    is_kind m "PONG" = false ->
    let i := get_num m "id" in
    let c' := on_frame cfg h m p c in
    let d := new_outs c c' in
    outs c' = outs c ++ d /\
    (replies_to h i d = 1%nat /\ closes h d = false \/
     replies_to h i d = 0%nat /\ closes h d = true \/
     replies_to h i d = 1%nat /\ closes h d = true /\ is_kind m "LEAVE" = true) /\
    (forall (h' : N) (m' : msg) (p' : option (list N)) (j : N),
     In (OSend h' m' p') d -> correlation_id schema m' = Some j -> h' = h /\ j = i).
Proof. exact C12_one_reply_gen. Qed.

Theorem C12_inflight_zero_drops :
  forall (cfg : scfg) (h : N) (m : msg) (p : option (list N)) (c : ctx) (cn : conn),
    nlookup h (conns (st c)) = Some cn ->
    c_phase cn = Authenticated ->
    existsb (N.eqb h) (closing c) = false ->
    max_inflight cfg = 0 ->
    is_kind m "PONG" = false ->
    st (on_frame cfg h m p c) = st c /\ new_outs c (on_frame cfg h m p c) = [ODrop h].
Proof. exact C12_no_capacity. Qed.

Theorem C12_reply_then_close_witness :
  let d := new_outs Witness.wctx (on_frame Witness.wcfg 1 Witness.wleave None Witness.wctx) in
    is_request Witness.wleave = true /\
    get_num Witness.wleave "id" = 7 /\
    replies_to 1 7 d = 1%nat /\
    closes 1 d = true /\
    nth_error d 3 = Some (OSend 1 (build "LEAVE_ACK" [(bs "id", VNum 7)]) None) /\
    nth_error d 4 = Some (OClose 1 (err_msg None "INTERNAL_SERVER_ERROR")).
Proof. exact Witness.C12_reply_then_close. Qed.

(* ---- outbound frames that do not fit the message buffer (Model/ServerX.v; types pasted from Proofs/ServerXProofs.v) ---- *)
From NW Require Import Model.ServerX Proofs.ServerXProofs.

Theorem C12_oversize_reply_replaced_under_its_own_id :
  forall (cfg : scfg) (h : N) (m : SchemaTypes.msg) (p : option (list N)),
    match shrink_reply cfg (OSend h m p) with
    | OSend h' m' p' =>
        h' = h /\
        p' = p /\
        (m' = m \/
         oversize cfg m = true /\
         (exists id : N,
            MsgInfo.correlation_id Schema.schema m = Some id /\
            m' = err_msg (Some id) "RESPONSE_TOO_LARGE"))
    | _ => False
    end.
Proof. exact shrink_reply_same_id. Qed.

(* ---------- interleaved semantics (Model/Conc.v): every schedule of suspended requests, disconnects, time-outs ---------- *)
From Coq Require Import List NArith.
From NW Require Import Model.Conc Proofs.ConcDefs Proofs.ConcEv Proofs.ConcInv Proofs.ConcSmall Proofs.ConcMore Proofs.ConcProgress Proofs.ConcSource Gen.ConcFlags.
Import ListNotations.
Local Open Scope N_scope.

Theorem C12_conc_reply_discipline :
  forall (cf : ccfg) (t : tid) (c : conn) (me : user) (g : gst) (p : pc) 
      (ok : bool) (hint : user) (g' : gst) (p' : pc) (os : list cout),
    p <> PDone ->
    seg cf t (Some c) me g p ok hint = (g', p', os) ->
    (p' <> PDone -> answers c (pc_id p) os = []) /\
    (p' = PDone ->
     (exists o : cout, answers c (pc_id p) os = [o]) \/
     answers c (pc_id p) os = [OAck c (pc_id p) A_LEAVE; OClose c E_INTERNAL]).
Proof. exact conc_reply_discipline. Qed.

Theorem C12_conc_always_drains :
  forall (cf : ccfg) (es : list ev),
    fixed cf ->
    exists es' : list ev, runs_only es' /\ quiescent (fst (crun cf (cstate_after cf es) es')).
Proof. exact conc_always_drains. Qed.


Theorem C12_source_refusal_order :
  conc_source_refusals = model_refusals.
Proof. exact source_refusal_order. Qed.
