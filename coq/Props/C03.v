(* C03 — Channel ACL decisions always agree with the ACL the owner reads back.
   Pinned statements; proofs in Proofs/AclProofs.v (ACL algebra) and Proofs/ServerSteps.v (enforcement points). *)
From NW Require Import Base.Bytes Model.Ids Model.Server Proofs.AclProofs.

(* every ACL reachable from the empty one by any sequence of add/remove batches is well-formed *)
Theorem C03_reachable_wf : forall batches, acl_wf (acl_run [] batches).
Proof. exact acl_reachable_wf. Qed.

(* the decision is exactly: reported list empty, or lists the NID, or lists its bare domain *)
Theorem C03_decision_is_reported_list : forall a n, acl_wf a -> nu n <> [] ->
  (acl_allowed a n = true <->
   (acl_allow_list a = [] \/ In n (acl_allow_list a) \/ In {| nu := []; nd := nd n |} (acl_allow_list a))).
Proof. exact acl_decision_is_reported_list. Qed.

(* an acknowledged add lists every named user NID; an acknowledged remove lists none of them *)
Theorem C03_add_present : forall a ns n, acl_wf a -> In n ns -> nu n <> [] ->
  In n (acl_allow_list (acl_update a ns true)).
Proof. exact acl_add_present. Qed.
Theorem C03_remove_absent : forall a ns n, acl_wf a -> In n ns -> nu n <> [] ->
  ~ In n (acl_allow_list (acl_update a ns false)).
Proof. exact acl_remove_absent. Qed.

(* the entry limit counts exactly the reported entries (after the bare-domain counting fix) *)
Theorem C03_total_counts_reported : forall a, acl_total a = N.of_nat (length (acl_allow_list a)).
Proof. exact acl_total_counts_reported_gen. Qed.

(* the three lists are independent: setting one type leaves the other two untouched *)
Theorem C03_lists_independent : forall ch ty a,
  (list_eqb ty (bs "join") = false -> ch_join (set_acl ch ty a) = ch_join ch) /\
  (list_eqb ty (bs "publish") = false -> ch_pub (set_acl ch ty a) = ch_pub ch) /\
  (list_eqb ty (bs "read") = false -> ch_read (set_acl ch ty a) = ch_read ch).
Proof.
  intros ch ty a. unfold set_acl, retarget. cbn [ch_join ch_pub ch_read].
  repeat split; intro H; rewrite H; reflexivity.
Qed.

(* delivery uses the same decision: the cached reader list is the member list filtered by the read ACL *)
Theorem C03_delivery_uses_read_acl : forall ch ty a,
  ch_targets (set_acl ch ty a) = filter (acl_allowed (ch_read (set_acl ch ty a))) (ch_members (set_acl ch ty a)).
Proof. intros. reflexivity. Qed.

Print Assumptions C03_decision_is_reported_list.
Print Assumptions C03_add_present.
