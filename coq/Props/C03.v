(* C03 — Channel ACL decisions always agree with the ACL the owner reads back.
   Pinned statements; proofs in Proofs/AclProofs.v (ACL algebra) and Proofs/ServerSteps.v (enforcement points). *)
From NW Require Import Base.Bytes Model.Ids Model.Server Proofs.AclProofs.

(* every ACL reachable from the empty one by any sequence of add/remove batches is well-formed *)
Theorem C03_reachable_wf : forall batches, acl_wf (acl_run [] batches).
Proof. exact acl_reachable_wf. Qed.

(* the decision is exactly: reported list empty, or lists the NID, or lists its bare domain *)
Theorem C03_decision_is_reported_list : forall a n, acl_wf a -> nu n <> [] ->
  (acl_allowed a n = true <->
   (acl_allow_list a = [] \/ In n (acl_allow_list a) \/ In {| nu := []; nd := nd n |} (acl_allow_list a))).
Proof. exact acl_decision_is_reported_list. Qed.

(* an acknowledged add lists every named user NID; an acknowledged remove lists none of them *)
Theorem C03_add_present : forall a ns n, acl_wf a -> In n ns -> nu n <> [] ->
  In n (acl_allow_list (acl_update a ns true)).
Proof. exact acl_add_present. Qed.
Theorem C03_remove_absent : forall a ns n, acl_wf a -> In n ns -> nu n <> [] ->
  ~ In n (acl_allow_list (acl_update a ns false)).
Proof. exact acl_remove_absent. Qed.

(* the entry limit counts exactly the reported entries (after the bare-domain counting fix) *)
Theorem C03_total_counts_reported : forall a, acl_total a = N.of_nat (length (acl_allow_list a)).
Proof. exact acl_total_counts_reported_gen. Qed.

(* the three lists are independent: setting one type leaves the other two untouched *)
Theorem C03_lists_independent : forall ch ty a,
  (list_eqb ty (bs "join") = false -> ch_join (set_acl ch ty a) = ch_join ch) /\
  (list_eqb ty (bs "publish") = false -> ch_pub (set_acl ch ty a) = ch_pub ch) /\
  (list_eqb ty (bs "read") = false -> ch_read (set_acl ch ty a) = ch_read ch).
Proof.
  intros ch ty a. unfold set_acl, retarget. cbn [ch_join ch_pub ch_read].
  repeat split; intro H; rewrite H; reflexivity.
Qed.

(* delivery uses the same decision: the cached reader list is the member list filtered by the read ACL *)
Theorem C03_delivery_uses_read_acl : forall ch ty a,
  ch_targets (set_acl ch ty a) = filter (acl_allowed (ch_read (set_acl ch ty a))) (ch_members (set_acl ch ty a)).
Proof. intros. reflexivity. Qed.

Print Assumptions C03_decision_is_reported_list.
Print Assumptions C03_add_present.

(* ---------- interleaved semantics (Model/Conc.v): every schedule of suspended requests, disconnects, time-outs ---------- *)
From Coq Require Import List NArith.
From NW Require Import Model.Conc Proofs.ConcDefs Proofs.ConcEv Proofs.ConcInv Proofs.ConcSmall Proofs.ConcMore Proofs.ConcProgress Proofs.ConcSource Gen.ConcFlags.
Import ListNotations.
Local Open Scope N_scope.

Theorem C03_conc_acl_report_is_current :
  forall (cf : ccfg) (es : list ev) (e : ev) (c : conn) (id : N) (l : list user),
    let s := cstate_after cf es in
    In (OAcl c id l) (snd (cstep cf s e)) ->
    exists (t : tid) (k : task) (ok : bool) (hint : user) (ch : chan) 
    (o : oid) (ty : N),
      e = ERun t ok hint /\
      In (t, k) (tasks s) /\
      t_conn k = Some c /\
      (t_pc k = PStart (RGetAcl ch ty id) /\ cmap (cg s) ch = Some o \/
       t_pc k = PGetAclWait ch o ty id) /\
      l = acl_of (objs (cg s) o) ty /\ is_owner (objs (cg s) o) (t_me k) = true.
Proof. exact conc_acl_report_is_current. Qed.

Theorem C03_conc_set_acl_exact :
  forall (cf : ccfg) (es : list ev) (t : tid) (ok : bool) (hint : user) (c : conn) (id : N),
    let s := cstate_after cf es in
    let s' := fst (cstep cf s (ERun t ok hint)) in
    In (OAck c id A_SETACL) (snd (cstep cf s (ERun t ok hint))) ->
    exists (k : task) (ch : chan) (o : oid) (ty : N) (adding : bool) 
    (us : list user),
      In (t, k) (tasks s) /\
      t_conn k = Some c /\
      (t_pc k = PStart (RSetAcl ch ty adding us id) /\ cmap (cg s) ch = Some o \/
       t_pc k = PSetAclWait ch o ty adding us id) /\
      is_owner (objs (cg s) o) (t_me k) = true /\
      acl_of (objs (cg s') o) ty = acl_update (acl_of (objs (cg s) o) ty) us adding /\
      (forall ty' : N,
       acl_class ty' <> acl_class ty -> acl_of (objs (cg s') o) ty' = acl_of (objs (cg s) o) ty') /\
      members (objs (cg s') o) = members (objs (cg s) o) /\
      owner (objs (cg s') o) = owner (objs (cg s) o) /\
      (forall o' : oid, o' <> o -> objs (cg s') o' = objs (cg s) o').
Proof. exact conc_set_acl_exact. Qed.

Theorem C03_conc_join_respects_list :
  forall (cf : ccfg) (es : list ev) (t : tid) (ok : bool) (hint : user) (o : oid) (n : user),
    let s := cstate_after cf es in
    let s' := fst (cstep cf s (ERun t ok hint)) in
    ~ In n (members (objs (cg s) o)) ->
    In n (members (objs (cg s') o)) -> allowed (jacl (objs (cg s) o)) n = true.
Proof. exact conc_join_respects_list. Qed.

Theorem C03_conc_targets_cache :
  forall (cf : ccfg) (es : list ev) (o : oid),
    let g := cg (cstate_after cf es) in
    targets (objs g o) = filter (allowed (racl (objs g o))) (members (objs g o)).
Proof. exact conc_targets_cache. Qed.

Theorem C03_source_segment_layout :
  forallb snd conc_source_shape = true.
Proof. exact source_segment_layout. Qed.
