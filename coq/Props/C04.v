(* C04 — Only the owner administers a channel, only members observe it; one owner.
   Pinned statements (types pasted verbatim from the proved lemmas by tools/pin.py); proofs in Proofs/Server*.v. *)
From NW Require Import Base.Bytes Model.SchemaTypes Gen.Schema Model.Codec Model.MsgInfo Model.Ids Model.Server.
From NW Require Import Proofs.ServerLib Proofs.ServerRoute Proofs.ServerHandlers Proofs.ServerSteps Proofs.ServerPhases.
From NW Require Import Proofs.ServerInvBase Proofs.ServerInv Proofs.ServerUniq Proofs.ServerInvCor.

Theorem C04_owner_and_member_gates :
  forall (cfg : scfg) (h : N) (m : msg) (p : option (list N)) (c : ctx) 
      (cn : conn) (me : nid) (hd : str) (ch : chan),
    nlookup h (conns (st c)) = Some cn ->
    c_phase cn = Authenticated ->
    c_nid cn = Some me ->
    existsb (N.eqb h) (closing c) = false ->
    max_inflight cfg <> 0 ->
    chan_parse (get_str m "channel") = Some (hd, domain cfg) ->
    alookup hd (chans (st c)) = Some ch ->
    let c' := on_frame cfg h m p c in
    let refusal :=
      fun reason : string =>
      st c' = st c /\
      closing c' = closing c /\
      new_outs c c' = [OSend h (err_msg (Some (get_num m "id")) reason) None] in
    (is_owner ch me = false ->
     (is_kind m "SET_CHAN_ACL" = true ->
      parse_nids (get_vec m "nids") <> None -> refusal "FORBIDDEN"%string) /\
     (is_kind m "GET_CHAN_ACL" = true -> refusal "FORBIDDEN"%string) /\
     (is_kind m "SET_CHAN_CONFIG" = true ->
      get_num m "max_clients" <= max_clients cfg ->
      get_num m "max_payload_size" <= max_payload_cfg cfg -> refusal "FORBIDDEN"%string) /\
     (is_kind m "JOIN" = true ->
      (exists (s : str) (n : nid), get_ostr m "on_behalf" = Some s /\ nid_parse s = Some n) ->
      refusal "FORBIDDEN"%string) /\
     (is_kind m "LEAVE" = true ->
      (exists (s : str) (n : nid), get_ostr m "on_behalf" = Some s /\ nid_parse s = Some n) ->
      refusal "FORBIDDEN"%string)) /\
    (nmem me (ch_members ch) = false ->
     (is_kind m "MEMBERS" = true -> refusal "USER_NOT_IN_CHANNEL"%string) /\
     (is_kind m "GET_CHAN_CONFIG" = true -> refusal "FORBIDDEN"%string) /\
     (is_kind m "BROADCAST" = true -> has_mod cfg = false -> refusal "FORBIDDEN"%string)).
Proof. exact C04_gates. Qed.

(* A non-empty channel has exactly one owner, who is a member — in every reachable state
   (every history, every script of modulator outcomes, every new-owner choice). *)
Theorem C04_single_owner_reachable : forall cfg ops hd ch,
  ops_ok cfg init ops -> alookup hd (chans (run_state cfg init ops)) = Some ch ->
  ch_members ch <> [] /\ exists o, ch_owner ch = Some o /\ nmem o (ch_members ch) = true.
Proof.
  intros cfg ops hd ch Hok Hch.
  pose proof (Inv_spec _ _ (inv_reachable cfg ops Hok)) as I.
  split; [exact (sp_nonempty _ _ I hd ch Hch) | exact (sp_owner _ _ I hd ch Hch)].
Qed.

Print Assumptions C04_owner_and_member_gates.
Print Assumptions C04_single_owner_reachable.

(* ---------- interleaved semantics (Model/Conc.v): every schedule of suspended requests, disconnects, time-outs ---------- *)
From Coq Require Import List NArith.
From NW Require Import Model.Conc Proofs.ConcDefs Proofs.ConcEv Proofs.ConcInv Proofs.ConcSmall Proofs.ConcMore Proofs.ConcProgress Proofs.ConcSource Gen.ConcFlags.
Import ListNotations.
Local Open Scope N_scope.

Theorem C04_conc_owner_is_member_always :
  forall (cf : ccfg) (es : list ev) (ch : chan) (o : oid),
    fixed cf ->
    cmap (cg (cstate_after cf es)) ch = Some o ->
    exists w : user,
      owner (objs (cg (cstate_after cf es)) o) = Some w /\
      In w (members (objs (cg (cstate_after cf es)) o)).
Proof. exact conc_owner_is_member_always. Qed.

Theorem C04_source_owner_is_member :
  forall (fe fp : bool) (ms mc : N) (es : list ev) (ch : chan) (o : oid),
    cmap (cg (cstate_after (src_cfg fe fp ms mc) es)) ch = Some o ->
    exists w : user,
      owner (objs (cg (cstate_after (src_cfg fe fp ms mc) es)) o) = Some w /\
      In w (members (objs (cg (cstate_after (src_cfg fe fp ms mc) es)) o)).
Proof. exact source_owner_is_member. Qed.

Theorem C04_source_segment_layout :
  forallb snd conc_source_shape = true.
Proof. exact source_segment_layout. Qed.
