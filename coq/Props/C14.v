(* C14 — Configured limits are enforced and their counters do not drift.
   Pinned statements (types pasted verbatim by tools/pin.py); proofs in Proofs/ServerLimits.v, Proofs/ServerSteps.v. *)
From NW Require Import Base.Bytes Model.SchemaTypes Gen.Schema Model.Codec Model.MsgInfo Model.Ids Model.Server.
From NW Require Import Proofs.ServerLib Proofs.ServerRoute Proofs.ServerHandlers Proofs.ServerSteps Proofs.ServerPhases.
From NW Require Import Proofs.ServerInvBase Proofs.ServerInv Proofs.ServerUniq Proofs.ServerInvCor Proofs.ServerLimits.
From NW Require Import Proofs.ServerChanCount.
From NW Require Import Gen.Wiring.

Theorem C14_limits_every_reachable_state :
  forall (cfg : scfg) (ops : list op),
    let s := run_state cfg init ops in
    N.of_nat (Datatypes.length (conns s)) <= max_conns cfg /\
    (Datatypes.length (conns s) <= N.to_nat (max_conns cfg))%nat /\
    (forall (u : str) (l : list str),
     alookup u (inch s) = Some l -> N.of_nat (Datatypes.length l) <= max_subs cfg) /\
    (forall (hd : str) (ch : chan),
     alookup hd (chans s) = Some ch ->
     ch_max_payload ch <= max_payload_cfg cfg /\ ch_max_clients ch <= max_clients cfg).
Proof. exact C14_limits_reachable. Qed.

Theorem C14_connection_limit :
  forall (cfg : scfg) (ops : list op),
    N.of_nat (Datatypes.length (conns (run_state cfg init ops))) <= max_conns cfg.
Proof. exact C14_connections. Qed.

Theorem C14_open_beyond_limit_refused :
  forall (cfg : scfg) (s : state) (h : N),
    max_conns cfg <= N.of_nat (Datatypes.length (conns s)) ->
    step cfg s (Open h) = (s, [OOverloaded h]).
Proof. exact C14_open_refused. Qed.

Theorem C14_closed_connection_slot_released :
  forall (cfg : scfg) (s : state) (o : op) (h : N) (o' : out),
    In o' (snd (step cfg s o)) -> ends h o' -> nlookup h (conns (fst (step cfg s o))) = None.
Proof. exact C14_closed_connections_removed. Qed.

Theorem C14_hangup_slot_released :
  forall (cfg : scfg) (s : state) (h : N) (sc : list moutcome) (hi : list (str * nid)),
    nlookup h (conns (fst (step cfg s (Hangup h sc hi)))) = None.
Proof. exact C14_hangup_removes. Qed.

Theorem C14_subscription_limit :
  forall (cfg : scfg) (ops : list op) (u : str) (l : list str),
    alookup u (inch (run_state cfg init ops)) = Some l ->
    N.of_nat (Datatypes.length l) <= max_subs cfg.
Proof. exact C14_subscriptions. Qed.

Theorem C14_subscription_zero_example :
  ops_ok subs0_cfg init subs0_ops /\
    max_subs subs0_cfg = 0 /\
    last (run subs0_cfg init subs0_ops) [] = [OClose 1 (err_msg (Some 1) "POLICY_VIOLATION")] /\
    inch (run_state subs0_cfg init subs0_ops) = [] /\
    inch (run_state subs0_cfg init (removelast subs0_ops)) = [] /\
    chans (run_state subs0_cfg init subs0_ops) = [] /\
    conns (run_state subs0_cfg init subs0_ops) = [].
Proof. exact C14_subscriptions_zero_first_join_refused. Qed.

Theorem C14_channel_capacity_at_admission :
  forall (cfg : scfg) (h : N) (me : nid) (m : msg) (c : ctx),
    snd (h_join cfg h me m c) = None ->
    exists (hd : str) (n : nid),
      chan_parse (get_str m "channel") = Some (hd, domain cfg) /\
      (let ch := match alookup hd (chans (st c)) with
                 | Some c0 => c0
                 | None => new_chan cfg
                 end in
       let c' := fst (h_join cfg h me m c) in
       N.of_nat (Datatypes.length (ch_members ch)) < ch_max_clients ch /\
       alookup hd (chans (st c')) = Some (insert_member ch n) /\
       ch_members (insert_member ch n) = ch_members ch ++ [n] /\
       ch_max_clients (insert_member ch n) = ch_max_clients ch /\
       N.of_nat (Datatypes.length (ch_members (insert_member ch n))) <=
       ch_max_clients (insert_member ch n)).
Proof. exact C14_channel_capacity_at_admission. Qed.

Theorem C14_payload_limit :
  forall (cfg : scfg) (h : N) (me : nid) (m : msg) (payload : list N) 
      (c : ctx) (hd dom : str) (ch : chan),
    snd (h_broadcast cfg h me m payload c) = None ->
    chan_parse (get_str m "channel") = Some (hd, dom) ->
    alookup hd (chans (st c)) = Some ch ->
    N.of_nat (Datatypes.length (eff_payload cfg payload (script c))) <= ch_max_payload ch.
Proof. exact C14_payload. Qed.

Theorem C14_payload_limit_server_cap :
  forall (cfg : scfg) (ops : list op) (h : N) (me : nid) (m : msg) 
      (payload : list N) (sc : list moutcome) (hi : list (str * nid)) 
      (os : list out) (cl : list N),
    let c :=
      {| st := run_state cfg init ops; script := sc; hints := hi; outs := os; closing := cl |}
      in
    snd (h_broadcast cfg h me m payload c) = None ->
    N.of_nat (Datatypes.length (eff_payload cfg payload sc)) <= max_payload_cfg cfg.
Proof. exact C14_payload_reachable. Qed.

Theorem C14_acl_entry_limit :
  forall (cfg : scfg) (h : N) (me : nid) (m : msg) (c : ctx),
    snd (h_set_acl cfg h me m c) = None ->
    exists (hd : str) (ch : chan) (ns : list nid) (a : acl),
      chan_parse (get_str m "channel") = Some (hd, domain cfg) /\
      parse_nids (get_vec m "nids") = Some ns /\
      alookup hd (chans (st c)) = Some ch /\
      a =
      acl_update (get_acl ch (get_str m "type")) ns (list_eqb (get_str m "action") (bs "add")) /\
      acl_total a <= ch_max_clients ch /\
      st (fst (h_set_acl cfg h me m c)) = put_chan hd (set_acl ch (get_str m "type") a) (st c) /\
      alookup hd (chans (st (fst (h_set_acl cfg h me m c)))) =
      Some (set_acl ch (get_str m "type") a) /\
      ch_max_clients (set_acl ch (get_str m "type") a) = ch_max_clients ch.
Proof. exact C14_acl_entries. Qed.

Theorem C14_inflight_zero :
  forall (cfg : scfg) (h : N) (m : msg) (p : option (list N)) (c : ctx) (cn : conn),
    nlookup h (conns (st c)) = Some cn ->
    c_phase cn = Authenticated ->
    existsb (N.eqb h) (closing c) = false ->
    max_inflight cfg = 0 ->
    is_kind m "PONG" = false ->
    st (on_frame cfg h m p c) = st c /\ new_outs c (on_frame cfg h m p c) = [ODrop h].
Proof. exact C12_no_capacity. Qed.

Theorem C14_capacity_not_invariant_after_config_change :
  let s := run_state cex_cfg init cap_ops in
    ops_ok cex_cfg init cap_ops /\
    last (run cex_cfg init cap_ops) [] =
    [OSend 1 (build "SET_CHAN_CONFIG_ACK" [(bs "id", VNum 2)]) None] /\
    (exists ch : chan,
       alookup (bs "room") (chans s) = Some ch /\
       Datatypes.length (ch_members ch) = 2%nat /\ ch_max_clients ch = 1).
Proof. exact C14_capacity_not_invariant. Qed.

Theorem C14_channel_limit :
  forall (cfg : scfg) (ops : list op),
    N.of_nat (Datatypes.length (chans (run_state cfg init ops))) <= max_channels cfg.
Proof. exact chan_count_reachable. Qed.

Theorem C14_channel_created_only_with_room :
  forall (cfg : scfg) (h : N) (m : msg) (p : option (list N)) (c : ctx) (hd : str),
    alookup hd (chans (st c)) = None ->
    alookup hd (chans (st (on_frame cfg h m p c))) <> None ->
    N.of_nat (Datatypes.length (chans (st c))) < max_channels cfg.
Proof. exact chan_created_only_below_limit_frame. Qed.

Theorem C14_channel_slot_released :
  forall (cfg : scfg) (ops : list op) (hd : str) (ch : chan),
    alookup hd (chans (run_state cfg init ops)) = Some ch -> ch_members ch <> [].
Proof. exact no_empty_channel_reachable. Qed.

Theorem C14_channel_limit_example :
  max_channels chan1_cfg = 1 /\
    ops_ok chan1_cfg init chan1_ops_all /\
    map fst (chans (run_state chan1_cfg init chan1_ops_a)) = [bs "a"] /\
    last (run chan1_cfg init chan1_ops_refused) [] =
    [OSend 1 (err_msg (Some 2) "SERVER_OVERLOADED") None] /\
    run_state chan1_cfg init chan1_ops_refused = run_state chan1_cfg init chan1_ops_a /\
    last (run chan1_cfg init chan1_ops_left) [] =
    [OSend 1 (build "LEAVE_ACK" [(bs "id", VNum 3)]) None] /\
    chans (run_state chan1_cfg init chan1_ops_left) = [] /\
    last (run chan1_cfg init chan1_ops_all) [] =
    [OSend 1 (build "JOIN_ACK" [(bs "id", VNum 4); (bs "channel", VStr (bs "!b@localhost"))])
       None] /\
    map fst (chans (run_state chan1_cfg init chan1_ops_all)) = [bs "b"] /\
    N.of_nat (Datatypes.length (chans (run_state chan1_cfg init chan1_ops_all))) =
    max_channels chan1_cfg.
Proof. exact chan_limit_example. Qed.

(* The configured limits reach the channel manager and the connection engine through positional arguments and
   field-by-field conversions in code the in-process harness does not execute (`narwhal_server::run`, the
   `From<&Config>` conversions).  translator/wiring.py reads those hand-overs off the CURRENT source and lists the ones
   whose source and destination names disagree (coq/Gen/Wiring.v, regenerated on every run). *)
Theorem C14_source_limits_wiring :
  NW.Gen.Wiring.wiring_mismatches = [] /\ (20 <=? NW.Gen.Wiring.wiring_sites)%N = true.
Proof. split; reflexivity. Qed.

(* ---- start-up negotiation of the size limits with the modulator (Model/Link.adjust_limit; types pasted from
        Proofs/LinkProofs.v by tools/pin.py) ---- *)
From NW Require Import Model.Link Proofs.LinkProofs.

Theorem C14_adjusted_limit_never_exceeds_configuration :
  forall configured advertised : N,
    adjust_limit configured advertised <= configured /\
    adjust_limit configured advertised <= advertised /\
    (adjust_limit configured advertised = configured \/
     adjust_limit configured advertised = advertised).
Proof. exact adjust_limit_bounds. Qed.

Theorem C14_adjusted_limit_cases :
  forall configured advertised : N,
    (configured <= advertised -> adjust_limit configured advertised = configured) /\
    (advertised <= configured -> adjust_limit configured advertised = advertised).
Proof. exact adjust_limit_cases. Qed.

(* ---- the per-connection in-flight counter (Model/Inflight.v; proofs in Proofs/InflightProofs.v) ---- *)
From NW Require Import Model.Inflight Proofs.InflightProofs Gen.Headroom.
Local Open Scope nat_scope.

Theorem C14_inflight_counter_is_the_number_in_flight : forall limit evs,
  let s := fst (irun true limit iinit evs) in counter s = length (running s).
Proof. exact live_counter_is_inflight. Qed.

Theorem C14_inflight_refusal_means_full_window : forall limit evs id,
  let s := fst (irun true limit iinit evs) in
  istep true limit s (IAdmit id) = IRefused -> limit <= length (running s).
Proof. exact live_refusal_means_full. Qed.

Theorem C14_inflight_snapshot_drifts_refuted :
  let s := fst (irun false 3 iinit [IAdmit 1; IAdmit 2; IEnd 1; IEnd 2]) in
  running s = [] /\ counter s = 1 /\
  snd (irun false 3 iinit [IAdmit 1; IAdmit 2; IEnd 1; IEnd 2; IAdmit 3; IAdmit 4; IEnd 3; IEnd 4;
                           IAdmit 5; IAdmit 6; IEnd 5; IEnd 6; IAdmit 7]) = true /\
  counter (fst (irun false 3 iinit [IAdmit 1; IAdmit 2; IEnd 2; IEnd 1])) = 0.
Proof. exact snapshot_counter_drifts_refuted. Qed.

(* the completion path of the current source decrements the live counter (translator/headroom.py) *)
Theorem C14_source_inflight_decrements_live_counter : NW.Gen.Headroom.inflight_decrements_live_counter = true.
Proof. reflexivity. Qed.

(* ---------- interleaved semantics (Model/Conc.v): every schedule of suspended requests, disconnects, time-outs ---------- *)
From Coq Require Import List NArith.
From NW Require Import Model.Conc Proofs.ConcDefs Proofs.ConcEv Proofs.ConcInv Proofs.ConcSmall Proofs.ConcMore Proofs.ConcProgress Proofs.ConcSource Gen.ConcFlags.
Import ListNotations.
Local Open Scope N_scope.

Theorem C14_conc_subscription_limit :
  forall (cf : ccfg) (es : list ev) (u : user),
    idx_early cf = true -> len (idx (cg (cstate_after cf es)) u) <= c_max_subs cf.
Proof. exact conc_subscription_limit. Qed.

Theorem C14_conc_subscription_limit_late_index_refuted :
  exists (cf : ccfg) (es : list ev) (u : user),
      idx_early cf = false /\ c_max_subs cf < len (idx (cg (cstate_after cf es)) u).
Proof. exact conc_subscription_limit_late_index_refuted. Qed.

Theorem C14_conc_member_limit :
  forall (cf : ccfg) (es : list ev) (o : oid),
    len (members (objs (cg (cstate_after cf es)) o)) <= c_max_clients cf.
Proof. exact conc_member_limit. Qed.

Theorem C14_source_subscription_limit :
  forall (fe fp : bool) (ms mc : N) (es : list ev) (u : user),
    len (idx (cg (cstate_after (src_cfg fe fp ms mc) es)) u) <= ms.
Proof. exact source_subscription_limit. Qed.

Theorem C14_source_segment_layout :
  forallb snd conc_source_shape = true.
Proof. exact source_segment_layout. Qed.
