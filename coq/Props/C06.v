(* C06 — No link acts before its handshake succeeds; connection state only advances.
   Pinned statements (types pasted verbatim from the proved lemmas by tools/pin.py); proofs in Proofs/Server*.v. *)
From NW Require Import Base.Bytes Model.SchemaTypes Gen.Schema Model.Codec Model.MsgInfo Model.Ids Model.Server.
From NW Require Import Proofs.ServerLib Proofs.ServerRoute Proofs.ServerHandlers Proofs.ServerSteps Proofs.ServerPhases.
From NW Require Import Proofs.ServerInvBase Proofs.ServerInv Proofs.ServerUniq Proofs.ServerInvCor.

Theorem C06_preauth_is_inert :
  forall (cfg : scfg) (h : N) (m : msg) (p : option (list N)) (c : ctx) (cn : conn),
    nlookup h (conns (st c)) = Some cn ->
    c_phase cn = Connecting \/ c_phase cn = Connected ->
    existsb (N.eqb h) (closing c) = false -> preauth_summary cfg h m c (on_frame cfg h m p c) cn.
Proof. exact C06_preauth_inert. Qed.

Theorem C06_phase_monotone :
  forall (cfg : scfg) (s : state) (o : op) (s' : state) (os : list out),
    step cfg s o = (s', os) ->
    (forall h' : N, o = Open h' -> nlookup h' (conns s) = None) ->
    forall (h : N) (cn cn' : conn),
    nlookup h (conns s) = Some cn ->
    nlookup h (conns s') = Some cn' ->
    (phase_rank (c_phase cn) <= phase_rank (c_phase cn'))%nat /\
    (c_phase cn = Authenticated -> cn' = cn) /\
    (conns_wf s -> forall n : nid, c_nid cn = Some n -> c_nid cn' = Some n).
Proof. exact C06_monotone. Qed.

Theorem C06_no_reidentify :
  forall (cfg : scfg) (h : N) (m : msg) (p : option (list N)) (c : ctx) (cn : conn) (me : nid),
    nlookup h (conns (st c)) = Some cn ->
    c_phase cn = Authenticated ->
    c_nid cn = Some me ->
    existsb (N.eqb h) (closing c) = false ->
    max_inflight cfg <> 0 ->
    is_kind m "CONNECT" = true \/ is_kind m "IDENTIFY" = true \/ is_kind m "AUTH" = true ->
    on_frame cfg h m p c =
    {|
      st := st c;
      script := script c;
      hints := hints c;
      outs := outs c ++ [OClose h (err_msg None "UNEXPECTED_MESSAGE")];
      closing := closing c ++ [h]
    |}.
Proof. exact C06_auth_rejects_handshake. Qed.

Theorem C06_conns_wf_reachable :
  forall (cfg : scfg) (ops : list op) (s : state),
    conns_wf s -> conns_wf (run_state cfg s ops).
Proof. exact run_state_wf. Qed.
