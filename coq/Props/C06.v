(* C06 — No link acts before its handshake succeeds; connection state only advances.
   Pinned statements (types pasted verbatim from the proved lemmas by tools/pin.py); proofs in Proofs/Server*.v. *)
From NW Require Import Base.Bytes Model.SchemaTypes Gen.Schema Model.Codec Model.MsgInfo Model.Ids Model.Server.
From NW Require Import Proofs.ServerLib Proofs.ServerRoute Proofs.ServerHandlers Proofs.ServerSteps Proofs.ServerPhases.
From NW Require Import Proofs.ServerInvBase Proofs.ServerInv Proofs.ServerUniq Proofs.ServerInvCor.
From NW Require Import Gen.Errors Model.Pool Model.Framing Model.Link Proofs.LinkProofs.
From NW Require Import Gen.Dispatch Proofs.DispatchTie.

Theorem C06_preauth_is_inert :
  forall (cfg : scfg) (h : N) (m : msg) (p : option (list N)) (c : ctx) (cn : conn),
    nlookup h (conns (st c)) = Some cn ->
    c_phase cn = Connecting \/ c_phase cn = Connected ->
    existsb (N.eqb h) (closing c) = false -> preauth_summary cfg h m c (on_frame cfg h m p c) cn.
Proof. exact C06_preauth_inert. Qed.

Theorem C06_phase_monotone :
  forall (cfg : scfg) (s : state) (o : op) (s' : state) (os : list out),
    step cfg s o = (s', os) ->
    (forall h' : N, o = Open h' -> nlookup h' (conns s) = None) ->
    forall (h : N) (cn cn' : conn),
    nlookup h (conns s) = Some cn ->
    nlookup h (conns s') = Some cn' ->
    (phase_rank (c_phase cn) <= phase_rank (c_phase cn'))%nat /\
    (c_phase cn = Authenticated -> cn' = cn) /\
    (conns_wf s -> forall n : nid, c_nid cn = Some n -> c_nid cn' = Some n).
Proof. exact C06_monotone. Qed.

Theorem C06_no_reidentify :
  forall (cfg : scfg) (h : N) (m : msg) (p : option (list N)) (c : ctx) (cn : conn) (me : nid),
    nlookup h (conns (st c)) = Some cn ->
    c_phase cn = Authenticated ->
    c_nid cn = Some me ->
    existsb (N.eqb h) (closing c) = false ->
    max_inflight cfg <> 0 ->
    is_kind m "CONNECT" = true \/ is_kind m "IDENTIFY" = true \/ is_kind m "AUTH" = true ->
    on_frame cfg h m p c =
    {|
      st := st c;
      script := script c;
      hints := hints c;
      outs := outs c ++ [OClose h (err_msg None "UNEXPECTED_MESSAGE")];
      closing := closing c ++ [h]
    |}.
Proof. exact C06_auth_rejects_handshake. Qed.

Theorem C06_conns_wf_reachable :
  forall (cfg : scfg) (ops : list op) (s : state),
    conns_wf s -> conns_wf (run_state cfg s ops).
Proof. exact run_state_wf. Qed.

Theorem C06_link_preauth_inert :
  forall (k : lkind) (cfg : lcfg) (m : msg) (p : option (list N)) (c : lctx),
    lph c = LConnecting ->
    lclosed c = false ->
    let c' := frame_of k cfg m p c in
    (exists os : list lout, louts c' = louts c ++ os /\ quiet os) /\
    (good_connect k cfg m = false ->
     lph c' = LConnecting /\
     lclosed c' = true /\
     (exists e : msg, louts c' = louts c ++ [LClose e] /\ is_kind e "ERROR" = true)) /\
    (good_connect k cfg m = true -> exists hb : N, lph c' = LAuth hb).
Proof. exact link_preauth_step. Qed.

Theorem C06_link_phase_monotone :
  forall (k : lkind) (cfg : lcfg) (m : msg) (p : option (list N)) (c : lctx) (hb : N),
    lph c = LAuth hb -> lph (frame_of k cfg m p c) = LAuth hb.
Proof. exact link_phase_monotone. Qed.

Theorem C06_link_closed_is_final :
  forall (k : lkind) (cfg : lcfg) (it : ritem) (c : lctx),
    lclosed c = true -> link_item k cfg it c = c.
Proof. exact link_item_closed_final. Qed.

Theorem C06_link_stream_no_act_before_handshake :
  forall (k : lkind) (cfg : lcfg) (its : list ritem) (c : lctx),
    lph c = LConnecting ->
    louts c = [] ->
    let c' := fold_left (fun (acc : lctx) (it : ritem) => link_item k cfg it acc) its c in
    forall (pre : list lout) (o : lout) (post : list lout),
    louts c' = pre ++ o :: post ->
    match o with
    | LMod _ | LRoute _ _ => True
    | _ => False
    end ->
    exists (a : msg) (pre1 pre2 : list lout),
      pre = pre1 ++ LSend a None :: pre2 /\ is_kind a (ack_name k) = true.
Proof. exact link_stream_no_act_before_handshake. Qed.

Theorem C06_link_wrong_or_missing_secret_refused :
  forall (k : lkind) (cfg : lcfg) (m : msg) (p : option (list N)) (c : lctx),
    l_secret cfg <> [] ->
    lph c = LConnecting ->
    lclosed c = false ->
    is_kind m (connect_name k) = true ->
    get_num m "version" = 1 ->
    get_ostr m "secret" <> Some (l_secret cfg) ->
    let c' := frame_of k cfg m p c in
    lclosed c' = true /\
    lph c' = LConnecting /\ louts c' = louts c ++ [LClose (err_msg None "UNAUTHORIZED")].
Proof. exact link_wrong_secret_refused. Qed.

Theorem C06_undeclared_operation_never_sent :
  forall (cfg : lcfg) (hb id : N) (call : modcall) (o : moutcome),
    declared_for cfg call = false -> via_link cfg hb id call o = ([], RErr).
Proof. exact via_link_undeclared_silent. Qed.

Theorem C06_src_c2s_connecting_unlisted_refused :
  forall (cfg : scfg) (m : msg) (p : option (list N)) (s : state) (cn : conn),
    nlookup 1 (conns s) = Some cn ->
    c_phase cn = Connecting ->
    unlisted m c2s_connecting_accepts = true ->
    outs (on_frame cfg 1 m p (ctx0 s)) = [OClose 1 (err_msg None "UNEXPECTED_MESSAGE")].
Proof. exact c2s_connecting_unlisted_refused. Qed.

Theorem C06_src_c2s_connected_unlisted_refused :
  forall (cfg : scfg) (m : msg) (p : option (list N)) (s : state) (cn : conn),
    nlookup 1 (conns s) = Some cn ->
    c_phase cn = Connected ->
    unlisted m c2s_connected_accepts = true ->
    outs (on_frame cfg 1 m p (ctx0 s)) = [OClose 1 (err_msg None "UNEXPECTED_MESSAGE")].
Proof. exact c2s_connected_unlisted_refused. Qed.

Theorem C06_src_c2s_authenticated_unlisted_refused :
  forall (cfg : scfg) (h : N) (me : nid) (m : msg) (p : option (list N)) (c : ctx),
    unlisted m c2s_authenticated_accepts = true ->
    dispatch_auth cfg h me m p c = fail c (PErr None "UNEXPECTED_MESSAGE").
Proof. exact c2s_authenticated_unlisted_refused. Qed.

Theorem C06_src_c2s_listed_handled :
  forallb
      (fun n : list N => eqb (name_handled_c2s_auth n) (in_list c2s_authenticated_accepts n))
      all_kind_names = true.
Proof. exact c2s_authenticated_handled_iff_listed. Qed.

Theorem C06_src_c2s_preauth_listed_handled :
  forallb (pre_handled noauth_cfg Connecting) c2s_connecting_accepts = true /\
    forallb
      (fun k : string => pre_handled noauth_cfg Connected k || pre_handled full_cfg Connected k)
      c2s_connected_accepts = true.
Proof. exact c2s_preauth_listed_handled. Qed.

Theorem C06_src_s2m_connecting_unlisted_refused :
  forall (cfg : lcfg) (m : msg) (p : option (list N)) (c : lctx),
    lph c = LConnecting ->
    lclosed c = false ->
    unlisted m s2m_connecting_accepts = true ->
    s2m_frame cfg m p c = lnotify_error (PErr None "UNEXPECTED_MESSAGE") c.
Proof. exact s2m_connecting_unlisted_refused. Qed.

Theorem C06_src_s2m_authenticated_unlisted_refused :
  forall (cfg : lcfg) (m : msg) (p : option (list N)) (c : lctx),
    unlisted m s2m_authenticated_accepts = true ->
    s2m_request cfg m p c = lnotify_error (PErr None "UNEXPECTED_MESSAGE") c.
Proof. exact s2m_authenticated_unlisted_refused. Qed.

Theorem C06_src_m2s_connecting_unlisted_refused :
  forall (cfg : lcfg) (m : msg) (p : option (list N)) (c : lctx),
    lph c = LConnecting ->
    lclosed c = false ->
    unlisted m m2s_connecting_accepts = true ->
    m2s_frame cfg m p c = lnotify_error (PErr None "UNEXPECTED_MESSAGE") c.
Proof. exact m2s_connecting_unlisted_refused. Qed.

Theorem C06_src_m2s_authenticated_unlisted_refused :
  forall (cfg : lcfg) (m : msg) (p : option (list N)) (c : lctx) (hb : N),
    lph c = LAuth hb ->
    lclosed c = false ->
    l_max_inflight cfg <> 0 ->
    is_kind m "PONG" = false ->
    unlisted m m2s_authenticated_accepts = true ->
    m2s_frame cfg m p c = lnotify_error (PErr None "UNEXPECTED_MESSAGE") c.
Proof. exact m2s_authenticated_unlisted_refused. Qed.

Theorem C06_src_link_listed_handled :
  forallb (link_handled KS2m LConnecting) s2m_connecting_accepts = true /\
    forallb (link_handled KS2m (LAuth 1000)) s2m_authenticated_accepts = true /\
    forallb (link_handled KM2s LConnecting) m2s_connecting_accepts = true /\
    forallb (link_handled KM2s (LAuth 1000)) m2s_authenticated_accepts = true.
Proof. exact link_listed_handled. Qed.
