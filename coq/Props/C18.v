(* C18 — Membership events are a faithful change log of each channel.
   Pinned statements (types pasted verbatim from the proved lemmas by tools/pin.py); proofs in Proofs/Server*.v. *)
From NW Require Import Base.Bytes Model.SchemaTypes Gen.Schema Model.Codec Model.MsgInfo Model.Ids Model.Server.
From NW Require Import Proofs.ServerLib Proofs.ServerRoute Proofs.ServerHandlers Proofs.ServerSteps Proofs.ServerPhases.
From NW Require Import Proofs.ServerInvBase Proofs.ServerInv Proofs.ServerUniq Proofs.ServerInvCor.
From NW Require Import Proofs.ServerDelivery Proofs.ServerEvents Proofs.ServerIdentity.

Theorem C18_join_events_exact :
  forall (cfg : scfg) (h : N) (me : nid) (m : msg) (c c' : ctx),
    Inv cfg (st c) ->
    nd me = domain cfg ->
    h_join cfg h me m c = (c', None) ->
    exists (hd : str) (n : nid) (hs : list N),
      chan_parse (get_str m "channel") = Some (hd, domain cfg) /\
      (let ch := match alookup hd (chans (st c)) with
                 | Some c0 => c0
                 | None => new_chan cfg
                 end in
       let created := match alookup hd (chans (st c)) with
                      | Some _ => false
                      | None => true
                      end in
       let ev := event_msg (bs "MEMBER_JOINED") (chan_full hd (domain cfg)) (nid_full n) created
         in
       (n = me \/
        nd n = domain cfg /\ has_connection (st c) (nu n) = true /\ is_owner ch me = true) /\
       ~ In n (ch_members ch) /\
       nd n = domain cfg /\
       ch_members (insert_member ch n) = ch_members ch ++ [n] /\
       st c' = index_add (nu n) (get_str m "channel") (put_chan hd (insert_member ch n) (st c)) /\
       new_outs c c' =
       notify_mod cfg "MEMBER_JOINED" hd n created ++
       map (fun h' : N => OSend h' ev None) hs ++ [OSend h (join_ack m) None] /\
       NoDup hs /\
       (forall h' : N, In h' hs <-> h' <> h /\ conn_of (st c) (ch_members ch ++ [n]) h')).
Proof. exact C18_join_events. Qed.

Theorem C18_join_refused_no_event :
  forall (cfg : scfg) (h : N) (me : nid) (m : msg) (c c' : ctx) (e : perr),
    h_join cfg h me m c = (c', Some e) ->
    st c' = st c /\
    (forall (h' : N) (m' : msg) (p : option (list N)), ~ In (OSend h' m' p) (new_outs c c')) /\
    (new_outs c c' = [] \/
     (exists (hd : str) (n : nid) (created : bool),
        new_outs c c' =
        [OMod (McEvent (bs "MEMBER_JOINED") (chan_full hd (domain cfg)) (nid_full n) created)] /\
        e = PInternal /\ has_mod cfg && op_fev cfg = true /\ head_outcome (script c) = MErr)).
Proof. exact C18_join_refused. Qed.

Theorem C18_leave_events_exact :
  forall (cfg : scfg) (req : option N) (id : N) (me : nid) (hd dom cf : str) 
      (ob : option nid) (c c' : ctx),
    Inv cfg (st c) ->
    leave_core cfg req id me hd dom cf ob c = (c', None) ->
    let n := match ob with
             | Some n => n
             | None => me
             end in
    exists (ch : chan) (hs1 : list N),
      dom = domain cfg /\
      alookup hd (chans (st c)) = Some ch /\
      In n (ch_members ch) /\
      (ob <> None -> is_owner ch me = true) /\
      (let chf := chan_full hd (domain cfg) in
       let was_owner := is_owner ch n in
       let rest := ndel n (ch_members ch) in
       let ev_left := event_msg (bs "MEMBER_LEFT") chf (nid_full n) was_owner in
       NoDup hs1 /\
       (forall h' : N, In h' hs1 <-> req <> Some h' /\ conn_of (st c) (ch_members ch) h') /\
       st c' = leave_st hd cf n ch (pick_opt (hints c) hd ch n) (st c) /\
       match pick_opt (hints c) hd ch n with
       | Some pick =>
           was_owner = true /\
           In pick rest /\
           pick = pick_of (hints c) hd rest n /\
           alookup hd (chans (st c')) = Some (left_chan ch n (Some pick)) /\
           ch_owner (left_chan ch n (Some pick)) = Some pick /\
           ch_members (left_chan ch n (Some pick)) = rest /\
           (exists hs2 : list N,
              NoDup hs2 /\
              (forall h' : N, In h' hs2 <-> conn_of (st c) rest h') /\
              new_outs c c' =
              notify_mod cfg "MEMBER_LEFT" hd n true ++
              map (fun h' : N => OSend h' ev_left None) hs1 ++
              notify_mod cfg "MEMBER_JOINED" hd pick true ++
              map
                (fun h' : N =>
                 OSend h' (event_msg (bs "MEMBER_JOINED") chf (nid_full pick) true) None) hs2 ++
              ack_out req id)
       | None =>
           (was_owner = false \/ rest = []) /\
           new_outs c c' =
           notify_mod cfg "MEMBER_LEFT" hd n was_owner ++
           map (fun h' : N => OSend h' ev_left None) hs1 ++ ack_out req id
       end).
Proof. exact C18_leave_events. Qed.

Theorem C18_replay_join_step :
  forall (cfg : scfg) (h : N) (me : nid) (m : msg) (c c' : ctx),
    Inv cfg (st c) ->
    nd me = domain cfg ->
    h_join cfg h me m c = (c', None) ->
    exists (hd : str) (n : nid),
      chan_parse (get_str m "channel") = Some (hd, domain cfg) /\
      (let ch := match alookup hd (chans (st c)) with
                 | Some c0 => c0
                 | None => new_chan cfg
                 end in
       let created := match alookup hd (chans (st c)) with
                      | Some _ => false
                      | None => true
                      end in
       let ev := event_msg (bs "MEMBER_JOINED") (chan_full hd (domain cfg)) (nid_full n) created
         in
       alookup hd (chans (st c')) = Some (insert_member ch n) /\
       ch_members (insert_member ch n) = ch_members ch ++ [n] /\
       (forall hb : N,
        hb <> h ->
        conn_of (st c) (ch_members ch ++ [n]) hb ->
        events_to hb (new_outs c c') = [ev] /\
        (forall x : str,
         In x
           (fold_left apply_event (events_to hb (new_outs c c')) (map nid_full (ch_members ch))) <->
         In x (map nid_full (ch_members (insert_member ch n)))))).
Proof. exact C18_replay_join. Qed.

Theorem C18_replay_leave_step :
  forall (cfg : scfg) (req : option N) (id : N) (me : nid) (hd dom cf : str) 
      (ob : option nid) (c c' : ctx),
    Inv cfg (st c) ->
    leave_core cfg req id me hd dom cf ob c = (c', None) ->
    let n := match ob with
             | Some n => n
             | None => me
             end in
    exists ch : chan,
      alookup hd (chans (st c)) = Some ch /\
      In n (ch_members ch) /\
      (let chf := chan_full hd (domain cfg) in
       let rest := ndel n (ch_members ch) in
       let popt := pick_opt (hints c) hd ch n in
       let ev_left := event_msg (bs "MEMBER_LEFT") chf (nid_full n) (is_owner ch n) in
       forall hb : N,
       req <> Some hb ->
       conn_of (st c) rest hb ->
       alookup hd (chans (st c')) = Some (left_chan ch n popt) /\
       ch_members (left_chan ch n popt) = rest /\
       events_to hb (new_outs c c') =
       ev_left
       :: match popt with
          | Some pick => [event_msg (bs "MEMBER_JOINED") chf (nid_full pick) true]
          | None => []
          end /\
       (forall x : str,
        In x
          (fold_left apply_event (events_to hb (new_outs c c')) (map nid_full (ch_members ch))) <->
        In x (map nid_full rest))).
Proof. exact C18_replay_leave. Qed.

Theorem C18_failed_leave_notification :
  forall (cfg : scfg) (req : option N) (id : N) (me : nid) (hd dom cf : str) 
      (ob : option nid) (c c' : ctx) (e : perr),
    Inv cfg (st c) ->
    leave_core cfg req id me hd dom cf ob c = (c', Some e) ->
    let n := match ob with
             | Some n => n
             | None => me
             end in
    c' = c \/
    (exists (ch : chan) (hs1 hs2 : list N),
       dom = domain cfg /\
       alookup hd (chans (st c)) = Some ch /\
       In n (ch_members ch) /\
       (let chf := chan_full hd (domain cfg) in
        let was_owner := is_owner ch n in
        let rest := ndel n (ch_members ch) in
        let popt := pick_opt (hints c) hd ch n in
        let mod_left := OMod (McEvent (bs "MEMBER_LEFT") chf (nid_full n) was_owner) in
        let mod_joined :=
          fun pick : nid => OMod (McEvent (bs "MEMBER_JOINED") chf (nid_full pick) true) in
        e = PInternal /\
        has_mod cfg && op_fev cfg = true /\
        st c' = leave_st hd cf n ch popt (st c) /\
        NoDup hs1 /\
        (forall h' : N, In h' hs1 <-> req <> Some h' /\ conn_of (st c) (ch_members ch) h') /\
        NoDup hs2 /\
        (forall h' : N, In h' hs2 <-> conn_of (st c) rest h') /\
        (head_outcome (script c) = MErr /\
         (exists ok_joined : bool,
            new_outs c c' =
            [mod_left] ++
            match popt with
            | Some pick =>
                [mod_joined pick] ++
                (if ok_joined
                 then
                  map
                    (fun h' : N =>
                     OSend h' (event_msg (bs "MEMBER_JOINED") chf (nid_full pick) true) None)
                    hs2
                 else [])
            | None => []
            end) \/
         (exists pick : nid,
            popt = Some pick /\
            new_outs c c' =
            [mod_left] ++
            map
              (fun h' : N =>
               OSend h' (event_msg (bs "MEMBER_LEFT") chf (nid_full n) was_owner) None) hs1 ++
            [mod_joined pick] ++ ack_out req id)))).
Proof. exact C18_leave_failed. Qed.

(* ---------- interleaved semantics (Model/Conc.v): every schedule of suspended requests, disconnects, time-outs ---------- *)
From Coq Require Import List NArith.
From NW Require Import Model.Conc Proofs.ConcDefs Proofs.ConcEv Proofs.ConcInv Proofs.ConcSmall Proofs.ConcMore Proofs.ConcProgress Proofs.ConcSource Gen.ConcFlags.
Import ListNotations.
Local Open Scope N_scope.

Theorem C18_conc_event_confinement :
  forall (cf : ccfg) (es : list ev) (e : ev) (c : conn) (kind : N) 
      (ch : chan) (n : user) (own : bool),
    let s := cstate_after cf es in
    In (OEvent c kind ch n own) (snd (cstep cf s e)) ->
    exists u : user, cuser (cg s) c = Some u /\ In c (reg (cg s) u).
Proof. exact conc_event_confinement. Qed.

Theorem C18_source_segment_layout :
  forallb snd conc_source_shape = true.
Proof. exact source_segment_layout. Qed.


Theorem C18_conc_join_announced :
  forall (cf : ccfg) (es : list ev) (t : tid) (ok : bool) (hint : user) (c : conn) (id : N),
    let s := cstate_after cf es in
    let r := cstep cf s (ERun t ok hint) in
    In (OAck c id A_JOIN) (snd r) ->
    exists (k : task) (ch : chan) (o : oid) (n : user) (created : bool),
      In (t, k) (tasks s) /\
      t_conn k = Some c /\
      In n (members (objs (cg (fst r)) o)) /\
      (forall (u : user) (c' : conn),
       In u (members (objs (cg (fst r)) o)) ->
       In c' (reg (cg s) u) -> c' <> c -> In (OEvent c' K_JOINED ch n created) (snd r)).
Proof. exact conc_join_announced. Qed.

Theorem C18_conc_refused_join_is_silent :
  forall (cf : ccfg) (es : list ev) (t : tid) (ok : bool) (hint : user) 
      (c : conn) (id reason : N) (k : task),
    let s := cstate_after cf es in
    let r := cstep cf s (ERun t ok hint) in
    tlookup t (tasks s) = Some k ->
    t_conn k = Some c ->
    (exists (ch : chan) (ob : option user), t_pc k = PStart (RJoin ch ob id)) \/
    (exists (ch : chan) (o : oid) (ob : option user), t_pc k = PJoinWait ch o ob id) ->
    snd r = [OErr c id reason] \/ snd r = [OClose c reason] ->
    (forall o' : oid, members (objs (cg (fst r)) o') = members (objs (cg s) o')) /\
    (forall u : user, idx (cg (fst r)) u = idx (cg s) u) /\
    (forall ch' : chan, cmap (cg (fst r)) ch' = cmap (cg s) ch').
Proof. exact conc_refused_join_is_silent. Qed.


Theorem C18_conc_leave_announced :
  forall (cf : ccfg) (es : list ev) (t : tid) (ok : bool) (hint : user) 
      (c' : conn) (kind : N) (ch : chan) (n : user) (own : bool),
    let s := cstate_after cf es in
    let r := cstep cf s (ERun t ok hint) in
    kind = K_LEFT ->
    In (OEvent c' kind ch n own) (snd r) ->
    exists (k : task) (o : oid),
      In (t, k) (tasks s) /\
      In n (members (objs (cg s) o)) /\
      ~ In n (members (objs (cg (fst r)) o)) /\
      ~ In ch (idx (cg (fst r)) n) /\
      (forall (u : user) (c'' : conn),
       In u (members (objs (cg s) o)) ->
       In c'' (reg (cg s) u) -> t_conn k <> Some c'' -> In (OEvent c'' K_LEFT ch n own) (snd r)).
Proof. exact conc_leave_announced. Qed.
