(* Correspondence of Model/PoolTok.v with narwhal_util::pool::{Pool, BucketedPool}: op sequences run
   on the real pool; after every op the counters and (for acquires) the buffer handed out must agree. *)
From NW Require Import Base.Bytes Model.PoolTok.

(* observation of one op: in_use, available, and for an acquire the buffer id (None = parked) *)
Inductive pobs := PO (in_use available : nat) (got : option (option bufid)) (read : option (list N)).

Definition clookup (i : bufid) (l : list (bufid * list N)) : list N :=
  match find (fun e => (i =? fst e)%nat) l with Some e => snd e | None => [] end.

Definition apply_op (p : pool) (o : pop_) : pool * option (option bufid) :=
  match o with
  | OAcquire => match acquire_now p with Some (i, p') => (p', Some (Some i)) | None => (p, Some None) end
  | OWrite i b => (match step p (Write i b) with SOk p' => p' | _ => p end, None)
  | OFreeze i => (match step p (Freeze i) with SOk p' => p' | _ => p end, None)
  | OClone i => (match step p (Clone i) with SOk p' => p' | _ => p end, None)
  | ODropMut i => (drop_last p i, None)
  | ODropShared i => (drop_shared p i, None)
  | ORelease ids => (release_batch p ids, None)
  end.

Definition opt_nat_eqb (a b : option nat) : bool :=
  match a, b with Some x, Some y => (x =? y)%nat | None, None => true | _, _ => false end.

Fixpoint pool_conf (p : pool) (ops : list (pop_ * option (bufid * nat))) (obs : list pobs) : bool :=
  match ops, obs with
  | [], [] => true
  | (o, rd) :: ops', PO iu av got read :: obs' =>
      let '(p', g) := apply_op p o in
      (in_use_count p' =? iu)%nat && (available_count p' =? av)%nat
      && match g, got with
         | Some a, Some b => opt_nat_eqb a b
         | None, _ => true
         | _, _ => false
         end
      && match rd, read with
         | Some (i, n), Some bytes => list_eqb (firstn n (clookup i (contents p') ++ repeat 0 n)) bytes
         | _, _ => true
         end
      && pool_conf p' ops' obs'
  | _, _ => false
  end.

(* bucketed choice: sizes with their free counts, request size, observed (Some len | parked | none) *)
Inductive bobs := BGot (len : N) | BParked | BNone.
Definition bucket_conf (bs : list (N * nat)) (size : N) (o : bobs) : bool :=
  match choose_bucket bs 0 size None, o with
  | Some (i, false), BGot len => match nth_error bs i with Some (sz, _) => sz =? len | None => false end
  | Some (_, true), BParked => true
  | None, BNone => true
  | _, _ => false
  end.
