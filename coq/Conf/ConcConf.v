(* Correspondence for interleaved histories: does SOME schedule of Model/Conc.v explain what the real server did?
   The harness runs a history op by op to quiescence (lib/conclib.py); per op it reports the frames every connection
   received (in order) and the modulator calls (in order).  The model is nondeterministic (which ready task runs
   next, new-owner pick, order of the clean-up rounds): [explain] searches the model's schedules, depth first, pruned by
   the observation, for one whose outputs are exactly the observed ones -- trace inclusion of the implementation in
   the model, which is what the all-schedule theorems of Proofs/ConcInv.v need.  A search, hence a TEST of the model
   against the code, not a proof.  Definitions only. *)
From Coq Require Import List NArith Bool.
From NW Require Import Model.Conc.
Import ListNotations.
Open Scope N_scope.

Inductive sout := SOk | SErr | SPark (n : N).          (* scripted modulator outcome *)

Inductive action :=
| AFrames (c : conn) (es : list ev)      (* bytes written by the client: EIdentify / EReq events in frame order *)
| AHangup (c : conn)                     (* the client closes its end *)
| ARelease (n : N) (ok : bool)           (* the parked modulator call n is answered *)
| AExpire (c : conn) (id : N)            (* request_timeout of the request with this id on connection c expires *)
| ADirect (targets : list user) (payload : N).   (* the modulator pushes a private payload *)

Record xop := {
  x_acts : list action;
  x_script : list sout;                  (* outcomes of the modulator calls made during this op, in call order *)
  x_hints : list N;                      (* candidate new owners / clean-up channels named by the observation *)
  x_gone : list conn;                    (* connections whose client end is closed: what the server sends them is unobservable *)
  x_obs : list (conn * list cout);       (* frames received per connection, in order *)
  x_mod : list cout }.                   (* modulator calls, in order *)

Record xst := {
  xs : cstate;
  parked : list (N * tid);               (* park id -> the task suspended in that call *)
  answered : list (tid * bool);          (* released calls whose task has not run yet *)
  closing : list conn;                   (* the server decided to end these connections *)
  pending : list action;
  script : list sout;
  got : list (conn * list cout);         (* produced so far in this op *)
  gotmod : list cout }.

Definition N_list_eqb (a b : list N) : bool :=
  Nat.eqb (length a) (length b) && forallb (fun x => mem x b) a && forallb (fun x => mem x a) b.

Definition cout_eqb (a b : cout) : bool :=
  match a, b with
  | OAck c i k, OAck c' i' k' => (c =? c') && (i =? i') && (k =? k')
  | OErr c i r, OErr c' i' r' => (c =? c') && (i =? i') && (r =? r')
  | OClose c r, OClose c' r' => (c =? c') && (r =? r')
  | OEvent c k ch u o, OEvent c' k' ch' u' o' => (c =? c') && (k =? k') && (ch =? ch') && (u =? u') && Bool.eqb o o'
  | OMsg c ch f p, OMsg c' ch' f' p' => (c =? c') && (ch =? ch') && (f =? f') && (p =? p')
  | OMembers c i l, OMembers c' i' l' => (c =? c') && (i =? i') && N_list_eqb l l'
  | OChannels c i l, OChannels c' i' l' => (c =? c') && (i =? i') && N_list_eqb l l'
  | OAcl c i l, OAcl c' i' l' => (c =? c') && (i =? i') && N_list_eqb l l'
  | ODirect c p, ODirect c' p' => (c =? c') && (p =? p')
  | OModEvent k ch u o, OModEvent k' ch' u' o' => (k =? k') && (ch =? ch') && (u =? u') && Bool.eqb o o'
  | OModPayload f ch p, OModPayload f' ch' p' => (f =? f') && (ch =? ch') && (p =? p')
  | _, _ => false
  end.

Fixpoint is_prefix (a b : list cout) : bool :=
  match a, b with
  | [], _ => true
  | x :: a', y :: b' => cout_eqb x y && is_prefix a' b'
  | _ :: _, [] => false
  end.
Fixpoint list_eqb (a b : list cout) : bool :=
  match a, b with
  | [], [] => true
  | x :: a', y :: b' => cout_eqb x y && list_eqb a' b'
  | _, _ => false
  end.

(* A connection the server decides to end: the closing ERROR travels on its own channel and the connection loop picks
   between the two channels at random, so the order between it and the frames queued around it is not determined and
   frames still queued when the loop ends are lost.  For such a connection the observation must be a sub-sequence of
   what the model produced, the closing frame included. *)
Definition is_close (o : cout) : bool := match o with OClose _ _ => true | _ => false end.
Fixpoint is_subseq (a b : list cout) : bool :=
  match b with
  | [] => match a with [] => true | _ => false end
  | y :: b' => match a with
               | [] => true
               | x :: a' => if cout_eqb x y then is_subseq a' b' else is_subseq a b'
               end
  end.
Definition lenient_eqb (obs prod : list cout) : bool :=
  if existsb is_close obs
  then is_subseq (filter is_close obs) (filter is_close prod) && is_subseq (filter (fun o => negb (is_close o)) obs) (filter (fun o => negb (is_close o)) prod)
  else list_eqb prod obs.

Definition conn_of_out (o : cout) : option conn :=
  match o with
  | OAck c _ _ | OErr c _ _ | OClose c _ | OEvent c _ _ _ _ | OMsg c _ _ _ | OMembers c _ _ | OChannels c _ _ | OAcl c _ _ | ODirect c _ => Some c
  | _ => None
  end.

Fixpoint olookup (c : conn) (l : list (conn * list cout)) : list cout :=
  match l with [] => [] | (k, v) :: r => if c =? k then v else olookup c r end.
Fixpoint oappend (c : conn) (o : cout) (l : list (conn * list cout)) : list (conn * list cout) :=
  match l with
  | [] => [(c, [o])]
  | (k, v) :: r => if c =? k then (k, v ++ [o]) :: r else (k, v) :: oappend c o r
  end.

Definition record (gone : list conn) (os : list cout) (st : xst) : xst :=
  fold_left (fun acc o =>
               match conn_of_out o with
               | Some c => if mem c gone then acc
                           else {| xs := xs acc; parked := parked acc; answered := answered acc;
                                   closing := match o with OClose c' _ => if mem c' (closing acc) then closing acc else closing acc ++ [c'] | _ => closing acc end;
                                   pending := pending acc; script := script acc; got := oappend c o (got acc); gotmod := gotmod acc |}
               | None => {| xs := xs acc; parked := parked acc; answered := answered acc; closing := closing acc;
                            pending := pending acc; script := script acc; got := got acc; gotmod := gotmod acc ++ [o] |}
               end) os st.

Definition is_mod_pc (p : pc) : bool :=
  match p with PJoinNotify _ _ _ _ _ | PLeaveN1 _ _ _ _ _ | PLeaveN2 _ _ _ _ | PBcastGate _ _ _ => true | _ => false end.

Definition with_xs (st : xst) (s : cstate) : xst :=
  {| xs := s; parked := parked st; answered := answered st; closing := closing st; pending := pending st; script := script st; got := got st; gotmod := gotmod st |}.

(* run task t (answer ok, hint h); while it lands on a modulator call that the script answers at once, go on *)
Fixpoint run_task (fuel : nat) (cf : ccfg) (gone : list conn) (st : xst) (t : tid) (ok : bool) (h : N) : xst :=
  match fuel with
  | O => st
  | S f =>
      let '(s1, os) := cstep cf (xs st) (ERun t ok h) in
      let st1 := record gone os (with_xs st s1) in
      match tlookup t (tasks s1) with
      | Some k =>
          if is_mod_pc (t_pc k) then
            match script st1 with
            | SPark n :: r => {| xs := xs st1; parked := parked st1 ++ [(n, t)]; answered := answered st1; closing := closing st1;
                                 pending := pending st1; script := r; got := got st1; gotmod := gotmod st1 |}
            | SErr :: r => run_task f cf gone {| xs := xs st1; parked := parked st1; answered := answered st1; closing := closing st1;
                                                 pending := pending st1; script := r; got := got st1; gotmod := gotmod st1 |} t false h
            | SOk :: r => run_task f cf gone {| xs := xs st1; parked := parked st1; answered := answered st1; closing := closing st1;
                                                pending := pending st1; script := r; got := got st1; gotmod := gotmod st1 |} t true h
            | [] => run_task f cf gone st1 t true h
            end
          else st1
      | None => st1
      end
  end.

Inductive choice :=
| CAct (i : nat)                 (* the i-th pending action *)
| CAns (t : tid) (ok : bool) (h : N)
| CRun (t : tid) (h : N)
| CTear (c : conn) (h : N)
| CDoom (t : tid) (h : N).       (* a request of a connection that is going away: polled once more (tokio::select! polls the
                                    request's future and the cancellation in random order), then dropped *)

Definition act_conn (a : action) : option conn :=
  match a with AFrames c _ => Some c | AHangup c => Some c | ARelease _ _ => None | AExpire _ _ => None | ADirect _ _ => None end.

(* an action is eligible when no earlier pending action concerns the same connection *)
Fixpoint eligible_acts (i : nat) (seen : list conn) (l : list action) : list choice :=
  match l with
  | [] => []
  | a :: r => match act_conn a with
              | Some c => (if mem c seen then [] else [CAct i]) ++ eligible_acts (S i) (c :: seen) r
              | None => CAct i :: eligible_acts (S i) seen r
              end
  end.

(* connections whose next pending action is the client's hang-up *)
Fixpoint hanging (seen : list conn) (l : list action) : list conn :=
  match l with
  | [] => []
  | AHangup c :: r => (if mem c seen then [] else [c]) ++ hanging (c :: seen) r
  | AFrames c _ :: r => hanging (c :: seen) r
  | ARelease _ _ :: r => hanging seen r
  | AExpire _ _ :: r => hanging seen r
  | ADirect _ _ :: r => hanging seen r
  end.

Definition req_id (p : pc) : N :=
  match p with
  | PStart (RJoin _ _ id) | PStart (RLeave _ _ id) | PStart (RBcast _ _ id) | PStart (RMembers _ id) | PStart (RChannels id)
  | PStart (RSetAcl _ _ _ _ id) | PStart (RGetAcl _ _ id)
  | PJoinWait _ _ _ id | PJoinNotify _ _ _ _ id | PLeaveWait _ _ _ id | PLeaveN1 _ _ _ _ id | PLeaveN2 _ _ _ id
  | PBcastGate _ _ id | PBcastWait _ _ _ id | PMembersWait _ _ id | PSetAclWait _ _ _ _ _ id | PGetAclWait _ _ _ id => id
  | PDone => 0
  end.
(* the live request of connection c that bears this id (ids are unique per connection in the generated histories) *)
Definition task_of_req (s : cstate) (c : conn) (id : N) : option tid :=
  match filter (fun e => match t_conn (snd e) with Some c' => (c' =? c) && (req_id (t_pc (snd e)) =? id) | None => false end) (tasks s) with
  | e :: _ => Some (fst e)
  | [] => None
  end.

Definition runnable (g : gst) (p : pc) : bool :=
  match p with
  | PStart _ => true
  | PJoinWait _ o _ _ | PLeaveWait _ o _ _ | PBcastWait _ o _ _ | PMembersWait _ o _
  | PSetAclWait _ o _ _ _ _ | PGetAclWait _ o _ _ => lock_free g o
  | _ => false
  end.
Definition uses_hint (k : task) : bool :=
  match t_pc k with
  | PStart (RLeave _ _ _) | PLeaveWait _ _ _ _ | PLeaveN1 _ _ _ _ _ => true
  | _ => match t_conn k with None => true | Some _ => false end
  end.
Definition hints_for (k : task) (hs : list N) : list N := if uses_hint k then 0 :: hs else [0].

Definition choices (st : xst) (hs : list N) : list choice :=
  eligible_acts 0 [] (pending st)
  ++ flat_map (fun e => match tlookup (fst e) (tasks (xs st)) with
                        | Some k => map (fun h => CAns (fst e) (snd e) h) (hints_for k hs)
                        | None => []
                        end) (answered st)
  ++ flat_map (fun e => if runnable (cg (xs st)) (t_pc (snd e)) then map (fun h => CRun (fst e) h) (hints_for (snd e) hs) else []) (tasks (xs st))
  ++ flat_map (fun c => match cuser (cg (xs st)) c with Some _ => map (fun h => CTear c h) (0 :: hs) | None => [] end) (closing st)
  ++ (let dying := hanging [] (pending st) ++ closing st in
      flat_map (fun e => match t_conn (snd e) with
                         | Some c => if mem c dying then map (fun h => CDoom (fst e) h) (hints_for (snd e) hs) else []
                         | None => []
                         end) (tasks (xs st))).

Fixpoint remove_nth {A} (i : nat) (l : list A) : list A :=
  match i, l with
  | _, [] => []
  | O, _ :: r => r
  | S j, x :: r => x :: remove_nth j r
  end.
Fixpoint plookup (n : N) (l : list (N * tid)) : option tid :=
  match l with [] => None | (k, v) :: r => if n =? k then Some v else plookup n r end.

Definition apply_events (cf : ccfg) (gone : list conn) (st : xst) (es : list ev) : xst :=
  fold_left (fun acc e => let '(s1, os) := cstep cf (xs acc) e in record gone os (with_xs acc s1)) es st.

Definition apply_choice (cf : ccfg) (gone : list conn) (hs : list N) (st : xst) (ch : choice) : list xst :=
  match ch with
  | CAct i =>
      let st0 := {| xs := xs st; parked := parked st; answered := answered st; closing := closing st;
                    pending := remove_nth i (pending st); script := script st; got := got st; gotmod := gotmod st |} in
      match nth_error (pending st) i with
      | Some (AFrames _ es) => [apply_events cf gone st0 es]
      | Some (AHangup c) => map (fun h => apply_events cf gone st0 [EHangup c h]) (0 :: hs)
      | Some (ARelease n ok) =>
          match plookup n (parked st0) with
          | Some t => [{| xs := xs st0; parked := filter (fun e => negb (fst e =? n)) (parked st0); answered := answered st0 ++ [(t, ok)];
                          closing := closing st0; pending := pending st0; script := script st0; got := got st0; gotmod := gotmod st0 |}]
          | None => [st0]
          end
      | Some (ADirect ts p) => [apply_events cf gone st0 [EDirect ts p]]
      | Some (AExpire c id) =>
          match task_of_req (xs st0) c id with
          | Some t => [apply_events cf gone {| xs := xs st0; parked := parked st0; answered := filter (fun e => negb (fst e =? t)) (answered st0);
                                                closing := closing st0; pending := pending st0; script := script st0; got := got st0; gotmod := gotmod st0 |} [EDrop t]]
          | None => [st0]
          end
      | None => []
      end
  | CAns t ok h =>
      [run_task 16 cf gone {| xs := xs st; parked := parked st; answered := filter (fun e => negb (fst e =? t)) (answered st); closing := closing st;
                              pending := pending st; script := script st; got := got st; gotmod := gotmod st |} t ok h]
  | CRun t h => [run_task 16 cf gone st t true h]
  | CDoom t h =>
      let st1 := match tlookup t (tasks (xs st)) with
                 | Some k => if runnable (cg (xs st)) (t_pc k) then run_task 16 cf gone st t true h else st
                 | None => st
                 end in
      [apply_events cf gone {| xs := xs st1; parked := parked st1; answered := filter (fun e => negb (fst e =? t)) (answered st1); closing := closing st1;
                               pending := pending st1; script := script st1; got := got st1; gotmod := gotmod st1 |} [EDrop t]]
  | CTear c h =>
      [apply_events cf gone {| xs := xs st; parked := parked st; answered := answered st; closing := filter (fun x => negb (x =? c)) (closing st);
                               pending := pending st; script := script st; got := got st; gotmod := gotmod st |} [EHangup c h]]
  end.

Definition consistent (o : xop) (st : xst) : bool :=
  forallb (fun e => existsb is_close (olookup (fst e) (x_obs o)) || is_prefix (snd e) (olookup (fst e) (x_obs o))) (got st)
  && is_prefix (gotmod st) (x_mod o).
Definition complete (o : xop) (st : xst) : bool :=
  forallb (fun e => lenient_eqb (snd e) (olookup (fst e) (got st))) (x_obs o)
  && forallb (fun e => lenient_eqb (olookup (fst e) (x_obs o)) (snd e)) (got st)
  && list_eqb (gotmod st) (x_mod o).

Definition start_op (st : xst) (o : xop) : xst :=
  {| xs := xs st; parked := parked st; answered := answered st;
     closing := filter (fun c => negb (mem c (x_gone o))) (closing st);
     pending := x_acts o; script := x_script o; got := []; gotmod := [] |}.

(* verdict of the search: a schedule was found / every schedule was tried and none fits / the node budget ran out *)
Inductive verdict := VYes | VNo | VOut.

(* (verdict, number of ops explained on the deepest branch, budget left) *)
Fixpoint explain (fuel : nat) (cf : ccfg) (st : xst) (cur : xop) (rest : list xop) (depth : N) (budget : N) : verdict * N * N :=
  match fuel with
  | O => (VOut, depth, budget)
  | S f =>
      if budget =? 0 then (VOut, depth, 0) else
      let budget := budget - 1 in
      match choices st (x_hints cur) with
      | [] => if complete cur st
              then match rest with
                   | [] => (VYes, depth + 1, budget)
                   | o :: r => explain f cf (start_op st o) o r (depth + 1) budget
                   end
              else (VNo, depth, budget)
      | cs => fold_left (fun (acc : verdict * N * N) (ch : choice) =>
                           match acc with
                           | (VNo, d, b) =>
                               fold_left (fun (acc2 : verdict * N * N) (st' : xst) =>
                                            match acc2 with
                                            | (VNo, d2, b2) =>
                                                if consistent cur st'
                                                then match explain f cf st' cur rest depth b2 with
                                                     | (VNo, d3, b3) => (VNo, N.max d2 d3, b3)
                                                     | r => r
                                                     end
                                                else acc2
                                            | _ => acc2
                                            end)
                                         (apply_choice cf (x_gone cur) (x_hints cur) st ch) (VNo, d, b)
                           | _ => acc
                           end)
                        cs (VNo, depth, budget)
      end
  end.

Definition xinit : xst := {| xs := cinit; parked := []; answered := []; closing := []; pending := []; script := []; got := []; gotmod := [] |}.

Definition conc_explained (cf : ccfg) (ops : list xop) : verdict * N * N :=
  match ops with
  | [] => (VYes, 0, 0)
  | o :: r => explain (N.to_nat 4000) cf (start_op xinit o) o r 0 60000
  end.
(* 1: some schedule of the model explains the observation; 0: none does; 2: undecided within the node budget *)
Definition conc_case (cf : ccfg) (ops : list xop) : N :=
  match conc_explained cf ops with (VYes, _, _) => 1 | (VNo, _, _) => 0 | (VOut, _, _) => 2 end.
