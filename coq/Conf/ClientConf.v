(* Correspondence of Model/ClientEngine.v with the real narwhal_common::client::Client. *)
From NW Require Import Base.Bytes Model.ClientEngine.

Definition ids_written (o : list cout) : list N := flat_map (fun x => match x with Written i => [i] | _ => [] end) o.
Definition ids_completed (o : list cout) : list N := flat_map (fun x => match x with Completed i => [i] | _ => [] end) o.
Definition ids_timedout (o : list cout) : list N := flat_map (fun x => match x with TimedOut i => [i] | _ => [] end) o.
Definition ids_pong (o : list cout) : list N := flat_map (fun x => match x with Pong i => [i] | _ => [] end) o.

Fixpoint nlist_eqb (a b : list N) : bool :=
  match a, b with [], [] => true | x :: a', y :: b' => (x =? y) && nlist_eqb a' b' | _, _ => false end.
Definition nset_eq (a b : list N) : bool :=
  forallb (fun x => existsb (N.eqb x) b) a && forallb (fun x => existsb (N.eqb x) a) b && (length a =? length b)%nat.

(* one harness op = a list of model events; observation = frames the peer received (requests written, pongs)
   and the requests that completed / timed out *)
Record cobs := { co_written : list N; co_pongs : list N; co_completed : list N; co_timedout : list N }.

Fixpoint run_evs (pick : list N) (s : cstate) (evs : list cev) : cstate * list cout :=
  match evs with
  | [] => (s, [])
  | e :: r => let '(s1, o) := cstep_pick pick s e in let '(s2, o2) := run_evs pick s1 r in (s2, o ++ o2)
  end.

Fixpoint client_conf (s : cstate) (ops : list (list cev)) (obs : list cobs) : bool :=
  match ops, obs with
  | [], [] => true
  | evs :: ops', ob :: obs' =>
      let '(s', o) := run_evs (co_written ob) s evs in
      (* when several request timers expire at the same virtual instant, which parked request gets a freed
         permit first (and is written before its own timer is noticed) depends on task polling order and on
         the semaphore's barging; every one of them times out in that same step either way *)
      (existsb (fun e => match e with Timeout _ => true | _ => false end) evs
       || nset_eq (ids_written o) (co_written ob))
      && nlist_eqb (ids_pong o) (co_pongs ob)
      && nset_eq (ids_completed o) (co_completed ob) && nset_eq (ids_timedout o) (co_timedout ob)
      && client_conf s' ops' obs'
  | _, _ => false
  end.

Definition cob (w p c t : list N) : cobs := {| co_written := w; co_pongs := p; co_completed := c; co_timedout := t |}.
