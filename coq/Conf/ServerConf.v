(* Correspondence of Model/Server.v with the real in-process server: per op, per connection
   frames (order compared per channel), closed connections and the modulator call log. *)
From NW Require Import Base.Bytes Model.SchemaTypes Gen.Schema Model.Codec Model.Ids Model.Server Conf.CodecConf.

Definition frame := (msg * option (list N))%type.

Record oobs := { ob_frames : list (N * list frame); ob_closed : list N; ob_mod : list modcall }.

Definition frames_for (h : N) (os : list out) : list frame :=
  flat_map (fun o => match o with
                     | OSend h' m p => if h' =? h then [(m, p)] else []
                     | OClose h' m => if h' =? h then [(m, None)] else []
                     | OOverloaded h' => if h' =? h then [(err_msg None "SERVER_OVERLOADED", None)] else []
                     | _ => []
                     end) os.

Definition out_handlers (os : list out) : list N :=
  flat_map (fun o => match o with OSend h _ _ | OClose h _ | OOverloaded h | ODrop h => [h] | OMod _ => [] end) os.

Definition closed_of (os : list out) : list N :=
  flat_map (fun o => match o with OClose h _ | OOverloaded h | ODrop h => [h] | _ => [] end) os.

Definition mods_of (os : list out) : list modcall :=
  flat_map (fun o => match o with OMod c => [c] | _ => [] end) os.

Definition frame_key (f : frame) : list N := get_str (fst f) "channel".

(* stable sort by channel key: keeps the order of frames of one channel (and of channel-less frames) *)
Definition canon (l : list frame) : list frame :=
  fold_left (fun acc x => insert_by (fun a b => bytes_ltb (frame_key a) (frame_key b)) x acc) l [].

Definition frame_eqb (a b : frame) : bool := msg_eqb (fst a) (fst b) && opt_eqb list_eqb (snd a) (snd b).
Fixpoint frames_eqb (a b : list frame) : bool :=
  match a, b with
  | [], [] => true
  | x :: a', y :: b' => frame_eqb x y && frames_eqb a' b'
  | _, _ => false
  end.

Definition modcall_eqb (a b : modcall) : bool :=
  match a, b with
  | McAuth t, McAuth t' => list_eqb t t'
  | McFbp f c p, McFbp f' c' p' => list_eqb f f' && list_eqb c c' && list_eqb p p'
  | McEvent k c n o, McEvent k' c' n' o' => list_eqb k k' && list_eqb c c' && list_eqb n n' && Bool.eqb o o'
  | McSpp f p, McSpp f' p' => list_eqb f f' && list_eqb p p'
  | _, _ => false
  end.
Fixpoint modcalls_eqb (a b : list modcall) : bool :=
  match a, b with
  | [], [] => true
  | x :: a', y :: b' => modcall_eqb x y && modcalls_eqb a' b'
  | _, _ => false
  end.

(* the disconnect clean-up visits a user's channels in hash-set order: compare per channel *)
Definition mod_key (c : modcall) : list N := match c with McEvent _ ch _ _ => ch | _ => [] end.
Definition canon_mods (l : list modcall) : list modcall :=
  fold_left (fun acc x => insert_by (fun a b => bytes_ltb (mod_key a) (mod_key b)) x acc) l [].

Definition nset_eqb (a b : list N) : bool :=
  forallb (fun x => existsb (N.eqb x) b) a && forallb (fun x => existsb (N.eqb x) a) b.

Definition op_closed (o : op) : list N := match o with Hangup h _ _ => [h] | _ => [] end.

(* A property compares only the frames relevant to it: `kinds` = wire names kept ([] = all),
   `mk` = kept modulator calls (0 auth, 1 fbp, 2 event, 3 spp; [] = all), `cl` = compare closes. *)
Definition keep_frame (kinds : list (list N)) (f : frame) : bool :=
  match kinds with [] => true | _ => existsb (list_eqb (kind_name (fst f))) kinds end.
Definition mod_tag (c : modcall) : N := match c with McAuth _ => 0 | McFbp _ _ _ => 1 | McEvent _ _ _ _ => 2 | McSpp _ _ => 3 end.
Definition keep_mod (mk : list N) (c : modcall) : bool :=
  match mk with [] => true | _ => existsb (N.eqb (mod_tag c)) mk end.

Definition op_conf_k (kinds : list (list N)) (mk : list N) (cl : bool) (o : op) (os : list out) (ob : oobs) : bool :=
  let hs := out_handlers os ++ map fst (ob_frames ob) in
  forallb (fun h => frames_eqb (canon (filter (keep_frame kinds) (frames_for h os)))
                               (canon (filter (keep_frame kinds) (match nlookup h (ob_frames ob) with Some l => l | None => [] end)))) hs
  && (negb cl || nset_eqb (closed_of os ++ op_closed o) (ob_closed ob))
  && modcalls_eqb (canon_mods (filter (keep_mod mk) (mods_of os))) (canon_mods (filter (keep_mod mk) (ob_mod ob))).

Definition op_conf (o : op) (os : list out) (ob : oobs) : bool := op_conf_k [] [] true o os ob.

(* index of the first disagreeing op + 1, or 0 when the whole history conforms *)
Fixpoint conf_from_k (kinds : list (list N)) (mk : list N) (cl : bool) (i : N) (cfg : scfg) (s : state) (ops : list op) (obs : list oobs) : N :=
  match ops, obs with
  | [], [] => 0
  | o :: ops', ob :: obs' =>
      let '(s', os) := step cfg s o in
      if op_conf_k kinds mk cl o os ob then conf_from_k kinds mk cl (i + 1) cfg s' ops' obs' else i + 1
  | _, _ => i + 1
  end.
Definition conf_from := conf_from_k [] [] true.
Definition conf_case (cfg : scfg) (ops : list op) (obs : list oobs) : bool := conf_from 0 cfg init ops obs =? 0.
Definition conf_case_k (kinds : list (list N)) (mk : list N) (cl : bool) (cfg : scfg) (ops : list op) (obs : list oobs) : bool :=
  conf_from_k kinds mk cl 0 cfg init ops obs =? 0.

Definition ob (fr : list (N * list frame)) (cl : list N) (md : list modcall) : oobs :=
  {| ob_frames := fr; ob_closed := cl; ob_mod := md |}.

(* ---------- the same correspondence over step_x (Model/ServerX.v): outbound frames that do not fit the message
   buffer are replaced (replies) or kill the receiving connection (unsolicited frames) ---------- *)
From NW Require Import Model.ServerX.

(* which of the frames queued in the same op a dying connection still got out depends on task scheduling (they share the
   batch of the frame that cannot be serialized, or were flushed just before): the frames of dead connections are not compared *)
Definition op_conf_kx (kinds : list (list N)) (mk : list N) (cl : bool) (o : op) (os : list out) (dead : list N) (ob : oobs) : bool :=
  let hs := filter (fun h => negb (existsb (N.eqb h) dead)) (out_handlers os ++ map fst (ob_frames ob)) in
  forallb (fun h => frames_eqb (canon (filter (keep_frame kinds) (frames_for h os)))
                               (canon (filter (keep_frame kinds) (match nlookup h (ob_frames ob) with Some l => l | None => [] end)))) hs
  && (negb cl || nset_eqb (closed_of os ++ dead ++ op_closed o) (ob_closed ob))
  && modcalls_eqb (canon_mods (filter (keep_mod mk) (mods_of os))) (canon_mods (filter (keep_mod mk) (ob_mod ob))).

Fixpoint conf_from_kx (kinds : list (list N)) (mk : list N) (cl : bool) (i : N) (cfg : scfg) (s : state) (ops : list op) (obs : list oobs) : N :=
  match ops, obs with
  | [], [] => 0
  | o :: ops', ob :: obs' =>
      let '(s', os, dead) := step_x cfg s o in
      if op_conf_kx kinds mk cl o os dead ob then conf_from_kx kinds mk cl (i + 1) cfg s' ops' obs' else i + 1
  | _, _ => i + 1
  end.
Definition conf_case_x (cfg : scfg) (ops : list op) (obs : list oobs) : bool := conf_from_kx [] [] true 0 cfg init ops obs =? 0.
Definition conf_case_kx (kinds : list (list N)) (mk : list N) (cl : bool) (cfg : scfg) (ops : list op) (obs : list oobs) : bool :=
  conf_from_kx kinds mk cl 0 cfg init ops obs =? 0.
