(* Correspondence of Model/Timers.v with the real connection under virtual time: per observation
   window the timer-driven frames (PING, TIMEOUT close, wrong-pong close) must agree.  Emissions
   within `slack` ms of a window boundary may be observed on either side. *)
From NW Require Import Base.Bytes Model.Timers.

Inductive tk := KPing | KTimeout | KBadPong.
Definition kind_of (o : tout) : tk * N :=
  match o with EPing t => (KPing, t) | ETimeout t => (KTimeout, t) | EBadPong t => (KBadPong, t) end.
Definition tk_eqb (a b : tk) : bool :=
  match a, b with KPing, KPing | KTimeout, KTimeout | KBadPong, KBadPong => true | _, _ => false end.

Fixpoint kinds_eqb (a b : list tk) : bool :=
  match a, b with [], [] => true | x :: a', y :: b' => tk_eqb x y && kinds_eqb a' b' | _, _ => false end.

(* a frame queued at the very instant the close is requested may or may not be flushed (the connection
   loop's select! picks between the send queue and the close signal at random) *)
Fixpoint drop_ping_before_close (l : list tk) : list tk :=
  match l with
  | KPing :: (KBadPong :: _) as r => drop_ping_before_close r
  | x :: r => x :: drop_ping_before_close r
  | [] => []
  end.
Definition kinds_match (model obs : list tk) : bool :=
  kinds_eqb model obs || kinds_eqb (drop_ping_before_close model) obs.

Definition slack : N := 3.

(* events: (time, input, observed kinds in the window ending at t_end) ; returns 0 ok, 1 mismatch, 2 ambiguous *)
Fixpoint timer_conf (c : tcfg) (t0 : N) (s : tstate) (carry : list tk)
         (steps : list (N * tin * N * list tk)) : N :=
  match steps with
  | [] => match carry with [] => 0 | _ => 1 end
  | (t_act, i, t_end, obs) :: r =>
      let '(s1, o1) := tstep c t0 s t_act i in
      let '(s2, o2) := tstep c t0 s1 t_end IObserve in
      let outs := map kind_of (o1 ++ o2) in
      if existsb (fun e => (t_end - slack <? snd e) && (snd e <=? t_end + slack)) outs then 2
      else if kinds_match (carry ++ map fst outs) obs then timer_conf c t0 s2 [] r else 1
  end.
