(* Correspondence of the codec model with narwhal_protocol::{deserialize,serialize}:
   each case pairs an input with what the implementation did; Coq decides agreement. *)
From NW Require Import Base.Bytes Model.SchemaTypes Gen.Schema Model.Codec.

Definition opt_eqb {A} (e : A -> A -> bool) (a b : option A) : bool :=
  match a, b with Some x, Some y => e x y | None, None => true | _, _ => false end.

Fixpoint lists_eqb (a b : list (list N)) : bool :=
  match a, b with
  | [], [] => true
  | x :: a', y :: b' => list_eqb x y && lists_eqb a' b'
  | _, _ => false
  end.

Definition fval_eqb (a b : fval) : bool :=
  match a, b with
  | VStr x, VStr y => list_eqb x y
  | VNum x, VNum y => x =? y
  | VBool x, VBool y => Bool.eqb x y
  | VOStr x, VOStr y => opt_eqb list_eqb x y
  | VONum x, VONum y => opt_eqb N.eqb x y
  | VOBool x, VOBool y => opt_eqb Bool.eqb x y
  | VVec x, VVec y => lists_eqb x y
  | _, _ => false
  end.

Fixpoint fvals_eqb (a b : list fval) : bool :=
  match a, b with
  | [], [] => true
  | x :: a', y :: b' => fval_eqb x y && fvals_eqb a' b'
  | _, _ => false
  end.

Definition msg_eqb (a b : msg) : bool := (m_kind a =? m_kind b)%nat && fvals_eqb (m_fields a) (m_fields b).

Inductive dec_obs := DOk (m : msg) | DErr | DPanic.

Definition dec_case (md : mode) (bytes : list N) (o : dec_obs) : bool :=
  match deserialize schema md bytes, o with
  | Ok m, DOk m' => msg_eqb m m'
  | Err, DErr => true
  | Panic, DPanic => true
  | _, _ => false
  end.

Inductive enc_obs := EOk (l : list N) | ETooLarge | EOther | EPanic.

Definition enc_case (m : msg) (cap : nat) (o : enc_obs) : bool :=
  match serialize schema m cap, o with
  | SerOk l, EOk l' => list_eqb l l'
  | SerTooLarge, ETooLarge => true
  | SerOther, EOther => true
  | _, _ => false
  end.

Fixpoint failing_from (i : N) (l : list bool) : list N :=
  match l with
  | [] => []
  | b :: r => (if b then [] else [i]) ++ failing_from (i + 1) r
  end.
Definition failing := failing_from 0.

Definition mk (k : nat) (fs : list fval) : msg := {| m_kind := k; m_fields := fs |}.
