(* Correspondence of Model/Link.v with the real S2M / M2S dispatchers (driver "link") and with the
   real S2mClient (driver "s2mclient"). *)
From NW Require Import Base.Bytes Model.SchemaTypes Gen.Schema Model.Codec Model.MsgInfo Model.Framing Model.Ids
     Model.Server Model.Link Model.LinkConc Conf.CodecConf Conf.ServerConf.

Record lobs := { lo_frames : list frame; lo_closed : bool; lo_mod : list modcall; lo_routed : list (list str * list N) }.

Definition lframes (os : list lout) : list frame :=
  flat_map (fun o => match o with LSend m p => [(m, p)] | LClose m => [(m, None)] | _ => [] end) os.
Definition lmods (os : list lout) : list modcall :=
  flat_map (fun o => match o with LMod c => [c] | _ => [] end) os.
Definition lroutes (os : list lout) : list (list str * list N) :=
  flat_map (fun o => match o with LRoute t p => [(t, p)] | _ => [] end) os.

Fixpoint strs_eqb (a b : list str) : bool :=
  match a, b with
  | [], [] => true
  | x :: a', y :: b' => list_eqb x y && strs_eqb a' b'
  | _, _ => false
  end.
Fixpoint routes_eqb (a b : list (list str * list N)) : bool :=
  match a, b with
  | [], [] => true
  | (t, p) :: a', (t', p') :: b' => strs_eqb t t' && list_eqb p p' && routes_eqb a' b'
  | _, _ => false
  end.

(* index of the first disagreeing chunk + 1, or 0 *)
Fixpoint link_conf_from (i : N) (k : lkind) (cfg : lcfg) (ph : lphase) (closed : bool)
         (chunks : list (list N * list moutcome)) (obs : list lobs) : N :=
  match chunks, obs with
  | [], [] => 0
  | (b, sc) :: cr, ob :: obr =>
      let '(ph', cl', os) := link_bytes k cfg ph closed b sc in
      if frames_eqb (lframes os) (lo_frames ob) && Bool.eqb cl' (lo_closed ob)
         && modcalls_eqb (lmods os) (lo_mod ob) && routes_eqb (lroutes os) (lo_routed ob)
      then link_conf_from (i + 1) k cfg ph' cl' cr obr else i + 1
  | _, _ => i + 1
  end.
Definition link_conf (k : lkind) (cfg : lcfg) (chunks : list (list N * list moutcome)) (obs : list lobs) : bool :=
  link_conf_from 0 k cfg LConnecting false chunks obs =? 0.

Definition lob (fr : list frame) (cl : bool) (md : list modcall) (rt : list (list str * list N)) : lobs :=
  {| lo_frames := fr; lo_closed := cl; lo_mod := md; lo_routed := rt |}.

(* ---------- S2mClient ---------- *)
(* the client's read path: session limits come from the handshake's S2M_CONNECT_ACK *)
Definition client_rcfg (max_message max_payload : N) : rcfg :=
  {| max_msg := N.to_nat max_message; max_payload := max_payload; geo := [(1, max_payload)] |}.

Definition creply_of_bytes (max_message max_payload id : N) (bytes : list N) : creply :=
  match parse_stream schema Checked (client_rcfg max_message max_payload) bytes with
  | Dispatch m p :: _ =>
      match correlation_id schema m with
      | Some i => if i =? id then CrMsg m p else CrFail
      | None => CrFail
      end
  | _ => CrFail
  end.

Definition cresult_eqb (a b : cresult) : bool :=
  match a, b with
  | RAuthSuccess u, RAuthSuccess u' => list_eqb u u'
  | RAuthContinue c, RAuthContinue c' => list_eqb c c'
  | RAuthFail, RAuthFail | RValid, RValid | RInvalid, RInvalid | REventOk, REventOk | RErr, RErr | RPanic, RPanic => true
  | RAltered p, RAltered p' => list_eqb p p'
  | _, _ => false
  end.

(* tag: 0 auth, 1 fbp, 2 event, 3 spp; `declared`: the operation was in the handshake's list;
   reply = None: the peer wrote nothing (or dropped the link) *)
Definition client_conf (tag : N) (declared : bool) (max_message max_payload id : N) (reply : option (list N))
           (observed : cresult) : bool :=
  let r := match reply with Some b => creply_of_bytes max_message max_payload id b | None => CrFail end in
  let res := if tag =? 0 then c_auth declared r
             else if tag =? 1 then c_fbp declared r
             else if tag =? 2 then (match c_event declared r with REventOk => RValid | x => x end)
             else c_spp declared r in
  cresult_eqb res observed.

(* ---------- several requests in flight on one S2M link (Model/LinkConc.v) ---------- *)
(* evs: the requests in the order they were written to the link and the modulator's answers in the order they were
   released; wire: every frame the dispatcher wrote back after the handshake, in order *)
Definition conc_conf (cfg : lcfg) (hb : N) (evs : list lev) (wire : list frame) (closed : bool) : bool :=
  let s := lc_run cfg hb evs in
  frames_eqb (lframes (lc_wire s)) wire && Bool.eqb (lc_closed s) closed.
