(* Correspondence of Model/Outbound.v with the real connection writer. *)
From NW Require Import Base.Bytes Model.SchemaTypes Gen.Schema Gen.Consts Model.Codec Model.Outbound Model.Server Conf.CodecConf.

Fixpoint chunks (fuel n : nat) (l : list item) : list (list item) :=
  match fuel with
  | O => []
  | S f => match l with [] => [] | _ => firstn n l :: chunks f n (skipn n l) end
  end.

Definition mk_item (max_msg : nat) (m : msg) (p : option (list N)) : option item :=
  match header_of schema m max_msg with Some h => Some (h, p) | None => None end.

Fixpoint mk_items (max_msg : nat) (l : list (msg * option (list N))) : option (list item) :=
  match l with
  | [] => Some []
  | (m, p) :: r => match mk_item max_msg m p, mk_items max_msg r with
                   | Some i, Some is => Some (i :: is)
                   | _, _ => None
                   end
  end.

Fixpoint is_prefix (a b : list N) : bool :=
  match a, b with
  | [], _ => true
  | x :: a', y :: b' => (x =? y) && is_prefix a' b'
  | _, _ => false
  end.

(* observed = frames of the first j queued items ++ tail, for some j *)
Fixpoint some_prefix_then (q : list item) (tail observed : list N) : bool :=
  list_eqb observed tail ||
  match q with
  | [] => false
  | it :: r => let fb := frame_bytes it in
               is_prefix fb observed && some_prefix_then r tail (skipn (length fb) observed)
  end.

(* items queued inline by a dispatcher into a queue of capacity cap, then written through the oracle
   in batches of at most max_iovs; `failed` = the implementation reported a write error *)
Definition out_case (max_msg cap : nat) (its : list (msg * option (list N))) (oracle : list wres)
           (observed : list N) : bool :=
  match mk_items max_msg its with
  | None => true      (* a header did not fit: not an outbound-path case *)
  | Some items =>
      let '(q, overflow) := enqueue_all cap [] items in
      if overflow then
        match header_of schema (err_msg None "OUTBOUND_QUEUE_FULL") max_msg with
        | Some e => some_prefix_then q e observed
        | None => true
        end
      else
        let '(w, res) := write_batches (oracle ++ repeat (Accept (S (length observed))) (S (length observed))) (chunks (S (length q)) (N.to_nat max_iovs) q) [] in
        list_eqb w observed
  end.
