(* Correspondence of Model/Framing.v and Model/Pool.v with the real connection read path. *)
From NW Require Import Base.Bytes Model.SchemaTypes Gen.Schema Model.Codec Model.MsgInfo Model.Pool Model.Framing Conf.CodecConf.

Definition ritem_eqb (a b : ritem) : bool :=
  match a, b with
  | Dispatch m p, Dispatch m' p' => msg_eqb m m' && opt_eqb list_eqb p p'
  | EMaxLine, EMaxLine => true
  | EPayloadTooLarge i, EPayloadTooLarge j => opt_eqb N.eqb i j
  | EBadRequest, EBadRequest => true
  | EInvalidPayload i, EInvalidPayload j => opt_eqb N.eqb i j
  | EInternal, EInternal => true
  | EofQuiet, EofQuiet => true
  | PanicPool, PanicPool => true
  | PanicDecode, PanicDecode => true
  | _, _ => false
  end.

Fixpoint ritems_eqb (a b : list ritem) : bool :=
  match a, b with
  | [], [] => true
  | x :: a', y :: b' => ritem_eqb x y && ritems_eqb a' b'
  | _, _ => false
  end.

(* the pool geometry ConnManager::new builds: (256, max_payload, budget, cap, 2, 0.5) *)
Definition conn_geo (max_payload budget cap : N) : list (N * N) := geometry 256 max_payload budget cap 2 1 2.

Definition mkcfg (max_msg : N) (max_payload budget max_conns : N) : rcfg :=
  {| max_msg := N.to_nat max_msg; max_payload := max_payload;
     geo := conn_geo max_payload budget (max_conns + max_conns * 128) |}.

(* model on the given segmentation = observation, and spec on the unsegmented stream = observation *)
Definition framing_case (md : mode) (c : rcfg) (segs : list (list N)) (obs : list ritem) : bool :=
  ritems_eqb (run_reader schema md c segs) obs && ritems_eqb (parse_stream schema md c (concat segs)) obs.

Definition geo_case (max budget cap : N) (bytes count : N) (probes : list (N * option N)) : bool :=
  let g := geometry 256 max budget cap 2 1 2 in
  (total_bytes g =? bytes) && (total_count g =? count)
  && forallb (fun p => opt_eqb N.eqb (bucket_for g (fst p)) (snd p)) probes.
