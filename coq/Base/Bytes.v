(* Bytes are natural numbers (N) below 256; strings on the wire are lists of bytes. *)
From Coq Require Export String Ascii.
From Coq Require Export NArith Arith Bool Lia List.
Export ListNotations.
Open Scope N_scope.

Definition byte := N.

(* Coq string literal -> bytes (used by generated tables and witnesses) *)
Definition bs (s : string) : list N := map N_of_ascii (list_ascii_of_string s).

Fixpoint list_eqb (a b : list N) : bool :=
  match a, b with
  | [], [] => true
  | x :: a', y :: b' => (x =? y) && list_eqb a' b'
  | _, _ => false
  end.

Lemma list_eqb_eq a b : list_eqb a b = true <-> a = b.
Proof.
  revert b; induction a as [|x a IH]; intros [|y b]; cbn [list_eqb]; split; intro H;
    try reflexivity; try discriminate.
  - apply andb_true_iff in H as [H1 H2]. apply N.eqb_eq in H1. apply IH in H2. congruence.
  - injection H as -> ->. rewrite N.eqb_refl. cbn. apply IH. reflexivity.
Qed.

Lemma list_eqb_refl a : list_eqb a a = true.
Proof. apply list_eqb_eq. reflexivity. Qed.

Definition mem (x : N) (l : list N) : bool := existsb (N.eqb x) l.

Lemma mem_In x l : mem x l = true <-> In x l.
Proof.
  unfold mem. rewrite existsb_exists. split.
  - intros (y & Hy & E). apply N.eqb_eq in E. subst. exact Hy.
  - intro H. exists x. split; [exact H | apply N.eqb_refl].
Qed.

Definition slice (buf : list N) (from to : nat) : list N := firstn (to - from) (skipn from buf).

(* lexicographic comparison of byte strings (Rust's `str::cmp` is byte-wise) *)
Fixpoint bytes_ltb (a b : list N) : bool :=
  match a, b with
  | [], [] => false
  | [], _ :: _ => true
  | _ :: _, [] => false
  | x :: a', y :: b' => if x <? y then true else if y <? x then false else bytes_ltb a' b'
  end.

(* result of a model function that mirrors Rust control flow *)
Inductive res (A : Type) : Type :=
| Ok (a : A)
| Err            (* a Rust `Err(_)` *)
| Panic          (* a Rust panic (overflow check, unwrap, index) *)
| OutOfFuel.     (* model artefact: excluded by totality theorems *)
Arguments Ok {A} a.
Arguments Err {A}.
Arguments Panic {A}.
Arguments OutOfFuel {A}.

Definition bind {A B} (r : res A) (f : A -> res B) : res B :=
  match r with Ok a => f a | Err => Err | Panic => Panic | OutOfFuel => OutOfFuel end.
Notation "x <- r ;; k" := (bind r (fun x => k)) (at level 61, r at next level, right associativity).
Notation "' p <- r ;; k" := (bind r (fun p => k)) (at level 61, p pattern, r at next level, right associativity).

Inductive mode := Checked | Wrapping.   (* dev profile (overflow-checks) / release profile *)
