(* step_x reaches only states that plain op lists reach: every invariant proved for all op lists carries over. *)
From NW Require Import Base.Bytes Model.SchemaTypes Gen.Schema Model.Codec Model.MsgInfo Model.Ids Model.Server Model.ServerX.
From NW Require Import Proofs.ServerInvBase Proofs.ServerInv.

Lemma run_state_app : forall cfg ops1 ops2 s, run_state cfg s (ops1 ++ ops2) = run_state cfg (run_state cfg s ops1) ops2.
Proof. intros cfg ops1; induction ops1 as [|o r IH]; intros ops2 s; cbn [run_state app]; [reflexivity | apply IH]. Qed.

Lemma settle_state : forall fuel cfg hi s os dead,
  fst (fst (settle fuel cfg hi s os dead)) = run_state cfg s (settle_ops fuel cfg hi s os dead).
Proof.
  induction fuel as [|f IH]; intros cfg hi s os dead; cbn [settle settle_ops]; [reflexivity |].
  destruct (filter (fun h => negb (existsb (N.eqb h) dead)) (victims cfg os)) as [|h t]; [reflexivity |].
  destruct (step cfg s (Hangup h [] hi)) as [s1 os1] eqn:E.
  cbn [run_state]. rewrite E. cbn [fst]. apply IH.
Qed.

Theorem step_x_is_plain_ops : forall cfg s o,
  fst (fst (step_x cfg s o)) = run_state cfg s (expand cfg s [o]).
Proof.
  intros cfg s o. unfold step_x. cbn [expand].
  destruct (step cfg s o) as [s1 os1] eqn:E.
  rewrite app_nil_r. cbn [run_state]. rewrite E. cbn [fst]. apply settle_state.
Qed.

Theorem run_state_x_is_plain_ops : forall cfg ops s,
  run_state_x cfg s ops = run_state cfg s (expand cfg s ops).
Proof.
  intros cfg ops; induction ops as [|o r IH]; intros s; cbn [run_state_x expand]; [reflexivity |].
  destruct (step cfg s o) as [s1 os1] eqn:E.
  change (o :: settle_ops (S (length (conns s1))) cfg (op_hints o) s1 os1 [] ++ expand cfg (fst (fst (step_x cfg s o))) r)
    with ((o :: settle_ops (S (length (conns s1))) cfg (op_hints o) s1 os1 []) ++ expand cfg (fst (fst (step_x cfg s o))) r).
  rewrite run_state_app. rewrite IH. f_equal.
  unfold step_x. rewrite E. cbn [run_state]. rewrite E. cbn [fst]. apply settle_state.
Qed.

(* every property of all reachable states of the plain semantics holds of the states step_x reaches *)
Corollary reachable_x_transfer : forall (P : scfg -> state -> Prop),
  (forall cfg ops, P cfg (run_state cfg init ops)) -> forall cfg ops, P cfg (run_state_x cfg init ops).
Proof. intros P H cfg ops. rewrite run_state_x_is_plain_ops. apply H. Qed.

(* the invariant, with the same side condition as for the plain semantics (an Open never reuses the handler of a live
   authenticated connection), evaluated along the x-run *)
Fixpoint ops_ok_x (cfg : scfg) (s : state) (ops : list op) : Prop :=
  match ops with
  | [] => True
  | o :: r => op_ok cfg s o /\ ops_ok_x cfg (fst (fst (step_x cfg s o))) r
  end.

Lemma settle_inv : forall fuel cfg hi s os dead, Inv cfg s -> Inv cfg (fst (fst (settle fuel cfg hi s os dead))).
Proof.
  induction fuel as [|f IH]; intros cfg hi s os dead HI; cbn [settle]; [exact HI |].
  destruct (filter (fun h => negb (existsb (N.eqb h) dead)) (victims cfg os)) as [|h t]; [exact HI |].
  destruct (step cfg s (Hangup h [] hi)) as [s1 os1] eqn:E.
  apply IH. replace s1 with (fst (step cfg s (Hangup h [] hi))) by (rewrite E; reflexivity).
  apply inv_step; [exact HI | exact I].
Qed.

Theorem inv_step_x : forall cfg s o, Inv cfg s -> op_ok cfg s o -> Inv cfg (fst (fst (step_x cfg s o))).
Proof.
  intros cfg s o HI Hok. unfold step_x. destruct (step cfg s o) as [s1 os1] eqn:E.
  apply settle_inv. replace s1 with (fst (step cfg s o)) by (rewrite E; reflexivity). apply inv_step; assumption.
Qed.

Theorem inv_reachable_x : forall cfg ops, ops_ok_x cfg init ops -> Inv cfg (run_state_x cfg init ops).
Proof.
  intros cfg ops. generalize (inv_init cfg). generalize init.
  induction ops as [|o r IH]; intros s HI Hok; cbn [run_state_x]; [exact HI |].
  destruct Hok as [H1 H2]. apply IH; [apply inv_step_x; assumption | exact H2].
Qed.

Print Assumptions run_state_x_is_plain_ops.
Print Assumptions inv_reachable_x.
Print Assumptions reachable_x_transfer.

(* ---------- what step_x writes: nothing new ---------- *)
(* a frame too large for the buffer keeps its correlation id when it is replaced *)
Lemma shrink_reply_same_id : forall cfg h m p,
  match shrink_reply cfg (OSend h m p) with
  | OSend h' m' p' => h' = h /\ p' = p /\ (m' = m \/ (oversize cfg m = true /\ exists id, correlation_id schema m = Some id /\ m' = err_msg (Some id) "RESPONSE_TOO_LARGE"))
  | _ => False
  end.
Proof.
  intros cfg h m p. unfold shrink_reply. destruct (oversize cfg m) eqn:E.
  - destruct (correlation_id schema m) as [id|] eqn:C.
    + repeat split; try reflexivity. right. split; [reflexivity | exists id; split; reflexivity].
    + repeat split; try reflexivity. left; reflexivity.
  - repeat split; try reflexivity. left; reflexivity.
Qed.

Lemma err_msg_correlation : forall id reason,
  correlation_id schema (err_msg (Some id) reason) = Some id.
Proof. intros id reason. reflexivity. Qed.

(* every frame delivered after settling is a frame some plain step emitted, possibly shrunk; nothing is invented *)
Lemma deliver_sound : forall cfg vs os o,
  In o (deliver cfg vs os) ->
  (In o os /\ match o with OSend _ _ _ => False | _ => True end) \/
  (exists h m p, In (OSend h m p) os /\ existsb (N.eqb h) vs = false /\ o = shrink_reply cfg (OSend h m p)).
Proof.
  intros cfg vs os o H. unfold deliver in H. apply in_flat_map in H. destruct H as [x [Hx Ho]].
  destruct x as [h m p|h m|h|h|c].
  - destruct (existsb (N.eqb h) vs) eqn:E; [contradiction |].
    destruct Ho as [Ho|[]]. right. exists h, m, p. repeat split; [exact Hx | exact E | symmetry; exact Ho].
  - destruct Ho as [Ho|[]]. subst o. left. split; [exact Hx | exact I].
  - destruct Ho as [Ho|[]]. subst o. left. split; [exact Hx | exact I].
  - destruct Ho as [Ho|[]]. subst o. left. split; [exact Hx | exact I].
  - destruct Ho as [Ho|[]]. subst o. left. split; [exact Hx | exact I].
Qed.

(* payload-bearing frames written by step_x carry a payload some plain step attached to a frame for the same connection *)
Corollary deliver_payloads : forall cfg vs os h m q,
  In (OSend h m (Some q)) (deliver cfg vs os) -> exists m0, In (OSend h m0 (Some q)) os.
Proof.
  intros cfg vs os h m q H. apply deliver_sound in H. destruct H as [[_ F]|[h0 [m0 [p0 [Hin [_ Heq]]]]]]; [contradiction |].
  pose proof (shrink_reply_same_id cfg h0 m0 p0) as S. rewrite <- Heq in S. destruct S as [Hh [Hp _]].
  subst h0 p0. exists m0. exact Hin.
Qed.

Print Assumptions deliver_sound.
Print Assumptions deliver_payloads.
Print Assumptions shrink_reply_same_id.
