(* Consequences of segmentation independence + payload opacity: the specification's fuel is
   irrelevant once it exceeds the stream length, and payload opacity holds for parse_stream and for
   the buffered reader under any segmentation. *)
From NW Require Import Base.Bytes Model.SchemaTypes Model.Codec Model.MsgInfo Model.Pool Model.Framing.
From NW Require Import Proofs.FramingSeg Proofs.FramingOpaque.
Local Open Scope nat_scope.

Lemma frames_fuel_irrelevant sch md c s f f' :
  length s < f -> length s < f' -> frames f sch md c s = frames f' sch md c s.
Proof.
  intros Hf Hf'.
  set (segs := match s with [] => [] | _ :: _ => [s] end).
  assert (Hc : concat segs = s).
  { unfold segs. destruct s; cbn [concat]; [reflexivity | apply app_nil_r]. }
  assert (Hne : Forall (fun x : list N => x <> []) segs).
  { unfold segs. destruct s; repeat constructor. discriminate. }
  pose proof (conn_read_frames sch md c f f {| data := []; line := None |} segs) as H1.
  pose proof (conn_read_frames sch md c f f' {| data := []; line := None |} segs) as H2.
  cbn [unc compact line data app length] in H1, H2. rewrite Hc in H1, H2.
  rewrite <- H1, <- H2; auto; lia.
Qed.

Theorem payload_opaque_stream : forall sch md c l m id len rest,
  ~ In NL l -> (length l < max_msg c)%nat ->
  deserialize sch md l = Ok m ->
  payload_info sch m = Some (id, len) ->
  (len <=? max_payload c)%N = true ->
  bucket_for (geo c) len <> None ->
  length rest = N.to_nat len ->
  forall tail,
    parse_stream sch md c (l ++ [NL] ++ rest ++ [NL] ++ tail)
    = Dispatch m (Some rest) :: parse_stream sch md c tail.
Proof.
  intros sch md c l m id len rest Hnl Hl Hd Hp Hmax Hb Hlen tail.
  unfold parse_stream.
  rewrite (payload_opaque _ sch md c l m id len rest) by assumption.
  f_equal. apply frames_fuel_irrelevant; [|lia].
  rewrite !app_length. cbn [length]. lia.
Qed.

(* the buffered reader, under any segmentation of header, payload and what follows *)
Theorem payload_opaque_reader : forall sch md c l m id len rest segs segs',
  ~ In NL l -> (length l < max_msg c)%nat ->
  deserialize sch md l = Ok m ->
  payload_info sch m = Some (id, len) ->
  (len <=? max_payload c)%N = true ->
  bucket_for (geo c) len <> None ->
  length rest = N.to_nat len ->
  Forall (fun s => s <> []) segs -> Forall (fun s => s <> []) segs' ->
  concat segs = l ++ [NL] ++ rest ++ [NL] ++ concat segs' ->
  run_reader sch md c segs = Dispatch m (Some rest) :: run_reader sch md c segs'.
Proof.
  intros sch md c l m id len rest segs segs' Hnl Hl Hd Hp Hmax Hb Hlen Hs Hs' E.
  rewrite !run_reader_segmentation_independent_gen by assumption.
  rewrite E. eapply payload_opaque_stream; eassumption.
Qed.

Print Assumptions frames_fuel_irrelevant.
Print Assumptions payload_opaque_stream.
Print Assumptions payload_opaque_reader.
