(* Payload opacity on the specification: once a header line announcing a payload of length len has
   been accepted, the next len bytes are passed through verbatim whatever their values (newlines,
   header-like text, ...) and never influence control flow. *)
From NW Require Import Base.Bytes Model.SchemaTypes Model.Codec Model.MsgInfo Model.Pool Model.Framing.
Local Open Scope nat_scope.

Lemma find_index_app_none f a b :
  find_index f a = None ->
  find_index f (a ++ b) = option_map (Nat.add (length a)) (find_index f b).
Proof.
  induction a as [|x a IH]; cbn [app find_index length]; intro H.
  - destruct (find_index f b); reflexivity.
  - destruct (f x); [discriminate|].
    destruct (find_index f a); cbn [option_map] in H; [discriminate|].
    rewrite IH by reflexivity. destruct (find_index f b); reflexivity.
Qed.

Lemma find_index_NL_none l : ~ In NL l -> find_index (N.eqb NL) l = None.
Proof.
  induction l as [|x l IH]; cbn [find_index]; intro H; [reflexivity|].
  destruct (N.eqb NL x) eqn:E.
  - apply N.eqb_eq in E. exfalso. apply H. left. symmetry. exact E.
  - rewrite IH; [reflexivity|]. intro Hin. apply H. right. exact Hin.
Qed.

(* a line without newline, shorter than the limit and followed by a newline, is split off *)
Lemma split_line_header cap l s :
  ~ In NL l -> length l < cap -> split_line cap (l ++ NL :: s) = SLine l s.
Proof.
  intros Hnl Hlen. unfold split_line.
  rewrite firstn_app, (firstn_all2 l) by lia.
  rewrite find_index_app_none by (apply find_index_NL_none; exact Hnl).
  destruct (cap - length l) as [|k] eqn:Ek; [lia|].
  cbn [firstn find_index]. rewrite N.eqb_refl. cbn [option_map].
  rewrite Nat.add_0_r.
  rewrite firstn_app, firstn_all, Nat.sub_diag. cbn [firstn]. rewrite app_nil_r.
  rewrite skipn_app, (skipn_all2 l) by lia.
  replace (S (length l) - length l) with 1 by lia. reflexivity.
Qed.

Theorem payload_opaque : forall f sch md c l m id len rest,
  ~ In NL l -> (length l < max_msg c)%nat ->
  deserialize sch md l = Ok m ->
  payload_info sch m = Some (id, len) ->
  (len <=? max_payload c)%N = true ->
  bucket_for (geo c) len <> None ->
  length rest = N.to_nat len ->
  forall tail,
    frames (S f) sch md c (l ++ [NL] ++ rest ++ [NL] ++ tail)
    = Dispatch m (Some rest) :: frames f sch md c tail.
Proof.
  intros f sch md c l m id len rest Hnl Hl Hd Hp Hmax Hb Hlen tail.
  cbn [frames app].
  rewrite split_line_header by assumption.
  rewrite Hd, Hp.
  replace (max_payload c <? len)%N with false
    by (symmetry; apply N.ltb_ge; apply N.leb_le; exact Hmax).
  destruct (bucket_for (geo c) len) as [bk|]; [|congruence].
  rewrite <- Hlen.
  replace (length (rest ++ NL :: tail) <? length rest + 1) with false
    by (symmetry; apply Nat.ltb_ge; rewrite app_length; cbn [length]; lia).
  rewrite app_nth2 by lia. rewrite Nat.sub_diag. cbn [nth]. rewrite N.eqb_refl.
  rewrite firstn_app, firstn_all, Nat.sub_diag. cbn [firstn]. rewrite app_nil_r.
  rewrite skipn_app, (skipn_all2 rest) by lia.
  replace (S (length rest) - length rest) with 1 by lia. reflexivity.
Qed.

Print Assumptions payload_opaque.
