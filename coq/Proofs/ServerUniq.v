(* Key-uniqueness of the four association lists of the server state: an independent invariant
   (holds for ALL ops, including a re-Open). *)
From NW Require Import Base.Bytes Model.SchemaTypes Model.Codec Model.Ids Model.Framing Model.Server.
From NW Require Import Proofs.ServerInvBase Proofs.ServerInv.

Definition Uniq (s : state) : Prop :=
  NoDup (map fst (chans s)) /\ NoDup (map fst (router s)) /\
  NoDup (map fst (inch s)) /\ NoDup (map fst (conns s)).

Lemma alookup_None_keys {A} h (l : list (str * A)) : alookup h l = None <-> ~ In h (map fst l).
Proof.
  induction l as [|[k v] l IH]; cbn [alookup map fst In]; [tauto|].
  destruct (list_eqb_spec h k) as [->|E].
  - split; [discriminate | intro H; exfalso; apply H; left; reflexivity].
  - rewrite IH. split; [intros H [K|K]; [congruence | contradiction] | tauto].
Qed.

Lemma keys_map_upd {A} h (v : A) (f : str * A -> str * A) l :
  (forall e, f e = if list_eqb (fst e) h then (h, v) else e) ->
  map fst (map f l) = map fst l.
Proof.
  intro Hf. rewrite map_map. apply map_ext. intro e. rewrite Hf.
  destruct (list_eqb_spec (fst e) h) as [E|E]; [symmetry; exact E | reflexivity].
Qed.

Lemma keys_snoc {A} h (v : A) l :
  NoDup (map fst l) -> alookup h l = None -> NoDup (map fst (l ++ [(h, v)])).
Proof.
  intros Hn Hl. rewrite map_app. cbn [map fst]. apply NoDup_snoc; [exact Hn|].
  apply alookup_None_keys. exact Hl.
Qed.

Lemma keys_upsert {A} h (v : A) f l :
  (forall e, f e = if list_eqb (fst e) h then (h, v) else e) ->
  NoDup (map fst l) -> NoDup (map fst (upsert h v f l)).
Proof.
  intros Hf Hn. unfold upsert. destruct (alookup h l) eqn:E.
  - rewrite (keys_map_upd h v f l Hf). exact Hn.
  - apply keys_snoc; assumption.
Qed.

Lemma keys_aremove {A} h (l : list (str * A)) :
  map fst (aremove h l) = filter (fun k => negb (list_eqb h k)) (map fst l).
Proof.
  induction l as [|[k v] l IH]; cbn [aremove map fst filter]; [reflexivity|].
  destruct (list_eqb h k); cbn [negb map fst]; rewrite IH; reflexivity.
Qed.

Lemma NoDup_keys_aremove {A} h (l : list (str * A)) : NoDup (map fst l) -> NoDup (map fst (aremove h l)).
Proof. intro H. rewrite keys_aremove. apply NoDup_filter. exact H. Qed.

Lemma keys_nremove {A} h (l : list (N * A)) :
  map fst (nremove h l) = filter (fun k => negb (h =? k)) (map fst l).
Proof.
  unfold nremove. induction l as [|[k v] l IH]; cbn [map fst filter]; [reflexivity|].
  destruct (h =? k); cbn [negb map fst]; rewrite IH; reflexivity.
Qed.

Lemma NoDup_keys_nremove {A} h (l : list (N * A)) : NoDup (map fst l) -> NoDup (map fst (nremove h l)).
Proof. intro H. rewrite keys_nremove. apply NoDup_filter. exact H. Qed.

Lemma NoDup_keys_nset {A} h (v : A) l : NoDup (map fst l) -> NoDup (map fst (nset h v l)).
Proof.
  intro H. unfold nset. cbn [map fst]. constructor; [|apply NoDup_keys_nremove; exact H].
  rewrite keys_nremove, filter_In, N.eqb_refl. intros [_ K]. discriminate.
Qed.

(* ---------- setters ---------- *)
Lemma Uniq_put_chan h ch s : Uniq s -> Uniq (put_chan h ch s).
Proof.
  intros (H1 & H2 & H3 & H4). unfold Uniq, put_chan; cbn [chans router inch conns].
  repeat split; try assumption.
  apply (keys_upsert h ch (fun e => if list_eqb (fst e) h then (h, ch) else e) (chans s)); [reflexivity | exact H1].
Qed.

Lemma Uniq_del_chan h s : Uniq s -> Uniq (del_chan h s).
Proof.
  intros (H1 & H2 & H3 & H4). unfold Uniq, del_chan; cbn [chans router inch conns].
  repeat split; try assumption. apply NoDup_keys_aremove. exact H1.
Qed.

Lemma Uniq_index_add u cf s : Uniq s -> Uniq (index_add u cf s).
Proof.
  intros (H1 & H2 & H3 & H4). unfold Uniq, index_add, set_inch; cbn [chans router inch conns].
  repeat split; try assumption.
  destruct (alookup u (inch s)) as [l|] eqn:E.
  - rewrite (keys_map_upd u (sadd cf l)); [exact H3 | reflexivity].
  - apply keys_snoc; assumption.
Qed.

Lemma Uniq_index_del u cf s : Uniq s -> Uniq (index_del u cf s).
Proof.
  intros (H1 & H2 & H3 & H4). unfold index_del.
  destruct (alookup u (inch s)) as [l|] eqn:E; [|repeat split; assumption].
  unfold Uniq, set_inch; cbn [chans router inch conns]. repeat split; try assumption.
  destruct (isempty (sdel cf l)).
  - apply NoDup_keys_aremove. exact H3.
  - rewrite (keys_map_upd u (sdel cf l)); [exact H3 | reflexivity].
Qed.

Lemma Uniq_set_conns_nset h cn s : Uniq s -> Uniq (set_conns (nset h cn (conns s)) s).
Proof.
  intros (H1 & H2 & H3 & H4). unfold Uniq, set_conns; cbn [chans router inch conns].
  repeat split; try assumption. apply NoDup_keys_nset. exact H4.
Qed.

Lemma Uniq_register u h ex s s2 : register u h ex s = Some s2 -> Uniq s -> Uniq s2.
Proof.
  unfold register. destruct (ex && _); [discriminate|]. intro H; injection H as <-.
  intros (H1 & H2 & H3 & H4). unfold Uniq, set_router; cbn [chans router inch conns].
  repeat split; try assumption.
  destruct (alookup u (router s)) as [hs|] eqn:E.
  - rewrite (keys_map_upd u (hs ++ [h])); [exact H2 | reflexivity].
  - apply keys_snoc; assumption.
Qed.

Lemma Uniq_leave_st hd cf n ch pick s : Uniq s -> Uniq (leave_st hd cf n ch pick s).
Proof.
  intro H. unfold leave_st. destruct (isempty _).
  - apply Uniq_del_chan, Uniq_index_del, H.
  - apply Uniq_put_chan, Uniq_index_del, H.
Qed.

(* ---------- handlers ---------- *)
Lemma leave_core_uniq cfg req id me hd dom cf ob c :
  Uniq (st c) -> Uniq (st (fst (leave_core cfg req id me hd dom cf ob c))).
Proof.
  intro H.
  destruct (leave_core_spec cfg req id me hd dom cf ob c) as [[-> _]|(ch & pick & _ & _ & _ & _ & ->)];
    [exact H | apply Uniq_leave_st; exact H].
Qed.

Lemma h_leave_uniq cfg h me m c : Uniq (st c) -> Uniq (st (fst (h_leave cfg h me m c))).
Proof.
  intro H. unfold h_leave.
  destruct (chan_parse (get_str m "channel")) as [[hd dom]|]; [|exact H].
  destruct (get_ostr m "on_behalf") as [s|]; [|apply leave_core_uniq; exact H].
  destruct (nid_parse s); [apply leave_core_uniq; exact H | exact H].
Qed.

Lemma dispatch_auth_uniq cfg h me m p c :
  Uniq (st c) -> Uniq (st (fst (dispatch_auth cfg h me m p c))).
Proof.
  intro H. unfold dispatch_auth. cbv zeta.
  destruct (is_kind m "BROADCAST"); [rewrite h_broadcast_st; exact H|].
  destruct (is_kind m "GET_CHAN_ACL"); [rewrite h_get_acl_st; exact H|].
  destruct (is_kind m "GET_CHAN_CONFIG"); [rewrite h_get_config_st; exact H|].
  destruct (is_kind m "JOIN").
  { pose proof (h_join_spec cfg h me m c) as Hs.
    destruct (snd (h_join cfg h me m c)); [rewrite Hs; exact H|].
    destruct Hs as (hd & n & _ & _ & _ & ->). apply Uniq_index_add, Uniq_put_chan, H. }
  destruct (is_kind m "LEAVE"); [apply h_leave_uniq; exact H|].
  destruct (is_kind m "CHANNELS"); [exact H|].
  destruct (is_kind m "MEMBERS"); [rewrite h_members_st; exact H|].
  destruct (is_kind m "MOD_DIRECT"); [rewrite h_mod_direct_st; exact H|].
  destruct (is_kind m "SET_CHAN_ACL").
  { destruct (h_set_acl_spec cfg h me m c) as [->|(hd & ch & ty & a & _ & ->)];
      [exact H | apply Uniq_put_chan; exact H]. }
  destruct (is_kind m "SET_CHAN_CONFIG").
  { destruct (h_set_config_spec cfg h me m c) as [->|(hd & ch & mc & mp & _ & ->)];
      [exact H | apply Uniq_put_chan; exact H]. }
  exact H.
Qed.

Lemma on_frame_uniq cfg h m p c : Uniq (st c) -> Uniq (st (on_frame cfg h m p c)).
Proof.
  intro H. unfold on_frame.
  destruct (nlookup h (conns (st c))) as [cn|]; [|exact H].
  destruct (existsb _ _); [exact H|].
  destruct (c_phase cn).
  - destruct (is_kind m "CONNECT"); [|rewrite notify_error_st; exact H].
    destruct (negb _); [rewrite notify_error_st; exact H|].
    cbv zeta. rewrite set_conn_st, emit_st. apply Uniq_set_conns_nset. exact H.
  - destruct (is_kind m "AUTH").
    { destruct (negb (auth_required cfg)); [rewrite notify_error_st; exact H|].
      cbv zeta. destruct (next_outcome _) as [o c1] eqn:En. apply next_outcome_st' in En. rewrite emit_st in En.
      destruct o; rewrite ?notify_error_st, ?emit_st, ?En; try exact H.
      destruct (make_local_nid (domain cfg) u) as [n|]; [|rewrite notify_error_st, En; exact H].
      destruct (register (nu n) h false (st c)) as [s2|] eqn:Hreg; [|rewrite En; exact H].
      rewrite set_conn_st, emit_st, with_st_st. apply Uniq_set_conns_nset.
      exact (Uniq_register _ _ _ _ _ Hreg H). }
    destruct (is_kind m "IDENTIFY"); [|rewrite notify_error_st; exact H].
    destruct (auth_required cfg); [rewrite notify_error_st; exact H|].
    destruct (make_local_nid (domain cfg) (trim (get_str m "username"))) as [n|];
      [|rewrite notify_error_st; exact H].
    destruct (register (nu n) h true (st c)) as [s2|] eqn:Hreg; [|rewrite notify_error_st; exact H].
    rewrite set_conn_st, emit_st, with_st_st. apply Uniq_set_conns_nset.
    exact (Uniq_register _ _ _ _ _ Hreg H).
  - destruct (is_kind m "PONG"); [exact H|].
    destruct (max_inflight cfg =? 0); [rewrite drop_conn_st; exact H|].
    destruct (c_nid cn) as [me|]; [|exact H].
    pose proof (dispatch_auth_uniq cfg h me m p c H) as K.
    destruct (dispatch_auth cfg h me m p c) as [c1 r]. cbn [fst] in K.
    destruct r; [rewrite notify_error_st|]; exact K.
Qed.

Lemma leave_all_uniq cfg me c : Uniq (st c) -> Uniq (st (leave_all cfg me c)).
Proof.
  intro H. unfold leave_all. destruct (alookup (nu me) (inch (st c))) as [cfs|]; [|exact H].
  apply (fold_left_ind (fun a => Uniq (st a))).
  - intros a cf Ha. destruct (chan_parse cf) as [[hd dom]|]; [|exact Ha]. apply leave_core_uniq. exact Ha.
  - destruct H as (H1 & H2 & H3 & H4). unfold Uniq, set_inch; cbn [st with_st chans router inch conns].
    repeat split; try assumption. apply NoDup_keys_aremove. exact H3.
Qed.

Lemma teardown_uniq cfg h c : Uniq (st c) -> Uniq (st (teardown cfg h c)).
Proof.
  intro H. pose proof H as (H1 & H2 & H3 & H4). unfold teardown.
  destruct (nlookup h (conns (st c))) as [cn|]; [|exact H].
  assert (H0 : Uniq (set_conns (nremove h (conns (st c))) (st c))).
  { unfold Uniq, set_conns; cbn [chans router inch conns]. repeat split; try assumption.
    apply NoDup_keys_nremove. exact H4. }
  destruct (c_nid cn) as [me|]; [|exact H0].
  cbn [st with_st]. destruct (alookup (nu me) _) as [hs|]; [|exact H0].
  destruct (isempty _).
  - apply leave_all_uniq. cbn [st with_st]. destruct H0 as (K1 & K2 & K3 & K4).
    unfold Uniq, set_router; cbn [chans router inch conns]. repeat split; try assumption.
    apply NoDup_keys_aremove. exact K2.
  - cbn [st with_st]. destruct H0 as (K1 & K2 & K3 & K4).
    unfold Uniq, set_router; cbn [chans router inch conns]. repeat split; try assumption.
    rewrite (keys_map_upd (nu me) (filter (fun x => negb (x =? h)) hs)); [exact K2|].
    intros [k v]. cbn [fst]. destruct (list_eqb_spec k (nu me)) as [->|E]; reflexivity.
Qed.

Lemma flush_closes_uniq cfg c : Uniq (st c) -> Uniq (st (flush_closes cfg c)).
Proof.
  intro H. unfold flush_closes. cbn [st].
  apply (fold_left_ind (fun a => Uniq (st a))); [|exact H].
  intros a x Ha. apply teardown_uniq. exact Ha.
Qed.

Theorem uniq_init : Uniq init.
Proof. repeat split; constructor. Qed.

Theorem uniq_step : forall cfg s o, Uniq s -> Uniq (fst (step cfg s o)).
Proof.
  intros cfg s o H. destruct o as [h|h m p sc hi|h|h bytes sc hi|h sc hi|ts pl]; cbn [step].
  - destruct (max_conns cfg <=? _); cbn [fst]; [exact H | apply Uniq_set_conns_nset; exact H].
  - cbn [fst]. apply flush_closes_uniq, on_frame_uniq. exact H.
  - cbn [fst]. destruct (nlookup h (conns s)); [|exact H].
    apply flush_closes_uniq. rewrite request_close_st. exact H.
  - cbn [fst]. destruct (nlookup h (conns s)); [|exact H].
    apply flush_closes_uniq.
    apply (fold_left_ind (fun a => Uniq (st a))); [|exact H].
    intros a it Ha. destruct it; cbn [on_item]; rewrite ?request_close_st, ?drop_conn_st; try exact Ha.
    apply on_frame_uniq. exact Ha.
  - cbn [fst]. apply teardown_uniq. exact H.
  - exact H.
Qed.

Theorem uniq_reachable : forall cfg ops, Uniq (run_state cfg init ops).
Proof.
  intros cfg ops. generalize uniq_init. generalize init.
  induction ops as [|o r IH]; intros s H; cbn [run_state]; [exact H|].
  apply IH, uniq_step, H.
Qed.

Print Assumptions uniq_step.
Print Assumptions uniq_reachable.
