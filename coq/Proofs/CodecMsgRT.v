(* Message-level round trip: deserialize (serialize m) = m for messages outside the known
   classes (wf_rt), for any schema table satisfying the executable predicate schema_ok. *)
From Coq Require Import Permutation.
From NW Require Import Base.Bytes Model.SchemaTypes Gen.Consts Gen.Schema Model.Codec Model.CodecWf.
From NW Require Import Proofs.CodecNoPanic Proofs.CodecTotal Proofs.CodecValueRT.

(* ================================================================ schema_ok *)

Definition nonempty (l : list N) : bool := match l with [] => false | _ => true end.

(* parameter names: non-empty, made of name chars *)
Definition field_ok (f : field) : bool :=
  nonempty (f_param f) && forallb is_name_char (f_param f).

Fixpoint distinct (l : list (list N)) : bool :=
  match l with
  | [] => true
  | x :: r => negb (existsb (list_eqb x) r) && distinct r
  end.

(* wire names: non-empty, free of separators (space chars and NUL) *)
Definition name_ok (n : list N) : bool := nonempty n && all_nonsep n.

Definition kschema_ok (k : kschema) : bool :=
  name_ok (k_name k) && forallb field_ok (k_fields k) && distinct (map f_param (k_fields k)).

(* from_name (name k_i) = variant i: the own wire name is in k_from_names and in no earlier one *)
Fixpoint kinds_ok (all sch : list kschema) (i : nat) : bool :=
  match sch with
  | [] => true
  | k :: r =>
      match kind_of_name all 0 (k_name k) with Some (j, _) => (j =? i)%nat | None => false end
      && kinds_ok all r (S i)
  end.

Definition schema_ok (sch : list kschema) : bool :=
  forallb kschema_ok sch && kinds_ok sch sch 0.

Lemma schema_ok_current : schema_ok schema = true.
Proof. vm_compute. reflexivity. Qed.

(* extra hypothesis on the message: vector lengths fit a usize *)
Definition fval_len_ok (v : fval) : bool :=
  match v with VVec l => N.of_nat (length l) <=? USIZE_MAX | _ => true end.

(* ================================================================ generic helpers *)

Lemma skipn_nth {A} (l : list A) : forall n x, nth_error l n = Some x -> skipn n l = x :: skipn (S n) l.
Proof.
  induction l as [|y l IH]; intros n x H; destruct n as [|n]; try discriminate.
  - injection H as ->. reflexivity.
  - cbn [nth_error] in H. cbn [skipn]. rewrite (IH n x H). reflexivity.
Qed.

Lemma nth_error_combine {A B} (l1 : list A) : forall (l2 : list B) j x y,
  nth_error (combine l1 l2) j = Some (x, y) -> nth_error l1 j = Some x /\ nth_error l2 j = Some y.
Proof.
  induction l1 as [|a l1 IH]; intros l2 j x y H.
  - destruct j; discriminate.
  - destruct l2 as [|b l2]; [destruct j; discriminate|].
    destruct j as [|j]; cbn [combine nth_error] in H |- *.
    + injection H as -> ->. split; reflexivity.
    + apply IH. exact H.
Qed.

Lemma nth_error_ext {A} (l1 : list A) : forall l2,
  length l1 = length l2 ->
  (forall j x, nth_error l2 j = Some x -> nth_error l1 j = Some x) -> l1 = l2.
Proof.
  induction l1 as [|a l1 IH]; intros [|b l2] Hlen H; try discriminate; [reflexivity|].
  pose proof (H 0%nat b eq_refl) as H0. injection H0 as ->.
  f_equal. apply IH; [cbn [length] in Hlen; lia|].
  intros j x Hj. apply (H (S j) x). exact Hj.
Qed.

(* ================================================================ chunks *)

Fixpoint chunks_bytes (cs : list chunk) : option (list N) :=
  match cs with
  | [] => Some []
  | Unescapable :: _ => None
  | Bytes l :: r => option_map (app l) (chunks_bytes r)
  end.

Lemma run_chunks_bytes cap cs : forall acc l,
  run_chunks cap acc cs = SerOk l -> exists t, chunks_bytes cs = Some t /\ l = acc ++ t.
Proof.
  induction cs as [|c cs IH]; intros acc l H; cbn [run_chunks] in H.
  - injection H as <-. exists []. rewrite app_nil_r. split; reflexivity.
  - destruct c as [bytes|]; [|discriminate].
    destruct (cap <? length (acc ++ bytes))%nat; [discriminate|].
    destruct (IH _ _ H) as (t & Ht & ->).
    exists (bytes ++ t). cbn [chunks_bytes]. rewrite Ht. cbn [option_map].
    rewrite app_assoc. split; reflexivity.
Qed.

Lemma chunks_bytes_app a : forall b t,
  chunks_bytes (a ++ b) = Some t ->
  exists ta tb, chunks_bytes a = Some ta /\ chunks_bytes b = Some tb /\ t = ta ++ tb.
Proof.
  induction a as [|c a IH]; intros b t H.
  - exists [], t. repeat split. exact H.
  - cbn [app chunks_bytes] in H |- *. destruct c as [bytes|]; [|discriminate].
    destruct (chunks_bytes (a ++ b)) as [t'|] eqn:E; [|discriminate].
    injection H as <-.
    destruct (IH b t' E) as (ta & tb & Ha & Hb & ->).
    exists (bytes ++ ta), tb. rewrite Ha. cbn [option_map]. rewrite app_assoc. repeat split. exact Hb.
Qed.

(* ================================================================ skipping one space *)

Lemma seek_char_skip buf p : nth_error buf p = Some SP -> seek_char buf p = seek_char buf (S p).
Proof.
  intro H. unfold seek_char. rewrite (skipn_nth buf p SP H). reflexivity.
Qed.

Lemma read_escaped_string_skip buf p :
  nth_error buf p = Some SP -> read_escaped_string buf p = read_escaped_string buf (S p).
Proof. intro H. unfold read_escaped_string. rewrite (seek_char_skip buf p H). reflexivity. Qed.

Lemma read_parameter_skip buf p :
  nth_error buf p = Some SP -> read_parameter buf p = read_parameter buf (S p).
Proof. intro H. unfold read_parameter. rewrite (seek_char_skip buf p H). reflexivity. Qed.

Lemma decode_loop_skip fuel md buf p fs vs :
  nth_error buf p = Some SP ->
  decode_loop fuel md buf p None fs vs = decode_loop fuel md buf (S p) None fs vs.
Proof.
  intro H. destruct fuel as [|fuel]; [reflexivity|]. cbn [decode_loop].
  rewrite (read_parameter_skip buf p H). reflexivity.
Qed.

(* ================================================================ fuel *)

Lemma decode_loop_mono md buf fs : forall fuel p cur vs r k,
  decode_loop fuel md buf p cur fs vs = r -> r <> OutOfFuel ->
  decode_loop (fuel + k) md buf p cur fs vs = r.
Proof.
  induction fuel as [|fuel IH]; intros p cur vs r k H Hr.
  - cbn [decode_loop] in H. congruence.
  - cbn [Nat.add decode_loop] in H |- *.
    destruct (match cur with Some c => Ok (Some c, p) | None => read_parameter buf p end)
      as [[h p1]| | |]; cbn [bind] in H |- *; try exact H.
    destruct h as [[name cnt]|]; [|exact H].
    destruct (read_escaped_string buf p1) as [[v p2]| | |]; cbn [bind] in H |- *; try exact H.
    destruct v as [value|]; [|exact H].
    destruct (if cnt =? 0 then match md with Checked => Panic | Wrapping => Ok USIZE_MAX end
              else Ok (cnt - 1)) as [cnt'| | |]; cbn [bind] in H |- *; try exact H.
    destruct (assign fs vs name value) as [vs'|]; [|exact H].
    apply IH; assumption.
Qed.

Lemma decode_loop_any_fuel md buf fs fuel p vs x :
  (p <= length buf)%nat ->
  decode_loop fuel md buf p None fs vs = Ok x ->
  decode_loop (S (length buf)) md buf p None fs vs = Ok x.
Proof.
  intros Hp H.
  destruct (Nat.le_ge_cases fuel (S (length buf))) as [Hle | Hge].
  - replace (S (length buf)) with (fuel + (S (length buf) - fuel))%nat by lia.
    apply decode_loop_mono; [exact H | discriminate].
  - pose proof (decode_loop_total md buf fs (S (length buf)) p None vs Hp ltac:(lia)) as Htot.
    pose proof (decode_loop_mono md buf fs (S (length buf)) p None vs _ (fuel - S (length buf)) eq_refl Htot) as Hm.
    replace (S (length buf) + (fuel - S (length buf)))%nat with fuel in Hm by lia.
    rewrite <- Hm. exact H.
Qed.

(* ================================================================ assign *)

Lemma distinct_cons x r : distinct (x :: r) = true ->
  (forall y, In y r -> list_eqb x y = false) /\ distinct r = true.
Proof.
  cbn [distinct]. intro H. apply andb_true_iff in H as [H1 H2]. split; [|exact H2].
  intros y Hy. apply negb_true_iff in H1.
  destruct (list_eqb x y) eqn:E; [|reflexivity].
  assert (existsb (list_eqb x) r = true) by (apply existsb_exists; eauto). congruence.
Qed.

Lemma distinct_NoDup l : distinct l = true -> NoDup l.
Proof.
  induction l as [|x r IH]; intro H; [constructor|].
  apply distinct_cons in H as [H1 H2]. constructor; [|apply IH; exact H2].
  intro Hin. specialize (H1 x Hin). rewrite list_eqb_refl in H1. discriminate.
Qed.

Lemma assign_spec fs : forall vs j f old value pv,
  distinct (map f_param fs) = true ->
  nth_error fs j = Some f -> nth_error vs j = Some old ->
  parse_value (f_ty f) value = Some pv ->
  exists vs', assign fs vs (f_param f) value = Some vs' /\
              length vs' = length vs /\
              nth_error vs' j = Some (store f old pv) /\
              forall i, i <> j -> nth_error vs' i = nth_error vs i.
Proof.
  induction fs as [|g fs IH]; intros vs j f old value pv Hd Hf Hold Hpv.
  - destruct j; discriminate.
  - destruct vs as [|v vs]; [destruct j; discriminate|].
    cbn [map] in Hd. apply distinct_cons in Hd as [Hd1 Hd2].
    destruct j as [|j]; cbn [nth_error] in Hf, Hold; cbn [assign].
    + injection Hf as ->. injection Hold as ->. rewrite list_eqb_refl, Hpv.
      eexists. split; [reflexivity|]. repeat split.
      intros i Hi. destruct i; [congruence | reflexivity].
    + assert (Hne : list_eqb (f_param f) (f_param g) = false).
      { destruct (list_eqb (f_param f) (f_param g)) eqn:E; [|reflexivity].
        apply list_eqb_eq in E.
        assert (Hin : In (f_param f) (map f_param fs)) by (apply in_map; eapply nth_error_In; exact Hf).
        specialize (Hd1 _ Hin). rewrite <- E, list_eqb_refl in Hd1. discriminate. }
      rewrite Hne.
      destruct (IH vs j f old value pv Hd2 Hf Hold Hpv) as (vs' & Ha & Hl & Hn & Ho).
      rewrite Ha. cbn [option_map]. eexists. split; [reflexivity|].
      cbn [length nth_error]. repeat split; [lia | exact Hn |].
      intros i Hi. destruct i as [|i]; [reflexivity|]. cbn [nth_error]. apply Ho. lia.
Qed.

(* ================================================================ canonical order *)

Lemma insert_sorted_perm x l : Permutation (insert_sorted x l) (x :: l).
Proof.
  induction l as [|y r IH]; cbn [insert_sorted]; [apply Permutation_refl|].
  destruct (bytes_ltb _ _); [apply Permutation_refl|].
  eapply perm_trans; [apply perm_skip, IH | apply perm_swap].
Qed.

Lemma sort_fields_perm l : Permutation (sort_fields l) l.
Proof.
  induction l as [|x r IH]; cbn [sort_fields fold_right]; [apply Permutation_refl|].
  eapply perm_trans; [apply insert_sorted_perm | apply perm_skip, IH].
Qed.

Lemma filter_split_perm {A} (P : A -> bool) l :
  Permutation (filter P l ++ filter (fun x => negb (P x)) l) l.
Proof.
  induction l as [|a l IH]; cbn [filter]; [apply Permutation_refl|].
  destruct (P a); cbn [negb app].
  - apply perm_skip, IH.
  - apply Permutation_sym, Permutation_cons_app, Permutation_sym, IH.
Qed.

Lemma filter_le1 {A} (g : A -> list N) (P : A -> bool) (c : list N) l :
  NoDup (map g l) -> (forall x, P x = true -> g x = c) -> (length (filter P l) <= 1)%nat.
Proof.
  intros Hnd HP. induction l as [|a l IH]; cbn [filter length]; [lia|].
  cbn [map] in Hnd. inversion Hnd as [|x xs Hnotin Hnd']; subst.
  specialize (IH Hnd').
  destruct (P a) eqn:Ea; [|exact IH].
  destruct (filter P l) as [|b r] eqn:Ef; [cbn [length]; lia|].
  exfalso. apply Hnotin.
  assert (Hb : In b (filter P l)) by (rewrite Ef; left; reflexivity).
  apply filter_In in Hb as [Hbl Hbp].
  rewrite (HP a Ea), <- (HP b Hbp). apply in_map. exact Hbl.
Qed.

Lemma map_fst_combine {A B} (l1 : list A) : forall (l2 : list B),
  length l1 = length l2 -> map fst (combine l1 l2) = l1.
Proof.
  induction l1 as [|a l1 IH]; intros [|b l2] H; try discriminate; [reflexivity|].
  cbn [combine map fst]. rewrite IH; [reflexivity | cbn [length] in H; lia].
Qed.

Definition names (l : list (field * fval)) : list (list N) := map (fun x => f_param (fst x)) l.

Lemma names_combine fs vs : length fs = length vs -> names (combine fs vs) = map f_param fs.
Proof.
  intro H. unfold names. rewrite <- (map_fst_combine fs vs H) at 2. rewrite map_map. reflexivity.
Qed.

Lemma canon_perm fs vs :
  length fs = length vs -> NoDup (map f_param fs) ->
  Permutation (canon_order fs vs) (combine fs vs).
Proof.
  intros Hlen Hnd. unfold canon_order.
  set (all := combine fs vs).
  set (P := fun x : field * fval => list_eqb (f_param (fst x)) str_id).
  assert (Hle : (length (filter P all) <= 1)%nat).
  { apply (filter_le1 (fun x => f_param (fst x)) P str_id).
    - fold (names all). unfold all. rewrite names_combine; assumption.
    - intros x Hx. apply list_eqb_eq. exact Hx. }
  assert (Hids : match rev (filter P all) with [] => [] | x :: _ => [x] end = filter P all).
  { destruct (filter P all) as [|a [|b r]]; [reflexivity | reflexivity | cbn [length] in Hle; lia]. }
  rewrite Hids.
  eapply perm_trans; [apply Permutation_app_head, sort_fields_perm|].
  apply (filter_split_perm P all).
Qed.

(* ================================================================ name characters *)

Lemma name_char_facts c : is_name_char c = true -> sep c = false /\ c <> 61 /\ c <> 58.
Proof.
  unfold is_name_char, is_digit.
  rewrite !orb_true_iff, !andb_true_iff, !N.leb_le, N.eqb_eq. intro H.
  split; [|lia].
  destruct (sep c) eqn:E; [|reflexivity]. apply sep_small in E. lia.
Qed.

Lemma digit_facts c : is_digit c = true -> c <> 61 /\ c <> 58.
Proof.
  unfold is_digit. rewrite andb_true_iff, !N.leb_le. lia.
Qed.

Lemma find_index_hit f a : forall x rest,
  (forall y, In y a -> f y = false) -> f x = true -> find_index f (a ++ x :: rest) = Some (length a).
Proof.
  induction a as [|y a IH]; intros x rest Ha Hx; cbn [app find_index length].
  - rewrite Hx. reflexivity.
  - rewrite (Ha y (or_introl eq_refl)). rewrite IH; [reflexivity | | exact Hx].
    intros z Hz. apply Ha. right. exact Hz.
Qed.

Lemma find_index_miss f a : (forall y, In y a -> f y = false) -> find_index f a = None.
Proof.
  induction a as [|y a IH]; intro Ha; cbn [find_index]; [reflexivity|].
  rewrite (Ha y (or_introl eq_refl)). rewrite IH; [reflexivity|].
  intros z Hz. apply Ha. right. exact Hz.
Qed.

Ltac list_eq := repeat (progress (cbn [app]) || rewrite <- app_assoc); reflexivity.
Ltac len := repeat (progress (cbn [length]) || (rewrite app_length)); lia.

(* ================================================================ read_parameter on headers *)

Definition param_ok (param : list N) : Prop := param <> [] /\ forallb is_name_char param = true.

Lemma field_ok_param f : field_ok f = true -> param_ok (f_param f).
Proof.
  unfold field_ok, param_ok. intro H. apply andb_true_iff in H as [H1 H2]. split; [|exact H2].
  destruct (f_param f); [discriminate | discriminate].
Qed.

Lemma param_chars param : forallb is_name_char param = true ->
  forall y, In y param -> sep y = false /\ y <> 61 /\ y <> 58.
Proof.
  intros H y Hy. rewrite forallb_forall in H. apply name_char_facts. apply H. exact Hy.
Qed.

Lemma fmt_num_digits n : forallb is_digit (fmt_num n) = true.
Proof.
  destruct (fmt_num_shape n) as (d & r & E & Hd & Hr). rewrite E. cbn [forallb]. rewrite Hd, Hr. reflexivity.
Qed.

Lemma read_parameter_scalar buf pre param rest :
  param_ok param -> buf = pre ++ param ++ EQ :: rest ->
  read_parameter buf (length pre) = Ok (Some (param, 1), (length pre + length param + 1)%nat).
Proof.
  intros [Hne Hall] ->.
  pose proof (param_chars _ Hall) as Hch.
  destruct param as [|c param']; [congruence|].
  unfold read_parameter.
  change (pre ++ (c :: param') ++ EQ :: rest) with (pre ++ c :: (param' ++ EQ :: rest)).
  rewrite seek_char_at by (apply Hch; left; reflexivity).
  cbv beta iota zeta.
  rewrite skipn_app_exact.
  change (c :: param' ++ EQ :: rest) with ((c :: param') ++ EQ :: rest).
  rewrite (find_index_hit (N.eqb 61) (c :: param') EQ rest).
  2:{ intros y Hy. apply N.eqb_neq. intro E. destruct (Hch y Hy) as (_ & H & _). congruence. }
  2:{ reflexivity. }
  rewrite firstn_app_exact.
  rewrite (find_index_miss (N.eqb 58) (c :: param')).
  2:{ intros y Hy. apply N.eqb_neq. intro E. destruct (Hch y Hy) as (_ & _ & H). congruence. }
  rewrite Hall. reflexivity.
Qed.

Lemma skipn_S_app {A} (a : list A) x b : skipn (S (length a)) (a ++ x :: b) = b.
Proof. induction a as [|y a IH]; [reflexivity | exact IH]. Qed.

Lemma usize_lt_pow : USIZE_MAX < 10 ^ 40.
Proof. vm_compute. reflexivity. Qed.

Lemma read_parameter_vec buf pre param n rest :
  param_ok param -> n <> 0 -> n <= USIZE_MAX ->
  buf = pre ++ param ++ COLON :: fmt_num n ++ EQ :: rest ->
  read_parameter buf (length pre)
  = Ok (Some (param, n), (length pre + length param + 1 + length (fmt_num n) + 1)%nat).
Proof.
  intros [Hne Hall] Hn0 Hmax ->.
  pose proof (param_chars _ Hall) as Hch.
  pose proof (fmt_num_digits n) as Hdig. rewrite forallb_forall in Hdig.
  destruct param as [|c param']; [congruence|].
  set (param := c :: param') in *.
  unfold read_parameter.
  change (pre ++ param ++ COLON :: fmt_num n ++ EQ :: rest)
    with (pre ++ c :: (param' ++ COLON :: fmt_num n ++ EQ :: rest)).
  rewrite seek_char_at by (apply Hch; left; reflexivity).
  cbv beta iota zeta.
  rewrite skipn_app_exact.
  change (c :: param' ++ COLON :: fmt_num n ++ EQ :: rest)
    with (param ++ (COLON :: fmt_num n) ++ EQ :: rest).
  rewrite app_assoc.
  rewrite (find_index_hit (N.eqb 61) (param ++ COLON :: fmt_num n) EQ rest).
  2:{ intros y Hy. apply N.eqb_neq. intro E. apply in_app_or in Hy. destruct Hy as [Hy | [Hy | Hy]].
      - destruct (Hch y Hy) as (_ & H & _). congruence.
      - subst y. discriminate.
      - destruct (digit_facts y (Hdig y Hy)) as [H _]. congruence. }
  2:{ reflexivity. }
  rewrite firstn_app_exact.
  rewrite (find_index_hit (N.eqb 58) param COLON (fmt_num n)).
  2:{ intros y Hy. apply N.eqb_neq. intro E. destruct (Hch y Hy) as (_ & _ & H). congruence. }
  2:{ reflexivity. }
  rewrite skipn_S_app, firstn_app_exact.
  rewrite (parse_fmt_num USIZE_MAX n Hmax) by (pose proof usize_lt_pow; lia).
  rewrite Hall. cbn [negb].
  apply N.eqb_neq in Hn0. rewrite Hn0, andb_false_r.
  f_equal. f_equal. rewrite app_length. cbn [length]. lia.
Qed.

(* ================================================================ one step of decode_loop *)

Lemma decode_loop_skip_any fuel md buf p cur fs vs :
  nth_error buf p = Some SP ->
  decode_loop fuel md buf p cur fs vs = decode_loop fuel md buf (S p) cur fs vs.
Proof.
  intro H. destruct fuel as [|fuel]; [reflexivity|]. cbn [decode_loop].
  destruct cur as [[name cnt]|].
  - cbn [bind]. rewrite (read_escaped_string_skip buf p H). reflexivity.
  - rewrite (read_parameter_skip buf p H). reflexivity.
Qed.

Lemma decode_step_hdr fuel md buf p fs vs name cnt p1 :
  read_parameter buf p = Ok (Some (name, cnt), p1) ->
  decode_loop (S fuel) md buf p None fs vs = decode_loop (S fuel) md buf p1 (Some (name, cnt)) fs vs.
Proof. intro H. cbn [decode_loop]. rewrite H. reflexivity. Qed.

Lemma decode_step_val fuel md buf p fs vs name cnt value p2 vs' :
  read_escaped_string buf p = Ok (Some value, p2) -> cnt <> 0 ->
  assign fs vs name value = Some vs' ->
  decode_loop (S fuel) md buf p (Some (name, cnt)) fs vs
  = decode_loop fuel md buf p2 (if cnt - 1 =? 0 then None else Some (name, cnt - 1)) fs vs'.
Proof.
  intros Hv Hc Ha. cbn [decode_loop bind]. rewrite Hv. cbn [bind].
  apply N.eqb_neq in Hc. rewrite Hc. cbn [bind]. rewrite Ha. reflexivity.
Qed.

Lemma decode_step_end fuel md buf p fs vs :
  skipn p buf = [] -> decode_loop (S fuel) md buf p None fs vs = Ok vs.
Proof.
  intro H. cbn [decode_loop]. unfold read_parameter, seek_char. rewrite H. reflexivity.
Qed.

(* ================================================================ reading one scalar value *)

Definition post_sp (post : list N) : Prop := post = [] \/ exists r, post = SP :: r.

Lemma post_sp_ok post : post_sp post -> post_ok post.
Proof.
  intros [-> | (r & ->)]; [left; reflexivity|]. right. exists SP, r. split; reflexivity.
Qed.

Definition scalar_wire (v : fval) : option (option (list N)) :=
  match v with
  | VStr s | VOStr (Some s) => Some (fmt_str s)
  | VNum n | VONum (Some n) => Some (Some (fmt_num n))
  | VBool b | VOBool (Some b) => Some (Some (fmt_bool b))
  | _ => None
  end.

Lemma field_chunks_scalar f v o :
  scalar_wire v = Some o ->
  field_chunks f v = [Bytes ([SP] ++ f_param f ++ [EQ]); chunk_of_opt o].
Proof.
  destruct v as [s|n|b|[s|]|[n|]|[b|]|l]; cbn [scalar_wire]; intro H; try discriminate;
    injection H as <-; reflexivity.
Qed.

Lemma ty_max_lt_pow t : ty_max t < 10 ^ 40.
Proof. destruct t; vm_compute; reflexivity. Qed.

(* what the reader sees for a written scalar value, and that it parses/stores back to v *)
Lemma scalar_read f v enc pre post :
  scalar_wire v = Some (Some enc) -> val_shape_ok f v = true -> fval_class v = 0 -> post_sp post ->
  exists raw pv d,
    read_escaped_string (pre ++ enc ++ post) (length pre)
      = Ok (Some raw, (length pre + length enc + d)%nat) /\
    (d = 0%nat \/ (d = 1%nat /\ exists r, post = SP :: r)) /\
    parse_value (f_ty f) raw = Some pv /\
    forall old, store f old pv = v.
Proof.
  intros Hw Hshape Hcls Hpost.
  assert (Hd : forall (b : bool), let d := if b then 0%nat else match post with [] => 0%nat | _ => 1%nat end in
               d = 0%nat \/ (d = 1%nat /\ exists r, post = SP :: r)).
  { intros [|]; [left; reflexivity|]. destruct Hpost as [-> | (r & ->)]; [left; reflexivity|].
    right. split; [reflexivity | eauto]. }
  assert (Hstr : forall s, str_class s = 0 -> fmt_str s = Some enc -> f_ty f = TAtom ->
            exists raw pv d,
              read_escaped_string (pre ++ enc ++ post) (length pre)
                = Ok (Some raw, (length pre + length enc + d)%nat) /\
              (d = 0%nat \/ (d = 1%nat /\ exists r, post = SP :: r)) /\
              parse_value (f_ty f) raw = Some pv /\ pv = PStr s).
  { intros s Hc Hf Hty. exists s, (PStr s), (if has_space s then 0%nat else match post with [] => 0%nat | _ => 1%nat end).
    split; [apply value_roundtrip; assumption|]. split; [apply Hd|].
    apply str_class_0 in Hc. destruct Hc as (_ & _ & _ & Hu & _).
    rewrite Hty. cbn [parse_value]. rewrite Hu. split; reflexivity. }
  assert (Hnum : forall n, n <= ty_max (f_ty f) -> enc = fmt_num n ->
            (f_ty f = TU8 \/ f_ty f = TU16 \/ f_ty f = TU32) ->
            exists raw pv d,
              read_escaped_string (pre ++ enc ++ post) (length pre)
                = Ok (Some raw, (length pre + length enc + d)%nat) /\
              (d = 0%nat \/ (d = 1%nat /\ exists r, post = SP :: r)) /\
              parse_value (f_ty f) raw = Some pv /\ pv = PNum n).
  { intros n Hn -> Hty. exists (fmt_num n), (PNum n), (match post with [] => 0%nat | _ => 1%nat end).
    split; [apply num_value_roundtrip; exact Hpost|]. split; [apply (Hd false)|].
    assert (Hp : parse_uint (ty_max (f_ty f)) (fmt_num n) = Some n).
    { apply parse_fmt_num; [exact Hn|]. pose proof (ty_max_lt_pow (f_ty f)). lia. }
    split; [|reflexivity].
    destruct Hty as [E | [E | E]]; rewrite E in *; cbn [parse_value]; rewrite Hp; reflexivity. }
  assert (Hbool : forall b, enc = fmt_bool b -> f_ty f = TBool ->
            exists raw pv d,
              read_escaped_string (pre ++ enc ++ post) (length pre)
                = Ok (Some raw, (length pre + length enc + d)%nat) /\
              (d = 0%nat \/ (d = 1%nat /\ exists r, post = SP :: r)) /\
              parse_value (f_ty f) raw = Some pv /\ pv = PBool b).
  { intros b -> Hty. exists (fmt_bool b), (PBool b), (match post with [] => 0%nat | _ => 1%nat end).
    split; [apply bool_value_roundtrip; exact Hpost|]. split; [apply (Hd false)|].
    rewrite Hty. split; [apply parse_fmt_bool | reflexivity]. }
  unfold val_shape_ok in Hshape. unfold store.
  destruct v as [s|n|b|[s|]|[n|]|[b|]|l]; cbn [scalar_wire] in Hw; try discriminate;
    injection Hw as Hw; cbn [fval_class] in Hcls;
    destruct (f_kind f) eqn:Ek; destruct (f_ty f) eqn:Et; try discriminate.
  all: try (destruct (Hstr s Hcls Hw eq_refl) as (raw & pv & d & H1 & H2 & H3 & ->);
            exists raw, (PStr s), d; repeat split; assumption).
  all: try (apply N.leb_le in Hshape;
            destruct (Hnum n Hshape (eq_sym Hw) ltac:(auto)) as (raw & pv & d & H1 & H2 & H3 & ->);
            exists raw, (PNum n), d; repeat split; assumption).
  all: try (destruct (Hbool b (eq_sym Hw) eq_refl) as (raw & pv & d & H1 & H2 & H3 & ->);
            exists raw, (PBool b), d; repeat split; assumption).
Qed.

(* ================================================================ shape of the encoded stream *)

Lemma vec_bytes_shape l : forall t,
  chunks_bytes (vec_chunks false l) = Some t -> post_sp t.
Proof.
  destruct l as [|s r]; intros t H; cbn [vec_chunks] in H.
  - injection H as <-. left. reflexivity.
  - apply chunks_bytes_app in H. destruct H as (ta & tb & Ha & _ & ->).
    cbn [chunks_bytes option_map app] in Ha. injection Ha as <-. right. cbn [app]. eauto.
Qed.

Lemma field_bytes_shape f v t : chunks_bytes (field_chunks f v) = Some t -> post_sp t.
Proof.
  assert (Hhdr : forall p c rest t, chunks_bytes (Bytes ([SP] ++ p) :: c :: rest) = Some t -> post_sp t).
  { intros p c rest t0 H. cbn [chunks_bytes app] in H.
    destruct c as [bytes|]; [|discriminate].
    destruct (chunks_bytes rest) as [t'|]; [|discriminate].
    cbn [option_map app] in H. injection H as <-. right. eauto. }
  unfold field_chunks.
  destruct v as [s|n|b|[s|]|[n|]|[b|]|[|s r]]; intro H;
    try (apply Hhdr in H; exact H); try (injection H as <-; left; reflexivity).
Qed.

Lemma fields_bytes_shape rest : forall t,
  chunks_bytes (flat_map (fun x : field * fval => field_chunks (fst x) (snd x)) rest) = Some t -> post_sp t.
Proof.
  induction rest as [|[f v] rest IH]; intros t H; cbn [flat_map fst snd] in H.
  - injection H as <-. left. reflexivity.
  - apply chunks_bytes_app in H. destruct H as (ta & tb & Ha & Hb & ->).
    apply field_bytes_shape in Ha. destruct Ha as [-> | (r & ->)].
    + apply IH. exact Hb.
    + right. exists (r ++ tb). reflexivity.
Qed.

Lemma post_sp_app a b : post_sp a -> post_sp b -> post_sp (a ++ b).
Proof.
  intros [-> | (r & ->)] Hb; [exact Hb|]. right. exists (r ++ b). reflexivity.
Qed.

(* normalising the position after a value: if the scanner consumed the following space,
   step back onto it *)
Lemma decode_loop_unskip fuel md buf pre post d cur fs vs :
  buf = pre ++ post ->
  (d = 0%nat \/ (d = 1%nat /\ exists r, post = SP :: r)) ->
  decode_loop fuel md buf (length pre + d) cur fs vs = decode_loop fuel md buf (length pre) cur fs vs.
Proof.
  intros -> [-> | (-> & r & ->)].
  - rewrite Nat.add_0_r. reflexivity.
  - replace (length pre + 1)%nat with (S (length pre)) by lia.
    symmetry. apply decode_loop_skip_any. apply nth_error_app_exact.
Qed.

(* ================================================================ the decode invariant *)

Section Fields.
Variable md : mode.
Variable fs : list field.
Variable target : list fval.
Hypothesis Hdist : distinct (map f_param fs) = true.
Hypothesis Hfok : forallb field_ok fs = true.
Hypothesis Hlen_target : length target = length fs.

Lemma param_inj i j f g :
  nth_error fs i = Some f -> nth_error fs j = Some g -> f_param f = f_param g -> i = j.
Proof.
  intros Hi Hj E.
  pose proof (distinct_NoDup _ Hdist) as Hnd. rewrite NoDup_nth_error in Hnd.
  apply Hnd.
  - rewrite map_length. apply nth_error_Some. congruence.
  - rewrite (map_nth_error f_param _ _ Hi), (map_nth_error f_param _ _ Hj). congruence.
Qed.

Definition elem_ok (x : field * fval) : Prop :=
  exists j, nth_error fs j = Some (fst x) /\ nth_error target j = Some (snd x) /\
            val_shape_ok (fst x) (snd x) = true /\ fval_class (snd x) = 0 /\
            fval_len_ok (snd x) = true.

Definition Inv (rest : list (field * fval)) (vs : list fval) : Prop :=
  length vs = length fs /\
  forall j f v, nth_error fs j = Some f -> nth_error target j = Some v ->
    (In (f_param f) (names rest) -> nth_error vs j = Some (default_val f)) /\
    (~ In (f_param f) (names rest) -> nth_error vs j = Some v).

Lemma Inv_step f v rest vs vs' j :
  Inv ((f, v) :: rest) vs -> ~ In (f_param f) (names rest) ->
  nth_error fs j = Some f -> nth_error target j = Some v ->
  length vs' = length vs -> nth_error vs' j = Some v ->
  (forall i, i <> j -> nth_error vs' i = nth_error vs i) ->
  Inv rest vs'.
Proof.
  intros [Hlen Hinv] Hnotin Hf Hv Hlen' Hj Hother. split; [congruence|].
  intros i g w Hg Hw.
  destruct (Nat.eq_dec i j) as [-> | Hne].
  - assert (g = f) by congruence. assert (w = v) by congruence. subst g w.
    split; [intro Hin; contradiction | intros _; exact Hj].
  - rewrite (Hother i Hne).
    assert (Hpn : f_param g <> f_param f).
    { intro E. apply Hne. eapply param_inj; eassumption. }
    destruct (Hinv i g w Hg Hw) as [H1 H2]. split.
    + intro Hin. apply H1. right. exact Hin.
    + intro Hnin. apply H2. intros [E | Hin]; [cbn [fst] in E; congruence | contradiction].
Qed.

Lemma field_param_ok j f : nth_error fs j = Some f -> param_ok (f_param f).
Proof.
  intro H. apply field_ok_param. rewrite forallb_forall in Hfok. apply Hfok.
  eapply nth_error_In. exact H.
Qed.

(* ---------------------------------------------------------------- vectors *)

Lemma decode_vec f j post (Hpost : post_sp post) :
  nth_error fs j = Some f -> f_kind f = KVec -> f_ty f = TAtom ->
  forall rem first tv buf pre donel vs,
    rem <> [] ->
    chunks_bytes (vec_chunks first rem) = Some tv ->
    (forall s, In s rem -> str_class s = 0) ->
    nth_error vs j = Some (VVec donel) ->
    buf = pre ++ tv ++ post ->
    (forall vs', length vs' = length vs ->
                 nth_error vs' j = Some (VVec (donel ++ rem)) ->
                 (forall i, i <> j -> nth_error vs' i = nth_error vs i) ->
                 exists fuel, decode_loop fuel md buf (length pre + length tv) None fs vs' = Ok target) ->
    exists fuel, decode_loop fuel md buf (length pre)
                   (Some (f_param f, N.of_nat (length rem))) fs vs = Ok target.
Proof.
  intros Hf Hkind Hty.
  induction rem as [|s rem IH]; intros first tv buf pre donel vs Hne Hchunks Hcls Hcur Hbuf Hk; [congruence|].
  clear Hne.
  (* split the bytes *)
  cbn [vec_chunks] in Hchunks.
  apply chunks_bytes_app in Hchunks. destruct Hchunks as (lead & t1 & Hlead & Ht1 & ->).
  apply chunks_bytes_app in Ht1. destruct Ht1 as (encx & tv' & Henc & Htv' & ->).
  assert (Hfs : exists enc, fmt_str s = Some enc /\ encx = enc).
  { destruct (fmt_str s) as [enc|]; cbn [chunk_of_opt chunks_bytes option_map] in Henc; [|discriminate].
    injection Henc as <-. exists enc. rewrite app_nil_r. split; reflexivity. }
  destruct Hfs as (enc & Hfmt & ->).
  assert (Hleadsp : lead = [] \/ (first = false /\ lead = [SP])).
  { destruct first; cbn [chunks_bytes option_map] in Hlead; injection Hlead as <-; [left | right; split]; reflexivity. }
  set (pre1 := pre ++ lead).
  assert (Hbuf1 : buf = pre1 ++ enc ++ (tv' ++ post)) by (subst buf pre1; list_eq).
  assert (Hpost' : post_sp (tv' ++ post)).
  { apply post_sp_app; [|exact Hpost]. eapply vec_bytes_shape. exact Htv'. }
  assert (Hsc : str_class s = 0) by (apply Hcls; left; reflexivity).
  (* the value *)
  pose proof (value_roundtrip pre1 s enc (tv' ++ post) Hsc Hfmt Hpost') as Hread.
  rewrite <- Hbuf1 in Hread.
  set (d := if has_space s then 0%nat else match tv' ++ post with [] => 0%nat | _ => 1%nat end) in *.
  assert (Hd : d = 0%nat \/ (d = 1%nat /\ exists r, tv' ++ post = SP :: r)).
  { unfold d. destruct (has_space s); [left; reflexivity|].
    destruct Hpost' as [-> | (r & ->)]; [left; reflexivity | right; split; [reflexivity | eauto]]. }
  (* assign *)
  assert (Hpv : parse_value (f_ty f) s = Some (PStr s)).
  { rewrite Hty. cbn [parse_value]. apply str_class_0 in Hsc. destruct Hsc as (_ & _ & _ & Hu & _).
    rewrite Hu. reflexivity. }
  destruct (assign_spec fs vs j f (VVec donel) s (PStr s) Hdist Hf Hcur Hpv)
    as (vs1 & Hassign & Hlen1 & Hj1 & Hother1).
  assert (Hstore : store f (VVec donel) (PStr s) = VVec (donel ++ [s])) by (unfold store; rewrite Hkind; reflexivity).
  rewrite Hstore in Hj1.
  assert (Hcnt : N.of_nat (length (s :: rem)) <> 0) by (cbn [length]; lia).
  assert (Hcnt1 : N.of_nat (length (s :: rem)) - 1 = N.of_nat (length rem)) by (cbn [length]; lia).
  (* position before the value *)
  assert (Hstart : forall fuel cur vs0, decode_loop fuel md buf (length pre) cur fs vs0
                                   = decode_loop fuel md buf (length pre1) cur fs vs0).
  { intros fuel cur vs0. destruct Hleadsp as [-> | (_ & ->)].
    - unfold pre1. rewrite app_nil_r. reflexivity.
    - unfold pre1. rewrite app_length. cbn [length].
      replace (length pre + 1)%nat with (S (length pre)) by lia.
      apply decode_loop_skip_any. subst buf. apply nth_error_app_exact. }
  set (pre2 := pre1 ++ enc).
  assert (Hbuf2 : buf = pre2 ++ (tv' ++ post)) by (subst buf pre1 pre2; list_eq).
  assert (Hp2 : (length pre1 + length enc + d = length pre2 + d)%nat) by (unfold pre2; len).
  destruct rem as [|s2 rem2].
  - (* last element *)
    cbn [vec_chunks chunks_bytes] in Htv'. injection Htv' as <-.
    destruct (Hk vs1) as (fuel & Hfuel).
    + congruence.
    + exact Hj1.
    + exact Hother1.
    + exists (S fuel). rewrite Hstart.
      rewrite (decode_step_val fuel md buf (length pre1) fs vs _ _ s _ vs1 Hread Hcnt Hassign).
      rewrite Hcnt1. cbn [length N.of_nat N.eqb].
      rewrite Hp2, (decode_loop_unskip fuel md buf pre2 ([] ++ post) d _ fs vs1 Hbuf2 Hd).
      rewrite <- Hfuel. f_equal. unfold pre2, pre1. len.
  - (* more elements follow *)
    destruct (IH false tv' buf pre2 (donel ++ [s]) vs1) as (fuel & Hfuel).
    + discriminate.
    + exact Htv'.
    + intros s' Hs'. apply Hcls. right. exact Hs'.
    + exact Hj1.
    + exact Hbuf2.
    + intros vs' Hl' Hj' Ho'. destruct (Hk vs') as (fuel & Hfuel).
      * congruence.
      * rewrite <- app_assoc in Hj'. exact Hj'.
      * intros i Hi. rewrite (Ho' i Hi). apply Hother1. exact Hi.
      * exists fuel. rewrite <- Hfuel. f_equal. unfold pre2, pre1. len.
    + exists (S fuel). rewrite Hstart.
      rewrite (decode_step_val fuel md buf (length pre1) fs vs _ _ s _ vs1 Hread Hcnt Hassign).
      rewrite Hcnt1.
      replace (N.of_nat (length (s2 :: rem2)) =? 0) with false
        by (symmetry; apply N.eqb_neq; cbn [length]; lia).
      rewrite Hp2, (decode_loop_unskip fuel md buf pre2 (tv' ++ post) d _ fs vs1 Hbuf2 Hd).
      exact Hfuel.
Qed.

(* ---------------------------------------------------------------- all fields *)

Lemma unwritten_default f v :
  val_shape_ok f v = true -> field_chunks f v = [] -> v = default_val f.
Proof.
  unfold val_shape_ok, default_val.
  destruct v as [s|n|b|[s|]|[n|]|[b|]|[|s r]]; intros Hs Hc; try discriminate;
    destruct (f_kind f); destruct (f_ty f); try discriminate; reflexivity.
Qed.

Lemma max_class_0 a b : max_class a b = 0 -> a = 0 /\ b = 0.
Proof.
  unfold max_class. destruct (a =? 0) eqn:E; intro H.
  - apply N.eqb_eq in E. split; assumption.
  - apply N.eqb_neq in E. contradiction.
Qed.

Lemma vec_class_0 l : fval_class (VVec l) = 0 -> forall s, In s l -> str_class s = 0.
Proof.
  cbn [fval_class]. induction l as [|x l IH]; intros H s Hs; [destruct Hs|].
  cbn [fold_right] in H. apply max_class_0 in H as [H1 H2].
  destruct Hs as [<- | Hs]; [exact H1 | apply IH; assumption].
Qed.

Lemma fval_len_ok_vec l : fval_len_ok (VVec l) = true -> N.of_nat (length l) <= USIZE_MAX.
Proof. intro H. apply N.leb_le. exact H. Qed.

Lemma decode_fields : forall rest t pre buf vs,
  NoDup (names rest) -> (forall x, In x rest -> elem_ok x) ->
  chunks_bytes (flat_map (fun x : field * fval => field_chunks (fst x) (snd x)) rest) = Some t ->
  Inv rest vs -> buf = pre ++ t ->
  exists fuel, decode_loop fuel md buf (length pre) None fs vs = Ok target.
Proof.
  induction rest as [|[f v] rest IH]; intros t pre buf vs Hnd Hok Hchunks Hinv Hbuf.
  - (* end of parameters *)
    cbn [flat_map chunks_bytes] in Hchunks. injection Hchunks as <-.
    exists 1%nat. rewrite decode_step_end.
    + f_equal. destruct Hinv as [Hlen Hinv]. apply nth_error_ext; [congruence|].
      intros j x Hx.
      destruct (nth_error fs j) as [g|] eqn:Hg.
      * destruct (Hinv j g x Hg Hx) as [_ H2]. apply H2. intros [].
      * apply nth_error_None in Hg. assert (Hj : (j < length target)%nat) by (apply nth_error_Some; congruence). lia.
    + subst buf. rewrite app_nil_r. apply skipn_all.
  - cbn [names map fst] in Hnd. inversion Hnd as [|x xs Hnotin Hnd']; subst x xs.
    fold (names rest) in Hnotin, Hnd'.
    destruct (Hok (f, v) (or_introl eq_refl)) as (j & Hf & Hv & Hshape & Hcls & Hlenok).
    cbn [fst snd] in Hf, Hv, Hshape, Hcls, Hlenok.
    assert (Hok' : forall x, In x rest -> elem_ok x) by (intros x Hx; apply Hok; right; exact Hx).
    cbn [flat_map fst snd] in Hchunks.
    apply chunks_bytes_app in Hchunks. destruct Hchunks as (tf & t' & Htf & Ht' & ->).
    pose proof (fields_bytes_shape rest t' Ht') as Hpost.
    pose proof (field_param_ok j f Hf) as Hparam.
    assert (Hcurj : nth_error vs j = Some (default_val f)).
    { destruct Hinv as [_ Hinv]. destruct (Hinv j f v Hf Hv) as [H1 _]. apply H1. left. reflexivity. }
    destruct (field_chunks f v) as [|c0 cs0] eqn:Hfc.
    { (* nothing written: the value is the default *)
      cbn [chunks_bytes] in Htf. injection Htf as <-.
      apply (IH t' pre buf vs Hnd' Hok' Ht'); [|exact Hbuf].
      apply (Inv_step f v rest vs vs j Hinv Hnotin Hf Hv eq_refl); [|reflexivity].
      rewrite (unwritten_default f v Hshape Hfc). exact Hcurj. }
    rewrite <- Hfc in Htf.
    set (pre1 := pre ++ [SP]).
    assert (Hskip : forall fuel, decode_loop fuel md buf (length pre) None fs vs
                            = decode_loop fuel md buf (length pre1) None fs vs).
    { intro fuel. unfold pre1. rewrite app_length. cbn [length].
      replace (length pre + 1)%nat with (S (length pre)) by lia.
      apply decode_loop_skip_any.
      assert (Hsp : exists r, tf = SP :: r).
      { destruct (field_bytes_shape f v tf Htf) as [-> | Hr]; [|exact Hr].
        exfalso. rewrite Hfc in Htf. clear - Htf Hfc.
        unfold field_chunks in Hfc.
        destruct v as [s|n|b|[s|]|[n|]|[b|]|[|s r]]; try discriminate;
          injection Hfc as <- <-; cbn [chunks_bytes app] in Htf;
          repeat match type of Htf with
                 | context [match ?c with Bytes _ => _ | Unescapable => _ end] => destruct c
                 | context [option_map _ ?o] => destruct o; cbn [option_map] in Htf
                 end; discriminate. }
      destruct Hsp as (r & ->). subst buf. apply nth_error_app_exact. }
    destruct (scalar_wire v) as [o|] eqn:Hw.
    + (* a scalar parameter *)
      rewrite (field_chunks_scalar f v o Hw) in Htf.
      assert (Henc : exists enc, o = Some enc /\ tf = ([SP] ++ f_param f ++ [EQ]) ++ enc).
      { destruct o as [enc|]; cbn [chunks_bytes chunk_of_opt option_map] in Htf; [|discriminate].
        injection Htf as <-. exists enc. rewrite app_nil_r. split; reflexivity. }
      destruct Henc as (enc & -> & ->).
      set (pre2 := pre1 ++ f_param f ++ [EQ]).
      destruct (scalar_read f v enc pre2 t' Hw Hshape Hcls Hpost)
        as (raw & pv & d & Hread & Hd & Hpv & Hstore).
      assert (Hbuf2 : buf = pre2 ++ enc ++ t') by (subst buf pre2 pre1; list_eq).
      rewrite <- Hbuf2 in Hread.
      assert (Hhdr : read_parameter buf (length pre1)
                     = Ok (Some (f_param f, 1), (length pre1 + length (f_param f) + 1)%nat)).
      { apply (read_parameter_scalar buf pre1 (f_param f) (enc ++ t') Hparam).
        subst buf pre1. list_eq. }
      destruct (assign_spec fs vs j f (default_val f) raw pv Hdist Hf Hcurj Hpv)
        as (vs1 & Hassign & Hlen1 & Hj1 & Hother1).
      rewrite Hstore in Hj1.
      set (pre3 := pre2 ++ enc).
      assert (Hbuf3 : buf = pre3 ++ t') by (subst buf pre3 pre2 pre1; list_eq).
      destruct (IH t' pre3 buf vs1 Hnd' Hok' Ht') as (fuel & Hfuel); [|exact Hbuf3|].
      { apply (Inv_step f v rest vs vs1 j Hinv Hnotin Hf Hv Hlen1 Hj1 Hother1). }
      exists (S fuel). rewrite Hskip.
      rewrite (decode_step_hdr fuel md buf (length pre1) fs vs _ _ _ Hhdr).
      replace (length pre1 + length (f_param f) + 1)%nat with (length pre2) by (unfold pre2; len).
      rewrite (decode_step_val fuel md buf (length pre2) fs vs _ 1 raw _ vs1 Hread ltac:(discriminate) Hassign).
      change (1 - 1 =? 0) with true. cbv iota.
      replace (length pre2 + length enc + d)%nat with (length pre3 + d)%nat by (unfold pre3; len).
      rewrite (decode_loop_unskip fuel md buf pre3 t' d None fs vs1 Hbuf3 Hd).
      exact Hfuel.
    + (* a vector parameter *)
      destruct v as [s|n|b|[s|]|[n|]|[b|]|[|s0 l0]]; try discriminate Hw; try discriminate Hfc.
      apply fval_len_ok_vec in Hlenok.
      set (l := s0 :: l0) in *.
      assert (Hkt : f_kind f = KVec /\ f_ty f = TAtom).
      { unfold val_shape_ok in Hshape. destruct (f_kind f); destruct (f_ty f); try discriminate; split; reflexivity. }
      destruct Hkt as [Hkind Hty].
      set (n := N.of_nat (length l)) in *.
      assert (Hfc2 : field_chunks f (VVec l)
                     = [Bytes ([SP] ++ f_param f ++ [COLON] ++ fmt_num n); Bytes [EQ]] ++ vec_chunks true l)
        by reflexivity.
      rewrite Hfc2 in Htf.
      apply chunks_bytes_app in Htf. destruct Htf as (th & tv & Hth & Htv & ->).
      cbn [chunks_bytes option_map] in Hth. injection Hth as <-.
      set (pre2 := pre1 ++ f_param f ++ COLON :: fmt_num n ++ [EQ]).
      assert (Hbuf2 : buf = pre2 ++ tv ++ t') by (subst buf pre2 pre1; list_eq).
      assert (Hn0 : n <> 0) by (unfold n, l; cbn [length]; lia).
      assert (Hnmax : n <= USIZE_MAX) by exact Hlenok.
      assert (Hhdr : read_parameter buf (length pre1)
                     = Ok (Some (f_param f, n),
                           (length pre1 + length (f_param f) + 1 + length (fmt_num n) + 1)%nat)).
      { apply (read_parameter_vec buf pre1 (f_param f) n (tv ++ t') Hparam Hn0 Hnmax).
        subst buf pre1. list_eq. }
      assert (Hdef : default_val f = VVec []) by (unfold default_val; rewrite Hkind; reflexivity).
      rewrite Hdef in Hcurj.
      destruct (decode_vec f j t' Hpost Hf Hkind Hty l true tv buf pre2 [] vs) as (fuel & Hfuel).
      * discriminate.
      * exact Htv.
      * apply vec_class_0. exact Hcls.
      * exact Hcurj.
      * exact Hbuf2.
      * intros vs' Hlen' Hj' Hother'.
        set (pre3 := pre2 ++ tv).
        assert (Hbuf3 : buf = pre3 ++ t') by (subst buf pre3 pre2 pre1; list_eq).
        destruct (IH t' pre3 buf vs' Hnd' Hok' Ht') as (fuel & Hfuel); [|exact Hbuf3|].
        { apply (Inv_step f (VVec l) rest vs vs' j Hinv Hnotin Hf Hv Hlen' Hj' Hother'). }
        exists fuel. rewrite <- Hfuel. f_equal. unfold pre3. len.
      * exists (S fuel). rewrite Hskip.
        rewrite (decode_step_hdr fuel md buf (length pre1) fs vs _ _ _ Hhdr).
        replace (length pre1 + length (f_param f) + 1 + length (fmt_num n) + 1)%nat
          with (length pre2) by (unfold pre2; len).
        rewrite <- Nat.add_1_r. apply decode_loop_mono; [exact Hfuel | discriminate].
Qed.

End Fields.

(* ================================================================ kinds *)

Lemma kind_of_name_nth sch : forall s name j k,
  kind_of_name sch s name = Some (j, k) -> (s <= j)%nat /\ nth_error sch (j - s) = Some k.
Proof.
  induction sch as [|k0 r IH]; intros s name j k H; cbn [kind_of_name] in H; [discriminate|].
  destruct (existsb (list_eqb name) (k_from_names k0)).
  - injection H as <- <-. rewrite Nat.sub_diag. split; [lia | reflexivity].
  - apply IH in H. destruct H as [Hle Hn]. split; [lia|].
    replace (j - s)%nat with (S (j - S s)) by lia. exact Hn.
Qed.

Lemma kinds_ok_spec all sch : forall i0 i k,
  kinds_ok all sch i0 = true -> nth_error sch i = Some k ->
  exists k', kind_of_name all 0 (k_name k) = Some ((i0 + i)%nat, k').
Proof.
  induction sch as [|k0 r IH]; intros i0 i k H Hn; [destruct i; discriminate|].
  cbn [kinds_ok] in H. apply andb_true_iff in H as [H1 H2].
  destruct i as [|i]; cbn [nth_error] in Hn.
  - injection Hn as ->.
    destruct (kind_of_name all 0 (k_name k)) as [[j k']|]; [|discriminate].
    apply Nat.eqb_eq in H1. subst j. exists k'. rewrite Nat.add_0_r. reflexivity.
  - destruct (IH (S i0) i k H2 Hn) as (k' & Hk'). exists k'. rewrite Hk'. f_equal. f_equal. lia.
Qed.

Lemma kind_of_own_name sch i k :
  kinds_ok sch sch 0 = true -> nth_error sch i = Some k ->
  kind_of_name sch 0 (k_name k) = Some (i, k).
Proof.
  intros H Hn. destruct (kinds_ok_spec sch sch 0 i k H Hn) as (k' & Hk').
  cbn [Nat.add] in Hk'. pose proof (kind_of_name_nth _ _ _ _ _ Hk') as [_ Hn'].
  rewrite Nat.sub_0_r in Hn'. congruence.
Qed.

(* ================================================================ wf_rt *)

Lemma wf_rt_spec sch m :
  wf_rt sch m = true ->
  exists k, nth_error sch (m_kind m) = Some k /\
            shapes_ok (k_fields k) (m_fields m) = true /\
            fold_right (fun v acc => max_class (fval_class v) acc) 0 (m_fields m) = 0 /\
            validate k (m_fields m) = true.
Proof.
  unfold wf_rt, msg_class. intro H. apply N.eqb_eq in H.
  destruct (nth_error sch (m_kind m)) as [k|]; [|discriminate].
  exists k. split; [reflexivity|].
  destruct (shapes_ok (k_fields k) (m_fields m)); cbn [negb] in H; [|discriminate].
  split; [reflexivity|].
  destruct (fold_right _ 0 (m_fields m) =? 0) eqn:Ec; cbn [negb] in H.
  - apply N.eqb_eq in Ec. split; [exact Ec|].
    destruct (validate k (m_fields m)); [reflexivity | discriminate].
  - apply N.eqb_neq in Ec. contradiction.
Qed.

Lemma shapes_ok_spec fs : forall vs,
  shapes_ok fs vs = true ->
  length fs = length vs /\
  forall j f v, nth_error fs j = Some f -> nth_error vs j = Some v -> val_shape_ok f v = true.
Proof.
  induction fs as [|f0 fs IH]; intros [|v0 vs] H; cbn [shapes_ok] in H; try discriminate.
  - split; [reflexivity|]. intros j f v Hf. destruct j; discriminate.
  - apply andb_true_iff in H as [H1 H2]. destruct (IH vs H2) as [Hl Hp].
    split; [cbn [length]; lia|].
    intros j f v Hf Hv. destruct j as [|j]; cbn [nth_error] in Hf, Hv.
    + congruence.
    + eapply Hp; eassumption.
Qed.

Lemma classes_0 vs :
  fold_right (fun v acc => max_class (fval_class v) acc) 0 vs = 0 ->
  forall v, In v vs -> fval_class v = 0.
Proof.
  induction vs as [|x vs IH]; intros H v Hv; [destruct Hv|].
  cbn [fold_right] in H. apply max_class_0 in H as [H1 H2].
  destruct Hv as [<- | Hv]; [exact H1 | apply IH; assumption].
Qed.

Lemma nth_error_combine_in {A B} (l1 : list A) : forall (l2 : list B) j x y,
  nth_error l1 j = Some x -> nth_error l2 j = Some y -> In (x, y) (combine l1 l2).
Proof.
  induction l1 as [|a l1 IH]; intros l2 j x y H1 H2; [destruct j; discriminate|].
  destruct l2 as [|b l2]; [destruct j; discriminate|].
  destruct j as [|j]; cbn [nth_error] in H1, H2; cbn [combine].
  - left. congruence.
  - right. eapply IH; eassumption.
Qed.

(* ================================================================ the theorem *)

Theorem roundtrip_gen : forall sch md m cap l,
  schema_ok sch = true -> wf_rt sch m = true ->
  forallb fval_len_ok (m_fields m) = true ->
  serialize sch m cap = SerOk l ->
  exists body, l = body ++ [NL] /\ deserialize sch md body = Ok m.
Proof.
  intros sch md m cap l Hsch Hwf Hlens Hser.
  unfold schema_ok in Hsch. apply andb_true_iff in Hsch as [Hks Hkinds].
  destruct (wf_rt_spec sch m Hwf) as (k & Hk & Hshapes & Hclasses & Hvalid).
  rewrite forallb_forall in Hks. pose proof (Hks k (nth_error_In _ _ Hk)) as Hkok.
  unfold kschema_ok in Hkok. apply andb_true_iff in Hkok as [Hkok Hdist].
  apply andb_true_iff in Hkok as [Hname Hfok].
  unfold name_ok in Hname. apply andb_true_iff in Hname as [Hname_ne Hname_ns].
  set (fs := k_fields k) in *. set (target := m_fields m) in *.
  destruct (shapes_ok_spec fs target Hshapes) as [Hlen Hshape].
  (* the bytes *)
  unfold serialize, msg_chunks in Hser. rewrite Hk in Hser.
  apply run_chunks_bytes in Hser. destruct Hser as (t0 & Hbytes & ->).
  apply chunks_bytes_app in Hbytes. destruct Hbytes as (tn & t1 & Htn & Ht1 & ->).
  apply chunks_bytes_app in Ht1. destruct Ht1 as (t & tl & Ht & Htl & ->).
  cbn [chunks_bytes option_map] in Htn, Htl. injection Htn as <-. injection Htl as <-.
  rewrite !app_nil_r. cbn [app].
  exists (k_name k ++ t). split; [rewrite app_assoc; reflexivity|].
  (* the canonical order *)
  set (L := canon_order fs target) in *.
  pose proof (canon_perm fs target Hlen (distinct_NoDup _ Hdist)) as Hperm. fold L in Hperm.
  assert (HndL : NoDup (names L)).
  { apply (Permutation_NoDup (l := names (combine fs target))).
    - apply Permutation_sym. unfold names. apply Permutation_map. exact Hperm.
    - rewrite names_combine; [apply distinct_NoDup; exact Hdist | exact Hlen]. }
  assert (HokL : forall x, In x L -> elem_ok fs target x).
  { intros [f v] Hx. apply (Permutation_in _ Hperm) in Hx.
    destruct (In_nth_error _ _ Hx) as (j & Hj). apply nth_error_combine in Hj as [Hf Hv].
    exists j. cbn [fst snd]. repeat split; try assumption.
    - eapply Hshape; eassumption.
    - apply (classes_0 target Hclasses). eapply nth_error_In. exact Hv.
    - rewrite forallb_forall in Hlens. apply Hlens. eapply nth_error_In. exact Hv. }
  assert (HinvL : Inv fs target L (map default_val fs)).
  { split; [apply map_length|]. intros j f v Hf Hv. split.
    - intros _. apply map_nth_error. exact Hf.
    - intro Hnin. exfalso. apply Hnin.
      pose proof (nth_error_combine_in fs target j f v Hf Hv) as Hin.
      apply (Permutation_in _ (Permutation_sym Hperm)) in Hin.
      unfold names. apply (in_map (fun x => f_param (fst x)) L (f, v)). exact Hin. }
  destruct (decode_fields md fs target Hdist Hfok (eq_sym Hlen) L t (k_name k) (k_name k ++ t)
              (map default_val fs) HndL HokL Ht HinvL eq_refl) as (fuel & Hfuel).
  (* deserialize *)
  pose proof (fields_bytes_shape L t Ht) as Hpost.
  unfold deserialize.
  assert (Hne : k_name k <> []) by (destruct (k_name k); [discriminate | discriminate]).
  pose proof (read_string_plain [] (k_name k) t Hne Hname_ns (post_sp_ok _ Hpost)) as Hrs.
  cbn [app length Nat.add] in Hrs. rewrite Hrs.
  rewrite (kind_of_own_name sch (m_kind m) k Hkinds Hk).
  fold fs.
  assert (Hdec : decode_loop (S (length (k_name k ++ t))) md (k_name k ++ t)
                   (length (k_name k) + post_len t) None fs (map default_val fs) = Ok target).
  { assert (Hd : post_len t = 0%nat \/ (post_len t = 1%nat /\ exists r, t = SP :: r)).
    { destruct Hpost as [-> | (r & ->)]; [left; reflexivity | right; split; [reflexivity | eauto]]. }
    rewrite (decode_loop_unskip _ md (k_name k ++ t) (k_name k) t (post_len t) None fs _ eq_refl Hd).
    apply (decode_loop_any_fuel md _ fs fuel); [rewrite app_length; lia | exact Hfuel]. }
  rewrite Hdec. cbn [bind]. fold target in Hvalid. rewrite Hvalid.
  destruct m as [mk mf]. reflexivity.
Qed.

Theorem roundtrip : forall md m cap l,
  schema_ok schema = true -> wf_rt schema m = true ->
  forallb fval_len_ok (m_fields m) = true ->
  serialize schema m cap = SerOk l ->
  exists body, l = body ++ [NL] /\ deserialize schema md body = Ok m.
Proof. intros md m cap l. apply roundtrip_gen. Qed.

(* with the generated table *)
Corollary roundtrip_current : forall md m cap l,
  wf_rt schema m = true -> forallb fval_len_ok (m_fields m) = true ->
  serialize schema m cap = SerOk l ->
  exists body, l = body ++ [NL] /\ deserialize schema md body = Ok m.
Proof. intros md m cap l. apply roundtrip. apply schema_ok_current. Qed.

Print Assumptions roundtrip_gen.
Print Assumptions roundtrip.
Print Assumptions roundtrip_current.
