(* GROUP C - identity: well-formedness of assigned nids, uniqueness of live names, and
   release of a name when its connection closes. *)
From NW Require Import Base.Bytes Model.SchemaTypes Model.Codec Model.Ids Model.Framing Model.Server Gen.Unicode.
From NW Require Import Proofs.ServerInvBase Proofs.ServerInv Proofs.ServerUniq Proofs.ServerInvCor.

(* ====================================================================== *)
(* C1 : the Unicode tables: alphanumeric is disjoint from whitespace and '@' *)
(* ====================================================================== *)

Lemma in_ranges_sound rs c :
  in_ranges rs c = true -> exists a b, In (a, b) rs /\ a <= c <= b.
Proof.
  induction rs as [|[a b] rs IH]; cbn [in_ranges]; [discriminate|].
  destruct (c <? a) eqn:E1; [discriminate|].
  destruct (c <=? b) eqn:E2.
  - intros _. exists a, b. split; [left; reflexivity|].
    apply N.ltb_ge in E1. apply N.leb_le in E2. split; assumption.
  - intro H. destruct (IH H) as (a' & b' & Hi & Hr). exists a', b'. split; [right; exact Hi | exact Hr].
Qed.

Definition range_disj (r w : N * N) : bool := (snd r <? fst w) || (snd w <? fst r).
Definition range_ok (r : N * N) : bool :=
  ((64 <? fst r) || (snd r <? 64)) && forallb (range_disj r) ws_ranges.
Definition tables_ok : bool := forallb range_ok alnum_ranges.

Lemma tables_ok_true : tables_ok = true.
Proof. vm_compute. reflexivity. Qed.

Theorem alnum_not_ws_not_at : forall c, is_alnum_cp c = true -> is_ws_cp c = false /\ c <> 64.
Proof.
  intros c H. unfold is_alnum_cp in H. apply in_ranges_sound in H. destruct H as (a & b & Hi & Hr).
  pose proof tables_ok_true as T. unfold tables_ok in T. rewrite forallb_forall in T.
  specialize (T (a, b) Hi). clear Hi. unfold range_ok in T. apply andb_true_iff in T. destruct T as [T1 T2].
  cbn [fst snd] in T1. split.
  - destruct (is_ws_cp c) eqn:E; [|reflexivity]. exfalso.
    unfold is_ws_cp in E. apply in_ranges_sound in E. destruct E as (wa & wb & Wi & Wr).
    rewrite forallb_forall in T2. specialize (T2 (wa, wb) Wi). clear Wi.
    unfold range_disj in T2. cbn [fst snd] in T2. apply orb_true_iff in T2.
    destruct T2 as [T2|T2]; apply N.ltb_lt in T2; lia.
  - clear T2. apply orb_true_iff in T1. destruct T1 as [T1|T1]; apply N.ltb_lt in T1; lia.
Qed.

Lemma username_char_not_ws_not_at c : username_char c = true -> is_ws_cp c = false /\ c <> 64.
Proof.
  unfold username_char. intro H.
  apply orb_true_iff in H. destruct H as [H|H].
  2:{ apply N.eqb_eq in H. subst c. split; [vm_compute; reflexivity | lia]. }
  apply orb_true_iff in H. destruct H as [H|H].
  2:{ apply N.eqb_eq in H. subst c. split; [vm_compute; reflexivity | lia]. }
  apply orb_true_iff in H. destruct H as [H|H].
  2:{ apply N.eqb_eq in H. subst c. split; [vm_compute; reflexivity | lia]. }
  apply alnum_not_ws_not_at. exact H.
Qed.

(* ====================================================================== *)
(* C2 : what make_local_nid guarantees                                     *)
(* ====================================================================== *)

Theorem C07_wellformed dom u n :
  make_local_nid dom u = Some n ->
  nu n = u /\ nd n = dom /\ u <> [] /\ forallb username_char (utf8_decode u) = true.
Proof.
  unfold make_local_nid. destruct u as [|x u]; [discriminate|].
  destruct (nid_validate (x :: u) dom) eqn:E; [|discriminate].
  intro H; injection H as <-. cbn [nu nd].
  split; [reflexivity|]. split; [reflexivity|]. split; [discriminate|].
  unfold nid_validate in E. apply andb_true_iff in E. destruct E as [E _].
  apply andb_true_iff in E. destruct E as [_ E]. exact E.
Qed.

(* the remaining conjuncts of nid_validate *)
Theorem C07_wellformed_bounds dom u n :
  make_local_nid dom u = Some n ->
  (length u <= USERNAME_MAX)%nat /\ validate_domain dom = true.
Proof.
  unfold make_local_nid. destruct u as [|x u]; [discriminate|].
  destruct (nid_validate (x :: u) dom) eqn:E; [|discriminate]. intros _.
  unfold nid_validate in E. apply andb_true_iff in E. destruct E as [E E3].
  apply andb_true_iff in E. destruct E as [E1 _]. split; [|exact E3].
  apply Nat.leb_le. exact E1.
Qed.

Theorem C07_no_ws_no_at dom u n :
  make_local_nid dom u = Some n ->
  forall c, In c (utf8_decode (nu n)) -> is_ws_cp c = false /\ c <> 64.
Proof.
  intros H c Hc. destruct (C07_wellformed dom u n H) as (Hu & _ & _ & Hf).
  rewrite Hu in Hc. rewrite forallb_forall in Hf.
  apply username_char_not_ws_not_at. apply Hf. exact Hc.
Qed.

Theorem C07_full_form dom u n :
  make_local_nid dom u = Some n ->
  nid_full n = u ++ [64] ++ dom /\ nid_full n <> dom.
Proof.
  intro H. destruct (C07_wellformed dom u n H) as (Hu & Hd & Hne & _).
  assert (E : nid_full n = u ++ [64] ++ dom).
  { unfold nid_full. rewrite Hu, Hd. destruct u as [|x u]; [congruence | reflexivity]. }
  split; [exact E|]. rewrite E. intro K.
  apply (f_equal (@length N)) in K. rewrite !app_length in K. cbn [length] in K. lia.
Qed.

(* a nid that make_local_nid accepts is a fixed point: the "validity" predicate used below *)
Lemma make_local_nid_idem dom u n :
  make_local_nid dom u = Some n -> make_local_nid dom (nu n) = Some n.
Proof.
  intro H. destruct (C07_wellformed dom u n H) as (Hu & _). rewrite Hu. exact H.
Qed.

(* ====================================================================== *)
(* What the handlers / frames / teardown do to conns and router             *)
(* ====================================================================== *)

(* connection table and router untouched *)
Definition CR (s s' : state) : Prop := conns s' = conns s /\ router s' = router s.

Lemma CR_refl s : CR s s.
Proof. split; reflexivity. Qed.

Lemma CR_trans s1 s2 s3 : CR s1 s2 -> CR s2 s3 -> CR s1 s3.
Proof. intros [A1 A2] [B1 B2]. split; congruence. Qed.

Lemma CR_eq s s' : s' = s -> CR s s'.
Proof. intros ->. apply CR_refl. Qed.

Lemma leave_core_cr cfg req id me hd dom cf ob c :
  CR (st c) (st (fst (leave_core cfg req id me hd dom cf ob c))).
Proof.
  destruct (leave_core_spec cfg req id me hd dom cf ob c) as [[-> _]|(ch & pick & _ & _ & _ & _ & ->)];
    [apply CR_refl|]. split; [apply leave_st_conns | apply leave_st_router].
Qed.

Lemma h_leave_cr cfg h me m c : CR (st c) (st (fst (h_leave cfg h me m c))).
Proof.
  unfold h_leave.
  destruct (chan_parse (get_str m "channel")) as [[hd dom]|]; [|apply CR_refl].
  destruct (get_ostr m "on_behalf") as [s|]; [|apply leave_core_cr].
  destruct (nid_parse s); [apply leave_core_cr | apply CR_refl].
Qed.

Lemma dispatch_auth_cr cfg h me m p c :
  CR (st c) (st (fst (dispatch_auth cfg h me m p c))).
Proof.
  unfold dispatch_auth. cbv zeta.
  destruct (is_kind m "BROADCAST"); [apply CR_eq, h_broadcast_st|].
  destruct (is_kind m "GET_CHAN_ACL"); [apply CR_eq, h_get_acl_st|].
  destruct (is_kind m "GET_CHAN_CONFIG"); [apply CR_eq, h_get_config_st|].
  destruct (is_kind m "JOIN").
  { pose proof (h_join_spec cfg h me m c) as Hs.
    destruct (snd (h_join cfg h me m c)); [apply CR_eq; exact Hs|].
    destruct Hs as (hd & n & _ & _ & _ & ->). split; reflexivity. }
  destruct (is_kind m "LEAVE"); [apply h_leave_cr|].
  destruct (is_kind m "CHANNELS"); [apply CR_refl|].
  destruct (is_kind m "MEMBERS"); [apply CR_eq, h_members_st|].
  destruct (is_kind m "MOD_DIRECT"); [apply CR_eq, h_mod_direct_st|].
  destruct (is_kind m "SET_CHAN_ACL").
  { destruct (h_set_acl_spec cfg h me m c) as [->|(hd & ch & ty & a & _ & ->)];
      [apply CR_refl | split; reflexivity]. }
  destruct (is_kind m "SET_CHAN_CONFIG").
  { destruct (h_set_config_spec cfg h me m c) as [->|(hd & ch & mc & mp & _ & ->)];
      [apply CR_refl | split; reflexivity]. }
  apply CR_refl.
Qed.

Lemma leave_all_cr cfg me c : CR (st c) (st (leave_all cfg me c)).
Proof.
  unfold leave_all. destruct (alookup (nu me) (inch (st c))) as [cfs|]; [|apply CR_refl].
  apply (fold_left_ind (fun a => CR (st c) (st a))).
  - intros a cf Ha. destruct (chan_parse cf) as [[hd dom]|]; [|exact Ha].
    eapply CR_trans; [exact Ha | apply leave_core_cr].
  - split; reflexivity.
Qed.

Definition auth_conn (n : nid) (hb : N) : conn := {| c_phase := Authenticated; c_nid := Some n; c_hb := hb |}.

(* the three things one frame can do to the connection table and the router *)
Inductive frame_effect (cfg : scfg) (h : N) (s s' : state) : Prop :=
| FE_same : conns s' = conns s -> router s' = router s -> frame_effect cfg h s s'
| FE_handshake cn' : conns s' = nset h cn' (conns s) -> router s' = router s -> c_nid cn' = None ->
                     frame_effect cfg h s s'
| FE_register u n ex s2 hb :
    conns s' = nset h (auth_conn n hb) (conns s2) -> router s' = router s2 ->
    make_local_nid (domain cfg) u = Some n ->
    register (nu n) h ex s = Some s2 ->
    (ex = true \/ auth_required cfg = true) ->
    frame_effect cfg h s s'.

Lemma on_frame_effect cfg h m p c : frame_effect cfg h (st c) (st (on_frame cfg h m p c)).
Proof.
  unfold on_frame.
  destruct (nlookup h (conns (st c))) as [cn|] eqn:Hl; [|apply FE_same; reflexivity].
  destruct (existsb _ _); [apply FE_same; reflexivity|].
  destruct (c_phase cn) eqn:Hph.
  - destruct (is_kind m "CONNECT"); [|rewrite notify_error_st; apply FE_same; reflexivity].
    destruct (negb _); [rewrite notify_error_st; apply FE_same; reflexivity|].
    cbv zeta. rewrite set_conn_st, emit_st. eapply FE_handshake; reflexivity.
  - destruct (is_kind m "AUTH").
    { destruct (negb (auth_required cfg)) eqn:Ea; [rewrite notify_error_st; apply FE_same; reflexivity|].
      apply negb_false_iff in Ea.
      cbv zeta. destruct (next_outcome _) as [o c1] eqn:En. apply next_outcome_st' in En. rewrite emit_st in En.
      destruct o; rewrite ?notify_error_st, ?emit_st, ?En; try (apply FE_same; reflexivity).
      destruct (make_local_nid (domain cfg) u) as [n|] eqn:Hn;
        [|rewrite notify_error_st, En; apply FE_same; reflexivity].
      destruct (register (nu n) h false (st c)) as [s2|] eqn:Hreg; [|rewrite En; apply FE_same; reflexivity].
      rewrite set_conn_st, emit_st, with_st_st.
      apply (FE_register cfg h _ _ u n false s2 (c_hb cn)); try reflexivity; try assumption.
      right. exact Ea. }
    destruct (is_kind m "IDENTIFY"); [|rewrite notify_error_st; apply FE_same; reflexivity].
    destruct (auth_required cfg); [rewrite notify_error_st; apply FE_same; reflexivity|].
    destruct (make_local_nid (domain cfg) (trim (get_str m "username"))) as [n|] eqn:Hn;
      [|rewrite notify_error_st; apply FE_same; reflexivity].
    destruct (register (nu n) h true (st c)) as [s2|] eqn:Hreg;
      [|rewrite notify_error_st; apply FE_same; reflexivity].
    rewrite set_conn_st, emit_st, with_st_st.
    apply (FE_register cfg h _ _ (trim (get_str m "username")) n true s2 (c_hb cn));
      try reflexivity; try assumption.
    left. reflexivity.
  - destruct (is_kind m "PONG"); [apply FE_same; reflexivity|].
    destruct (max_inflight cfg =? 0); [rewrite drop_conn_st; apply FE_same; reflexivity|].
    destruct (c_nid cn) as [me|]; [|apply FE_same; reflexivity].
    pose proof (dispatch_auth_cr cfg h me m p c) as [K1 K2].
    destruct (dispatch_auth cfg h me m p c) as [c1 r]. cbn [fst] in K1, K2.
    destruct r; [rewrite notify_error_st|]; apply FE_same; assumption.
Qed.

Lemma on_item_effect cfg h it c : frame_effect cfg h (st c) (st (on_item cfg h it c)).
Proof.
  destruct it; cbn [on_item]; rewrite ?request_close_st, ?drop_conn_st;
    try (apply FE_same; reflexivity).
  apply on_frame_effect.
Qed.

(* teardown: the connection goes; the router entry of its name loses h (and disappears when empty) *)
Definition drop_handler (u : str) (hs' : list N) (e : str * list N) : str * list N :=
  if list_eqb (fst e) u then (fst e, hs') else e.

Lemma teardown_effect cfg h c :
  (conns (st (teardown cfg h c)) = conns (st c) \/
   conns (st (teardown cfg h c)) = nremove h (conns (st c))) /\
  (router (st (teardown cfg h c)) = router (st c) \/
   exists cn me hs,
     nlookup h (conns (st c)) = Some cn /\ c_nid cn = Some me /\
     alookup (nu me) (router (st c)) = Some hs /\
     ((filter (fun x => negb (x =? h)) hs = [] /\
       router (st (teardown cfg h c)) = aremove (nu me) (router (st c))) \/
      (filter (fun x => negb (x =? h)) hs <> [] /\
       router (st (teardown cfg h c)) =
         map (drop_handler (nu me) (filter (fun x => negb (x =? h)) hs)) (router (st c))))).
Proof.
  unfold teardown.
  destruct (nlookup h (conns (st c))) as [cn|] eqn:Hl; [|split; left; reflexivity].
  destruct (c_nid cn) as [me|] eqn:Hn; [|split; [right | left]; reflexivity].
  cbn [st with_st set_conns router].
  destruct (alookup (nu me) (router (st c))) as [hs|] eqn:Er; [|split; [right | left]; reflexivity].
  destruct (isempty (filter (fun x => negb (x =? h)) hs)) eqn:Ee.
  - match goal with |- context [leave_all cfg me ?x] => destruct (leave_all_cr cfg me x) as [K1 K2] end.
    rewrite K1, K2. cbn [st with_st set_conns set_router conns router].
    split; [right; reflexivity|]. right. exists cn, me, hs.
    split; [first [reflexivity | assumption]|]. split; [first [reflexivity | assumption]|].
    split; [first [reflexivity | assumption]|].
    left. split; [apply isempty_true; exact Ee | reflexivity].
  - cbn [st with_st set_conns set_router conns router].
    split; [right; reflexivity|]. right. exists cn, me, hs.
    split; [first [reflexivity | assumption]|]. split; [first [reflexivity | assumption]|].
    split; [first [reflexivity | assumption]|].
    right. split; [apply isempty_false; exact Ee | reflexivity].
Qed.

(* ====================================================================== *)
(* C2 (continued) : every assigned nid came out of make_local_nid            *)
(* ====================================================================== *)

Definition NidsValid (cfg : scfg) (s : state) : Prop :=
  forall h cn n, nlookup h (conns s) = Some cn -> c_nid cn = Some n ->
                 make_local_nid (domain cfg) (nu n) = Some n.

Lemma nidsvalid_conns_eq cfg s s' : conns s' = conns s -> NidsValid cfg s -> NidsValid cfg s'.
Proof. intros E H h cn n. rewrite E. apply H. Qed.

Lemma nidsvalid_nset cfg s s' h cn' :
  conns s' = nset h cn' (conns s) ->
  (forall n, c_nid cn' = Some n -> make_local_nid (domain cfg) (nu n) = Some n) ->
  NidsValid cfg s -> NidsValid cfg s'.
Proof.
  intros E Hc H h0 cn n. rewrite E, nlookup_nset.
  destruct (h0 =? h); [|apply H]. intro K; injection K as <-. apply Hc.
Qed.

Lemma nidsvalid_nremove cfg s s' h :
  conns s' = nremove h (conns s) -> NidsValid cfg s -> NidsValid cfg s'.
Proof.
  intros E H h0 cn n. rewrite E, nlookup_nremove.
  destruct (h0 =? h); [discriminate | apply H].
Qed.

Lemma frame_effect_nidsvalid cfg h s s' :
  frame_effect cfg h s s' -> NidsValid cfg s -> NidsValid cfg s'.
Proof.
  intros [E _|cn' E _ Hn|u n ex s2 hb E _ Hm Hreg _] H.
  - exact (nidsvalid_conns_eq cfg s s' E H).
  - apply (nidsvalid_nset cfg s s' h cn' E); [|exact H]. intros n K. congruence.
  - destruct (ServerInv.register_spec _ _ _ _ _ Hreg) as (_ & _ & E3 & _). rewrite E3 in E.
    apply (nidsvalid_nset cfg s s' h _ E); [|exact H].
    intros n0 K. cbn [auth_conn c_nid] in K. injection K as <-.
    exact (make_local_nid_idem _ _ _ Hm).
Qed.

Lemma on_frame_nidsvalid cfg h m p c :
  NidsValid cfg (st c) -> NidsValid cfg (st (on_frame cfg h m p c)).
Proof. apply frame_effect_nidsvalid with (h := h). apply on_frame_effect. Qed.

Lemma on_item_nidsvalid cfg h it c :
  NidsValid cfg (st c) -> NidsValid cfg (st (on_item cfg h it c)).
Proof. apply frame_effect_nidsvalid with (h := h). apply on_item_effect. Qed.

Lemma teardown_nidsvalid cfg h c :
  NidsValid cfg (st c) -> NidsValid cfg (st (teardown cfg h c)).
Proof.
  intro H. destruct (teardown_effect cfg h c) as [[E|E] _].
  - exact (nidsvalid_conns_eq cfg _ _ E H).
  - exact (nidsvalid_nremove cfg _ _ h E H).
Qed.

Lemma flush_closes_nidsvalid cfg c :
  NidsValid cfg (st c) -> NidsValid cfg (st (flush_closes cfg c)).
Proof.
  intro H. unfold flush_closes. cbn [st].
  apply (fold_left_ind (fun a => NidsValid cfg (st a))); [|exact H].
  intros a x Ha. apply teardown_nidsvalid. exact Ha.
Qed.

Theorem nidsvalid_init : forall cfg, NidsValid cfg init.
Proof. intros cfg h cn n H. discriminate. Qed.

(* holds for ALL ops (no op_ok side condition) *)
Theorem nidsvalid_step : forall cfg s o, NidsValid cfg s -> NidsValid cfg (fst (step cfg s o)).
Proof.
  intros cfg s o H. destruct o as [h|h m p sc hi|h|h bytes sc hi|h sc hi|ts pl]; cbn [step].
  - destruct (max_conns cfg <=? _); cbn [fst]; [exact H|].
    apply (nidsvalid_nset cfg s _ h {| c_phase := Connecting; c_nid := None; c_hb := 0 |}); [reflexivity | | exact H].
    intros n K. discriminate.
  - cbn [fst]. apply flush_closes_nidsvalid, on_frame_nidsvalid. exact H.
  - cbn [fst]. destruct (nlookup h (conns s)); [|exact H].
    apply flush_closes_nidsvalid. rewrite request_close_st. exact H.
  - cbn [fst]. destruct (nlookup h (conns s)); [|exact H].
    apply flush_closes_nidsvalid.
    apply (fold_left_ind (fun a => NidsValid cfg (st a))); [|exact H].
    intros a it Ha. apply on_item_nidsvalid. exact Ha.
  - cbn [fst]. apply teardown_nidsvalid. exact H.
  - exact H.
Qed.

Theorem nidsvalid_run : forall cfg ops s, NidsValid cfg s -> NidsValid cfg (run_state cfg s ops).
Proof.
  intros cfg ops. induction ops as [|o r IH]; intros s H; cbn [run_state]; [exact H|].
  apply IH, nidsvalid_step, H.
Qed.

Theorem nidsvalid_reachable : forall cfg ops, NidsValid cfg (run_state cfg init ops).
Proof. intros cfg ops. apply nidsvalid_run, nidsvalid_init. Qed.

(* Every nid carried by a connection of a reachable state is well-formed.
   (Stronger than requested: no [ops_ok] hypothesis is needed.) *)
Theorem C07_assigned_wellformed_all : forall cfg ops h cn n,
  let s := run_state cfg init ops in
  nlookup h (conns s) = Some cn -> c_nid cn = Some n ->
  nd n = domain cfg /\ nu n <> [] /\
  forallb username_char (utf8_decode (nu n)) = true /\
  (forall c, In c (utf8_decode (nu n)) -> is_ws_cp c = false /\ c <> 64) /\
  nid_full n = nu n ++ [64] ++ domain cfg /\ nid_full n <> domain cfg /\
  (length (nu n) <= USERNAME_MAX)%nat /\ validate_domain (domain cfg) = true.
Proof.
  intros cfg ops h cn n s Hl Hn.
  pose proof (nidsvalid_reachable cfg ops h cn n Hl Hn) as Hm.
  destruct (C07_wellformed _ _ _ Hm) as (_ & Hd & Hne & Hf).
  destruct (C07_full_form _ _ _ Hm) as (F1 & F2).
  destruct (C07_wellformed_bounds _ _ _ Hm) as (B1 & B2).
  split; [exact Hd|]. split; [exact Hne|]. split; [exact Hf|].
  split; [exact (C07_no_ws_no_at _ _ _ Hm)|].
  split; [exact F1|]. split; [exact F2|]. split; [exact B1 | exact B2].
Qed.

(* the statement as requested (with [ops_ok]); the first two conjuncts are also what Inv / sp_conn give *)
Theorem C07_assigned_wellformed : forall cfg ops h cn n,
  ops_ok cfg init ops ->
  let s := run_state cfg init ops in
  nlookup h (conns s) = Some cn -> c_nid cn = Some n ->
  nd n = domain cfg /\ nu n <> [] /\ forallb username_char (utf8_decode (nu n)) = true.
Proof.
  intros cfg ops h cn n _ s Hl Hn.
  destruct (C07_assigned_wellformed_all cfg ops h cn n Hl Hn) as (A & B & C & _).
  split; [exact A|]. split; [exact B | exact C].
Qed.

(* the same two facts obtained from the big invariant, as a cross-check of the two routes *)
Theorem C07_assigned_local_from_Inv : forall cfg ops h cn n,
  ops_ok cfg init ops ->
  let s := run_state cfg init ops in
  nlookup h (conns s) = Some cn -> c_nid cn = Some n ->
  nd n = domain cfg /\ nu n <> [].
Proof.
  intros cfg ops h cn n Hok s Hl Hn.
  pose proof (Inv_spec cfg s (inv_reachable cfg ops Hok)) as HS.
  exact (proj2 (sp_conn _ _ HS h cn Hl) n Hn).
Qed.

(* ====================================================================== *)
(* C3 : one live connection per name when the server runs without auth      *)
(* ====================================================================== *)

Definition Single (s : state) : Prop :=
  forall u hs, alookup u (router s) = Some hs -> (length hs <= 1)%nat.

Definition RouterShrink (r r' : list (str * list N)) : Prop :=
  forall u hs', alookup u r' = Some hs' ->
                exists hs, alookup u r = Some hs /\ (length hs' <= length hs)%nat.

Lemma single_router_eq s s' : router s' = router s -> Single s -> Single s'.
Proof. intros E H u hs. rewrite E. apply H. Qed.

Lemma single_shrink s s' : RouterShrink (router s) (router s') -> Single s -> Single s'.
Proof.
  intros Hs H u hs' Hl. destruct (Hs u hs' Hl) as (hs & Hl0 & Hle).
  specialize (H u hs Hl0). lia.
Qed.

Lemma filter_length_le' {A} (f : A -> bool) l : (length (filter f l) <= length l)%nat.
Proof.
  induction l as [|x l IH]; cbn [filter length]; [lia|].
  destruct (f x); cbn [length]; lia.
Qed.

Lemma teardown_shrink cfg h c :
  RouterShrink (router (st c)) (router (st (teardown cfg h c))).
Proof.
  destruct (teardown_effect cfg h c) as [_ [E|(cn & me & hs & _ & _ & Er & [[_ E]|[_ E]])]];
    rewrite E; intros u hs' Hl.
  - exists hs'. split; [exact Hl | lia].
  - rewrite alookup_aremove in Hl. destruct (list_eqb u (nu me)); [discriminate|].
    exists hs'. split; [exact Hl | lia].
  - rewrite (alookup_map_upd u (nu me) (filter (fun x => negb (x =? h)) hs)) in Hl.
    2:{ intros [k v]. unfold drop_handler. cbn [fst].
        destruct (list_eqb_spec k (nu me)) as [->|E1]; reflexivity. }
    destruct (list_eqb_spec u (nu me)) as [->|E1].
    + rewrite Er in Hl. injection Hl as <-. exists hs. split; [exact Er | apply filter_length_le'].
    + exists hs'. split; [exact Hl | lia].
Qed.

Lemma register_exclusive_free u h s s2 :
  register u h true s = Some s2 -> rt_of (router s) u = [].
Proof.
  unfold register, rt_of. destruct (alookup u (router s)) as [hs|]; [|reflexivity].
  destruct hs; [reflexivity | cbn [andb isempty negb]; discriminate].
Qed.

Lemma frame_effect_single cfg h s s' :
  auth_required cfg = false -> frame_effect cfg h s s' -> Single s -> Single s'.
Proof.
  intros Ha [_ E|cn' _ E _|u n ex s2 hb _ E _ Hreg Hex] H.
  - exact (single_router_eq s s' E H).
  - exact (single_router_eq s s' E H).
  - destruct Hex as [->|K]; [|congruence].
    destruct (ServerInv.register_spec _ _ _ _ _ Hreg) as (_ & _ & _ & Hr).
    rewrite (register_exclusive_free _ _ _ _ Hreg) in Hr.
    intros k hs. rewrite E, Hr. destruct (list_eqb k (nu n)); [|apply H].
    intro K; injection K as <-. cbn [app length]. lia.
Qed.

Lemma on_frame_single cfg h m p c :
  auth_required cfg = false -> Single (st c) -> Single (st (on_frame cfg h m p c)).
Proof. intro Ha. apply (frame_effect_single cfg h _ _ Ha). apply on_frame_effect. Qed.

Lemma on_item_single cfg h it c :
  auth_required cfg = false -> Single (st c) -> Single (st (on_item cfg h it c)).
Proof. intro Ha. apply (frame_effect_single cfg h _ _ Ha). apply on_item_effect. Qed.

Lemma teardown_single cfg h c : Single (st c) -> Single (st (teardown cfg h c)).
Proof. apply single_shrink, teardown_shrink. Qed.

Lemma flush_closes_single cfg c : Single (st c) -> Single (st (flush_closes cfg c)).
Proof.
  intro H. unfold flush_closes. cbn [st].
  apply (fold_left_ind (fun a => Single (st a))); [|exact H].
  intros a x Ha. apply teardown_single. exact Ha.
Qed.

Theorem single_init : Single init.
Proof. intros u hs H. discriminate. Qed.

(* for ALL ops, provided the server does not use modulator authentication *)
Theorem single_step : forall cfg s o,
  auth_required cfg = false -> Single s -> Single (fst (step cfg s o)).
Proof.
  intros cfg s o Ha H. destruct o as [h|h m p sc hi|h|h bytes sc hi|h sc hi|ts pl]; cbn [step].
  - destruct (max_conns cfg <=? _); cbn [fst]; exact H.
  - cbn [fst]. apply flush_closes_single, on_frame_single; assumption.
  - cbn [fst]. destruct (nlookup h (conns s)); [|exact H].
    apply flush_closes_single. rewrite request_close_st. exact H.
  - cbn [fst]. destruct (nlookup h (conns s)); [|exact H].
    apply flush_closes_single.
    apply (fold_left_ind (fun a => Single (st a))); [|exact H].
    intros a it Ha'. apply on_item_single; assumption.
  - cbn [fst]. apply teardown_single. exact H.
  - exact H.
Qed.

Theorem single_run : forall cfg ops s,
  auth_required cfg = false -> Single s -> Single (run_state cfg s ops).
Proof.
  intros cfg ops. induction ops as [|o r IH]; intros s Ha H; cbn [run_state]; [exact H|].
  apply IH; [exact Ha|]. apply single_step; assumption.
Qed.

Theorem single_reachable : forall cfg ops,
  auth_required cfg = false -> Single (run_state cfg init ops).
Proof. intros cfg ops Ha. apply single_run; [exact Ha | apply single_init]. Qed.

Theorem C07_unique_live : forall cfg ops u hs,
  auth_required cfg = false -> ops_ok cfg init ops ->
  alookup u (router (run_state cfg init ops)) = Some hs -> length hs = 1%nat.
Proof.
  intros cfg ops u hs Ha Hok Hl.
  pose proof (single_reachable cfg ops Ha u hs Hl) as Hle.
  pose proof (inv_reachable cfg ops Hok) as (_ & HN & _).
  destruct (cn_ne _ _ _ HN u hs Hl) as [Hne _].
  destruct hs as [|x hs]; [congruence|]. cbn [length] in *. lia.
Qed.

(* ... and that single handler is a live authenticated connection carrying exactly this name *)
Theorem C07_unique_live_conn : forall cfg ops u hs,
  auth_required cfg = false -> ops_ok cfg init ops ->
  let s := run_state cfg init ops in
  alookup u (router s) = Some hs ->
  exists h cn, hs = [h] /\ nlookup h (conns s) = Some cn /\ c_phase cn = Authenticated /\
               c_nid cn = Some {| nu := u; nd := domain cfg |}.
Proof.
  intros cfg ops u hs Ha Hok s Hl.
  pose proof (C07_unique_live cfg ops u hs Ha Hok Hl) as Hlen.
  destruct hs as [|h [|y hs]]; try discriminate.
  pose proof (Inv_spec cfg s (inv_reachable cfg ops Hok)) as HS.
  destruct (sp_router _ _ HS u [h] Hl) as (_ & _ & Hin).
  destruct (proj1 (Hin h) (or_introl eq_refl)) as (cn & H1 & H2 & H3).
  exists h, cn. repeat split; assumption.
Qed.

(* two distinct live connections never carry the same name *)
Theorem C07_no_shared_name : forall cfg ops h1 h2 cn1 cn2 n,
  auth_required cfg = false -> ops_ok cfg init ops ->
  let s := run_state cfg init ops in
  nlookup h1 (conns s) = Some cn1 -> nlookup h2 (conns s) = Some cn2 ->
  c_nid cn1 = Some n -> c_nid cn2 = Some n -> h1 = h2.
Proof.
  intros cfg ops h1 h2 cn1 cn2 n Ha Hok s L1 L2 N1 N2.
  pose proof (inv_reachable cfg ops Hok) as (_ & HN & _). fold s in HN.
  destruct (cn_conn _ _ _ HN h1 cn1 L1) as [P1 Q1].
  destruct (cn_conn _ _ _ HN h2 cn2 L2) as [P2 _].
  destruct (Q1 n N1) as [Hd _].
  assert (I1 : In h1 (rt_of (router s) (nu n))).
  { apply (cn_rt _ _ _ HN). exists cn1. split; [exact L1|]. split; [apply P1; congruence|].
    rewrite (uid_local cfg n Hd). exact N1. }
  assert (I2 : In h2 (rt_of (router s) (nu n))).
  { apply (cn_rt _ _ _ HN). exists cn2. split; [exact L2|]. split; [apply P2; congruence|].
    rewrite (uid_local cfg n Hd). exact N2. }
  unfold rt_of in I1, I2. destruct (alookup (nu n) (router s)) as [hs|] eqn:E; [|destruct I1].
  pose proof (C07_unique_live cfg ops (nu n) hs Ha Hok E) as Hlen.
  destruct hs as [|x [|y hs]]; try discriminate.
  destruct I1 as [<-|[]]. destruct I2 as [<-|[]]. reflexivity.
Qed.

(* ---------- the name is free again once its connection has closed ---------- *)
Theorem C07_name_free_after_close : forall cfg s h cn n sc hi,
  Inv cfg s ->
  nlookup h (conns s) = Some cn -> c_nid cn = Some n -> alookup (nu n) (router s) = Some [h] ->
  let s' := fst (step cfg s (Hangup h sc hi)) in
  alookup (nu n) (router s') = None /\
  forall h', register (nu n) h' true s' <> None.
Proof.
  intros cfg s h cn n sc hi HI Hl Hn Hr s'.
  destruct (hangup_last_connection_cleans_up cfg s h cn n sc hi HI Hl Hn Hr) as (_ & K & _).
  fold s' in K. split; [exact K|].
  intro h'. unfold register. rewrite K. cbn [isempty negb andb]. discriminate.
Qed.

(* In a reachable state of a server without auth, hanging up ANY authenticated connection frees its name. *)
Theorem C07_hangup_frees_name : forall cfg ops h cn n sc hi,
  auth_required cfg = false -> ops_ok cfg init ops ->
  let s := run_state cfg init ops in
  nlookup h (conns s) = Some cn -> c_nid cn = Some n ->
  let s' := fst (step cfg s (Hangup h sc hi)) in
  alookup (nu n) (router s) = Some [h] /\
  alookup (nu n) (router s') = None /\
  forall h', register (nu n) h' true s' <> None.
Proof.
  intros cfg ops h cn n sc hi Ha Hok s Hl Hn s'.
  pose proof (inv_reachable cfg ops Hok) as HI. fold s in HI.
  pose proof HI as (_ & HN & _).
  destruct (cn_conn _ _ _ HN h cn Hl) as [P Q]. destruct (Q n Hn) as [Hd _].
  assert (Hi : In h (rt_of (router s) (nu n))).
  { apply (cn_rt _ _ _ HN). exists cn. split; [exact Hl|]. split; [apply P; congruence|].
    rewrite (uid_local cfg n Hd). exact Hn. }
  unfold rt_of in Hi. destruct (alookup (nu n) (router s)) as [hs|] eqn:E; [|destruct Hi].
  pose proof (C07_unique_live cfg ops (nu n) hs Ha Hok E) as Hlen.
  destruct hs as [|x [|y hs]]; try discriminate.
  destruct Hi as [->|[]].
  split; [reflexivity|].
  exact (C07_name_free_after_close cfg s h cn n sc hi HI Hl Hn E).
Qed.

(* ---------- the hypothesis auth_required = false is necessary ---------- *)
(* With modulator authentication the AUTH path registers non-exclusively: two connections
   authenticated as the same user share one router entry. *)
Definition auth_cfg : scfg :=
  {| domain := bs "localhost"; has_mod := true; op_auth := true; op_fbp := false; op_fev := false; op_spp := false;
     proto := bs "p"; max_clients := 10; max_subs := 10; max_payload_cfg := 1000; max_inflight := 10; max_message := 1000;
     keepalive := 60; min_keepalive := 10; max_conns := 10; pool_budget := 100000; max_channels := 100 |}.
Definition auth_ops : list op :=
  [Open 1;
   Frame 1 (build "CONNECT" [(bs "version", VNum 1); (bs "heartbeat_interval", VNum 0)]) None [] [];
   Frame 1 (build "AUTH" [(bs "token", VStr (bs "t"))]) None [MAuthSuccess (bs "alice")] [];
   Open 2;
   Frame 2 (build "CONNECT" [(bs "version", VNum 1); (bs "heartbeat_interval", VNum 0)]) None [] [];
   Frame 2 (build "AUTH" [(bs "token", VStr (bs "t"))]) None [MAuthSuccess (bs "alice")] []].

Example auth_allows_two_sessions :
  auth_required auth_cfg = true /\
  alookup (bs "alice") (router (run_state auth_cfg init auth_ops)) = Some [1; 2].
Proof. vm_compute. split; reflexivity. Qed.

Lemma auth_ops_ok : ops_ok auth_cfg init auth_ops.
Proof.
  cbn [ops_ok auth_ops op_ok]. repeat split; try exact I.
  - right. intros cn H. discriminate.
  - right. vm_compute. intros cn H. discriminate.
Qed.

(* hence C07_unique_live does not hold without the hypothesis [auth_required cfg = false] *)
Theorem C07_unique_live_needs_no_auth :
  ~ (forall cfg ops u hs, ops_ok cfg init ops ->
       alookup u (router (run_state cfg init ops)) = Some hs -> length hs = 1%nat).
Proof.
  intro H. specialize (H auth_cfg auth_ops (bs "alice") [1; 2] auth_ops_ok (proj2 auth_allows_two_sessions)).
  discriminate.
Qed.

Print Assumptions alnum_not_ws_not_at.
Print Assumptions C07_wellformed.
Print Assumptions C07_wellformed_bounds.
Print Assumptions C07_no_ws_no_at.
Print Assumptions C07_full_form.
Print Assumptions nidsvalid_step.
Print Assumptions nidsvalid_reachable.
Print Assumptions C07_assigned_wellformed_all.
Print Assumptions C07_assigned_wellformed.
Print Assumptions C07_assigned_local_from_Inv.
Print Assumptions single_step.
Print Assumptions single_reachable.
Print Assumptions C07_unique_live.
Print Assumptions C07_unique_live_conn.
Print Assumptions C07_no_shared_name.
Print Assumptions C07_name_free_after_close.
Print Assumptions C07_hangup_frees_name.
Print Assumptions auth_allows_two_sessions.
Print Assumptions auth_ops_ok.
Print Assumptions C07_unique_live_needs_no_auth.
