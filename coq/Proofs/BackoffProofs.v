(* Proofs about Model/Backoff.v: with the stored delay capped, every sleep — jitter included — stays below twice the larger
   of the initial and the maximal delay, so a request that finds its peer away fails within attempts x that bound; with
   the stored delay uncapped (the seeded change) the jitter, and with it the sleep, is unbounded. *)
From NW Require Import Model.Backoff.
From Coq Require Import NArith List Lia.
Import ListNotations.
Local Open Scope N_scope.

Lemma capped_next_le : forall c d, b_capped c = true -> d <= N.max (b_initial c) (b_max c) ->
  next_delay c d <= N.max (b_initial c) (b_max c).
Proof. intros c d H _. unfold next_delay. rewrite H. lia. Qed.

Lemma capped_sleep_le : forall c d j, b_capped c = true -> d <= N.max (b_initial c) (b_max c) -> draw_ok d j ->
  sleep_of c d j <= sleep_bound c.
Proof. intros c d j H Hd [Hj|[-> ->]]; unfold sleep_of, sleep_bound; rewrite H; lia. Qed.

Theorem capped_total_bounded : forall c draws d,
  b_capped c = true -> d <= N.max (b_initial c) (b_max c) -> draws_ok c d draws ->
  total_sleep c d draws <= N.of_nat (length draws) * sleep_bound c.
Proof.
  intros c draws. induction draws as [|j r IH]; intros d H Hd Hok; [simpl; lia|].
  destruct Hok as [Hj Hr]. cbn [total_sleep length].
  pose proof (capped_sleep_le c d j H Hd Hj) as A.
  pose proof (IH (next_delay c d) H (capped_next_le c d H Hd) Hr) as B.
  rewrite Nat2N.inj_succ. lia.
Qed.

(* from the configured initial delay: whatever the random draws, [attempts] failed attempts cost at most
   attempts x 2 x max(initial, max_delay) *)
Corollary capped_request_fails_in_time : forall c draws,
  b_capped c = true -> draws_ok c (b_initial c) draws ->
  total_sleep c (b_initial c) draws <= N.of_nat (length draws) * sleep_bound c.
Proof. intros c draws H Hok. apply capped_total_bounded; [exact H | lia | exact Hok]. Qed.

(* the uncapped variant: 100 ms initial, 1 s maximum, factor 3/2 — legal draws for 30 failed attempts under which the
   task sleeps for more than a hundred times what 30 capped attempts could cost *)
Definition un_cfg : bcfg := {| b_initial := 100; b_max := 1000; b_num := 3; b_den := 2; b_capped := false |}.
Fixpoint greedy (c : bcfg) (d : N) (n : nat) : list N :=
  match n with O => [] | S n' => (d - 1) :: greedy c (next_delay c d) n' end.

Theorem uncapped_sleep_unbounded_refuted :
  let draws := greedy un_cfg (b_initial un_cfg) 30 in
  draws_ok un_cfg (b_initial un_cfg) draws /\
  100 * (N.of_nat (length draws) * sleep_bound un_cfg) < total_sleep un_cfg (b_initial un_cfg) draws.
Proof.
  split.
  - vm_compute. repeat split; left; reflexivity.
  - vm_compute. reflexivity.
Qed.

(* and the same schedule of draws, cut to what the capped protocol allows, stays within the bound *)
Example capped_same_config_bounded :
  let c := {| b_initial := 100; b_max := 1000; b_num := 3; b_den := 2; b_capped := true |} in
  total_sleep c 100 (greedy c 100 30) <= 30 * sleep_bound c.
Proof. vm_compute. discriminate. Qed.

Print Assumptions capped_request_fails_in_time.
Print Assumptions uncapped_sleep_unbounded_refuted.
