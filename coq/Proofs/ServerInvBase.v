(* Generic lemmas for the server-model invariant: association lists, string/nid sets,
   chan_parse / make_local_nid facts, and "does not touch the state" lemmas. *)
From NW Require Import Base.Bytes Model.SchemaTypes Model.Codec Model.Ids Model.Framing Model.Server.

(* ---------- equality tests ---------- *)
Lemma list_eqb_spec a b : reflect (a = b) (list_eqb a b).
Proof.
  destruct (list_eqb a b) eqn:E; constructor.
  - apply list_eqb_eq; exact E.
  - intro H. apply list_eqb_eq in H. congruence.
Qed.

Lemma list_eqb_false a b : list_eqb a b = false <-> a <> b.
Proof.
  destruct (list_eqb_spec a b) as [H|H]; split; intro K; congruence.
Qed.

Lemma list_eqb_sym a b : list_eqb a b = list_eqb b a.
Proof.
  destruct (list_eqb_spec a b) as [H|H]; destruct (list_eqb_spec b a) as [K|K]; congruence.
Qed.

Lemma nid_eqb_eq a b : nid_eqb a b = true <-> a = b.
Proof.
  unfold nid_eqb. rewrite andb_true_iff, !list_eqb_eq.
  destruct a as [ua da], b as [ub db]; cbn [nu nd]. split.
  - intros [-> ->]; reflexivity.
  - intro H; injection H as -> ->; split; reflexivity.
Qed.

Lemma nid_eqb_spec a b : reflect (a = b) (nid_eqb a b).
Proof.
  destruct (nid_eqb a b) eqn:E; constructor.
  - apply nid_eqb_eq; exact E.
  - intro H. apply nid_eqb_eq in H. congruence.
Qed.

Lemma nid_eqb_refl a : nid_eqb a a = true.
Proof. apply nid_eqb_eq; reflexivity. Qed.

Lemma nid_eta n : n = {| nu := nu n; nd := nd n |}.
Proof. destruct n; reflexivity. Qed.

(* ---------- sets of strings / nids ---------- *)
Lemma smem_In x l : smem x l = true <-> In x l.
Proof.
  unfold smem. rewrite existsb_exists. split.
  - intros (y & Hy & E). apply list_eqb_eq in E. subst. exact Hy.
  - intro H. exists x. split; [exact H | apply list_eqb_refl].
Qed.

Lemma smem_false x l : smem x l = false <-> ~ In x l.
Proof.
  destruct (smem x l) eqn:E; split; intro H.
  - discriminate.
  - apply smem_In in E. contradiction.
  - intro K. apply smem_In in K. congruence.
  - reflexivity.
Qed.

Lemma nmem_In x l : nmem x l = true <-> In x l.
Proof.
  unfold nmem. rewrite existsb_exists. split.
  - intros (y & Hy & E). apply nid_eqb_eq in E. subst. exact Hy.
  - intro H. exists x. split; [exact H | apply nid_eqb_refl].
Qed.

Lemma nmem_false x l : nmem x l = false <-> ~ In x l.
Proof.
  destruct (nmem x l) eqn:E; split; intro H.
  - discriminate.
  - apply nmem_In in E. contradiction.
  - intro K. apply nmem_In in K. congruence.
  - reflexivity.
Qed.

Lemma In_sadd x y l : In x (sadd y l) <-> x = y \/ In x l.
Proof.
  unfold sadd. destruct (smem y l) eqn:E.
  - apply smem_In in E. split; [intro H; right; exact H|]. intros [->|H]; assumption.
  - rewrite in_app_iff. cbn [In]. split.
    + intros [H|[H|[]]]; [right; exact H | left; symmetry; exact H].
    + intros [H|H]; [right; left; symmetry; exact H | left; exact H].
Qed.

Lemma NoDup_snoc {A} (x : A) l : NoDup l -> ~ In x l -> NoDup (l ++ [x]).
Proof.
  intros Hn Hx. induction Hn as [|y l Hy Hn IH]; cbn [app].
  - constructor; [intros []|constructor].
  - constructor.
    + rewrite in_app_iff. cbn [In]. intros [H|[H|[]]]; [apply Hy; exact H|].
      apply Hx. left. symmetry. exact H.
    + apply IH. intro H. apply Hx. right. exact H.
Qed.

Lemma NoDup_sadd y l : NoDup l -> NoDup (sadd y l).
Proof.
  intro Hn. unfold sadd. destruct (smem y l) eqn:E; [exact Hn|].
  apply NoDup_snoc; [exact Hn|]. apply smem_false; exact E.
Qed.

Lemma sadd_nonempty y l : sadd y l <> [].
Proof.
  unfold sadd. destruct (smem y l) eqn:E.
  - intros ->. cbn in E. discriminate.
  - destruct l; discriminate.
Qed.

Lemma In_sdel x y l : In x (sdel y l) <-> x <> y /\ In x l.
Proof.
  unfold sdel. rewrite filter_In. split.
  - intros [H E]. split; [|exact H]. apply negb_true_iff, list_eqb_false in E. congruence.
  - intros [E H]. split; [exact H|]. apply negb_true_iff, list_eqb_false. congruence.
Qed.

Lemma In_ndel x y l : In x (ndel y l) <-> x <> y /\ In x l.
Proof.
  unfold ndel. rewrite filter_In. split.
  - intros [H E]. split; [|exact H]. apply negb_true_iff in E.
    intros ->. rewrite nid_eqb_refl in E. discriminate.
  - intros [E H]. split; [exact H|]. apply negb_true_iff.
    destruct (nid_eqb_spec y x) as [K|K]; [congruence|reflexivity].
Qed.

Lemma nadd_fresh x l : nmem x l = false -> nadd x l = l ++ [x].
Proof. intro H. unfold nadd. rewrite H. reflexivity. Qed.

Lemma isempty_true {A} (l : list A) : isempty l = true <-> l = [].
Proof. destruct l; cbn; split; intro; congruence. Qed.

Lemma isempty_false {A} (l : list A) : isempty l = false <-> l <> [].
Proof. destruct l; cbn; split; intro; congruence. Qed.

Lemma nonempty_In {A} (l : list A) : l <> [] <-> exists x, In x l.
Proof.
  destruct l as [|a l]; split.
  - intro H; congruence.
  - intros [x []].
  - intros _. exists a. left. reflexivity.
  - intros _. discriminate.
Qed.

(* ---------- string-keyed association lists ---------- *)
Lemma alookup_app {A} k (l l' : list (str * A)) :
  alookup k (l ++ l') = match alookup k l with Some v => Some v | None => alookup k l' end.
Proof.
  induction l as [|[k' v] l IH]; cbn [app alookup]; [reflexivity|].
  destruct (list_eqb k k'); [reflexivity | exact IH].
Qed.

Lemma alookup_aremove {A} k h (l : list (str * A)) :
  alookup k (aremove h l) = if list_eqb k h then None else alookup k l.
Proof.
  induction l as [|[k' v] l IH]; cbn [aremove alookup].
  - destruct (list_eqb k h); reflexivity.
  - destruct (list_eqb_spec h k') as [E|E].
    + subst k'. rewrite IH. destruct (list_eqb k h); reflexivity.
    + cbn [alookup]. rewrite IH.
      destruct (list_eqb_spec k k') as [E1|E1]; [|reflexivity].
      subst k'. destruct (list_eqb_spec k h) as [E2|E2]; [congruence|reflexivity].
Qed.

Lemma alookup_map_upd {A} k h (v : A) (f : str * A -> str * A) l :
  (forall e, f e = if list_eqb (fst e) h then (h, v) else e) ->
  alookup k (map f l) =
    if list_eqb k h then match alookup h l with Some _ => Some v | None => None end else alookup k l.
Proof.
  intro Hf. induction l as [|[k' v'] l IH]; cbn [map alookup].
  - destruct (list_eqb k h); reflexivity.
  - rewrite Hf. cbn [fst]. destruct (list_eqb_spec k' h) as [E|E].
    + subst k'. cbn [alookup]. rewrite (list_eqb_refl h), IH.
      destruct (list_eqb k h); reflexivity.
    + cbn [alookup]. rewrite IH.
      destruct (list_eqb_spec k k') as [E1|E1].
      * subst k'. destruct (list_eqb_spec k h) as [E2|E2]; [congruence|reflexivity].
      * destruct (list_eqb_spec h k') as [E3|E3]; [congruence|reflexivity].
Qed.

(* "update in place or append": the shape used by put_chan, index_add, register *)
Definition upsert {A} (h : str) (v : A) (f : str * A -> str * A) (l : list (str * A)) : list (str * A) :=
  match alookup h l with Some _ => map f l | None => l ++ [(h, v)] end.

Lemma alookup_upsert {A} k h (v : A) f l :
  (forall e, f e = if list_eqb (fst e) h then (h, v) else e) ->
  alookup k (upsert h v f l) = if list_eqb k h then Some v else alookup k l.
Proof.
  intro Hf. unfold upsert. destruct (alookup h l) as [w|] eqn:E.
  - rewrite (alookup_map_upd k h v f l Hf), E. reflexivity.
  - rewrite alookup_app. cbn [alookup].
    destruct (list_eqb_spec k h) as [E1|E1].
    + subst k. rewrite E. reflexivity.
    + destruct (alookup k l); reflexivity.
Qed.

(* ---------- N-keyed association lists ---------- *)
Lemma nlookup_nremove {A} k h (l : list (N * A)) :
  nlookup k (nremove h l) = if k =? h then None else nlookup k l.
Proof.
  unfold nremove. induction l as [|[k' v] l IH]; cbn [filter nlookup fst].
  - destruct (k =? h); reflexivity.
  - destruct (N.eqb_spec h k') as [E|E]; cbn [negb].
    + subst k'. rewrite IH. destruct (k =? h); reflexivity.
    + cbn [nlookup]. rewrite IH.
      destruct (N.eqb_spec k k') as [E1|E1]; [|reflexivity].
      subst k'. destruct (N.eqb_spec k h) as [E2|E2]; [congruence|reflexivity].
Qed.

Lemma nlookup_nset {A} k h (v : A) l :
  nlookup k (nset h v l) = if k =? h then Some v else nlookup k l.
Proof.
  unfold nset. cbn [nlookup]. rewrite nlookup_nremove. destruct (k =? h); reflexivity.
Qed.

(* ---------- fold invariants ---------- *)
Lemma fold_left_ind {A B} (P : A -> Prop) (f : A -> B -> A) l a :
  (forall a x, P a -> P (f a x)) -> P a -> P (fold_left f l a).
Proof.
  intro Hf. revert a. induction l as [|x l IH]; cbn [fold_left]; intros a Ha; [exact Ha|].
  apply IH, Hf, Ha.
Qed.

(* ---------- chan_parse / make_local_nid ---------- *)
Lemma find_index_split c l k :
  find_index (N.eqb c) l = Some k -> l = firstn k l ++ [c] ++ skipn (S k) l.
Proof.
  revert k. induction l as [|x l IH]; intros k H; cbn [find_index] in H; [discriminate|].
  destruct (N.eqb_spec c x) as [E|E].
  - injection H as <-. subst x. reflexivity.
  - destruct (find_index (N.eqb c) l) as [k'|] eqn:E'; cbn [option_map] in H; [|discriminate].
    injection H as <-. cbn [firstn skipn app]. f_equal.
    specialize (IH k' eq_refl). cbn [app] in IH. exact IH.
Qed.

Lemma chan_parse_head b s h d : chan_parse (b :: s) = Some (h, d) -> b = 33.
Proof.
  unfold chan_parse. intro H.
  destruct b as [|p]; [discriminate|].
  do 6 (destruct p as [p|p|]; try discriminate).
  reflexivity.
Qed.

Lemma chan_parse_full s h d : chan_parse s = Some (h, d) -> s = chan_full h d.
Proof.
  intro H. destruct s as [|b s]; [discriminate|].
  pose proof (chan_parse_head _ _ _ _ H) as ->.
  unfold chan_parse in H.
  destruct (find_index (N.eqb AT) (33 :: s)) as [k|] eqn:E; [|discriminate].
  destruct (chan_validate _ _); [|discriminate].
  injection H as <- <-.
  cbn [find_index] in E. change (AT =? 33) with false in E. cbv iota in E.
  destruct (find_index (N.eqb AT) s) as [k'|] eqn:E'; cbn [option_map] in E; [|discriminate].
  injection E as <-.
  apply find_index_split in E'.
  unfold chan_full. change (skipn (S (S k')) (33 :: s)) with (skipn (S k') s).
  change (skipn 1 (33 :: s)) with s.
  replace (S k' - 1)%nat with k' by lia.
  cbn [app] in *. unfold BANG. f_equal. exact E'.
Qed.

Lemma chan_full_inj h h' d : chan_full h d = chan_full h' d -> h = h'.
Proof.
  unfold chan_full. cbn [app]. intro H. injection H as H.
  apply app_inv_tail in H. exact H.
Qed.

Lemma make_local_nid_spec dom u n :
  make_local_nid dom u = Some n -> nd n = dom /\ nu n = u /\ u <> [].
Proof.
  unfold make_local_nid. destruct u as [|x u]; [discriminate|].
  destruct (nid_validate _ _); [|discriminate].
  intro H; injection H as <-. cbn [nu nd]. repeat split. discriminate.
Qed.

(* ---------- operations that do not touch the state ---------- *)
Lemma emit_st o c : st (emit o c) = st c.
Proof. reflexivity. Qed.

Lemma next_outcome_st c : st (snd (next_outcome c)) = st c.
Proof. unfold next_outcome. destruct (script c); reflexivity. Qed.

Lemma next_outcome_st' c o c' : next_outcome c = (o, c') -> st c' = st c.
Proof. intro H. pose proof (next_outcome_st c) as K. rewrite H in K. exact K. Qed.

Lemma request_close_st h m c : st (request_close h m c) = st c.
Proof. unfold request_close. destruct (existsb _ _); reflexivity. Qed.

Lemma drop_conn_st h c : st (drop_conn h c) = st c.
Proof. unfold drop_conn. destruct (existsb _ _); reflexivity. Qed.

Lemma notify_error_st h e c : st (notify_error h e c) = st c.
Proof.
  unfold notify_error. destruct e as [id reason|].
  - destruct (is_recoverable reason); [apply emit_st | apply request_close_st].
  - apply request_close_st.
Qed.

Lemma route_st cfg m p ts ex c : st (route cfg m p ts ex c) = st c.
Proof.
  unfold route. apply fold_left_ind; [|reflexivity].
  intros a t Ha. destruct (list_eqb (nd t) (domain cfg)); [|exact Ha].
  destruct (alookup (nu t) (router (st a))) as [hs|]; [|exact Ha].
  apply fold_left_ind; [|exact Ha].
  intros a2 h Ha2. destruct ex as [e|].
  - destruct (h =? e); [exact Ha2 | rewrite emit_st; exact Ha2].
  - rewrite emit_st; exact Ha2.
Qed.

Lemma notify_st cfg kind hd n ow ts ex c : st (snd (notify cfg kind hd n ow ts ex c)) = st c.
Proof.
  unfold notify.
  destruct (has_mod cfg && op_fev cfg).
  - destruct (next_outcome _) as [o c0'] eqn:E.
    apply next_outcome_st' in E. rewrite emit_st in E.
    destruct o; cbn [snd]; rewrite ?route_st; exact E.
  - cbn [snd]. apply route_st.
Qed.

Lemma notify_st' cfg kind hd n ow ts ex c b c' :
  notify cfg kind hd n ow ts ex c = (b, c') -> st c' = st c.
Proof. intro H. pose proof (notify_st cfg kind hd n ow ts ex c) as K. rewrite H in K. exact K. Qed.
