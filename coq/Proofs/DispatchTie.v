(* The dispatch tables read off the CURRENT source (Gen/Dispatch.v, regenerated on every run by
   translator/dispatch.py) against the model's handlers:
   - unlisted kinds: whatever is not in the source's list for a phase is refused by the model with
     UNEXPECTED_MESSAGE (so an arm removed from the source breaks the proof);
   - listed kinds: every kind in the source's list is handed to a handler by the model, i.e. is not refused for its
     kind (so an arm added to the source, unknown to the model, breaks the proof). *)
From NW Require Import Base.Bytes Model.SchemaTypes Gen.Schema Gen.Errors Gen.Dispatch Model.Codec Model.MsgInfo Model.Pool
     Model.Framing Model.Ids Model.Server Model.Link.
From Coq Require Import String.

Definition unlisted (m : msg) (l : list string) : bool := forallb (fun k => negb (is_kind m k)) l.

Ltac kill_kinds H :=
  unfold unlisted in H; cbn [forallb] in H;
  repeat match type of H with
         | (negb ?b && _)%bool = true => let H1 := fresh in let H2 := fresh in
                                         apply andb_prop in H; destruct H as [H1 H]; apply negb_true_iff in H1; try rewrite H1
         end.

(* ---------- C2S ---------- *)
Theorem c2s_authenticated_unlisted_refused :
  forall cfg h me m p c, unlisted m c2s_authenticated_accepts = true ->
    dispatch_auth cfg h me m p c = fail c (PErr None "UNEXPECTED_MESSAGE").
Proof.
  intros cfg h me m p c H. unfold c2s_authenticated_accepts in H. unfold dispatch_auth. kill_kinds H. reflexivity.
Qed.

(* a message of kind number i with default field values *)
Definition dmsg (i : nat) : msg :=
  match nth_error schema i with
  | Some k => {| m_kind := i; m_fields := map default_val (k_fields k) |}
  | None => {| m_kind := i; m_fields := [] |}
  end.
Definition kind_index (name : string) : option nat := option_map fst (find_kind schema 0 (bs name)).

Definition full_cfg : scfg :=
  {| domain := bs "localhost"; has_mod := true; op_auth := true; op_fbp := true; op_fev := true; op_spp := true;
     proto := bs "P"; max_clients := 10; max_subs := 10; max_payload_cfg := 1024; max_inflight := 10; max_message := 1024;
     keepalive := 1000; min_keepalive := 100; max_conns := 10; pool_budget := 1048576; max_channels := 10 |}.
Definition ctx0 (s : state) : ctx := {| st := s; script := []; hints := []; outs := []; closing := [] |}.
Definition me0 : nid := {| nu := bs "alice"; nd := bs "localhost" |}.

Definition is_unexpected (r : option perr) : bool :=
  match r with Some (PErr None reason) => String.eqb reason "UNEXPECTED_MESSAGE" | _ => false end.

(* the model hands kind `name` to a handler in the authenticated phase (with every modulator operation available) *)
Definition c2s_auth_handled (name : string) : bool :=
  match kind_index name with
  | Some i => negb (is_unexpected (snd (dispatch_auth full_cfg 1 me0 (dmsg i) (Some [120]) (ctx0 init))))
  | None => false
  end.

Theorem c2s_authenticated_listed_handled : forallb c2s_auth_handled c2s_authenticated_accepts = true.
Proof. vm_compute. reflexivity. Qed.

(* pre-authentication phases go through on_frame: a connection in the given phase *)
Definition st_phase (ph : phase) : state :=
  {| conns := [(1, {| c_phase := ph; c_nid := None; c_hb := 1000 |})]; router := []; chans := []; inch := [] |}.
Definition closes_unexpected (os : list out) : bool :=
  match os with
  | [OClose 1 e] => list_eqb (get_str e "reason") (bs "UNEXPECTED_MESSAGE")
  | _ => false
  end.
Definition pre_handled (cfg : scfg) (ph : phase) (name : string) : bool :=
  match kind_index name with
  | Some i => negb (closes_unexpected (outs (on_frame cfg 1 (dmsg i) None (ctx0 (st_phase ph)))))
  | None => false
  end.
Definition noauth_cfg : scfg :=
  {| domain := bs "localhost"; has_mod := false; op_auth := false; op_fbp := false; op_fev := false; op_spp := false;
     proto := bs "P"; max_clients := 10; max_subs := 10; max_payload_cfg := 1024; max_inflight := 10; max_message := 1024;
     keepalive := 1000; min_keepalive := 100; max_conns := 10; pool_budget := 1048576; max_channels := 10 |}.

Theorem c2s_connecting_unlisted_refused :
  forall cfg m p s cn, nlookup 1 (conns s) = Some cn -> c_phase cn = Connecting ->
    unlisted m c2s_connecting_accepts = true ->
    outs (on_frame cfg 1 m p (ctx0 s)) = [OClose 1 (err_msg None "UNEXPECTED_MESSAGE")].
Proof.
  intros cfg m p s cn Hl Hp H. unfold c2s_connecting_accepts in H. unfold on_frame. cbn [st ctx0 closing existsb].
  rewrite Hl, Hp. kill_kinds H. reflexivity.
Qed.

Theorem c2s_connected_unlisted_refused :
  forall cfg m p s cn, nlookup 1 (conns s) = Some cn -> c_phase cn = Connected ->
    unlisted m c2s_connected_accepts = true ->
    outs (on_frame cfg 1 m p (ctx0 s)) = [OClose 1 (err_msg None "UNEXPECTED_MESSAGE")].
Proof.
  intros cfg m p s cn Hl Hp H. unfold c2s_connected_accepts in H. unfold on_frame. cbn [st ctx0 closing existsb].
  rewrite Hl, Hp. kill_kinds H. reflexivity.
Qed.

(* CONNECT is handled when connecting; IDENTIFY without and AUTH with modulator authentication when connected *)
Theorem c2s_preauth_listed_handled :
  forallb (pre_handled noauth_cfg Connecting) c2s_connecting_accepts = true /\
  forallb (fun k => pre_handled noauth_cfg Connected k || pre_handled full_cfg Connected k)%bool c2s_connected_accepts = true.
Proof. split; vm_compute; reflexivity. Qed.

(* ---------- S2M / M2S ---------- *)
Definition lctx0 (ph : lphase) : lctx := {| lph := ph; lscript := []; louts := []; lclosed := false |}.
Definition lfull : lcfg :=
  {| l_secret := []; l_keepalive := 1000; l_min_keepalive := 100; l_max_message := 1024; l_max_payload := 1024; l_max_inflight := 10;
     l_max_conns := 4; l_budget := 1048576; l_proto := bs "P"; lop_auth := true; lop_fbp := true; lop_fev := true; lop_spp := true;
     lop_rpp := true |}.
Definition lcloses_unexpected (os : list lout) : bool :=
  match os with
  | [LClose e] => list_eqb (get_str e "reason") (bs "UNEXPECTED_MESSAGE")
  | _ => false
  end.

Theorem s2m_authenticated_unlisted_refused :
  forall cfg m p c, unlisted m s2m_authenticated_accepts = true ->
    s2m_request cfg m p c = lnotify_error (PErr None "UNEXPECTED_MESSAGE") c.
Proof.
  intros cfg m p c H. unfold s2m_authenticated_accepts in H. unfold s2m_request. kill_kinds H. reflexivity.
Qed.

Theorem s2m_connecting_unlisted_refused :
  forall cfg m p c, lph c = LConnecting -> lclosed c = false -> unlisted m s2m_connecting_accepts = true ->
    s2m_frame cfg m p c = lnotify_error (PErr None "UNEXPECTED_MESSAGE") c.
Proof.
  intros cfg m p c Hp Hc H. unfold s2m_connecting_accepts in H. unfold s2m_frame. rewrite Hc, Hp. kill_kinds H. reflexivity.
Qed.

Theorem m2s_connecting_unlisted_refused :
  forall cfg m p c, lph c = LConnecting -> lclosed c = false -> unlisted m m2s_connecting_accepts = true ->
    m2s_frame cfg m p c = lnotify_error (PErr None "UNEXPECTED_MESSAGE") c.
Proof.
  intros cfg m p c Hp Hc H. unfold m2s_connecting_accepts in H. unfold m2s_frame. rewrite Hc, Hp. kill_kinds H. reflexivity.
Qed.

Theorem m2s_authenticated_unlisted_refused :
  forall cfg m p c hb, lph c = LAuth hb -> lclosed c = false -> l_max_inflight cfg <> 0 -> is_kind m "PONG" = false ->
    unlisted m m2s_authenticated_accepts = true ->
    m2s_frame cfg m p c = lnotify_error (PErr None "UNEXPECTED_MESSAGE") c.
Proof.
  intros cfg m p c hb Hp Hc Hi Hpong H. unfold m2s_authenticated_accepts in H. unfold m2s_frame. rewrite Hc, Hp, Hpong.
  destruct (l_max_inflight cfg =? 0) eqn:E; [apply N.eqb_eq in E; contradiction |]. kill_kinds H. reflexivity.
Qed.

Definition link_handled (k : lkind) (ph : lphase) (name : string) : bool :=
  match kind_index name with
  | Some i => negb (lcloses_unexpected (louts (match k with KS2m => s2m_frame | KM2s => m2s_frame end lfull (dmsg i) (Some [120]) (lctx0 ph))))
  | None => false
  end.

Theorem link_listed_handled :
  forallb (link_handled KS2m LConnecting) s2m_connecting_accepts = true /\
  forallb (link_handled KS2m (LAuth 1000)) s2m_authenticated_accepts = true /\
  forallb (link_handled KM2s LConnecting) m2s_connecting_accepts = true /\
  forallb (link_handled KM2s (LAuth 1000)) m2s_authenticated_accepts = true.
Proof. repeat split; vm_compute; reflexivity. Qed.

(* and the converse direction on the finite set of kinds: every kind the model hands to a handler is in the source's list *)
Definition all_kind_names : list (list N) := map k_name schema.
Definition in_list (l : list string) (n : list N) : bool := existsb (fun k => list_eqb n (bs k)) l.
Definition name_handled_c2s_auth (n : list N) : bool :=
  match find_kind schema 0 n with
  | Some (i, _) => negb (is_unexpected (snd (dispatch_auth full_cfg 1 me0 (dmsg i) (Some [120]) (ctx0 init))))
  | None => false
  end.
Theorem c2s_authenticated_handled_iff_listed :
  forallb (fun n => Bool.eqb (name_handled_c2s_auth n) (in_list c2s_authenticated_accepts n)) all_kind_names = true.
Proof. vm_compute. reflexivity. Qed.

Print Assumptions c2s_authenticated_unlisted_refused.
Print Assumptions c2s_authenticated_listed_handled.
Print Assumptions c2s_connecting_unlisted_refused.
Print Assumptions c2s_connected_unlisted_refused.
Print Assumptions c2s_preauth_listed_handled.
Print Assumptions s2m_authenticated_unlisted_refused.
Print Assumptions s2m_connecting_unlisted_refused.
Print Assumptions m2s_connecting_unlisted_refused.
Print Assumptions m2s_authenticated_unlisted_refused.
Print Assumptions link_listed_handled.
Print Assumptions c2s_authenticated_handled_iff_listed.
