(* deserialize is total: the fuel S (length buf) given to decode_loop is never exhausted,
   because every iteration that recurses strictly advances the position, which stays within
   the buffer. *)
From NW Require Import Base.Bytes Model.SchemaTypes Gen.Consts Model.Codec Proofs.CodecNoPanic.

Definition sep (b : N) : bool := (b =? 0) || is_space b.

Lemma backslash_not_sep : sep BACKSLASH = false.
Proof. vm_compute. reflexivity. Qed.

Lemma nth_error_skipn_add {A} (l : list A) : forall n i, nth_error (skipn n l) i = nth_error l (n + i).
Proof.
  induction l as [|x l IH]; intros n i.
  - rewrite skipn_nil. destruct i, n; reflexivity.
  - destruct n as [|n]; [reflexivity|]. cbn [skipn Nat.add nth_error]. apply IH.
Qed.

(* ---------------------------------------------------------------- seek_char *)

Lemma seek_aux_spec suf : forall p r p',
  seek_aux suf p = (r, p') ->
  match r with
  | Some from => p' = from /\ (p <= from)%nat /\ (from < p + length suf)%nat /\
                 exists b, nth_error suf (from - p) = Some b /\ sep b = false
  | None => (p <= p')%nat /\ (p' <= p + length suf)%nat
  end.
Proof.
  induction suf as [|b r0 IH]; intros p r p' H; cbn [seek_aux] in H.
  - injection H as <- <-. cbn [length]. lia.
  - destruct (b =? 0) eqn:Ez.
    { injection H as <- <-. cbn [length]. lia. }
    destruct (is_space b) eqn:Es.
    + apply IH in H. destruct r as [from|].
      * destruct H as (Hp & Hle & Hlt & bb & Hn & Hs). cbn [length].
        repeat split; try lia.
        exists bb. split; [|exact Hs].
        replace (from - p)%nat with (S (from - S p)) by lia. exact Hn.
      * cbn [length]. lia.
    + injection H as <- <-. cbn [length]. repeat split; try lia.
      exists b. rewrite Nat.sub_diag. split; [reflexivity|].
      unfold sep. rewrite Ez, Es. reflexivity.
Qed.

Lemma seek_char_some buf p from p' :
  (p <= length buf)%nat ->
  seek_char buf p = (Some from, p') ->
  p' = from /\ (p <= from)%nat /\ (from < length buf)%nat /\
  exists b, nth_error buf from = Some b /\ sep b = false.
Proof.
  intros Hp H. unfold seek_char in H. apply seek_aux_spec in H.
  destruct H as (E & Hle & Hlt & b & Hn & Hs).
  rewrite skipn_length in Hlt. repeat split; try lia.
  exists b. split; [|exact Hs].
  rewrite nth_error_skipn_add in Hn. replace (p + (from - p))%nat with from in Hn by lia. exact Hn.
Qed.

Lemma seek_char_none buf p p' :
  (p <= length buf)%nat ->
  seek_char buf p = (None, p') -> (p <= p')%nat /\ (p' <= length buf)%nat.
Proof.
  intros Hp H. unfold seek_char in H. apply seek_aux_spec in H.
  rewrite skipn_length in H. lia.
Qed.

(* ---------------------------------------------------------------- read_string *)

Lemma rs_aux_bounds suf : forall p to to' p',
  rs_aux suf p to = (to', p') -> (p <= p')%nat /\ (p' <= p + length suf)%nat.
Proof.
  induction suf as [|b r IH]; intros p to to' p' H; cbn [rs_aux] in H.
  - injection H as <- <-. cbn [length]. lia.
  - destruct ((b =? 0) || is_space b).
    + injection H as <- <-. cbn [length]. lia.
    + apply IH in H. cbn [length]. lia.
Qed.

(* rs_aux stops at the end of the buffer or just after a separator *)
Lemma rs_aux_stop suf : forall p to to' p',
  rs_aux suf p to = (to', p') ->
  p' = (p + length suf)%nat \/
  exists i b, nth_error suf i = Some b /\ sep b = true /\ p' = (p + i + 1)%nat.
Proof.
  induction suf as [|b r IH]; intros p to to' p' H; cbn [rs_aux] in H.
  - injection H as <- <-. left. cbn [length]. lia.
  - destruct ((b =? 0) || is_space b) eqn:Es.
    + injection H as <- <-. right. exists 0%nat, b. repeat split; [exact Es | lia].
    + apply IH in H. destruct H as [H | (i & bb & Hn & Hs & Hp)].
      * left. cbn [length]. lia.
      * right. exists (S i), bb. repeat split; [exact Hn | exact Hs | lia].
Qed.

Lemma rs_aux_first suf p to to' p' b :
  nth_error suf 0 = Some b -> sep b = false ->
  rs_aux suf p to = (to', p') -> (p < p')%nat.
Proof.
  intros Hn Hs H. destruct suf as [|b0 r]; [discriminate|].
  injection Hn as ->. cbn [rs_aux] in H. unfold sep in Hs. rewrite Hs in H.
  apply rs_aux_bounds in H. lia.
Qed.

(* what read_string does, positionally *)
Lemma read_string_some buf q s p' :
  (q <= length buf)%nat ->
  read_string buf q = (Some s, p') ->
  exists from to b,
    (q <= from)%nat /\ (from < p')%nat /\ (p' <= length buf)%nat /\
    nth_error buf from = Some b /\ sep b = false /\
    rs_aux (skipn from buf) from from = (to, p').
Proof.
  intros Hq H. unfold read_string in H.
  destruct (seek_char buf q) as [[from|] p0] eqn:Es; [|discriminate].
  apply seek_char_some in Es; [|exact Hq].
  destruct Es as (_ & Hle & Hlt & b & Hn & Hs).
  destruct (rs_aux (skipn from buf) from from) as [to p''] eqn:Er.
  injection H as _ <-.
  exists from, to, b.
  pose proof (rs_aux_bounds _ _ _ _ _ Er) as [_ Hub]. rewrite skipn_length in Hub.
  assert (Hf : (from < p'')%nat).
  { eapply rs_aux_first; [|exact Hs|exact Er]. rewrite nth_error_skipn_add, Nat.add_0_r. exact Hn. }
  repeat split; try lia; try assumption.
Qed.

Lemma read_string_none buf q p' :
  (q <= length buf)%nat ->
  read_string buf q = (None, p') -> (q <= p')%nat /\ (p' <= length buf)%nat.
Proof.
  intros Hq H. unfold read_string in H.
  destruct (seek_char buf q) as [[from|] p0] eqn:Es.
  - destruct (rs_aux (skipn from buf) from from). discriminate.
  - injection H as <-. eapply seek_char_none; eassumption.
Qed.

Lemma read_string_pos buf q o p' :
  (q <= length buf)%nat -> read_string buf q = (o, p') -> (q <= p')%nat /\ (p' <= length buf)%nat.
Proof.
  intros Hq H. destruct o as [s|].
  - apply read_string_some in H; [|exact Hq]. destruct H as (from & to & b & H1 & H2 & H3 & _). lia.
  - eapply read_string_none; eassumption.
Qed.

(* the `unread 2` case at the very end of the buffer: the last byte is a backslash *)
Lemma read_string_before_last_backslash buf from0 s p' :
  (1 <= from0)%nat -> length buf = S from0 ->
  nth_error buf from0 = Some BACKSLASH ->
  read_string buf (from0 - 1) = (Some s, p') -> p' = length buf.
Proof.
  intros H1 Hlen Hb H.
  apply read_string_some in H; [|lia].
  destruct H as (from & to & b & Hle & Hlt & Hub & Hn & Hs & Hr).
  apply rs_aux_stop in Hr. rewrite skipn_length in Hr.
  destruct Hr as [Hr | (i & bb & Hni & Hsi & Hp)]; [lia|].
  rewrite nth_error_skipn_add in Hni.
  assert (Hcase : (from + i = from0 \/ (from = from0 - 1 /\ i = 0))%nat) by lia.
  destruct Hcase as [E | [E1 E2]].
  - rewrite E, Hb in Hni. injection Hni as <-. rewrite backslash_not_sep in Hsi. discriminate.
  - subst i. rewrite Nat.add_0_r, Hn in Hni. injection Hni as <-. congruence.
Qed.

(* ---------------------------------------------------------------- esc_loop *)

Lemma esc_loop_pos suf : forall p from to e to' p',
  esc_loop suf p from to e = Ok (to', p') -> (p < p')%nat /\ (p' <= p + length suf)%nat.
Proof.
  induction suf as [|b r IH]; intros p from to e to' p' H; cbn [esc_loop] in H; [discriminate|].
  cbn [length].
  destruct ((b =? BACKSLASH) && (to =? from)%nat).
  { apply IH in H. lia. }
  destruct ((b =? e) && negb (to =? from)%nat).
  { injection H as _ <-. lia. }
  destruct (b =? 0); [discriminate|].
  destruct (negb (to =? from)%nat); apply IH in H; lia.
Qed.

(* ---------------------------------------------------------------- read_byte *)

Lemma read_byte_in buf p : (p < length buf)%nat ->
  exists b, nth_error buf p = Some b /\ read_byte buf p = (b, S p).
Proof.
  intro H. unfold read_byte. destruct (nth_error buf p) as [b|] eqn:E.
  - eauto.
  - apply nth_error_None in E. lia.
Qed.

Lemma read_byte_out buf p : (length buf <= p)%nat -> read_byte buf p = (0, p).
Proof.
  intro H. unfold read_byte. apply nth_error_None in H. rewrite H. reflexivity.
Qed.

Lemma zero_not_escape : is_escape_char 0 = false.
Proof. vm_compute. reflexivity. Qed.

(* ---------------------------------------------------------------- read_escaped_string *)

Lemma read_escaped_string_some_pos buf p v p2 :
  (p <= length buf)%nat ->
  read_escaped_string buf p = Ok (Some v, p2) -> (p < p2)%nat /\ (p2 <= length buf)%nat.
Proof.
  intros Hp H. unfold read_escaped_string in H.
  destruct (seek_char buf p) as [[from0|] p0] eqn:Es; [|discriminate].
  apply seek_char_some in Es; [|exact Hp].
  destruct Es as (_ & Hle & Hlt & b & Hn & Hs).
  destruct (read_byte_in buf from0 Hlt) as (b1 & Hb1 & Hrb). rewrite Hrb in H.
  rewrite Hn in Hb1. injection Hb1 as <-.
  replace (S from0 - 1)%nat with from0 in H by lia.
  destruct (negb (b =? BACKSLASH)) eqn:Ebs.
  { injection H as H. apply read_string_some in H; [|lia].
    destruct H as (from & to & bb & H1 & H2 & H3 & _). lia. }
  apply negb_false_iff, N.eqb_eq in Ebs. subst b.
  destruct (Nat.lt_ge_cases (S from0) (length buf)) as [Hin | Hout].
  - destruct (read_byte_in buf (S from0) Hin) as (e & He & Hrb2). rewrite Hrb2 in H.
    destruct (negb (is_escape_char e)).
    + replace (S (S from0) - 2)%nat with from0 in H by lia.
      replace (S (S from0) <? 2)%nat with false in H by (symmetry; apply Nat.ltb_ge; lia).
      injection H as H. apply read_string_some in H; [|lia].
      destruct H as (from & to & bb & H1 & H2 & H3 & _). lia.
    + destruct (esc_loop (skipn (S (S from0)) buf) (S (S from0)) (S (S from0)) (S (S from0)) e)
        as [[to p3]| | |] eqn:Ee; cbn [bind] in H; try discriminate.
      injection H as _ <-. apply esc_loop_pos in Ee. rewrite skipn_length in Ee. lia.
  - rewrite (read_byte_out buf (S from0) Hout) in H.
    rewrite zero_not_escape in H. cbn [negb] in H.
    destruct (S from0 <? 2)%nat eqn:E2; [discriminate|].
    apply Nat.ltb_ge in E2. injection H as H.
    replace (S from0 - 2)%nat with (from0 - 1)%nat in H by lia.
    apply read_string_before_last_backslash in H; [lia | lia | lia | exact Hn].
Qed.

(* ---------------------------------------------------------------- read_parameter *)

Lemma find_index_lt (f : N -> bool) l : forall i, find_index f l = Some i -> (i < length l)%nat.
Proof.
  induction l as [|x r IH]; intros i H; cbn [find_index] in H; [discriminate|].
  cbn [length]. destruct (f x).
  - injection H as <-. lia.
  - destruct (find_index f r) as [j|]; [|discriminate]. injection H as <-.
    specialize (IH j eq_refl). lia.
Qed.

Lemma read_parameter_some_pos buf p nc p1 :
  (p <= length buf)%nat ->
  read_parameter buf p = Ok (Some nc, p1) -> (p < p1)%nat /\ (p1 <= length buf)%nat.
Proof.
  intros Hp H. unfold read_parameter in H.
  destruct (seek_char buf p) as [[pos|] p0] eqn:Es; [|discriminate].
  apply seek_char_some in Es; [|exact Hp].
  destruct Es as (_ & Hle & Hlt & _).
  destruct (find_index (N.eqb 61) (skipn pos buf)) as [eq|] eqn:Ef; [|discriminate].
  apply find_index_lt in Ef. rewrite skipn_length in Ef.
  assert (Hgoal : forall x, Ok (x, (pos + eq + 1)%nat) = Ok (Some nc, p1) ->
                            (p < p1)%nat /\ (p1 <= length buf)%nat).
  { intros x Hx. injection Hx as _ <-. lia. }
  destruct (find_index (N.eqb 58) _) as [c|].
  - destruct (parse_uint _ _) as [cnt|]; [|discriminate].
    destruct (negb _); [discriminate|].
    destruct (_ && _); [discriminate|]. eapply Hgoal; exact H.
  - destruct (forallb _ _); [|discriminate]. eapply Hgoal; exact H.
Qed.

(* ---------------------------------------------------------------- decode_loop *)

Lemma decode_loop_total md buf fs : forall fuel p cur vs,
  (p <= length buf)%nat -> (length buf - p < fuel)%nat ->
  decode_loop fuel md buf p cur fs vs <> OutOfFuel.
Proof.
  induction fuel as [|fuel IH]; intros p cur vs Hp Hfuel; [lia|].
  cbn [decode_loop].
  assert (Hhdr : (exists h p1,
              match cur with Some c => Ok (Some c, p) | None => read_parameter buf p end = Ok (h, p1) /\
              (h <> None -> (p <= p1)%nat /\ (p1 <= length buf)%nat))
            \/ match cur with Some c => Ok (Some c, p) | None => read_parameter buf p end = Err).
  { destruct cur as [c|].
    - left. exists (Some c), p. split; [reflexivity | intros _; lia].
    - destruct (read_parameter_cases buf p) as [[[h p1] Hh] | Hh]; [|right; exact Hh].
      left. exists h, p1. split; [exact Hh|]. intro Hne.
      destruct h as [nc|]; [|congruence].
      apply read_parameter_some_pos in Hh; [lia | exact Hp]. }
  destruct Hhdr as [(h & p1 & Hh & Hpos) | Hh]; rewrite Hh; cbn [bind]; [|discriminate].
  destruct h as [[name cnt]|]; [|discriminate].
  destruct Hpos as [Hpp1 Hp1]; [discriminate|].
  destruct (read_escaped_string_cases buf p1) as [[[v p2] Hv] | Hv]; rewrite Hv; cbn [bind]; [|discriminate].
  destruct v as [value|]; [|discriminate].
  apply read_escaped_string_some_pos in Hv; [|exact Hp1].
  destruct (if cnt =? 0 then match md with Checked => Panic | Wrapping => Ok USIZE_MAX end
            else Ok (cnt - 1)) as [cnt'| | |] eqn:Ec; cbn [bind]; try discriminate.
  - destruct (assign fs vs name value) as [vs'|]; [|discriminate].
    apply IH; lia.
  - destruct (cnt =? 0); [destruct md|]; discriminate.
Qed.

Theorem deserialize_total : forall sch md buf, deserialize sch md buf <> OutOfFuel.
Proof.
  intros sch md buf. unfold deserialize.
  destruct (read_string buf 0) as [[name|] p] eqn:Er; [|discriminate].
  destruct (kind_of_name sch 0 name) as [[i k]|]; [|discriminate].
  apply read_string_pos in Er; [|lia].
  pose proof (decode_loop_total md buf (k_fields k) (S (length buf)) p None
                (map default_val (k_fields k))) as H.
  destruct (decode_loop (S (length buf)) md buf p None (k_fields k) (map default_val (k_fields k)))
    as [vs| | |]; cbn [bind]; try discriminate.
  - destruct (validate k vs); discriminate.
  - exfalso. apply H; [lia | lia | reflexivity].
Qed.

Print Assumptions deserialize_total.
