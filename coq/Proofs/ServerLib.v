(* Library for the per-frame theorems about Model/Server.v:
   - build/get facts about the reply kinds (closed computations over the generated schema),
   - output observers (replies_to, closes, new_outs),
   - the context primitives only append to [outs]; what they append. *)
From NW Require Import Base.Bytes Model.SchemaTypes Model.Codec Model.MsgInfo Model.Ids Model.Framing Model.Server Gen.Schema Gen.Errors.

(* ------------------------------------------------------------------ *)
(** * Generic tactics *)

(* destruct the scrutinee of some match of the goal whose scrutinee contains no match *)
Ltac break_match :=
  match goal with
  | |- context [match ?x with _ => _ end] =>
      lazymatch x with
      | context [match _ with _ => _ end] => fail
      | _ => destruct x eqn:?
      end
  end.

Ltac break_match_hyp H :=
  match type of H with
  | context [match ?x with _ => _ end] =>
      lazymatch x with
      | context [match _ with _ => _ end] => fail
      | _ => destruct x eqn:?
      end
  end.

Ltac inv H := inversion H; subst; clear H.

(* ------------------------------------------------------------------ *)
(** * Kinds are mutually exclusive *)

Lemma is_kind_name m k : is_kind m k = true -> kind_name m = bs k.
Proof. unfold is_kind. intro H. apply list_eqb_eq in H. exact H. Qed.

Lemma is_kind_excl m a b :
  is_kind m a = true -> list_eqb (bs a) (bs b) = false -> is_kind m b = false.
Proof. intros H E. unfold is_kind. rewrite (is_kind_name _ _ H). exact E. Qed.

(* rewrite every [is_kind m k] of the goal, knowing [H : is_kind m k0 = true] *)
Ltac kinds H :=
  repeat match goal with
         | |- context [is_kind ?m ?k] =>
             first [ rewrite H | rewrite (is_kind_excl m _ k H eq_refl) ]
         end.

(* ------------------------------------------------------------------ *)
(** * build / get facts (the schema is a closed term: all by computation) *)

Section BuildGet.
  Variables (id : N) (oid : option N) (s s' : str) (v1 v2 v3 v4 v5 v6 : fval).

  Lemma corr_join_ack :
    correlation_id schema (build "JOIN_ACK" [(bs "id", VNum id); (bs "channel", v1)]) = Some id.
  Proof. reflexivity. Qed.
  Lemma corr_leave_ack : correlation_id schema (build "LEAVE_ACK" [(bs "id", VNum id)]) = Some id.
  Proof. reflexivity. Qed.
  Lemma corr_channels_ack :
    correlation_id schema (build "CHANNELS_ACK" [(bs "id", VNum id); (bs "channels", v1); (bs "page", v2);
                                                 (bs "page_size", v3); (bs "total_count", v4)]) = Some id.
  Proof. reflexivity. Qed.
  Lemma corr_members_ack :
    correlation_id schema (build "MEMBERS_ACK" [(bs "id", VNum id); (bs "channel", v1); (bs "members", v2);
                                                (bs "page", v3); (bs "page_size", v4); (bs "total_count", v5)]) = Some id.
  Proof. reflexivity. Qed.
  Lemma corr_chan_acl :
    correlation_id schema (build "CHAN_ACL" [(bs "id", VNum id); (bs "channel", v1); (bs "type", v2); (bs "nids", v3);
                                             (bs "page", v4); (bs "page_size", v5); (bs "total_count", v6)]) = Some id.
  Proof. reflexivity. Qed.
  Lemma corr_set_acl_ack : correlation_id schema (build "SET_CHAN_ACL_ACK" [(bs "id", VNum id)]) = Some id.
  Proof. reflexivity. Qed.
  Lemma corr_chan_config :
    correlation_id schema (build "CHAN_CONFIG" [(bs "id", VNum id); (bs "channel", v1); (bs "max_clients", v2);
                                                (bs "max_payload_size", v3)]) = Some id.
  Proof. reflexivity. Qed.
  Lemma corr_set_config_ack : correlation_id schema (build "SET_CHAN_CONFIG_ACK" [(bs "id", VNum id)]) = Some id.
  Proof. reflexivity. Qed.
  Lemma corr_broadcast_ack : correlation_id schema (build "BROADCAST_ACK" [(bs "id", VNum id)]) = Some id.
  Proof. reflexivity. Qed.
  Lemma corr_mod_direct_ack : correlation_id schema (build "MOD_DIRECT_ACK" [(bs "id", VNum id)]) = Some id.
  Proof. reflexivity. Qed.

  Lemma corr_err_msg (r : string) : correlation_id schema (err_msg oid r) = oid.
  Proof. reflexivity. Qed.
  Lemma corr_event_msg (o : bool) : correlation_id schema (event_msg s s' s o) = None.
  Proof. reflexivity. Qed.
  Lemma corr_message :
    correlation_id schema (build "MESSAGE" [(bs "from", v1); (bs "channel", v2); (bs "length", v3)]) = None.
  Proof. reflexivity. Qed.

  (* kinds of the replies *)
  Lemma kind_err_msg (r : string) : is_kind (err_msg oid r) "ERROR" = true.
  Proof. reflexivity. Qed.
  Lemma kind_event_msg (o : bool) : is_kind (event_msg s s' s o) "EVENT" = true.
  Proof. reflexivity. Qed.
  Lemma kind_message :
    is_kind (build "MESSAGE" [(bs "from", v1); (bs "channel", v2); (bs "length", v3)]) "MESSAGE" = true.
  Proof. reflexivity. Qed.
  Lemma kind_join_ack : is_kind (build "JOIN_ACK" [(bs "id", v1); (bs "channel", v2)]) "JOIN_ACK" = true.
  Proof. reflexivity. Qed.
  Lemma kind_leave_ack : is_kind (build "LEAVE_ACK" [(bs "id", v1)]) "LEAVE_ACK" = true.
  Proof. reflexivity. Qed.
  Lemma kind_broadcast_ack : is_kind (build "BROADCAST_ACK" [(bs "id", v1)]) "BROADCAST_ACK" = true.
  Proof. reflexivity. Qed.
  Lemma kind_mod_direct_ack : is_kind (build "MOD_DIRECT_ACK" [(bs "id", v1)]) "MOD_DIRECT_ACK" = true.
  Proof. reflexivity. Qed.
  Lemma kind_set_acl_ack : is_kind (build "SET_CHAN_ACL_ACK" [(bs "id", v1)]) "SET_CHAN_ACL_ACK" = true.
  Proof. reflexivity. Qed.
  Lemma kind_set_config_ack : is_kind (build "SET_CHAN_CONFIG_ACK" [(bs "id", v1)]) "SET_CHAN_CONFIG_ACK" = true.
  Proof. reflexivity. Qed.
  Lemma kind_chan_config :
    is_kind (build "CHAN_CONFIG" [(bs "id", v1); (bs "channel", v2); (bs "max_clients", v3);
                                  (bs "max_payload_size", v4)]) "CHAN_CONFIG" = true.
  Proof. reflexivity. Qed.
  Lemma kind_chan_acl :
    is_kind (build "CHAN_ACL" [(bs "id", v1); (bs "channel", v2); (bs "type", v3); (bs "nids", v4);
                               (bs "page", v5); (bs "page_size", v6); (bs "total_count", v6)]) "CHAN_ACL" = true.
  Proof. reflexivity. Qed.
  Lemma kind_channels_ack :
    is_kind (build "CHANNELS_ACK" [(bs "id", v1); (bs "channels", v2); (bs "page", v3);
                                   (bs "page_size", v4); (bs "total_count", v5)]) "CHANNELS_ACK" = true.
  Proof. reflexivity. Qed.
  Lemma kind_members_ack :
    is_kind (build "MEMBERS_ACK" [(bs "id", v1); (bs "channel", v2); (bs "members", v3);
                                  (bs "page", v4); (bs "page_size", v5); (bs "total_count", v6)]) "MEMBERS_ACK" = true.
  Proof. reflexivity. Qed.

  (* field read-back *)
  Lemma get_err_reason (r : string) : get_str (err_msg oid r) "reason" = bs r.
  Proof. reflexivity. Qed.
  Lemma get_err_id (r : string) : get_onum (err_msg oid r) "id" = oid.
  Proof. reflexivity. Qed.
  Lemma get_join_ack_id : get_num (build "JOIN_ACK" [(bs "id", VNum id); (bs "channel", VStr s)]) "id" = id.
  Proof. reflexivity. Qed.
  Lemma get_join_ack_channel : get_str (build "JOIN_ACK" [(bs "id", VNum id); (bs "channel", VStr s)]) "channel" = s.
  Proof. reflexivity. Qed.
  Lemma get_message_from (n : N) :
    get_str (build "MESSAGE" [(bs "from", VStr s); (bs "channel", VStr s'); (bs "length", VNum n)]) "from" = s.
  Proof. reflexivity. Qed.
  Lemma get_message_channel (n : N) :
    get_str (build "MESSAGE" [(bs "from", VStr s); (bs "channel", VStr s'); (bs "length", VNum n)]) "channel" = s'.
  Proof. reflexivity. Qed.
  Lemma get_message_length (n : N) :
    get_num (build "MESSAGE" [(bs "from", VStr s); (bs "channel", VStr s'); (bs "length", VNum n)]) "length" = n.
  Proof. reflexivity. Qed.
  Lemma get_event_kind (o : bool) (k c n : str) : get_str (event_msg k c n o) "kind" = k.
  Proof. reflexivity. Qed.
  Lemma get_event_channel (o : bool) (k c n : str) : get_ostr (event_msg k c n o) "channel" = Some c.
  Proof. reflexivity. Qed.
  Lemma get_event_nid (o : bool) (k c n : str) : get_ostr (event_msg k c n o) "nid" = Some n.
  Proof. reflexivity. Qed.
End BuildGet.

(* recoverability of the reasons used by the model *)
Lemma rec_bad_request : is_recoverable "BAD_REQUEST" = false. Proof. reflexivity. Qed.
Lemma rec_unexpected : is_recoverable "UNEXPECTED_MESSAGE" = false. Proof. reflexivity. Qed.
Lemma rec_internal : is_recoverable "INTERNAL_SERVER_ERROR" = false. Proof. reflexivity. Qed.
Lemma rec_policy : is_recoverable "POLICY_VIOLATION" = false. Proof. reflexivity. Qed.
Lemma rec_version : is_recoverable "UNSUPPORTED_PROTOCOL_VERSION" = false. Proof. reflexivity. Qed.
Lemma rec_forbidden : is_recoverable "FORBIDDEN" = true. Proof. reflexivity. Qed.
Lemma rec_not_in_channel : is_recoverable "USER_NOT_IN_CHANNEL" = true. Proof. reflexivity. Qed.
Lemma rec_in_use : is_recoverable "USERNAME_IN_USE" = true. Proof. reflexivity. Qed.

(* ------------------------------------------------------------------ *)
(** * Observers on output lists *)

Definition is_reply (h i : N) (o : out) : bool :=
  match o with
  | OSend h' m _ => (h' =? h) && match correlation_id schema m with Some j => j =? i | None => false end
  | _ => false
  end.
Definition replies_to (h i : N) (os : list out) : nat := length (filter (is_reply h i) os).

Definition is_close (h : N) (o : out) : bool :=
  match o with
  | OClose h' _ => h' =? h
  | ODrop h' => h' =? h
  | _ => false
  end.
Definition closes (h : N) (os : list out) : bool := existsb (is_close h) os.

Definition new_outs (c c' : ctx) : list out := skipn (length (outs c)) (outs c').

Lemma new_outs_app c c' d : outs c' = outs c ++ d -> new_outs c c' = d.
Proof.
  intro H. unfold new_outs. rewrite H.
  rewrite skipn_app, skipn_all, Nat.sub_diag. reflexivity.
Qed.

Lemma new_outs_refl c : new_outs c c = [].
Proof. apply new_outs_app. rewrite app_nil_r. reflexivity. Qed.

Lemma replies_to_app h i a b : replies_to h i (a ++ b) = (replies_to h i a + replies_to h i b)%nat.
Proof. unfold replies_to. rewrite filter_app, app_length. reflexivity. Qed.

Lemma closes_app h a b : closes h (a ++ b) = closes h a || closes h b.
Proof. unfold closes. apply existsb_app. Qed.

(* an output that is neither a correlated reply to anybody nor a close: events, messages, modulator calls *)
Definition neutral (o : out) : Prop :=
  match o with
  | OSend _ m _ => correlation_id schema m = None
  | OMod _ => True
  | _ => False
  end.

Lemma neutral_not_reply h i o : neutral o -> is_reply h i o = false.
Proof.
  destruct o as [h' m p|h' m|h'|h'|mc]; cbn; intro H; try reflexivity; try contradiction.
  rewrite H. apply andb_false_r.
Qed.
Lemma neutral_not_close h o : neutral o -> is_close h o = false.
Proof. destruct o; cbn; intro H; try reflexivity; contradiction. Qed.

Lemma neutral_replies h i d : Forall neutral d -> replies_to h i d = 0%nat.
Proof.
  unfold replies_to. induction 1 as [|o d Ho _ IH]; cbn; [reflexivity|].
  rewrite (neutral_not_reply h i o Ho). exact IH.
Qed.
Lemma neutral_closes h d : Forall neutral d -> closes h d = false.
Proof.
  unfold closes. induction 1 as [|o d Ho _ IH]; cbn; [reflexivity|].
  rewrite (neutral_not_close h o Ho). exact IH.
Qed.
Lemma neutral_no_corr d : Forall neutral d ->
  forall h m p j, In (OSend h m p) d -> correlation_id schema m = Some j -> False.
Proof.
  intros Hd h m p j Hin Hc. rewrite Forall_forall in Hd. apply Hd in Hin. cbn in Hin. congruence.
Qed.

(* ------------------------------------------------------------------ *)
(** * Association-list facts *)

Lemma nlookup_nremove {A} (k k' : N) (l : list (N * A)) :
  nlookup k' (nremove k l) = if k' =? k then None else nlookup k' l.
Proof.
  unfold nremove. induction l as [|[a v] l IH]; cbn [filter nlookup fst].
  - destruct (k' =? k); reflexivity.
  - destruct (k =? a) eqn:Eka; cbn [negb].
    + apply N.eqb_eq in Eka. subst a. rewrite IH.
      destruct (k' =? k); reflexivity.
    + cbn [nlookup]. destruct (k' =? a) eqn:Ek'a.
      * apply N.eqb_eq in Ek'a. subst a.
        rewrite N.eqb_sym in Eka. rewrite Eka. reflexivity.
      * exact IH.
Qed.

Lemma nlookup_nset {A} (k k' : N) (v : A) (l : list (N * A)) :
  nlookup k' (nset k v l) = if k' =? k then Some v else nlookup k' l.
Proof.
  unfold nset. cbn [nlookup]. destruct (k' =? k) eqn:E; [reflexivity|].
  rewrite nlookup_nremove, E. reflexivity.
Qed.

(* ------------------------------------------------------------------ *)
(** * The context primitives *)

(* [c'] is [c] with [d] appended to its outputs and nothing else changed *)
Definition appends (c c' : ctx) (d : list out) : Prop :=
  st c' = st c /\ script c' = script c /\ hints c' = hints c /\ closing c' = closing c /\ outs c' = outs c ++ d.

Lemma appends_refl c : appends c c [].
Proof. unfold appends. rewrite app_nil_r. repeat split. Qed.

Lemma appends_trans c c1 c2 d1 d2 : appends c c1 d1 -> appends c1 c2 d2 -> appends c c2 (d1 ++ d2).
Proof.
  unfold appends. intros (A1 & A2 & A3 & A4 & A5) (B1 & B2 & B3 & B4 & B5).
  repeat split; try congruence. rewrite B5, A5, app_assoc. reflexivity.
Qed.

Lemma emit_appends o c : appends c (emit o c) [o].
Proof. unfold appends, emit. cbn. repeat split. Qed.

Lemma request_close_fresh h m c :
  existsb (N.eqb h) (closing c) = false ->
  request_close h m c =
  {| st := st c; script := script c; hints := hints c; outs := outs c ++ [OClose h m]; closing := closing c ++ [h] |}.
Proof. intro H. unfold request_close. rewrite H. reflexivity. Qed.

Lemma drop_conn_fresh h c :
  existsb (N.eqb h) (closing c) = false ->
  drop_conn h c =
  {| st := st c; script := script c; hints := hints c; outs := outs c ++ [ODrop h]; closing := closing c ++ [h] |}.
Proof. intro H. unfold drop_conn. rewrite H. reflexivity. Qed.

Lemma next_outcome_spec c o c1 :
  next_outcome c = (o, c1) ->
  st c1 = st c /\ hints c1 = hints c /\ outs c1 = outs c /\ closing c1 = closing c /\
  ((script c = [] /\ o = MOk /\ script c1 = []) \/ script c = o :: script c1).
Proof.
  unfold next_outcome. destruct (script c) as [|o' r] eqn:E; intro H; inv H; cbn.
  - repeat split. left. auto.
  - repeat split. right. reflexivity.
Qed.

(* the head of the script, MOk when exhausted *)
Definition head_outcome (sc : list moutcome) : moutcome := match sc with [] => MOk | o :: _ => o end.

Lemma next_outcome_head c : fst (next_outcome c) = head_outcome (script c).
Proof. unfold next_outcome, head_outcome. destruct (script c); reflexivity. Qed.

Lemma next_outcome_emit o c : fst (next_outcome (emit o c)) = head_outcome (script c).
Proof. rewrite next_outcome_head. reflexivity. Qed.
