(* ACL fragment of Model/Server.v (crates/server/src/channel/mod.rs, impl Acl):
   well-formedness is preserved by every update batch; the admission decision acl_allowed agrees
   with the reported allow-list; effect of add / remove batches on the reported list; the entry
   count equals the length of the reported list; the reported list is strictly sorted. *)
From Coq Require Import Sorted Permutation.
From NW Require Import Base.Bytes Model.Ids Model.Server.

(* ---------------------------------------------------------------------------------------- *)
(* generic helpers                                                                          *)
(* ---------------------------------------------------------------------------------------- *)

Lemma list_eqb_neq a b : list_eqb a b = false <-> a <> b.
Proof. rewrite <- list_eqb_eq. destruct (list_eqb a b); split; congruence. Qed.

Ltac beq :=
  repeat match goal with
         | H : list_eqb _ _ = true |- _ => apply list_eqb_eq in H
         | H : list_eqb _ _ = false |- _ => apply list_eqb_neq in H
         end.

Lemma smem_In x l : smem x l = true <-> In x l.
Proof.
  unfold smem. rewrite existsb_exists. split.
  - intros (y & Hy & E). apply list_eqb_eq in E. subst. exact Hy.
  - intro H. exists x. split; [exact H | apply list_eqb_refl].
Qed.

Lemma smem_false x l : smem x l = false <-> ~ In x l.
Proof. rewrite <- smem_In. destruct (smem x l); split; congruence. Qed.

Lemma In_sadd y x l : In y (sadd x l) <-> y = x \/ In y l.
Proof.
  unfold sadd. destruct (smem x l) eqn:E.
  - apply smem_In in E. split; [auto|]. intros [->|H]; auto.
  - rewrite in_app_iff. cbn [In]. split.
    + intros [H|[H|[]]]; auto.
    + intros [H|H]; auto.
Qed.

Lemma NoDup_sadd x l : NoDup l -> NoDup (sadd x l).
Proof.
  intro H. unfold sadd. destruct (smem x l) eqn:E; [exact H|].
  apply smem_false in E.
  apply (Permutation_NoDup (Permutation_cons_append l x)). constructor; assumption.
Qed.

Lemma In_sdel y x l : In y (sdel x l) <-> In y l /\ y <> x.
Proof.
  unfold sdel. rewrite filter_In. split; intros [H1 H2]; split; auto.
  - apply negb_true_iff in H2. beq. congruence.
  - apply negb_true_iff. apply list_eqb_neq. congruence.
Qed.

Lemma NoDup_sdel x l : NoDup l -> NoDup (sdel x l).
Proof. apply NoDup_filter. Qed.

Lemma isempty_true {A} (l : list A) : isempty l = true <-> l = [].
Proof. destruct l; cbn; split; congruence. Qed.

Lemma isempty_false {A} (l : list A) : isempty l = false <-> l <> [].
Proof. destruct l; cbn; split; congruence. Qed.

Lemma NoDup_app_intro {A} (l1 l2 : list A) :
  NoDup l1 -> NoDup l2 -> (forall x, In x l1 -> ~ In x l2) -> NoDup (l1 ++ l2).
Proof.
  induction l1 as [|x l1 IH]; intros H1 H2 H; cbn [app]; [exact H2|].
  inversion H1; subst. constructor.
  - rewrite in_app_iff. intros [Hx|Hx]; [contradiction|]. apply (H x); [left; reflexivity|exact Hx].
  - apply IH; auto. intros y Hy. apply H. right. exact Hy.
Qed.

Lemma NoDup_map_inj {A B} (f : A -> B) l :
  (forall x y, f x = f y -> x = y) -> NoDup l -> NoDup (map f l).
Proof.
  intros Hf. induction 1 as [|x l Hx Hl IH]; cbn [map]; constructor; auto.
  intro Hin. apply in_map_iff in Hin as (y & Hy & Hin). apply Hf in Hy. subst. contradiction.
Qed.

(* ---------- association lists ---------- *)

Lemma alookup_Some_In {A} k (l : list (str * A)) v : alookup k l = Some v -> In (k, v) l.
Proof.
  induction l as [|[k' v'] r IH]; cbn [alookup]; [discriminate|].
  destruct (list_eqb k k') eqn:E.
  - intro H. injection H as ->. beq. subst. left. reflexivity.
  - intro H. right. auto.
Qed.

Lemma alookup_None_notin {A} k (l : list (str * A)) : alookup k l = None <-> ~ In k (map fst l).
Proof.
  induction l as [|[k' v'] r IH]; cbn [alookup map fst In]; [tauto|].
  destruct (list_eqb k k') eqn:E; beq.
  - subst. split; [discriminate|]. intro H. exfalso. apply H. left. reflexivity.
  - rewrite IH. split; [|tauto]. intros H [H'|H']; [congruence|contradiction].
Qed.

Lemma In_alookup {A} k v (l : list (str * A)) :
  NoDup (map fst l) -> In (k, v) l -> alookup k l = Some v.
Proof.
  induction l as [|[k' v'] r IH]; cbn [alookup map fst In]; [tauto|].
  intros Hnd [H|H].
  - injection H as -> ->. rewrite list_eqb_refl. reflexivity.
  - inversion Hnd; subst. destruct (list_eqb k k') eqn:E; beq; [|auto].
    subst. exfalso. apply H2. apply in_map_iff. exists (k', v). auto.
Qed.

Lemma alookup_app {A} k (a b : list (str * A)) :
  alookup k (a ++ b) = match alookup k a with Some v => Some v | None => alookup k b end.
Proof.
  induction a as [|[k' v'] r IH]; cbn [app alookup]; [reflexivity|].
  destruct (list_eqb k k'); auto.
Qed.

Lemma alookup_aremove {A} k d (a : list (str * A)) :
  alookup k (aremove d a) = if list_eqb k d then None else alookup k a.
Proof.
  induction a as [|[k' v'] r IH]; cbn [aremove alookup].
  - destruct (list_eqb k d); reflexivity.
  - destruct (list_eqb d k') eqn:E1; cbn [alookup]; destruct (list_eqb k k') eqn:E2;
      rewrite ?IH; destruct (list_eqb k d) eqn:E3; try reflexivity; beq; congruence.
Qed.

Lemma In_aremove {A} e d (a : list (str * A)) : In e (aremove d a) -> In e a.
Proof.
  induction a as [|[k' v'] r IH]; cbn [aremove]; [tauto|].
  destruct (list_eqb d k'); cbn [In]; tauto.
Qed.

Lemma NoDup_keys_aremove {A} d (a : list (str * A)) :
  NoDup (map fst a) -> NoDup (map fst (aremove d a)).
Proof.
  induction a as [|[k' v'] r IH]; cbn [aremove map fst]; [auto|].
  intro H. inversion H; subst. destruct (list_eqb d k'); [auto|].
  cbn [map fst]. constructor; [|auto].
  intro Hin. apply H2. apply in_map_iff in Hin as (e & He & Hin). apply In_aremove in Hin.
  apply in_map_iff. exists e. auto.
Qed.

Definition upd (d : str) (v : list str) : str * list str -> str * list str :=
  fun e => if list_eqb (fst e) d then (fst e, v) else e.

Lemma map_fst_upd d v (a : acl) : map fst (map (upd d v) a) = map fst a.
Proof.
  rewrite map_map. apply map_ext. intro e. unfold upd. destruct (list_eqb (fst e) d); reflexivity.
Qed.

Lemma In_map_upd k us d v (a : acl) : In (k, us) (map (upd d v) a) -> us = v \/ In (k, us) a.
Proof.
  intro H. apply in_map_iff in H as ([k' v'] & He & Hin). unfold upd in He. cbn [fst] in He.
  destruct (list_eqb k' d).
  - injection He as -> ->. left. reflexivity.
  - injection He as -> ->. right. exact Hin.
Qed.

Lemma alookup_map_upd k d v (a : acl) :
  alookup k (map (upd d v) a) =
  if list_eqb k d then match alookup k a with Some _ => Some v | None => None end else alookup k a.
Proof.
  induction a as [|[k' v'] r IH]; cbn [map alookup].
  - destruct (list_eqb k d); reflexivity.
  - unfold upd at 1. cbn [fst].
    destruct (list_eqb k' d) eqn:E1; cbn [alookup]; destruct (list_eqb k k') eqn:E2;
      rewrite ?IH; destruct (list_eqb k d) eqn:E3; try reflexivity; beq; congruence.
Qed.

(* ---------------------------------------------------------------------------------------- *)
(* the two update steps, expressed through alookup                                          *)
(* ---------------------------------------------------------------------------------------- *)

Definition set_entry (a : acl) (d : str) (us' : list str) : acl :=
  match alookup d a with
  | Some _ => map (upd d us') a
  | None => a ++ [(d, us')]
  end.

(* the user set stored under [nd n] by [acl_add a n] *)
Definition add_users (a : acl) (n : nid) : list str :=
  let us := match alookup (nd n) a with Some us => us | None => [] end in
  match nu n with [] => us | _ :: _ => sadd (nu n) us end.

Lemma acl_add_eq a n : acl_add a n = set_entry a (nd n) (add_users a n).
Proof. unfold acl_add, set_entry, add_users. destruct (nu n); reflexivity. Qed.

Lemma alookup_set_entry k a d us' :
  alookup k (set_entry a d us') = if list_eqb k d then Some us' else alookup k a.
Proof.
  unfold set_entry. destruct (alookup d a) eqn:E.
  - rewrite alookup_map_upd. destruct (list_eqb k d) eqn:E1; [|reflexivity].
    beq. subst. rewrite E. reflexivity.
  - rewrite alookup_app. cbn [alookup]. destruct (list_eqb k d) eqn:E1.
    + beq. subst. rewrite E. reflexivity.
    + destruct (alookup k a); reflexivity.
Qed.

Lemma alookup_acl_add k a n :
  alookup k (acl_add a n) = if list_eqb k (nd n) then Some (add_users a n) else alookup k a.
Proof. rewrite acl_add_eq. apply alookup_set_entry. Qed.

Lemma acl_remove_eq a m :
  acl_remove a m =
  match alookup (nd m) a with
  | Some us => if isempty (sdel (nu m) us) then aremove (nd m) a
               else map (upd (nd m) (sdel (nu m) us)) a
  | None => a
  end.
Proof. reflexivity. Qed.

Lemma alookup_acl_remove k a m :
  alookup k (acl_remove a m) =
  if list_eqb k (nd m)
  then match alookup (nd m) a with
       | Some us => if isempty (sdel (nu m) us) then None else Some (sdel (nu m) us)
       | None => None
       end
  else alookup k a.
Proof.
  rewrite acl_remove_eq. destruct (alookup (nd m) a) eqn:E.
  - destruct (isempty (sdel (nu m) l)) eqn:E1.
    + apply alookup_aremove.
    + rewrite alookup_map_upd. destruct (list_eqb k (nd m)) eqn:E2; [|reflexivity].
      beq. subst. rewrite E. reflexivity.
  - destruct (list_eqb k (nd m)) eqn:E2; [|reflexivity]. beq. subst. exact E.
Qed.

Lemma acl_update_nil a add : acl_update a [] add = a.
Proof. reflexivity. Qed.

Lemma acl_update_cons a m ns add :
  acl_update a (m :: ns) add = acl_update (if add then acl_add a m else acl_remove a m) ns add.
Proof. reflexivity. Qed.

(* ---------------------------------------------------------------------------------------- *)
(* 1. well-formedness                                                                       *)
(* ---------------------------------------------------------------------------------------- *)

Definition acl_wf (a : acl) : Prop :=
  NoDup (map fst a) /\ (forall d us, In (d, us) a -> NoDup us /\ ~ In [] us).

Theorem acl_wf_nil : acl_wf [].
Proof. split; [constructor | intros d us []]. Qed.

Lemma set_entry_wf a d us' : acl_wf a -> NoDup us' -> ~ In [] us' -> acl_wf (set_entry a d us').
Proof.
  intros [Hk He] H1 H2. unfold set_entry. destruct (alookup d a) eqn:E.
  - split.
    + rewrite map_fst_upd. exact Hk.
    + intros k us Hin. apply In_map_upd in Hin as [->|Hin]; [auto | eauto].
  - split.
    + rewrite map_app. cbn [map fst].
      apply (Permutation_NoDup (Permutation_cons_append (map fst a) d)).
      constructor; [|exact Hk]. apply alookup_None_notin. exact E.
    + intros k us Hin. apply in_app_iff in Hin as [Hin|[Hin|[]]]; [eauto|].
      injection Hin as <- <-. auto.
Qed.

Lemma add_users_wf a n : acl_wf a -> NoDup (add_users a n) /\ ~ In [] (add_users a n).
Proof.
  intros [Hk He]. unfold add_users.
  assert (H : NoDup (match alookup (nd n) a with Some us => us | None => [] end) /\
              ~ In [] (match alookup (nd n) a with Some us => us | None => [] end)).
  { destruct (alookup (nd n) a) eqn:E.
    - apply alookup_Some_In in E. eauto.
    - split; [constructor | intros []]. }
  destruct H as [H1 H2]. destruct (nu n) as [|c u] eqn:En; [auto|]. split.
  - apply NoDup_sadd. exact H1.
  - rewrite In_sadd. intros [H|H]; [discriminate | contradiction].
Qed.

Lemma acl_add_wf a n : acl_wf a -> acl_wf (acl_add a n).
Proof.
  intro H. rewrite acl_add_eq. destruct (add_users_wf a n H). apply set_entry_wf; assumption.
Qed.

Lemma acl_remove_wf a n : acl_wf a -> acl_wf (acl_remove a n).
Proof.
  intros [Hk He]. rewrite acl_remove_eq. destruct (alookup (nd n) a) eqn:E; [|split; assumption].
  apply alookup_Some_In in E. destruct (He _ _ E) as [H1 H2].
  destruct (isempty (sdel (nu n) l)).
  - split.
    + apply NoDup_keys_aremove. exact Hk.
    + intros k us Hin. apply In_aremove in Hin. eauto.
  - split.
    + rewrite map_fst_upd. exact Hk.
    + intros k us Hin. apply In_map_upd in Hin as [->|Hin]; [|eauto]. split.
      * apply NoDup_sdel. exact H1.
      * rewrite In_sdel. tauto.
Qed.

Theorem acl_update_wf : forall a ns add, acl_wf a -> acl_wf (acl_update a ns add).
Proof.
  intros a ns add. revert a. induction ns as [|m ns IH]; intros a H; [exact H|].
  rewrite acl_update_cons. apply IH. destruct add; [apply acl_add_wf | apply acl_remove_wf]; exact H.
Qed.

(* every ACL reachable from the empty one by any sequence of SET_CHAN_ACL batches *)
Definition acl_run (a : acl) (batches : list (list nid * bool)) : acl :=
  fold_left (fun acc b => acl_update acc (fst b) (snd b)) batches a.

Theorem acl_reachable_wf : forall batches, acl_wf (acl_run [] batches).
Proof.
  intro batches. unfold acl_run. generalize acl_wf_nil. generalize (@nil (str * list str)).
  induction batches as [|b r IH]; intros a H; cbn [fold_left]; [exact H|].
  apply IH. apply acl_update_wf. exact H.
Qed.

(* ---------------------------------------------------------------------------------------- *)
(* the reported list                                                                        *)
(* ---------------------------------------------------------------------------------------- *)

Lemma insert_by_perm {A} (lt : A -> A -> bool) x l : Permutation (insert_by lt x l) (x :: l).
Proof.
  induction l as [|y r IH]; cbn [insert_by]; [apply Permutation_refl|].
  destruct (lt x y); [apply Permutation_refl|].
  eapply perm_trans; [apply perm_skip; exact IH | apply perm_swap].
Qed.

Lemma sort_by_perm {A} (lt : A -> A -> bool) l : Permutation (sort_by lt l) l.
Proof.
  unfold sort_by. induction l as [|x r IH]; cbn [fold_right]; [constructor|].
  eapply perm_trans; [apply insert_by_perm | apply perm_skip; exact IH].
Qed.

Lemma In_sort_by {A} (lt : A -> A -> bool) x l : In x (sort_by lt l) <-> In x l.
Proof.
  split; apply Permutation_in; [|apply Permutation_sym]; apply sort_by_perm.
Qed.

Lemma length_sort_by {A} (lt : A -> A -> bool) l : length (sort_by lt l) = length l.
Proof. apply Permutation_length, sort_by_perm. Qed.

Definition entry_nids (e : str * list str) : list nid :=
  match snd e with
  | [] => [{| nu := []; nd := fst e |}]
  | u :: us => map (fun u => {| nu := u; nd := fst e |}) (u :: us)
  end.

Lemma acl_allow_list_eq a : acl_allow_list a = sort_by nid_lt (flat_map entry_nids a).
Proof. reflexivity. Qed.

Lemma In_entry_nids n d us :
  In n (entry_nids (d, us)) <-> nd n = d /\ ((us = [] /\ nu n = []) \/ In (nu n) us).
Proof.
  destruct n as [u' d']. unfold entry_nids. cbn [fst snd nu nd]. destruct us as [|u us].
  - cbn [In]. split.
    + intros [H|[]]. injection H as <- <-. auto.
    + intros [-> [[_ ->]|[]]]. left. reflexivity.
  - rewrite in_map_iff. split.
    + intros (x & Hx & Hin). injection Hx as -> ->. auto.
    + intros [-> [[H _]|H]]; [discriminate|]. exists u'. auto.
Qed.

(* membership in the reported list, no hypotheses *)
Lemma In_allow_list a n :
  In n (acl_allow_list a) <->
  exists us, In (nd n, us) a /\ ((us = [] /\ nu n = []) \/ In (nu n) us).
Proof.
  rewrite acl_allow_list_eq, In_sort_by, in_flat_map. split.
  - intros ([d us] & Hin & H). apply In_entry_nids in H as [<- H]. exists us. auto.
  - intros (us & Hin & H). exists (nd n, us). split; [exact Hin|]. apply In_entry_nids. auto.
Qed.

(* membership in the reported list in terms of alookup, for well-formed ACLs *)
Lemma In_allow_list_wf a n :
  acl_wf a ->
  (In n (acl_allow_list a) <->
   exists us, alookup (nd n) a = Some us /\ ((us = [] /\ nu n = []) \/ In (nu n) us)).
Proof.
  intros [Hk _]. rewrite In_allow_list. split; intros (us & H1 & H2); exists us; split; auto.
  - apply In_alookup; assumption.
  - apply alookup_Some_In. exact H1.
Qed.

Lemma entry_nids_length_pos e : (1 <= length (entry_nids e))%nat.
Proof. destruct e as [d [|u us]]; unfold entry_nids; cbn [snd length map]; lia. Qed.

Theorem acl_allow_list_nil_iff a : acl_allow_list a = [] <-> a = [].
Proof.
  split; [|intros ->; reflexivity].
  destruct a as [|e r]; [reflexivity|]. intro H. exfalso.
  apply (f_equal (@length nid)) in H. rewrite acl_allow_list_eq, length_sort_by in H.
  cbn [flat_map] in H. rewrite app_length in H. pose proof (entry_nids_length_pos e).
  cbn [length] in H. lia.
Qed.

(* ---------------------------------------------------------------------------------------- *)
(* 2. decision = reported list                                                              *)
(* ---------------------------------------------------------------------------------------- *)

Theorem acl_decision_is_reported_list :
  forall a n, acl_wf a -> nu n <> [] ->
  (acl_allowed a n = true <->
   (acl_allow_list a = [] \/ In n (acl_allow_list a) \/
    In {| nu := []; nd := nd n |} (acl_allow_list a))).
Proof.
  intros a n Hwf Hn.
  rewrite acl_allow_list_nil_iff, !(In_allow_list_wf _ _ Hwf). cbn [nu nd].
  destruct a as [|e r]; [cbn; tauto|].
  assert (Hne : e :: r <> []) by discriminate.
  change (acl_allowed (e :: r) n)
    with (match alookup (nd n) (e :: r) with
          | Some us => if isempty us then true else smem (nu n) us
          | None => false
          end).
  set (a := e :: r) in *. clearbody a.
  destruct (alookup (nd n) a) as [us|] eqn:E.
  - destruct us as [|u us]; cbn [isempty].
    + split; [|reflexivity]. intros _. right. right. exists []. auto.
    + rewrite smem_In. split.
      * intro H. right. left. exists (u :: us). auto.
      * intros [H|[(us' & H1 & H2)|(us' & H1 & H2)]].
        -- contradiction.
        -- injection H1 as <-. destruct H2 as [[H _]|H]; [discriminate | exact H].
        -- injection H1 as <-. destruct H2 as [[H _]|H]; [discriminate|].
           exfalso. destruct Hwf as [_ He]. apply alookup_Some_In in E.
           apply (He _ _ E). exact H.
  - split; [discriminate|].
    intros [H|[(us' & H1 & _)|(us' & H1 & _)]]; [contradiction|discriminate..].
Qed.

(* the same with the boolean membership test used by the harness *)
Lemma existsb_nid_eqb_In n l : existsb (nid_eqb n) l = true <-> In n l.
Proof.
  rewrite existsb_exists. split.
  - intros (m & Hm & E). unfold nid_eqb in E. apply andb_true_iff in E as [E1 E2]. beq.
    destruct n as [u1 d1], m as [u2 d2]. cbn [nu nd] in *. subst. exact Hm.
  - intro H. exists n. split; [exact H|]. unfold nid_eqb. rewrite !list_eqb_refl. reflexivity.
Qed.

Corollary acl_decision_is_reported_list_b :
  forall a n, acl_wf a -> nu n <> [] ->
  acl_allowed a n =
  isempty (acl_allow_list a)
  || existsb (nid_eqb n) (acl_allow_list a)
  || existsb (nid_eqb {| nu := []; nd := nd n |}) (acl_allow_list a).
Proof.
  intros a n Hwf Hn. apply eq_true_iff_eq.
  rewrite (acl_decision_is_reported_list a n Hwf Hn), !orb_true_iff, isempty_true,
    !existsb_nid_eqb_In. tauto.
Qed.

(* ---------------------------------------------------------------------------------------- *)
(* 3. effect of an acknowledged update on the reported list                                 *)
(* ---------------------------------------------------------------------------------------- *)

(* --- add --- *)
Definition has_user (n : nid) (a : acl) : Prop :=
  exists us, alookup (nd n) a = Some us /\ In (nu n) us.

Lemma add_establishes n a : nu n <> [] -> has_user n (acl_add a n).
Proof.
  intro Hn. exists (add_users a n). split.
  - rewrite alookup_acl_add, list_eqb_refl. reflexivity.
  - unfold add_users. destruct (nu n) as [|c u] eqn:E; [congruence|]. apply In_sadd. auto.
Qed.

Lemma add_preserves n m a : has_user n a -> has_user n (acl_add a m).
Proof.
  intros (us & H1 & H2). unfold has_user. rewrite alookup_acl_add.
  destruct (list_eqb (nd n) (nd m)) eqn:E; [|eauto].
  beq. exists (add_users a m). split; [reflexivity|].
  unfold add_users. rewrite <- E, H1. destruct (nu m) as [|c u]; [exact H2|]. apply In_sadd. auto.
Qed.

Lemma add_fold n ns : forall a,
  has_user n a \/ (In n ns /\ nu n <> []) -> has_user n (acl_update a ns true).
Proof.
  induction ns as [|m ns IH]; intros a H.
  - destruct H as [H|[[] _]]. exact H.
  - rewrite acl_update_cons. apply IH. destruct H as [H|[[->|H] Hn]].
    + left. apply add_preserves. exact H.
    + left. apply add_establishes. exact Hn.
    + right. auto.
Qed.

Lemma has_user_reported n a : has_user n a -> In n (acl_allow_list a).
Proof.
  intros (us & H1 & H2). apply In_allow_list. exists us. split; [|auto].
  apply alookup_Some_In. exact H1.
Qed.

(* holds for every ACL (well-formed or not) and every batch *)
Theorem acl_add_present_gen :
  forall a ns n, In n ns -> nu n <> [] -> In n (acl_allow_list (acl_update a ns true)).
Proof. intros a ns n H Hn. apply has_user_reported, add_fold. auto. Qed.

Theorem acl_add_present :
  forall a ns n, acl_wf a -> In n ns -> nu n <> [] -> In n (acl_allow_list (acl_update a ns true)).
Proof. intros a ns n _. apply acl_add_present_gen. Qed.

(* a user NID already reported stays reported across an add batch *)
Theorem acl_add_keeps_users :
  forall a ns n, acl_wf a -> nu n <> [] -> In n (acl_allow_list a) ->
  In n (acl_allow_list (acl_update a ns true)).
Proof.
  intros a ns n Hwf Hn H. apply has_user_reported, add_fold. left.
  apply (In_allow_list_wf _ _ Hwf) in H as (us & H1 & [[_ H2]|H2]); [contradiction|].
  exists us. auto.
Qed.

Corollary acl_add_then_allowed :
  forall a ns n, acl_wf a -> In n ns -> nu n <> [] -> acl_allowed (acl_update a ns true) n = true.
Proof.
  intros a ns n Hwf H Hn. apply acl_decision_is_reported_list; [apply acl_update_wf; exact Hwf | exact Hn |].
  right. left. apply acl_add_present_gen; assumption.
Qed.

(* --- remove --- *)
Definition lacks (n : nid) (a : acl) : Prop :=
  forall us, alookup (nd n) a = Some us -> ~ In (nu n) us /\ us <> [].

Lemma remove_establishes n a : lacks n (acl_remove a n).
Proof.
  intros us. rewrite alookup_acl_remove, list_eqb_refl.
  destruct (alookup (nd n) a) as [us0|]; [|discriminate].
  destruct (isempty (sdel (nu n) us0)) eqn:E; [discriminate|].
  intro H. injection H as <-. split.
  - rewrite In_sdel. tauto.
  - apply isempty_false. exact E.
Qed.

Lemma remove_preserves n m a : lacks n a -> lacks n (acl_remove a m).
Proof.
  intros H us. rewrite alookup_acl_remove.
  destruct (list_eqb (nd n) (nd m)) eqn:E; [|apply H].
  beq. rewrite <- E.
  destruct (alookup (nd n) a) as [us0|] eqn:E0; [|discriminate].
  destruct (isempty (sdel (nu m) us0)) eqn:E1; [discriminate|].
  intro H'. injection H' as <-. split.
  - rewrite In_sdel. intros [H1 _]. destruct (H us0 E0) as [H2 _]. contradiction.
  - apply isempty_false. exact E1.
Qed.

Lemma remove_fold n ns : forall a,
  lacks n a \/ In n ns -> lacks n (acl_update a ns false).
Proof.
  induction ns as [|m ns IH]; intros a H.
  - destruct H as [H|[]]. exact H.
  - rewrite acl_update_cons. apply IH. destruct H as [H|[->|H]].
    + left. apply remove_preserves. exact H.
    + left. apply remove_establishes.
    + right. exact H.
Qed.

(* holds for every NID of the batch, user or bare domain *)
Theorem acl_remove_absent_any :
  forall a ns n, acl_wf a -> In n ns -> ~ In n (acl_allow_list (acl_update a ns false)).
Proof.
  intros a ns n Hwf H Hin.
  apply (In_allow_list_wf _ _ (acl_update_wf a ns false Hwf)) in Hin as (us & H1 & H2).
  destruct (remove_fold n ns a (or_intror H) us H1) as [H3 H4].
  destruct H2 as [[H2 _]|H2]; contradiction.
Qed.

Theorem acl_remove_absent :
  forall a ns n, acl_wf a -> In n ns -> nu n <> [] ->
  ~ In n (acl_allow_list (acl_update a ns false)).
Proof. intros a ns n Hwf H _. apply acl_remove_absent_any; assumption. Qed.

(* a NID not reported before a remove batch is not reported after it *)
Theorem acl_remove_keeps_absent :
  forall a ns n, acl_wf a -> ~ In n (acl_allow_list a) ->
  ~ In n (acl_allow_list (acl_update a ns false)).
Proof.
  intros a ns. revert a. induction ns as [|m ns IH]; intros a n Hwf H; [exact H|].
  rewrite acl_update_cons. apply IH; [apply acl_remove_wf; exact Hwf|].
  intro Hin. apply H.
  apply (In_allow_list_wf _ _ (acl_remove_wf a m Hwf)) in Hin as (us & H1 & H2).
  apply (In_allow_list_wf _ _ Hwf).
  rewrite alookup_acl_remove in H1. destruct (list_eqb (nd n) (nd m)) eqn:E; [|eauto].
  beq. rewrite <- E in H1. destruct (alookup (nd n) a) as [us0|] eqn:E0; [|discriminate].
  destruct (isempty (sdel (nu m) us0)) eqn:E1; [discriminate|]. injection H1 as <-.
  exists us0. split; [reflexivity|]. right. destruct H2 as [[H2 _]|H2].
  - apply isempty_false in E1. contradiction.
  - apply In_sdel in H2. tauto.
Qed.

(* ---------------------------------------------------------------------------------------- *)
(* 4. entry count                                                                           *)
(* ---------------------------------------------------------------------------------------- *)

Theorem acl_total_counts_reported_gen :
  forall a, acl_total a = N.of_nat (length (acl_allow_list a)).
Proof.
  intro a. rewrite acl_allow_list_eq, length_sort_by. unfold acl_total.
  induction a as [|[d us] r IH]; cbn [fold_right flat_map]; [reflexivity|].
  rewrite app_length, Nat2N.inj_add, <- IH. f_equal.
  destruct us as [|u us]; unfold entry_nids; cbn [snd length map]; [reflexivity|].
  rewrite map_length. lia.
Qed.

Theorem acl_total_counts_reported :
  forall a, acl_wf a -> acl_total a = N.of_nat (length (acl_allow_list a)).
Proof. intros a _. apply acl_total_counts_reported_gen. Qed.

(* ---------------------------------------------------------------------------------------- *)
(* 5. the reported list is sorted                                                           *)
(* ---------------------------------------------------------------------------------------- *)

Ltac ltb_cases :=
  repeat match goal with |- context [?p <? ?q] => destruct (p <? q) eqn:? end;
  try congruence;
  repeat match goal with
         | H : (_ <? _) = true |- _ => apply N.ltb_lt in H
         | H : (_ <? _) = false |- _ => apply N.ltb_ge in H
         end.

Lemma bytes_ltb_irrefl a : bytes_ltb a a = false.
Proof.
  induction a as [|x a IH]; cbn [bytes_ltb]; [reflexivity|]. rewrite N.ltb_irrefl. exact IH.
Qed.

Lemma bytes_ltb_trans a : forall b c,
  bytes_ltb a b = true -> bytes_ltb b c = true -> bytes_ltb a c = true.
Proof.
  induction a as [|x a IH]; intros [|y b] [|z c]; cbn [bytes_ltb]; try congruence.
  ltb_cases; try (exfalso; lia). apply IH.
Qed.

Lemma bytes_ltb_total a : forall b, bytes_ltb a b = false -> bytes_ltb b a = false -> a = b.
Proof.
  induction a as [|x a IH]; intros [|y b]; cbn [bytes_ltb]; try congruence.
  ltb_cases; try (exfalso; lia). intros H1 H2. f_equal; [lia | apply IH; assumption].
Qed.

Lemma bytes_ltb_asym a b : bytes_ltb a b = true -> bytes_ltb b a = false.
Proof.
  intro H. destruct (bytes_ltb b a) eqn:E; [|reflexivity].
  pose proof (bytes_ltb_trans _ _ _ H E) as H'. rewrite bytes_ltb_irrefl in H'. discriminate.
Qed.

Lemma nid_lt_spec x y :
  nid_lt x y = true <->
  bytes_ltb (nu x) (nu y) = true \/ (nu x = nu y /\ bytes_ltb (nd x) (nd y) = true).
Proof.
  unfold nid_lt. destruct (bytes_ltb (nu x) (nu y)) eqn:E1; [tauto|].
  destruct (bytes_ltb (nu y) (nu x)) eqn:E2.
  - split; [discriminate|]. intros [H|[H _]]; [discriminate|].
    rewrite H, bytes_ltb_irrefl in E2. discriminate.
  - pose proof (bytes_ltb_total _ _ E1 E2). split; [auto|]. intros [H0|[_ H0]]; [discriminate|exact H0].
Qed.

Lemma nid_lt_irrefl x : nid_lt x x = false.
Proof. unfold nid_lt. rewrite !bytes_ltb_irrefl. reflexivity. Qed.

Lemma nid_lt_trans x y z : nid_lt x y = true -> nid_lt y z = true -> nid_lt x z = true.
Proof.
  rewrite !nid_lt_spec. intros [A1|[e1 B1]] [A2|[e2 B2]].
  - left. eapply bytes_ltb_trans; eassumption.
  - left. rewrite <- e2. exact A1.
  - left. rewrite e1. exact A2.
  - right. split; [congruence|]. eapply bytes_ltb_trans; eassumption.
Qed.

Lemma nid_lt_total x y : nid_lt x y = false -> nid_lt y x = false -> x = y.
Proof.
  unfold nid_lt. destruct (bytes_ltb (nu x) (nu y)) eqn:E1; [discriminate|].
  destruct (bytes_ltb (nu y) (nu x)) eqn:E2; [discriminate|].
  intros H1 H2. destruct x as [u1 d1], y as [u2 d2]. cbn [nu nd] in *. f_equal.
  - apply bytes_ltb_total; assumption.
  - apply bytes_ltb_total; assumption.
Qed.

Lemma nid_lt_asym x y : nid_lt x y = true -> nid_lt y x = false.
Proof.
  intro H. destruct (nid_lt y x) eqn:E; [|reflexivity].
  pose proof (nid_lt_trans _ _ _ H E) as H'. rewrite nid_lt_irrefl in H'. discriminate.
Qed.

Section SortBy.
  Context {A : Type} (lt : A -> A -> bool).
  Hypothesis lt_asym : forall x y, lt x y = true -> lt y x = false.

  (* "x is not after y" *)
  Definition not_after (x y : A) : Prop := lt y x = false.

  Lemma insert_by_HdRel y x l :
    HdRel not_after y l -> not_after y x -> HdRel not_after y (insert_by lt x l).
  Proof.
    intros H Hx. destruct l as [|z r]; cbn [insert_by]; [constructor; exact Hx|].
    destruct (lt x z); constructor; [exact Hx|]. inversion H; assumption.
  Qed.

  Lemma insert_by_sorted x l : Sorted not_after l -> Sorted not_after (insert_by lt x l).
  Proof.
    induction l as [|y r IH]; intro H; cbn [insert_by]; [repeat constructor|].
    destruct (lt x y) eqn:E.
    - constructor; [exact H|]. constructor. apply lt_asym. exact E.
    - inversion H; subst. constructor; [apply IH; assumption|].
      apply insert_by_HdRel; assumption.
  Qed.

  Lemma sort_by_sorted l : Sorted not_after (sort_by lt l).
  Proof.
    unfold sort_by. induction l as [|x r IH]; cbn [fold_right]; [constructor|].
    apply insert_by_sorted. exact IH.
  Qed.

  Hypothesis lt_trans : forall x y z, lt x y = true -> lt y z = true -> lt x z = true.
  Hypothesis lt_total : forall x y, lt x y = false -> lt y x = false -> x = y.

  Lemma not_after_trans x y z : not_after x y -> not_after y z -> not_after x z.
  Proof.
    unfold not_after. intros H1 H2. destruct (lt z x) eqn:E; [|reflexivity].
    destruct (lt x y) eqn:E1.
    - rewrite (lt_trans _ _ _ E E1) in H2. discriminate.
    - pose proof (lt_total _ _ E1 H1). subst. congruence.
  Qed.

  Lemma sort_by_strongly_sorted l : StronglySorted not_after (sort_by lt l).
  Proof.
    apply Sorted_StronglySorted; [|apply sort_by_sorted].
    intros x y z. apply not_after_trans.
  Qed.

  Lemma strongly_sorted_strict l :
    StronglySorted not_after l -> NoDup l -> StronglySorted (fun x y => lt x y = true) l.
  Proof.
    induction 1 as [|x l Hs IH Hf]; intro Hnd; [constructor|].
    inversion Hnd; subst. constructor; [apply IH; assumption|].
    rewrite Forall_forall in *. intros y Hy. specialize (Hf y Hy). unfold not_after in Hf.
    destruct (lt x y) eqn:E; [reflexivity|]. exfalso.
    pose proof (lt_total _ _ E Hf). subst. contradiction.
  Qed.
End SortBy.

Lemma flat_map_entry_nids_NoDup a : acl_wf a -> NoDup (flat_map entry_nids a).
Proof.
  induction a as [|[d us] r IH]; intros [Hk He]; cbn [flat_map]; [constructor|].
  cbn [map fst] in Hk. inversion Hk; subst.
  apply NoDup_app_intro.
  - destruct (He d us (or_introl eq_refl)) as [Hu _].
    unfold entry_nids. cbn [snd fst]. destruct us as [|u us]; [repeat constructor; intros []|].
    apply NoDup_map_inj; [|exact Hu]. intros x y H. injection H. auto.
  - apply IH. split; [assumption|]. intros k v Hin. apply (He k v). right. exact Hin.
  - intros x Hx Hin. apply In_entry_nids in Hx as [Hx _].
    apply in_flat_map in Hin as ([k v] & Hin & Hx'). apply In_entry_nids in Hx' as [Hx' _].
    apply H1. apply in_map_iff. exists (k, v). cbn [fst]. split; [congruence | exact Hin].
Qed.

Theorem acl_allow_list_NoDup a : acl_wf a -> NoDup (acl_allow_list a).
Proof.
  intro H. rewrite acl_allow_list_eq.
  apply (Permutation_NoDup (Permutation_sym (sort_by_perm nid_lt _))).
  apply flat_map_entry_nids_NoDup. exact H.
Qed.

(* every ACL: no element is followed (anywhere later) by a strictly smaller one *)
Theorem acl_allow_list_sorted_weak :
  forall a, StronglySorted (fun x y => nid_lt y x = false) (acl_allow_list a).
Proof.
  intro a. rewrite acl_allow_list_eq.
  apply (sort_by_strongly_sorted nid_lt nid_lt_asym nid_lt_trans nid_lt_total).
Qed.

(* well-formed ACL: strictly increasing *)
Theorem acl_allow_list_sorted :
  forall a, acl_wf a -> StronglySorted (fun x y => nid_lt x y = true) (acl_allow_list a).
Proof.
  intros a H. apply (strongly_sorted_strict nid_lt nid_lt_total).
  - apply acl_allow_list_sorted_weak.
  - apply acl_allow_list_NoDup. exact H.
Qed.

(* ---------------------------------------------------------------------------------------- *)
(* 6. non-vacuity examples and corner cases                                                 *)
(* ---------------------------------------------------------------------------------------- *)

Definition ex_d1 : str := bs "example.com".
Definition ex_d2 : str := bs "other.org".
Definition ex_d3 : str := bs "evil.net".
Definition U (u : string) (d : str) : nid := {| nu := bs u; nd := d |}.
Definition D (d : str) : nid := {| nu := []; nd := d |}.

(* add alice, bob (twice), the bare domain other.org, carol; then remove bob *)
Definition ex_acl : acl :=
  acl_update
    (acl_update [] [U "alice" ex_d1; U "bob" ex_d1; D ex_d2; U "bob" ex_d1; U "carol" ex_d1] true)
    [U "bob" ex_d1] false.

Example ex_acl_value : ex_acl = [(ex_d1, [bs "alice"; bs "carol"]); (ex_d2, [])].
Proof. vm_compute. reflexivity. Qed.
Example ex_acl_wf : acl_wf ex_acl.
Proof. apply acl_update_wf, acl_update_wf, acl_wf_nil. Qed.
Example ex_reported : acl_allow_list ex_acl = [D ex_d2; U "alice" ex_d1; U "carol" ex_d1].
Proof. vm_compute. reflexivity. Qed.
Example ex_total : acl_total ex_acl = 3.
Proof. vm_compute. reflexivity. Qed.
Example ex_listed_user : acl_allowed ex_acl (U "alice" ex_d1) = true.
Proof. vm_compute. reflexivity. Qed.
Example ex_user_of_bare_domain : acl_allowed ex_acl (U "zed" ex_d2) = true.
Proof. vm_compute. reflexivity. Qed.
Example ex_unlisted_user_of_listed_domain : acl_allowed ex_acl (U "mallory" ex_d1) = false.
Proof. vm_compute. reflexivity. Qed.
Example ex_removed_user : acl_allowed ex_acl (U "bob" ex_d1) = false.
Proof. vm_compute. reflexivity. Qed.
Example ex_foreign_user : acl_allowed ex_acl (U "alice" ex_d3) = false.
Proof. vm_compute. reflexivity. Qed.
Example ex_empty_acl_allows_all : acl_allowed [] (U "alice" ex_d3) = true.
Proof. vm_compute. reflexivity. Qed.

(* Corner 1: the add theorem does NOT extend to bare-domain NIDs of the batch.
   (a) a user of the same domain later in the batch narrows the bare entry to that user;
   (b) adding the bare domain to a domain that already has users is a no-op. *)
Example cex_add_bare_then_user :
  let a := acl_update [] [D ex_d1; U "alice" ex_d1] true in
  acl_allow_list a = [U "alice" ex_d1] /\ acl_allowed a (U "bob" ex_d1) = false.
Proof. vm_compute. split; reflexivity. Qed.
Example cex_add_user_then_bare :
  let a := acl_update [] [U "alice" ex_d1; D ex_d1] true in
  acl_allow_list a = [U "alice" ex_d1] /\ acl_allowed a (U "bob" ex_d1) = false.
Proof. vm_compute. split; reflexivity. Qed.
Theorem acl_add_present_false_for_bare :
  ~ (forall a ns n, acl_wf a -> In n ns -> In n (acl_allow_list (acl_update a ns true))).
Proof.
  intro H. specialize (H [] [D ex_d1; U "alice" ex_d1] (D ex_d1) acl_wf_nil (or_introl eq_refl)).
  vm_compute in H. destruct H as [H|[]]. discriminate H.
Qed.

(* Corner 2: removing a user NID that was never listed deletes a bare-domain entry of its domain;
   when that was the only entry the ACL becomes empty, i.e. open to everybody. *)
Example corner_remove_user_drops_bare_domain :
  let a0 := acl_update [] [D ex_d1] true in
  let a1 := acl_update a0 [U "alice" ex_d1] false in
  acl_allow_list a0 = [D ex_d1] /\ acl_allowed a0 (U "eve" ex_d3) = false /\
  a1 = [] /\ acl_allowed a1 (U "eve" ex_d3) = true.
Proof. vm_compute. repeat split; reflexivity. Qed.

(* Corner 3: the side condition nu n <> [] of the main theorem is needed only because a
   bare-domain NID is "allowed" by any entry of its domain that lists the empty username,
   which never happens; for a bare NID the decision is: *)
Example bare_nid_decision :
  acl_allowed ex_acl (D ex_d1) = false /\ acl_allowed ex_acl (D ex_d2) = true.
Proof. vm_compute. split; reflexivity. Qed.

Print Assumptions acl_wf_nil.
Print Assumptions acl_update_wf.
Print Assumptions acl_reachable_wf.
Print Assumptions acl_allow_list_nil_iff.
Print Assumptions In_allow_list_wf.
Print Assumptions acl_decision_is_reported_list.
Print Assumptions acl_decision_is_reported_list_b.
Print Assumptions acl_add_present_gen.
Print Assumptions acl_add_present.
Print Assumptions acl_add_keeps_users.
Print Assumptions acl_add_then_allowed.
Print Assumptions acl_remove_absent_any.
Print Assumptions acl_remove_absent.
Print Assumptions acl_remove_keeps_absent.
Print Assumptions acl_total_counts_reported_gen.
Print Assumptions acl_total_counts_reported.
Print Assumptions acl_allow_list_NoDup.
Print Assumptions acl_allow_list_sorted_weak.
Print Assumptions acl_allow_list_sorted.
Print Assumptions acl_add_present_false_for_bare.
