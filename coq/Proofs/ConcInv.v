(* Interleaved model: the invariant holds in every state any schedule can reach; what follows from it. *)
From Coq Require Import List NArith Bool Lia.
From NW Require Import Model.Conc Proofs.ConcDefs Proofs.ConcEv.
From NW Require Proofs.ConcJoin Proofs.ConcLeave Proofs.ConcMisc.
Import ListNotations.
Open Scope N_scope.

Lemma pc_family p : join_pc p \/ leave_pc p \/ other_pc p \/ acl_pc p.
Proof. destruct p as [r| | | | | | | | | | |]; [destruct r|..]; cbn; tauto. Qed.

Lemma cstep_run cf s t ok hint k :
  tlookup t (tasks s) = Some k ->
  fst (cstep cf s (ERun t ok hint)) = after_seg s t k (seg cf t (t_conn k) (t_me k) (cg s) (t_pc k) ok hint) hint.
Proof.
  intros Hl. unfold cstep, after_seg. rewrite Hl.
  destruct (seg cf t (t_conn k) (t_me k) (cg s) (t_pc k) ok hint) as [[g' p] os]. reflexivity.
Qed.

Lemma crun_fst_cons cf s e es : fst (crun cf s (e :: es)) = fst (crun cf (fst (cstep cf s e)) es).
Proof.
  cbn [crun]. destruct (cstep cf s e) as [s1 o1]. cbn [fst]. destruct (crun cf s1 es) as [s2 o2]. reflexivity.
Qed.

(* one segment of a task preserves the invariant: proved per family of program points *)
Definition seg_join_preserves := ConcJoin.seg_join_preserves.
Definition seg_leave_preserves := ConcLeave.seg_leave_preserves.
Definition seg_other_preserves := ConcMisc.seg_other_preserves.
Definition seg_acl_preserves := ConcMisc.seg_acl_preserves.

Section Assembly.
  Theorem cinv_step cf s e : fixed cf -> CInv s -> CInv (fst (cstep cf s e)).
  Proof.
    intros F I. destruct e as [c u x|c r|t ok hint|c hint|t|ts pl].
    - now apply cinv_identify.
    - now apply cinv_req.
    - destruct (tlookup t (tasks s)) as [k|] eqn:Hl.
      + rewrite (cstep_run cf s t ok hint k Hl).
        destruct (pc_family (t_pc k)) as [H|[H|[H|H]]];
          [apply seg_join_preserves | apply seg_leave_preserves | apply seg_other_preserves | apply seg_acl_preserves];
          auto.
      + unfold cstep. rewrite Hl. exact I.
    - now apply cinv_hangup.
    - now apply cinv_drop.
    - exact I.      (* a pushed private payload changes nothing *)
  Qed.

  Lemma cinv_run cf es : fixed cf -> forall s, CInv s -> CInv (fst (crun cf s es)).
  Proof.
    intros F. induction es as [|e es IH]; intros s I; [exact I|].
    rewrite crun_fst_cons. apply IH. now apply cinv_step.
  Qed.

  Theorem cinv_reachable cf es : fixed cf -> CInv (cstate_after cf es).
  Proof. intros F. unfold cstate_after. apply cinv_run; auto. apply cinv_init. Qed.

  (* C05: whenever no request and no clean-up is in progress the two views of membership agree, every member has a live
     connection, no emptied channel is left, every channel has exactly one owner, who is a member -- after ANY schedule *)
  Theorem conc_views_agree_at_quiescence cf es :
    fixed cf -> quiescent (cstate_after cf es) -> views_agree (cg (cstate_after cf es)).
  Proof.
    intros F Q. pose proof (cinv_reachable cf es F) as I. set (s := cstate_after cf es) in *.
    assert (Hnc : forall u ch o, ~ covered s u ch o).
    { intros u ch o (t & k & Hin & _). unfold quiescent in Q. rewrite Q in Hin. destruct Hin. }
    repeat split.
    - apply I.
    - intros (o & Hm & Hin). destruct (i_member_listed s I u ch o Hm Hin) as [H|H]; auto. now apply Hnc in H.
    - intros u ch (o & Hm & Hin). destruct (i_member_connected s I u ch o Hm Hin) as [H|H]; auto. now apply Hnc in H.
    - apply I.
    - apply I.
  Qed.

  (* at every moment, even in the middle of interleaved requests: a listed channel is a channel the user is a member of *)
  Theorem conc_listed_is_member_always cf es u ch :
    fixed cf -> is_listed (cg (cstate_after cf es)) u ch -> is_member (cg (cstate_after cf es)) u ch.
  Proof. intros F. apply (i_listed_member _ (cinv_reachable cf es F)). Qed.

  (* C04: at every moment every channel in the map has an owner who is one of its members *)
  Theorem conc_owner_is_member_always cf es ch o :
    fixed cf -> cmap (cg (cstate_after cf es)) ch = Some o ->
    exists w, owner (objs (cg (cstate_after cf es)) o) = Some w /\ In w (members (objs (cg (cstate_after cf es)) o)).
  Proof. intros F. apply (i_owner _ (cinv_reachable cf es F)). Qed.

  (* a user without any connection is a member only as long as its clean-up is still on its way to that channel *)
  Theorem conc_disconnected_member_is_being_removed cf es u ch o :
    fixed cf -> let s := cstate_after cf es in
    cmap (cg s) ch = Some o -> In u (members (objs (cg s) o)) -> reg (cg s) u = [] -> covered s u ch o.
  Proof.
    intros F s Hm Hin Hr. destruct (i_member_connected _ (cinv_reachable cf es F) u ch o Hm Hin) as [H|H]; auto.
    now elim H.
  Qed.

  (* a channel object that was taken out of the map has no members and never gets one again *)
  Theorem conc_released_channel_stays_empty cf es o :
    fixed cf -> (forall ch, cmap (cg (cstate_after cf es)) ch <> Some o) -> members (objs (cg (cstate_after cf es)) o) = [].
  Proof. intros F. apply (i_unmapped_empty _ (cinv_reachable cf es F)). Qed.
End Assembly.
