(* Interleaved model instantiated with the flags and the segment layout read off the source (Gen/ConcFlags.v,
   regenerated on every run by translator/concflags.py): the all-schedule theorems apply to the code as it is now. *)
From Coq Require Import List NArith Bool String.
From NW Require Import Model.Conc Proofs.ConcDefs Proofs.ConcInv Proofs.ConcSmall Gen.ConcFlags.
Import ListNotations.
Open Scope N_scope.

(* the model configured from the source: whatever the modulator declares, whatever the limits *)
Definition src_cfg (fe fp : bool) (ms mc : N) : ccfg :=
  {| fwd_event := fe; fwd_payload := fp; ptr_check := src_ptr_check; idx_early := src_idx_early; c_max_subs := ms; c_max_clients := mc |}.

Lemma source_is_fixed fe fp ms mc : fixed (src_cfg fe fp ms mc).
Proof. split; reflexivity. Qed.

(* every statement the model places in a given atomic segment sits, in the source, on that side of the awaits *)
Lemma source_segment_layout : forallb snd conc_source_shape = true.
Proof. vm_compute. reflexivity. Qed.

Lemma source_views_agree fe fp ms mc es :
  quiescent (cstate_after (src_cfg fe fp ms mc) es) -> views_agree (cg (cstate_after (src_cfg fe fp ms mc) es)).
Proof. apply conc_views_agree_at_quiescence, source_is_fixed. Qed.

Lemma source_subscription_limit fe fp ms mc es u :
  len (idx (cg (cstate_after (src_cfg fe fp ms mc) es)) u) <= ms.
Proof. apply (conc_subscription_limit (src_cfg fe fp ms mc)). reflexivity. Qed.

Lemma source_owner_is_member fe fp ms mc es ch o :
  cmap (cg (cstate_after (src_cfg fe fp ms mc) es)) ch = Some o ->
  exists w, owner (objs (cg (cstate_after (src_cfg fe fp ms mc) es)) o) = Some w /\
            In w (members (objs (cg (cstate_after (src_cfg fe fp ms mc) es)) o)).
Proof. apply conc_owner_is_member_always, source_is_fixed. Qed.

(* the reasons each function refuses with, in the order of its checks (the first failing check decides the reason): the
   order the model's refusal branches follow, with the reasons outside the model's vocabulary (foreign domain, channel
   limit) kept in place so that an inserted, dropped or reordered check in the source is noticed *)
Open Scope string_scope.
Definition model_refusals : list (string * list string) :=
  [("join_channel", ["NotImplemented"; "ServerOverloaded"; "ResourceConflict"; "Forbidden"; "UserNotRegistered"; "NotAllowed"; "UserInChannel"; "ChannelIsFull"; "PolicyViolation"]);
   ("leave_channel", ["NotImplemented"; "ChannelNotFound"; "ChannelNotFound"; "Forbidden"; "UserNotInChannel"]);
   ("broadcast_payload", ["NotImplemented"; "ChannelNotFound"; "Forbidden"; "NotAllowed"; "PolicyViolation"]);
   ("set_channel_acl", ["NotAllowed"; "ChannelNotFound"; "Forbidden"; "PolicyViolation"]);
   ("get_channel_acl", ["NotAllowed"; "ChannelNotFound"; "Forbidden"]);
   ("list_members", ["NotImplemented"; "ChannelNotFound"; "UserNotInChannel"])].
Lemma source_refusal_order : conc_source_refusals = model_refusals.
Proof. vm_compute. reflexivity. Qed.
