(* Proofs about the client request engine model (Model/ClientEngine.v): invariant, own-reply-only,
   in-flight window, timeouts, capacity restoration, correlation-id counter, ping/push. *)
From NW Require Import Base.Bytes Model.ClientEngine.
Local Open Scope N_scope.

(* ------------------------------------------------------------------------------------------ *)
(* Runs with a per-step oracle                                                                 *)
(* ------------------------------------------------------------------------------------------ *)

Fixpoint crun_pick (s : cstate) (h : list (list N * cev)) : cstate * list (list cout) :=
  match h with
  | [] => (s, [])
  | (p, e) :: r =>
      let '(s1, o) := cstep_pick p s e in
      let '(s2, os) := crun_pick s1 r in (s2, o :: os)
  end.

Lemma crun_pick_cons s p e r :
  crun_pick s ((p, e) :: r) =
  (fst (crun_pick (fst (cstep_pick p s e)) r),
   snd (cstep_pick p s e) :: snd (crun_pick (fst (cstep_pick p s e)) r)).
Proof.
  cbn [crun_pick]. destruct (cstep_pick p s e) as [s1 o]. cbn [fst snd].
  destruct (crun_pick s1 r) as [s2 os]. reflexivity.
Qed.

Lemma crun_is_crun_pick s evs : crun s evs = crun_pick s (map (fun e => ([], e)) evs).
Proof.
  revert s; induction evs as [|e r IH]; intro s; cbn [crun crun_pick map]; [reflexivity|].
  unfold cstep. destruct (cstep_pick [] s e) as [s1 o]. rewrite IH. reflexivity.
Qed.

(* ------------------------------------------------------------------------------------------ *)
(* Invariant and freshness                                                                     *)
(* ------------------------------------------------------------------------------------------ *)

Definition live_ids (s : cstate) : list N := map e_id (pending s) ++ waiting s.

Definition fresh (s : cstate) (id : N) : Prop := ~ In id (map e_id (pending s) ++ waiting s).

Definition CInv (s : cstate) : Prop :=
  (permits s + length (pending s))%nat = max_inflight s /\
  NoDup (map e_id (pending s) ++ waiting s) /\
  (waiting s <> [] -> permits s = 0%nat).

Fixpoint fresh_hist (s : cstate) (h : list (list N * cev)) : Prop :=
  match h with
  | [] => True
  | (p, e) :: r => (forall id, e = Issue id -> fresh s id) /\ fresh_hist (fst (cstep_pick p s e)) r
  end.

(* ------------------------------------------------------------------------------------------ *)
(* List facts                                                                                  *)
(* ------------------------------------------------------------------------------------------ *)

Definition rm (id : N) (l : list N) : list N := filter (fun x => negb (x =? id)) l.

Lemma nodup_app_iff {A} (a b : list A) :
  NoDup (a ++ b) <-> NoDup a /\ NoDup b /\ (forall x, In x a -> ~ In x b).
Proof.
  induction a as [|x a IH]; cbn.
  - split.
    + intro H; repeat split; auto. constructor.
    + intros (_ & H & _); exact H.
  - split.
    + intro H. inversion H as [|? ? Hn Hd]; subst. apply IH in Hd as (Ha & Hb & Hab).
      split; [constructor; auto; intro; apply Hn, in_or_app; auto|]. split; auto.
      intros y [->|Hy]; [intro; apply Hn, in_or_app; auto | auto].
    + intros (Ha & Hb & Hab). inversion Ha; subst. constructor.
      * intro Hin. apply in_app_or in Hin as [?|?]; [auto| eapply Hab; eauto].
      * apply IH. repeat split; auto.
Qed.

Lemma in_rm x id l : In x (rm id l) <-> In x l /\ x <> id.
Proof.
  unfold rm. rewrite filter_In, negb_true_iff, N.eqb_neq. reflexivity.
Qed.

Lemma nodup_rm id l : NoDup l -> NoDup (rm id l).
Proof. apply NoDup_filter. Qed.

Lemma rm_notin id l : ~ In id l -> rm id l = l.
Proof.
  induction l as [|x l IH]; cbn; intro H; [reflexivity|].
  destruct (N.eqb_spec x id) as [->|Hne]; cbn.
  - exfalso; apply H; auto.
  - f_equal. apply IH. intro; apply H; auto.
Qed.

Lemma length_rm id l : NoDup l -> In id l -> S (length (rm id l)) = length l.
Proof.
  induction l as [|x l IH]; cbn; intros Hnd Hin; [contradiction|].
  inversion Hnd as [|? ? Hn Hd]; subst.
  destruct (N.eqb_spec x id) as [->|Hne]; cbn.
  - fold (rm id l). rewrite rm_notin by assumption. reflexivity.
  - fold (rm id l). f_equal. apply IH; auto. destruct Hin; [contradiction|assumption].
Qed.

Lemma rm_nonempty id l : rm id l <> [] -> l <> [].
Proof. destruct l; cbn; congruence. Qed.

Lemma map_remove_entry id l : map e_id (remove_entry id l) = rm id (map e_id l).
Proof.
  unfold remove_entry, rm. induction l as [|x l IH]; cbn; [reflexivity|].
  destruct (e_id x =? id); cbn; rewrite IH; reflexivity.
Qed.

Lemma length_remove_entry id l :
  NoDup (map e_id l) -> In id (map e_id l) -> S (length (remove_entry id l)) = length l.
Proof.
  intros Hnd Hin. rewrite <- (map_length e_id (remove_entry id l)), <- (map_length e_id l),
    map_remove_entry. apply length_rm; assumption.
Qed.

Lemma has_entry_In id l : has_entry id l = true <-> In id (map e_id l).
Proof.
  unfold has_entry. rewrite existsb_exists, in_map_iff. split.
  - intros (x & Hx & E). apply N.eqb_eq in E. eauto.
  - intros (x & E & Hx). exists x. split; auto. apply N.eqb_eq; assumption.
Qed.

Lemma has_entry_false id l : has_entry id l = false <-> ~ In id (map e_id l).
Proof. rewrite <- has_entry_In. destruct (has_entry id l); split; congruence. Qed.

Lemma sender_present_has_entry id l : sender_present id l = true -> has_entry id l = true.
Proof.
  unfold sender_present, has_entry. rewrite !existsb_exists.
  intros (x & Hx & E). apply andb_true_iff in E as [E _]. eauto.
Qed.

Lemma sender_present_notin id l : ~ In id (map e_id l) -> sender_present id l = false.
Proof.
  intro H. destruct (sender_present id l) eqn:E; [|reflexivity].
  exfalso. apply H, has_entry_In, sender_present_has_entry, E.
Qed.

Lemma map_take_sender id l : map e_id (take_sender id l) = map e_id l.
Proof.
  unfold take_sender. rewrite map_map. apply map_ext_in. intros x _.
  destruct (N.eqb_spec (e_id x) id); cbn; congruence.
Qed.

Lemma sender_present_take_sender id l : sender_present id (take_sender id l) = false.
Proof.
  destruct (sender_present id (take_sender id l)) eqn:E; [|reflexivity]. exfalso.
  unfold sender_present, take_sender in E. apply existsb_exists in E as (x & Hx & E).
  apply in_map_iff in Hx as (y & <- & _). apply andb_true_iff in E as [E1 E2].
  destruct (e_id y =? id) eqn:Ey; cbn in *; congruence.
Qed.

Lemma mem_waiting id w : existsb (N.eqb id) w = true <-> In id w.
Proof. apply mem_In. Qed.

Lemma choose_waiter_some pick w id : choose_waiter pick w = Some id -> In id w.
Proof.
  unfold choose_waiter.
  destruct (filter (fun x => existsb (N.eqb x) pick) w) as [|x l] eqn:E.
  - destruct w as [|y w]; [discriminate|]. intro H; injection H as ->. left; reflexivity.
  - intro H; injection H as ->.
    assert (Hin : In id (filter (fun x => existsb (N.eqb x) pick) w)) by (rewrite E; left; reflexivity).
    apply filter_In in Hin. tauto.
Qed.

Lemma choose_waiter_none pick w : choose_waiter pick w = None -> w = [].
Proof.
  unfold choose_waiter.
  destruct (filter (fun x => existsb (N.eqb x) pick) w); [|discriminate].
  destruct w; [reflexivity|discriminate].
Qed.

(* ------------------------------------------------------------------------------------------ *)
(* grant                                                                                       *)
(* ------------------------------------------------------------------------------------------ *)

Lemma grant_spec pick s :
  (grant pick s = (s, []) /\ (permits s = 0%nat \/ waiting s = [])) \/
  (exists p id, permits s = S p /\ In id (waiting s) /\
     grant pick s = (with_ s p (pending s ++ [{| e_id := id; e_sender := true |}])
                              (rm id (waiting s)) (broken s),
                     if broken s then [] else [Written id])).
Proof.
  unfold grant. destruct (permits s) as [|p] eqn:Ep.
  - left. split; auto.
  - destruct (choose_waiter pick (waiting s)) as [id|] eqn:Ec.
    + right. exists p, id. split; [reflexivity|]. split; [eapply choose_waiter_some; eauto|reflexivity].
    + left. split; [reflexivity|]. right. eapply choose_waiter_none; eauto.
Qed.

(* release the entry of [id], then hand the freed permit to a parked request *)
Definition release (s : cstate) (id : N) : cstate :=
  with_ s (S (permits s)) (remove_entry id (pending s)) (waiting s) (broken s).

Lemma release_grant_cases pick s id :
  (grant pick (release s id) = (release s id, []) /\ waiting s = []) \/
  (exists w, In w (waiting s) /\
     grant pick (release s id) =
       (with_ s (permits s) (remove_entry id (pending s) ++ [{| e_id := w; e_sender := true |}])
              (rm w (waiting s)) (broken s),
        if broken s then [] else [Written w])).
Proof.
  destruct (grant_spec pick (release s id)) as [[E [H|H]]|(p & w & Hp & Hw & E)].
  - cbn in H. discriminate.
  - left. split; assumption.
  - right. exists w. cbn in Hp, Hw. injection Hp as <-. split; [assumption|]. rewrite E. reflexivity.
Qed.

Lemma CInv_release_grant pick s id :
  CInv s -> In id (map e_id (pending s)) -> CInv (fst (grant pick (release s id))).
Proof.
  intros (H1 & H2 & H3) Hin.
  apply nodup_app_iff in H2 as (Hp & Hw & Hpw).
  pose proof (length_remove_entry id (pending s) Hp Hin) as Hlen.
  destruct (release_grant_cases pick s id) as [[E Hw0]|(w & Hwin & E)]; rewrite E; cbn [fst].
  - unfold CInv, release; cbn. rewrite Hw0. split; [lia|]. split; [|congruence].
    rewrite app_nil_r, map_remove_entry. apply nodup_rm, Hp.
  - unfold CInv; cbn. split; [|split].
    + rewrite app_length; cbn. lia.
    + rewrite map_app, map_remove_entry; cbn.
      apply nodup_app_iff. split; [|split].
      * apply nodup_app_iff. split; [apply nodup_rm, Hp|]. split; [repeat constructor; auto|].
        intros x Hx [<-|[]]. apply in_rm in Hx as [Hx _]. eapply Hpw; eauto.
      * apply nodup_rm, Hw.
      * intros x Hx Hx'. apply in_rm in Hx' as [Hx' Hne].
        apply in_app_or in Hx as [Hx|[<-|[]]]; [|congruence].
        apply in_rm in Hx as [Hx _]. eapply Hpw; eauto.
    + intro Hne. apply H3. eapply rm_nonempty; eauto.
Qed.

(* ------------------------------------------------------------------------------------------ *)
(* 1. The invariant                                                                            *)
(* ------------------------------------------------------------------------------------------ *)

Theorem cinv_init : forall k rel, CInv (init_client k rel).
Proof.
  intros k rel. unfold CInv, init_client; cbn. split; [lia|]. split; [constructor|congruence].
Qed.

(* freshness is only needed when the link is healthy: an Issue on a broken link starts from a
   fresh table *)
Theorem cinv_step_strong pick s e :
  CInv s -> (forall id, e = Issue id -> broken s = false -> fresh s id) ->
  CInv (fst (cstep_pick pick s e)).
Proof.
  intros Hinv Hfresh. pose proof Hinv as (H1 & H2 & H3).
  destruct e as [id|id|id| |id|]; cbn [cstep_pick].
  - (* Issue *)
    destruct (broken s) eqn:Eb.
    + cbn. destruct (max_inflight s) as [|p] eqn:Em; cbn; unfold CInv; cbn.
      * rewrite Em. split; [reflexivity|]. split; [repeat constructor; auto|reflexivity].
      * rewrite Em. split; [lia|]. split; [repeat constructor; auto|congruence].
    + specialize (Hfresh id eq_refl eq_refl). unfold fresh in Hfresh.
      apply nodup_app_iff in H2 as (Hp & Hw & Hpw).
      destruct (permits s) as [|p] eqn:Ep; cbn; unfold CInv; cbn.
      * split; [lia|]. split; [|reflexivity].
        apply nodup_app_iff. split; [assumption|]. split.
        -- apply nodup_app_iff. split; [assumption|]. split; [repeat constructor; auto|].
           intros x Hx [<-|[]]. apply Hfresh, in_or_app; auto.
        -- intros x Hx Hx'. apply in_app_or in Hx' as [Hx'|[<-|[]]]; [eapply Hpw; eauto|].
           apply Hfresh, in_or_app; auto.
      * assert (Hw0 : waiting s = []).
        { destruct (waiting s) eqn:E; [reflexivity|]. assert (S p = 0%nat) by (apply H3; congruence). lia. }
        rewrite Hw0 in *. split; [rewrite app_length; cbn; lia|]. split; [|congruence].
        rewrite app_nil_r, map_app; cbn. apply nodup_app_iff. split; [assumption|].
        split; [repeat constructor; auto|]. intros x Hx [<-|[]]. apply Hfresh. rewrite app_nil_r. assumption.
  - (* PeerReply *)
    destruct (broken s) eqn:Eb; [exact Hinv|].
    destruct (sender_present id (pending s)) eqn:Es; [|exact Hinv].
    pose proof (CInv_release_grant pick s id Hinv) as Hg. unfold release in Hg. rewrite Eb in Hg.
    destruct (grant pick _) as [s2 o]. cbn [fst] in *. apply Hg.
    apply has_entry_In, sender_present_has_entry, Es.
  - destruct (broken s); exact Hinv.
  - destruct (broken s); exact Hinv.
  - (* Timeout *)
    destruct (has_entry id (pending s)) eqn:Eh.
    + destruct (releases_on_timeout s).
      * pose proof (CInv_release_grant pick s id Hinv) as Hg. unfold release in Hg.
        destruct (grant pick _) as [s2 o]. cbn [fst] in *. apply Hg. apply has_entry_In, Eh.
      * unfold CInv; cbn. rewrite map_take_sender. unfold take_sender. rewrite map_length. auto.
    + destruct (existsb (N.eqb id) (waiting s)); [|exact Hinv].
      unfold CInv; cbn. split; [assumption|]. split.
      * apply nodup_app_iff in H2 as (Hp & Hw & Hpw). apply nodup_app_iff. split; [assumption|].
        split; [apply (nodup_rm id), Hw|]. intros x Hx Hx'. apply in_rm in Hx' as [Hx' _]. eapply Hpw; eauto.
      * intro Hne. apply H3. eapply (rm_nonempty id); eauto.
  - exact Hinv.
Qed.

Theorem cinv_step pick s e :
  CInv s -> (forall id, e = Issue id -> fresh s id) -> CInv (fst (cstep_pick pick s e)).
Proof. intros H Hf. apply cinv_step_strong; auto. Qed.

Theorem cinv_run : forall h s, CInv s -> fresh_hist s h -> CInv (fst (crun_pick s h)).
Proof.
  induction h as [|[p e] r IH]; intros s Hinv Hf; [exact Hinv|].
  rewrite crun_pick_cons; cbn [fst]. destruct Hf as [Hf1 Hf2].
  apply IH; [apply cinv_step; assumption|assumption].
Qed.

Corollary cinv_run_init k rel h :
  fresh_hist (init_client k rel) h -> CInv (fst (crun_pick (init_client k rel) h)).
Proof. apply cinv_run, cinv_init. Qed.

(* ------------------------------------------------------------------------------------------ *)
(* Shape of the steps                                                                          *)
(* ------------------------------------------------------------------------------------------ *)

Lemma grant_outputs pick s o : In o (snd (grant pick s)) -> exists w, o = Written w /\ In w (waiting s).
Proof.
  destruct (grant_spec pick s) as [[E _]|(p & w & _ & Hw & E)]; rewrite E; cbn [snd].
  - intros [].
  - destruct (broken s); [intros []|]. intros [<-|[]]. eauto.
Qed.

Lemma grant_broken pick s : broken (fst (grant pick s)) = broken s.
Proof.
  destruct (grant_spec pick s) as [[E _]|(p & w & _ & _ & E)]; rewrite E; reflexivity.
Qed.

Lemma grant_max pick s : max_inflight (fst (grant pick s)) = max_inflight s.
Proof.
  destruct (grant_spec pick s) as [[E _]|(p & w & _ & _ & E)]; rewrite E; reflexivity.
Qed.

Lemma grant_rel pick s : releases_on_timeout (fst (grant pick s)) = releases_on_timeout s.
Proof.
  destruct (grant_spec pick s) as [[E _]|(p & w & _ & _ & E)]; rewrite E; reflexivity.
Qed.

Lemma reply_step pick s id :
  broken s = false -> sender_present id (pending s) = true ->
  cstep_pick pick s (PeerReply id) =
    (fst (grant pick (release s id)), Completed id :: snd (grant pick (release s id))).
Proof.
  intros Eb Es. cbn [cstep_pick]. rewrite Eb, Es. unfold release. rewrite Eb.
  destruct (grant pick _) as [s2 o]. reflexivity.
Qed.

Lemma timeout_release_step pick s id :
  has_entry id (pending s) = true -> releases_on_timeout s = true ->
  cstep_pick pick s (Timeout id) =
    (fst (grant pick (release s id)), TimedOut id :: snd (grant pick (release s id))).
Proof.
  intros Eh Er. cbn [cstep_pick]. rewrite Eh, Er. unfold release.
  destruct (grant pick _) as [s2 o]. reflexivity.
Qed.

Lemma issue_step pick s id :
  cstep_pick pick s (Issue id) =
    let s0 := if broken s then with_ s (max_inflight s) [] [] false else s in
    match permits s0 with
    | S p => (with_ s0 p (pending s0 ++ [{| e_id := id; e_sender := true |}]) (waiting s0) false,
              [Written id])
    | O => (with_ s0 O (pending s0) (waiting s0 ++ [id]) false, [])
    end.
Proof.
  cbn [cstep_pick]. destruct (broken s) eqn:Eb; cbn zeta.
  - cbn [broken with_ permits]. reflexivity.
  - rewrite Eb. reflexivity.
Qed.

Lemma live_release_grant_subset pick s j x :
  In x (live_ids (fst (grant pick (release s j)))) -> In x (live_ids s).
Proof.
  unfold live_ids.
  destruct (release_grant_cases pick s j) as [[E Hw0]|(w & Hwin & E)]; rewrite E; cbn [fst]; cbn.
  - rewrite map_remove_entry. intro H. apply in_app_or in H as [H|H]; apply in_or_app; auto.
    apply in_rm in H as [H _]. auto.
  - rewrite map_app, map_remove_entry; cbn. intro H. apply in_or_app.
    apply in_app_or in H as [H|H].
    + apply in_app_or in H as [H|[<-|[]]]; auto. apply in_rm in H as [H _]. auto.
    + apply in_rm in H as [H _]. auto.
Qed.

Lemma not_live_after_release_grant pick s id :
  CInv s -> In id (map e_id (pending s)) -> ~ In id (live_ids (fst (grant pick (release s id)))).
Proof.
  intros (_ & H2 & _) Hin. apply nodup_app_iff in H2 as (_ & _ & Hpw). unfold live_ids.
  destruct (release_grant_cases pick s id) as [[E Hw0]|(w & Hwin & E)]; rewrite E; cbn [fst]; cbn.
  - rewrite map_remove_entry, Hw0, app_nil_r. intro H. apply in_rm in H as [_ H]. congruence.
  - rewrite map_app, map_remove_entry; cbn. intro H.
    apply in_app_or in H as [H|H].
    + apply in_app_or in H as [H|[<-|[]]].
      * apply in_rm in H as [_ H]. congruence.
      * eapply Hpw; eauto.
    + apply in_rm in H as [H _]. eapply Hpw; eauto.
Qed.

Lemma sender_present_live id s : sender_present id (pending s) = true -> In id (live_ids s).
Proof.
  intro H. apply in_or_app. left. apply has_entry_In, sender_present_has_entry, H.
Qed.

(* ------------------------------------------------------------------------------------------ *)
(* 2. Own reply only                                                                           *)
(* ------------------------------------------------------------------------------------------ *)

Theorem C16_own_reply_only pick s e id :
  In (Completed id) (snd (cstep_pick pick s e)) ->
  e = PeerReply id /\ broken s = false /\ sender_present id (pending s) = true.
Proof.
  destruct e as [j|j|j| |j|].
  - rewrite issue_step. cbn zeta. destruct (permits _); intro H; cbn [snd In] in H; intuition discriminate.
  - cbn [cstep_pick]. destruct (broken s) eqn:Eb; [intros []|].
    destruct (sender_present j (pending s)) eqn:Es.
    + destruct (grant pick _) as [s2 o] eqn:Eg. cbn [snd]. intros [H|H].
      * injection H as ->. auto.
      * assert (Ho : In (Completed id) (snd (grant pick
            (with_ s (S (permits s)) (remove_entry j (pending s)) (waiting s) false))))
          by (rewrite Eg; exact H).
        apply grant_outputs in Ho as (w & Hw & _). discriminate.
    + intros [H|[]]. discriminate.
  - cbn [cstep_pick]. destruct (broken s); cbn [snd]; [intros []|intros [H|[]]; discriminate].
  - cbn [cstep_pick]. destruct (broken s); cbn [snd]; [intros []|intros [H|[]]; discriminate].
  - cbn [cstep_pick]. destruct (has_entry j (pending s)).
    + destruct (releases_on_timeout s).
      * destruct (grant pick _) as [s2 o] eqn:Eg. cbn [snd]. intros [H|H]; [discriminate|].
        assert (Ho : In (Completed id) (snd (grant pick
            (with_ s (S (permits s)) (remove_entry j (pending s)) (waiting s) (broken s)))))
          by (rewrite Eg; exact H).
        apply grant_outputs in Ho as (w & Hw & _). discriminate.
      * intros [H|[]]; discriminate.
    + destruct (existsb _ _); intros [H|[]]; discriminate.
  - intros [].
Qed.

Corollary C16_no_cross_attribution pick s i j :
  i <> j -> ~ In (Completed i) (snd (cstep_pick pick s (PeerReply j))).
Proof.
  intros Hne H. apply C16_own_reply_only in H as (E & _). congruence.
Qed.

(* a reply that matches no armed entry (unsolicited, duplicate, late) is dropped, state unchanged *)
Theorem C16_unsolicited_ignored pick s id :
  broken s = false -> sender_present id (pending s) = false ->
  cstep_pick pick s (PeerReply id) = (s, [Ignored id]).
Proof. intros Eb Es. cbn [cstep_pick]. rewrite Eb, Es. reflexivity. Qed.

Theorem C16_broken_link_reads_nothing pick s id :
  broken s = true -> cstep_pick pick s (PeerReply id) = (s, []).
Proof. intros Eb. cbn [cstep_pick]. rewrite Eb. reflexivity. Qed.

(* after `Completed id`, the id is neither pending nor waiting, and the link is healthy *)
Lemma completed_not_live pick s e id :
  CInv s -> In (Completed id) (snd (cstep_pick pick s e)) ->
  ~ In id (live_ids (fst (cstep_pick pick s e))) /\ broken (fst (cstep_pick pick s e)) = false.
Proof.
  intros Hinv H. apply C16_own_reply_only in H as (-> & Eb & Es).
  rewrite reply_step by assumption. cbn [fst]. split.
  - apply not_live_after_release_grant; [assumption|]. apply has_entry_In, sender_present_has_entry, Es.
  - rewrite grant_broken. exact Eb.
Qed.

Theorem C16_duplicate_reply_ignored pick pick' s e id :
  CInv s -> In (Completed id) (snd (cstep_pick pick s e)) ->
  let s' := fst (cstep_pick pick s e) in
  cstep_pick pick' s' (PeerReply id) = (s', [Ignored id]).
Proof.
  intros Hinv H s'. destruct (completed_not_live pick s e id Hinv H) as [Hnl Hb].
  apply C16_unsolicited_ignored; [exact Hb|].
  apply sender_present_notin. intro Hin. apply Hnl, in_or_app. auto.
Qed.

Lemma timedout_only pick s e id : In (TimedOut id) (snd (cstep_pick pick s e)) -> e = Timeout id.
Proof.
  destruct e as [j|j|j| |j|].
  - rewrite issue_step. cbn zeta. destruct (permits _); intro H; cbn [snd In] in H; intuition discriminate.
  - cbn [cstep_pick]. destruct (broken s) eqn:Eb; [intros []|].
    destruct (sender_present j (pending s)) eqn:Es.
    + destruct (grant pick _) as [s2 o] eqn:Eg. cbn [snd]. intros [H|H]; [discriminate|].
      assert (Ho : In (TimedOut id) (snd (grant pick
            (with_ s (S (permits s)) (remove_entry j (pending s)) (waiting s) false))))
          by (rewrite Eg; exact H).
      apply grant_outputs in Ho as (w & Hw & _). discriminate.
    + intros [H|[]]. discriminate.
  - cbn [cstep_pick]. destruct (broken s); cbn [snd]; [intros []|intros [H|[]]; discriminate].
  - cbn [cstep_pick]. destruct (broken s); cbn [snd]; [intros []|intros [H|[]]; discriminate].
  - cbn [cstep_pick]. destruct (has_entry j (pending s)).
    + destruct (releases_on_timeout s).
      * destruct (grant pick _) as [s2 o] eqn:Eg. cbn [snd]. intros [H|H]; [congruence|].
        assert (Ho : In (TimedOut id) (snd (grant pick
            (with_ s (S (permits s)) (remove_entry j (pending s)) (waiting s) (broken s)))))
          by (rewrite Eg; exact H).
        apply grant_outputs in Ho as (w & Hw & _). discriminate.
      * intros [H|[]]; congruence.
    + destruct (existsb _ _); intros [H|[]]; congruence.
  - intros [].
Qed.

(* state after a Timeout: the request can no longer be completed *)
Lemma timeout_disarms pick s id :
  CInv s ->
  let s' := fst (cstep_pick pick s (Timeout id)) in
  sender_present id (pending s') = false /\ ~ In id (waiting s') /\
  (releases_on_timeout s = true -> ~ In id (map e_id (pending s'))) /\
  broken s' = broken s.
Proof.
  intros Hinv s'. subst s'. pose proof Hinv as (_ & H2 & _).
  apply nodup_app_iff in H2 as (_ & _ & Hpw).
  destruct (has_entry id (pending s)) eqn:Eh.
  - pose proof (proj1 (has_entry_In _ _) Eh) as Hin.
    destruct (releases_on_timeout s) eqn:Er.
    + rewrite timeout_release_step by assumption. cbn [fst].
      pose proof (not_live_after_release_grant pick s id Hinv Hin) as Hnl. unfold live_ids in Hnl.
      split; [|split; [|split]].
      * apply sender_present_notin. intro; apply Hnl, in_or_app; auto.
      * intro; apply Hnl, in_or_app; auto.
      * intros _ ?. apply Hnl, in_or_app; auto.
      * rewrite grant_broken. reflexivity.
    + cbn [cstep_pick]. rewrite Eh, Er. cbn. split; [apply sender_present_take_sender|].
      split; [eapply Hpw; eauto|]. split; [discriminate|reflexivity].
  - pose proof (proj1 (has_entry_false _ _) Eh) as Hnin.
    cbn [cstep_pick]. rewrite Eh. destruct (existsb (N.eqb id) (waiting s)) eqn:Ew; cbn.
    + split; [apply sender_present_notin, Hnin|]. split; [|split; [auto|reflexivity]].
      intro H. apply in_rm in H as [_ H]. congruence.
    + split; [apply sender_present_notin, Hnin|]. split; [|split; [auto|reflexivity]].
      intro H. apply mem_waiting in H. congruence.
Qed.

Theorem C16_late_reply_ignored pick pick' s e id :
  CInv s -> In (TimedOut id) (snd (cstep_pick pick s e)) ->
  let s' := fst (cstep_pick pick s e) in
  cstep_pick pick' s' (PeerReply id) = (s', if broken s' then [] else [Ignored id]).
Proof.
  intros Hinv H s'. subst s'. apply timedout_only in H as ->.
  destruct (timeout_disarms pick s id Hinv) as (Hs & _).
  destruct (broken (fst (cstep_pick pick s (Timeout id)))) eqn:Eb.
  - apply C16_broken_link_reads_nothing, Eb.
  - apply C16_unsolicited_ignored; assumption.
Qed.

Corollary C16_late_reply_ignored_healthy pick pick' s e id :
  CInv s -> broken s = false -> In (TimedOut id) (snd (cstep_pick pick s e)) ->
  let s' := fst (cstep_pick pick s e) in
  cstep_pick pick' s' (PeerReply id) = (s', [Ignored id]).
Proof.
  intros Hinv Eb H s'. pose proof (C16_late_reply_ignored pick pick' s e id Hinv H) as E.
  cbn zeta in E. fold s' in E. rewrite E. f_equal.
  apply timedout_only in H. subst e s'.
  destruct (timeout_disarms pick s id Hinv) as (_ & _ & _ & Hb). rewrite Hb, Eb. reflexivity.
Qed.

(* Run level: once an id is not armed (no entry with a live sender, not parked), no reply can
   complete it until it is issued again.  No invariant needed. *)
Definition armed (id : N) (s : cstate) : Prop :=
  sender_present id (pending s) = true \/ In id (waiting s).

Lemma sender_present_app id a b : sender_present id (a ++ b) = sender_present id a || sender_present id b.
Proof. apply existsb_app. Qed.

Lemma sender_present_remove_entry id j l :
  sender_present id (remove_entry j l) = true -> sender_present id l = true.
Proof.
  unfold sender_present, remove_entry. rewrite !existsb_exists.
  intros (x & Hx & E). apply filter_In in Hx as [Hx _]. eauto.
Qed.

Lemma sender_present_take_sender_other id j l :
  sender_present id (take_sender j l) = true -> sender_present id l = true.
Proof.
  unfold sender_present, take_sender. rewrite !existsb_exists.
  intros (x & Hx & E). apply in_map_iff in Hx as (y & <- & Hy).
  destruct (e_id y =? j); [|eauto]. cbn in E. rewrite andb_false_r in E. discriminate.
Qed.

Lemma sender_present_single id w :
  sender_present id [{| e_id := w; e_sender := true |}] = true -> w = id.
Proof.
  cbn. rewrite orb_false_r, andb_true_r. apply N.eqb_eq.
Qed.

Lemma armed_release_grant pick s j id :
  armed id (fst (grant pick (release s j))) -> armed id s.
Proof.
  unfold armed.
  destruct (release_grant_cases pick s j) as [[E Hw0]|(w & Hwin & E)]; rewrite E; unfold release; cbn [fst pending waiting with_].
  - intros [H|H]; [left; eapply sender_present_remove_entry; eauto|auto].
  - intros [H|H].
    + rewrite sender_present_app in H. apply orb_true_iff in H as [H|H].
      * left; eapply sender_present_remove_entry; eauto.
      * apply sender_present_single in H. subst. auto.
    + apply in_rm in H as [H _]. auto.
Qed.

Lemma armed_step pick s e id :
  armed id (fst (cstep_pick pick s e)) -> e = Issue id \/ armed id s.
Proof.
  destruct e as [j|j|j| |j|].
  - rewrite issue_step. cbn zeta. unfold armed.
    destruct (broken s); cbn [permits with_ pending waiting].
    + destruct (max_inflight s); cbn.
      * intros [H|[->|[]]]; [discriminate|auto].
      * rewrite orb_false_r, andb_true_r. intros [H|[]]. apply N.eqb_eq in H. subst; auto.
    + destruct (permits s); cbn [fst pending waiting with_].
      * intros [H|H]; auto. apply in_app_or in H as [H|[->|[]]]; auto.
      * rewrite sender_present_app. intros [H|H]; auto. apply orb_true_iff in H as [H|H]; auto.
        apply sender_present_single in H. subst; auto.
  - cbn [cstep_pick]. destruct (broken s) eqn:Eb; [auto|].
    destruct (sender_present j (pending s)) eqn:Es; [|auto].
    pose proof (armed_release_grant pick s j id) as Hg. unfold release in Hg. rewrite Eb in Hg.
    destruct (grant pick _) as [s2 o]. cbn [fst] in *. auto.
  - cbn [cstep_pick]. destruct (broken s); auto.
  - cbn [cstep_pick]. destruct (broken s); auto.
  - cbn [cstep_pick]. destruct (has_entry j (pending s)).
    + destruct (releases_on_timeout s).
      * pose proof (armed_release_grant pick s j id) as Hg. unfold release in Hg.
        destruct (grant pick _) as [s2 o]. cbn [fst] in *. auto.
      * unfold armed; cbn. intros [H|H]; auto. right. left.
        eapply sender_present_take_sender_other; eauto.
    + destruct (existsb _ _); [|auto]. unfold armed; cbn. intros [H|H]; auto.
      apply in_rm in H as [H _]. auto.
  - unfold armed; cbn. auto.
Qed.

Theorem C16_unarmed_stays_uncompleted pick s e id :
  ~ armed id s -> e <> Issue id ->
  ~ armed id (fst (cstep_pick pick s e)) /\ ~ In (Completed id) (snd (cstep_pick pick s e)).
Proof.
  intros Hna Hne. split.
  - intro H. apply armed_step in H as [H|H]; auto.
  - intro H. apply C16_own_reply_only in H as (_ & _ & H). apply Hna. left; exact H.
Qed.

Theorem C16_unarmed_never_completed : forall h s id,
  ~ armed id s -> (forall p, ~ In (p, Issue id) h) ->
  forall o, In o (snd (crun_pick s h)) -> ~ In (Completed id) o.
Proof.
  induction h as [|[p e] r IH]; intros s id Hna Hni o Ho; [destruct Ho|].
  rewrite crun_pick_cons in Ho; cbn [snd] in Ho.
  assert (Hne : e <> Issue id) by (intros ->; apply (Hni p); left; reflexivity).
  destruct (C16_unarmed_stays_uncompleted p s e id Hna Hne) as [Hna' Hnc].
  destruct Ho as [<-|Ho]; [exact Hnc|].
  eapply IH; eauto. intros p' Hin. apply (Hni p'). right; exact Hin.
Qed.

(* once completed or timed out, an id is never completed again by later frames (until the id is
   reused by a new Issue) *)
Theorem C16_resolved_is_final pick s e id h :
  CInv s ->
  In (Completed id) (snd (cstep_pick pick s e)) \/ In (TimedOut id) (snd (cstep_pick pick s e)) ->
  (forall p, ~ In (p, Issue id) h) ->
  forall o, In o (snd (crun_pick (fst (cstep_pick pick s e)) h)) -> ~ In (Completed id) o.
Proof.
  intros Hinv Hres Hni. apply C16_unarmed_never_completed; [|assumption].
  destruct Hres as [H|H].
  - destruct (completed_not_live pick s e id Hinv H) as [Hnl _].
    intros [Ha|Ha]; apply Hnl; [apply sender_present_live, Ha|apply in_or_app; auto].
  - apply timedout_only in H as ->.
    destruct (timeout_disarms pick s id Hinv) as (Hs & Hw & _).
    intros [Ha|Ha]; [congruence|auto].
Qed.

(* ------------------------------------------------------------------------------------------ *)
(* 3. Window                                                                                   *)
(* ------------------------------------------------------------------------------------------ *)

Theorem C16_window s : CInv s -> (length (pending s) <= max_inflight s)%nat.
Proof. intros (H & _). lia. Qed.

Lemma sender_present_snoc id l : sender_present id (l ++ [{| e_id := id; e_sender := true |}]) = true.
Proof.
  rewrite sender_present_app. apply orb_true_iff. right. cbn. rewrite N.eqb_refl. reflexivity.
Qed.

(* `Written id` is emitted only when a new, armed entry for `id` enters the table of a healthy
   connection; the table (after the step) still respects the window. *)
Theorem C16_written_registers pick s e id :
  CInv s -> (forall j, e = Issue j -> fresh s j) ->
  In (Written id) (snd (cstep_pick pick s e)) ->
  let s' := fst (cstep_pick pick s e) in
  (e = Issue id \/ In id (waiting s)) /\
  ~ In id (map e_id (pending s)) /\
  sender_present id (pending s') = true /\
  broken s' = false /\
  (length (pending s') <= max_inflight s')%nat.
Proof.
  intros Hinv Hf H s'.
  assert (Hw : (length (pending s') <= max_inflight s')%nat)
    by (apply C16_window, cinv_step; assumption).
  assert (Hgrant : forall j, In id (waiting s) -> In j (map e_id (pending s)) ->
            In (Written id) (snd (grant pick (release s j))) ->
            sender_present id (pending (fst (grant pick (release s j)))) = true /\
            broken (fst (grant pick (release s j))) = false).
  { intros j Hid Hj. destruct (release_grant_cases pick s j) as [[E Hw0]|(w & Hwin & E)]; rewrite E; cbn [fst snd].
    - intros [].
    - destruct (broken s) eqn:Eb; [intros []|]. intros [Hx|[]]. injection Hx as ->. cbn.
      split; [apply sender_present_snoc|reflexivity]. }
  pose proof Hinv as (_ & H2 & _). apply nodup_app_iff in H2 as (_ & _ & Hpw).
  assert (Hnp : In id (waiting s) -> ~ In id (map e_id (pending s))) by (intros Hx Hy; eapply Hpw; eauto).
  subst s'. destruct e as [j|j|j| |j|].
  - specialize (Hf j eq_refl). revert H Hw. rewrite issue_step. cbn zeta.
    destruct (permits _) eqn:Ep; cbn [fst snd]; [intros []|]. intros [Hx|[]] Hw. injection Hx as ->.
    split; [auto|]. split; [intro; apply Hf, in_or_app; auto|]. cbn.
    split; [apply sender_present_snoc|]. split; [reflexivity|exact Hw].
  - revert H Hw. cbn [cstep_pick]. destruct (broken s) eqn:Eb; [intros []|].
    destruct (sender_present j (pending s)) eqn:Es; [|intros [Hx|[]]; discriminate].
    specialize (Hgrant j). unfold release in Hgrant. rewrite Eb in Hgrant.
    pose proof (grant_outputs pick (with_ s (S (permits s)) (remove_entry j (pending s)) (waiting s) false)) as Ho.
    destruct (grant pick _) as [s2 o]. cbn [fst snd] in *. intros [Hx|Hx] Hw; [discriminate|].
    destruct (Ho _ Hx) as (w & Ew & Hwin). injection Ew as <-.
    destruct Hgrant as [Ha Hb]; auto. apply has_entry_In, sender_present_has_entry, Es.
  - revert H. cbn [cstep_pick]. destruct (broken s); intro H; cbn [snd In] in H; intuition discriminate.
  - revert H. cbn [cstep_pick]. destruct (broken s); intro H; cbn [snd In] in H; intuition discriminate.
  - revert H Hw. cbn [cstep_pick]. destruct (has_entry j (pending s)) eqn:Eh.
    + destruct (releases_on_timeout s); [|intros [Hx|[]]; discriminate].
      specialize (Hgrant j). unfold release in Hgrant.
      pose proof (grant_outputs pick (with_ s (S (permits s)) (remove_entry j (pending s)) (waiting s) (broken s))) as Ho.
      destruct (grant pick _) as [s2 o]. cbn [fst snd] in *. intros [Hx|Hx] Hw; [discriminate|].
      destruct (Ho _ Hx) as (w & Ew & Hwin). injection Ew as <-.
      destruct Hgrant as [Ha Hb]; auto. apply has_entry_In, Eh.
    + destruct (existsb _ _); intros [Hx|[]]; discriminate.
  - destruct H.
Qed.

(* an entry leaves the table only through its own completion or timeout, or because the whole
   connection is replaced *)
Theorem C16_entry_leaves_only_resolved pick s e id :
  In id (map e_id (pending s)) -> ~ In id (map e_id (pending (fst (cstep_pick pick s e)))) ->
  In (Completed id) (snd (cstep_pick pick s e)) \/ In (TimedOut id) (snd (cstep_pick pick s e)) \/
  (broken s = true /\ exists j, e = Issue j).
Proof.
  intros Hin.
  assert (Hgrant : forall j, j <> id -> In id (map e_id (pending (fst (grant pick (release s j)))))).
  { intros j Hne. destruct (release_grant_cases pick s j) as [[E Hw0]|(w & Hwin & E)]; rewrite E; cbn [fst]; cbn.
    - rewrite map_remove_entry. apply in_rm. auto.
    - rewrite map_app, map_remove_entry. apply in_or_app. left. apply in_rm. auto. }
  destruct e as [j|j|j| |j|].
  - rewrite issue_step. cbn zeta. destruct (broken s) eqn:Eb; [eauto|].
    destruct (permits s); cbn; intro Hn; exfalso; apply Hn; [assumption|].
    rewrite map_app. apply in_or_app; auto.
  - cbn [cstep_pick]. destruct (broken s) eqn:Eb; [contradiction|].
    destruct (sender_present j (pending s)) eqn:Es; [|contradiction].
    specialize (Hgrant j). unfold release in Hgrant. rewrite Eb in Hgrant.
    destruct (grant pick _) as [s2 o]. cbn [fst snd] in *. intro Hn.
    destruct (N.eq_dec j id) as [->|Hne]; [left; left; reflexivity|]. exfalso; auto.
  - cbn [cstep_pick]. destruct (broken s); contradiction.
  - cbn [cstep_pick]. destruct (broken s); contradiction.
  - cbn [cstep_pick]. destruct (has_entry j (pending s)) eqn:Eh.
    + destruct (releases_on_timeout s).
      * specialize (Hgrant j). unfold release in Hgrant.
        destruct (grant pick _) as [s2 o]. cbn [fst snd] in *. intro Hn.
        destruct (N.eq_dec j id) as [->|Hne]; [right; left; left; reflexivity|]. exfalso; auto.
      * cbn. rewrite map_take_sender. contradiction.
    + destruct (existsb _ _); cbn; contradiction.
  - cbn. contradiction.
Qed.

(* ------------------------------------------------------------------------------------------ *)
(* 4. No hang                                                                                  *)
(* ------------------------------------------------------------------------------------------ *)

Lemma timeout_emits pick s id : In (TimedOut id) (snd (cstep_pick pick s (Timeout id))).
Proof.
  cbn [cstep_pick]. destruct (has_entry id (pending s)).
  - destruct (releases_on_timeout s); [|left; reflexivity].
    destruct (grant pick _). left; reflexivity.
  - destruct (existsb _ _); left; reflexivity.
Qed.

Theorem C16_timeout_resolves pick s id :
  CInv s -> In id (map e_id (pending s) ++ waiting s) ->
  let s' := fst (cstep_pick pick s (Timeout id)) in
  In (TimedOut id) (snd (cstep_pick pick s (Timeout id))) /\
  ~ In id (waiting s') /\
  (releases_on_timeout s = true -> ~ In id (map e_id (pending s'))) /\
  sender_present id (pending s') = false.
Proof.
  intros Hinv _ s'. destruct (timeout_disarms pick s id Hinv) as (H1 & H2 & H3 & _).
  split; [apply timeout_emits|]. auto.
Qed.

(* ------------------------------------------------------------------------------------------ *)
(* 5. Capacity                                                                                 *)
(* ------------------------------------------------------------------------------------------ *)

(* state level: neither `waiting s = []` nor the release flag is needed for this direction *)
Theorem C16_capacity_restored s :
  CInv s -> pending s = [] -> permits s = max_inflight s.
Proof. intros (H & _) E. rewrite E in H. cbn in H. lia. Qed.

Lemma step_max pick s e : max_inflight (fst (cstep_pick pick s e)) = max_inflight s.
Proof.
  destruct e as [j|j|j| |j|]; [rewrite issue_step|..]; cbn [cstep_pick].
  - cbn zeta. destruct (broken s); destruct (permits _); reflexivity.
  - destruct (broken s); [reflexivity|]. destruct (sender_present _ _); [|reflexivity].
    pose proof (grant_max pick (with_ s (S (permits s)) (remove_entry j (pending s)) (waiting s) false)) as Hg.
    destruct (grant pick _). exact Hg.
  - destruct (broken s); reflexivity.
  - destruct (broken s); reflexivity.
  - destruct (has_entry _ _).
    + destruct (releases_on_timeout s); [|reflexivity].
      pose proof (grant_max pick (with_ s (S (permits s)) (remove_entry j (pending s)) (waiting s) (broken s))) as Hg.
      destruct (grant pick _). exact Hg.
    + destruct (existsb _ _); reflexivity.
  - reflexivity.
Qed.

Lemma step_rel pick s e : releases_on_timeout (fst (cstep_pick pick s e)) = releases_on_timeout s.
Proof.
  destruct e as [j|j|j| |j|]; [rewrite issue_step|..]; cbn [cstep_pick].
  - cbn zeta. destruct (broken s); destruct (permits _); reflexivity.
  - destruct (broken s); [reflexivity|]. destruct (sender_present _ _); [|reflexivity].
    pose proof (grant_rel pick (with_ s (S (permits s)) (remove_entry j (pending s)) (waiting s) false)) as Hg.
    destruct (grant pick _). exact Hg.
  - destruct (broken s); reflexivity.
  - destruct (broken s); reflexivity.
  - destruct (has_entry _ _).
    + destruct (releases_on_timeout s) eqn:Er; [|cbn; exact Er].
      pose proof (grant_rel pick (with_ s (S (permits s)) (remove_entry j (pending s)) (waiting s) (broken s))) as Hg.
      destruct (grant pick _). cbn in *. congruence.
    + destruct (existsb _ _); reflexivity.
  - reflexivity.
Qed.

Lemma run_max : forall h s, max_inflight (fst (crun_pick s h)) = max_inflight s.
Proof.
  induction h as [|[p e] r IH]; intro s; [reflexivity|].
  rewrite crun_pick_cons; cbn [fst]. rewrite IH. apply step_max.
Qed.

Lemma run_rel : forall h s, releases_on_timeout (fst (crun_pick s h)) = releases_on_timeout s.
Proof.
  induction h as [|[p e] r IH]; intro s; [reflexivity|].
  rewrite crun_pick_cons; cbn [fst]. rewrite IH. apply step_rel.
Qed.

(* an id that is pending or parked after a step was either just issued, or was already so and
   this step neither completed it nor timed it out (release mode) *)
Lemma live_step pick s e id :
  releases_on_timeout s = true -> CInv s ->
  In id (live_ids (fst (cstep_pick pick s e))) ->
  e = Issue id \/
  (In id (live_ids s) /\ ~ In (Completed id) (snd (cstep_pick pick s e)) /\
   ~ In (TimedOut id) (snd (cstep_pick pick s e))).
Proof.
  intros Er Hinv Hl.
  destruct e as [j|j|j| |j|].
  - destruct (N.eq_dec j id) as [->|Hne]; [auto|]. right.
    split; [|split; intro H; [apply C16_own_reply_only in H as (H & _)|apply timedout_only in H]; discriminate].
    revert Hl. rewrite issue_step. cbn zeta. unfold live_ids.
    destruct (broken s); cbn [permits with_ pending waiting].
    + destruct (max_inflight s); cbn; intros [H|[]]; congruence.
    + destruct (permits s); cbn [fst pending waiting with_].
      * rewrite app_assoc. intro H. apply in_app_or in H as [H|[H|[]]]; [assumption|congruence].
      * rewrite map_app; cbn. intro H. apply in_app_or in H as [H|H]; [|apply in_or_app; auto].
        apply in_app_or in H as [H|[H|[]]]; [apply in_or_app; auto|congruence].
  - right. revert Hl. cbn [cstep_pick]. destruct (broken s) eqn:Eb.
    + cbn [fst snd]. intro Hl. split; [assumption|]. split; intros [].
    + destruct (sender_present j (pending s)) eqn:Es.
      * pose proof (live_release_grant_subset pick s j id) as Hsub.
        pose proof (not_live_after_release_grant pick s j Hinv) as Hnl.
        pose proof (grant_outputs pick (release s j)) as Ho.
        unfold release in Hsub, Hnl, Ho. rewrite Eb in Hsub, Hnl, Ho.
        destruct (grant pick _) as [s2 o]. cbn [fst snd] in *. intro Hl.
        assert (Hne : j <> id).
        { intros ->. apply Hnl; [|assumption]. apply has_entry_In, sender_present_has_entry, Es. }
        split; [auto|]. split; intros [H|H]; try congruence; apply Ho in H as (w & H & _); discriminate.
      * cbn [fst snd]. intro Hl. split; [assumption|]. split; intros [H|[]]; discriminate.
  - right. revert Hl. cbn [cstep_pick]. destruct (broken s); cbn [fst snd]; intro Hl;
      (split; [assumption|]); split; intro H; cbn [In] in H; intuition discriminate.
  - right. revert Hl. cbn [cstep_pick]. destruct (broken s); cbn [fst snd]; intro Hl;
      (split; [assumption|]); split; intro H; cbn [In] in H; intuition discriminate.
  - right.
    assert (Hne : j <> id).
    { intros ->. destruct (timeout_disarms pick s id Hinv) as (_ & Hw & Hp & _).
      apply in_app_or in Hl as [Hl|Hl]; [apply Hp; assumption|auto]. }
    split; [|split; intro H; [apply C16_own_reply_only in H as (H & _); discriminate|apply timedout_only in H; congruence]].
    revert Hl. cbn [cstep_pick]. destruct (has_entry j (pending s)) eqn:Eh.
    + rewrite Er. pose proof (live_release_grant_subset pick s j id) as Hsub. unfold release in Hsub.
      destruct (grant pick _) as [s2 o]. cbn [fst] in *. exact Hsub.
    + destruct (existsb _ _); [|auto]. unfold live_ids; cbn. intro H.
      apply in_app_or in H as [H|H]; apply in_or_app; auto. apply in_rm in H as [H _]. auto.
  - right. split; [exact Hl|]. split; intros [].
Qed.

Definition resolved_in (id : N) (os : list (list cout)) : Prop :=
  exists o, In o os /\ (In (Completed id) o \/ In (TimedOut id) o).

(* every `Issue id` in the history is followed, strictly later, by `Completed id` or `TimedOut id` *)
Fixpoint all_resolved (h : list (list N * cev)) (os : list (list cout)) : Prop :=
  match h, os with
  | (_, e) :: h', _ :: os' => (forall id, e = Issue id -> resolved_in id os') /\ all_resolved h' os'
  | _, _ => True
  end.

Lemma live_at_end : forall h s id,
  releases_on_timeout s = true -> CInv s -> fresh_hist s h ->
  all_resolved h (snd (crun_pick s h)) ->
  In id (live_ids (fst (crun_pick s h))) ->
  In id (live_ids s) /\ ~ resolved_in id (snd (crun_pick s h)).
Proof.
  induction h as [|[p e] r IH]; intros s id Er Hinv Hf Hall Hl.
  - cbn in *. split; [assumption|]. intros (o & [] & _).
  - rewrite crun_pick_cons in *. cbn [fst snd] in *. destruct Hf as [Hf1 Hf2].
    destruct Hall as [Ha1 Ha2].
    destruct (IH (fst (cstep_pick p s e)) id) as [Hl1 Hnr]; auto.
    { rewrite step_rel. exact Er. }
    { apply cinv_step; assumption. }
    apply live_step in Hl1 as [->|(Hl0 & Hc & Ht)]; auto.
    + exfalso. apply Hnr, Ha1. reflexivity.
    + split; [assumption|]. intros (o & [<-|Ho] & Hres); [tauto|]. apply Hnr. exists o; auto.
Qed.

Definition issue_batch (b : list (list N * N)) : list (list N * cev) :=
  map (fun pi => (fst pi, Issue (snd pi))) b.

Lemma batch_written : forall b s,
  (broken s = true -> length b <= max_inflight s)%nat ->
  (broken s = false -> length b <= permits s)%nat ->
  snd (crun_pick s (issue_batch b)) = map (fun pi => [Written (snd pi)]) b.
Proof.
  induction b as [|[p id] r IH]; intros s Hb Hh; [reflexivity|].
  unfold issue_batch. cbn [map fst snd]. rewrite crun_pick_cons. cbn [snd].
  fold (issue_batch r). rewrite issue_step. cbn zeta. cbn [length] in *.
  destruct (broken s) eqn:Eb; cbn [permits with_].
  - specialize (Hb eq_refl). destruct (max_inflight s) as [|q] eqn:Em; [lia|]. cbn [fst snd].
    f_equal. apply IH; cbn; intros; [discriminate|lia].
  - specialize (Hh eq_refl). destruct (permits s) as [|q] eqn:Ep; [lia|]. cbn [fst snd].
    f_equal. apply IH; cbn; intros; [discriminate|lia].
Qed.

(* run level: from a fresh client (release mode), after ANY history with fresh ids in which every
   issued id was later completed or timed out, the table is empty, all permits are back, and a
   further batch of up to k Issues is written immediately, whatever the oracle does *)
Theorem C16_capacity_restored_run k h b :
  let s0 := init_client k true in
  fresh_hist s0 h -> all_resolved h (snd (crun_pick s0 h)) -> (length b <= k)%nat ->
  let s := fst (crun_pick s0 h) in
  pending s = [] /\ waiting s = [] /\ permits s = k /\
  snd (crun_pick s (issue_batch b)) = map (fun pi => [Written (snd pi)]) b.
Proof.
  intros s0 Hf Hall Hlen s.
  assert (Hinv : CInv s) by (apply cinv_run_init; assumption).
  assert (Hnil : live_ids s = []).
  { destruct (live_ids s) as [|x l] eqn:E; [reflexivity|]. exfalso.
    destruct (live_at_end h s0 x) as [[] _]; auto; try apply cinv_init.
    fold s. rewrite E. left; reflexivity. }
  unfold live_ids in Hnil. apply app_eq_nil in Hnil as [Hp Hw]. apply map_eq_nil in Hp.
  assert (Hmax : max_inflight s = k) by (unfold s; rewrite run_max; reflexivity).
  assert (Hper : permits s = k) by (rewrite <- Hmax; apply C16_capacity_restored; assumption).
  repeat split; try assumption.
  apply batch_written; intros; lia.
Qed.

(* the old behaviour (a timed-out request keeps its entry and permit): with one permit, a single
   timeout wedges the client; this holds for every oracle *)
Theorem C16_timeout_leak_refuted : forall p1 p2 p3 p4,
  snd (crun_pick (init_client 1 false)
         [(p1, Issue 1); (p2, Timeout 1); (p3, Issue 2); (p4, PeerReply 2)])
  = [[Written 1]; [TimedOut 1]; []; [Ignored 2]].
Proof. intros. vm_compute. reflexivity. Qed.

Corollary C16_timeout_leak_refuted' :
  let outs := concat (snd (crun (init_client 1 false) [Issue 1; Timeout 1; Issue 2; PeerReply 2])) in
  ~ In (Written 2) outs /\ ~ In (Completed 2) outs.
Proof. vm_compute. split; intro H; repeat (destruct H as [H|H]; try discriminate); exact H. Qed.

(* contrast: the current behaviour on the same history *)
Example C16_timeout_release_ok : forall p1 p2 p3 p4,
  snd (crun_pick (init_client 1 true)
         [(p1, Issue 1); (p2, Timeout 1); (p3, Issue 2); (p4, PeerReply 2)])
  = [[Written 1]; [TimedOut 1]; [Written 2]; [Completed 2]].
Proof. intros. vm_compute. reflexivity. Qed.

(* ------------------------------------------------------------------------------------------ *)
(* 6. Correlation ids                                                                          *)
(* ------------------------------------------------------------------------------------------ *)

Lemma next_id_cases c :
  c < 4294967296 ->
  (c = 4294967295 /\ next_id c = 1) \/ (c < 4294967295 /\ next_id c = c + 1).
Proof.
  intro Hc. unfold next_id. cbn zeta.
  destruct (N.eq_dec c 4294967295) as [->|Hne].
  - left. split; reflexivity.
  - right. split; [lia|]. rewrite N.mod_small by lia.
    destruct (N.eqb_spec (c + 1) 0); lia.
Qed.

Theorem next_id_nonzero : forall c, c < 4294967296 -> next_id c <> 0 /\ next_id c < 4294967296.
Proof. intros c Hc. destruct (next_id_cases c Hc) as [[_ ->]|[H ->]]; lia. Qed.

(* the only collision below 2^32: both 2^32-1 and 0 map to 1 *)
Theorem next_id_collision a b :
  next_id a = next_id b -> a < 4294967296 -> b < 4294967296 ->
  a = b \/ (a = 4294967295 /\ b = 0) \/ (a = 0 /\ b = 4294967295).
Proof.
  intros E Ha Hb.
  destruct (next_id_cases a Ha) as [[Ea Na]|[Ea Na]], (next_id_cases b Hb) as [[Eb Nb]|[Eb Nb]];
    rewrite Na, Nb in E; lia.
Qed.

Corollary next_id_injective_nonzero a b :
  next_id a = next_id b -> 0 < a < 4294967296 -> 0 < b < 4294967296 -> a = b.
Proof. intros E Ha Hb. destruct (next_id_collision a b E) as [?|[?|?]]; lia. Qed.

Example next_id_wrap : next_id 4294967295 = 1 /\ next_id 0 = 1.
Proof. split; reflexivity. Qed.

(* closed form on the cycle 1 .. 2^32-1 *)
Lemma succ_mod x M : 0 < M ->
  (x + 1) mod M = if x mod M =? M - 1 then 0 else x mod M + 1.
Proof.
  intro HM. pose proof (N.div_mod x M ltac:(lia)) as Hd. pose proof (N.mod_lt x M ltac:(lia)) as Hl.
  destruct (N.eqb_spec (x mod M) (M - 1)) as [E|E].
  - symmetry. apply (N.mod_unique _ _ (x / M + 1)); [lia|]. rewrite E in Hd. lia.
  - symmetry. apply (N.mod_unique _ _ (x / M)); lia.
Qed.

Lemma iter_next_id_closed : forall (n : nat) c,
  1 <= c <= 4294967295 ->
  Nat.iter n next_id c = (c - 1 + N.of_nat n) mod 4294967295 + 1.
Proof.
  induction n as [|n IH]; intros c Hc.
  - change (Nat.iter 0 next_id c) with c. change (N.of_nat 0) with 0.
    rewrite N.add_0_r, N.mod_small by lia. lia.
  - change (Nat.iter (S n) next_id c) with (next_id (Nat.iter n next_id c)). rewrite IH by assumption.
    replace (c - 1 + N.of_nat (S n)) with (c - 1 + N.of_nat n + 1) by lia.
    rewrite (succ_mod (c - 1 + N.of_nat n)) by lia.
    pose proof (N.mod_lt (c - 1 + N.of_nat n) 4294967295 ltac:(lia)) as Hl.
    set (r := (c - 1 + N.of_nat n) mod 4294967295) in *.
    destruct (next_id_cases (r + 1) ltac:(lia)) as [[E ->]|[E ->]].
    + destruct (N.eqb_spec r (4294967295 - 1)); lia.
    + destruct (N.eqb_spec r (4294967295 - 1)); lia.
Qed.

Lemma iter_next_id_range (n : nat) c :
  1 <= c <= 4294967295 -> 1 <= Nat.iter n next_id c <= 4294967295.
Proof.
  intro Hc. rewrite iter_next_id_closed by assumption.
  pose proof (N.mod_lt (c - 1 + N.of_nat n) 4294967295 ltac:(lia)) as H.
  set (r := (c - 1 + N.of_nat n) mod 4294967295) in *. clearbody r. lia.
Qed.

Lemma mod_eq_close a b M : 0 < M -> a <= b -> b - a < M -> a mod M = b mod M -> a = b.
Proof.
  intros HM Hab Hd E.
  pose proof (N.div_mod a M ltac:(lia)) as Da. pose proof (N.div_mod b M ltac:(lia)) as Db.
  rewrite E in Da.
  assert (a / M <= b / M) by (apply N.div_le_mono; lia).
  assert (b / M = a / M) by nia. nia.
Qed.

(* on the cycle: any two iterates whose indices differ by less than 2^32-1 are distinct *)
Lemma iter_next_id_distinct_cycle (i j : nat) c :
  1 <= c <= 4294967295 -> (i < j)%nat -> N.of_nat (j - i) < 4294967295 ->
  Nat.iter i next_id c <> Nat.iter j next_id c.
Proof.
  intros Hc Hij Hd E. rewrite !iter_next_id_closed in E by assumption.
  apply N.add_cancel_r in E.
  apply mod_eq_close in E; lia.
Qed.

Lemma iter_shift {A} (f : A -> A) n x : Nat.iter n f (f x) = Nat.iter (S n) f x.
Proof.
  induction n as [|n IH]; [reflexivity|].
  change (f (Nat.iter n f (f x)) = f (Nat.iter (S n) f x)). rewrite IH. reflexivity.
Qed.

(* from ANY start below 2^32: the first 2^32-1 drawn ids (iterates 1 .. 2^32-1) are pairwise
   distinct -- the full cycle length *)
Theorem next_id_injective_window (i j : nat) c :
  c < 4294967296 -> (1 <= i)%nat -> (i < j)%nat -> N.of_nat (j - i) < 4294967295 ->
  Nat.iter i next_id c <> Nat.iter j next_id c.
Proof.
  intros Hc Hi Hij Hd.
  destruct i as [|i]; [lia|]. destruct j as [|j]; [lia|].
  rewrite <- !iter_shift.
  apply iter_next_id_distinct_cycle; [|lia|].
  - pose proof (next_id_nonzero c Hc). lia.
  - replace (j - i)%nat with (S j - S i)%nat by lia. assumption.
Qed.

(* and the cycle closes exactly there *)
Theorem next_id_cycle c :
  1 <= c <= 4294967295 -> forall n : nat, N.of_nat n = 4294967295 -> Nat.iter n next_id c = c.
Proof.
  intros Hc n Hn. rewrite iter_next_id_closed, Hn by assumption.
  replace (c - 1 + 4294967295) with (c - 1 + 1 * 4294967295) by lia.
  rewrite N.mod_add, N.mod_small by lia. lia.
Qed.

(* the ids drawn consecutively from the counter *)
Fixpoint draw (c : N) (n : nat) : list N :=
  match n with
  | O => []
  | S n' => next_id c :: draw (next_id c) n'
  end.

Lemma in_draw : forall n c x, In x (draw c n) -> exists k, (1 <= k <= n)%nat /\ x = Nat.iter k next_id c.
Proof.
  induction n as [|n IH]; intros c x; cbn [draw]; [intros []|].
  intros [<-|H].
  - exists 1%nat. split; [lia|reflexivity].
  - apply IH in H as (k & Hk & ->). exists (S k). split; [lia|]. apply iter_shift.
Qed.

Theorem draw_nodup : forall n c,
  c < 4294967296 -> N.of_nat n <= 4294967295 -> NoDup (draw c n).
Proof.
  induction n as [|n IH]; intros c Hc Hn; cbn [draw]; constructor.
  - intro H. apply in_draw in H as (k & Hk & E).
    pose proof (next_id_nonzero c Hc) as Hr.
    apply (iter_next_id_distinct_cycle 0 k (next_id c)); [lia|lia|lia|exact E].
  - apply IH; [apply next_id_nonzero, Hc|lia].
Qed.

Corollary draw_all_nonzero n c x : c < 4294967296 -> In x (draw c n) -> x <> 0 /\ x < 4294967296.
Proof.
  intros Hc H. apply in_draw in H as (k & Hk & ->).
  destruct k as [|k]; [lia|]. rewrite <- iter_shift.
  pose proof (next_id_nonzero c Hc).
  pose proof (iter_next_id_range k (next_id c) ltac:(lia)). lia.
Qed.

(* consequence for the engine: if the outstanding ids are among the last n <= 2^32-2 ids drawn,
   the next id drawn is different from all of them (the freshness side condition of `Issue`) *)
Corollary next_draw_fresh n c :
  c < 4294967296 -> N.of_nat n <= 4294967294 ->
  ~ In (Nat.iter (S n) next_id c) (draw c n).
Proof.
  intros Hc Hn H. apply in_draw in H as (k & Hk & E).
  apply (next_id_injective_window k (S n) c); auto; lia.
Qed.

Corollary next_draw_fresh_state n c s :
  c < 4294967296 -> N.of_nat n <= 4294967294 ->
  (forall x, In x (map e_id (pending s) ++ waiting s) -> In x (draw c n)) ->
  fresh s (Nat.iter (S n) next_id c).
Proof.
  intros Hc Hn Hsub H. apply (next_draw_fresh n c Hc Hn). apply Hsub, H.
Qed.

(* ------------------------------------------------------------------------------------------ *)
(* 7. Ping / push                                                                              *)
(* ------------------------------------------------------------------------------------------ *)

Theorem C16_ping_pong pick s id :
  broken s = false -> cstep_pick pick s (PeerPing id) = (s, [Pong id]).
Proof. intro Eb. cbn [cstep_pick]. rewrite Eb. reflexivity. Qed.

Theorem C16_push_inbound pick s :
  broken s = false -> cstep_pick pick s PeerPush = (s, [Inbound]).
Proof. intro Eb. cbn [cstep_pick]. rewrite Eb. reflexivity. Qed.

Theorem C16_ping_push_broken pick s id :
  broken s = true ->
  cstep_pick pick s (PeerPing id) = (s, []) /\ cstep_pick pick s PeerPush = (s, []).
Proof. intro Eb. cbn [cstep_pick]. rewrite Eb. split; reflexivity. Qed.

(* a ping or push never completes, times out or writes a request *)
Corollary C16_ping_push_no_request_effect pick s e o :
  (exists id, e = PeerPing id) \/ e = PeerPush ->
  In o (snd (cstep_pick pick s e)) -> (exists id, o = Pong id) \/ o = Inbound.
Proof.
  intros [[id ->]| ->]; cbn [cstep_pick]; destruct (broken s); cbn [snd];
    intro H; cbn [In] in H; intuition eauto.
Qed.

(* ------------------------------------------------------------------------------------------ *)
(* 8. Non-vacuity                                                                              *)
(* ------------------------------------------------------------------------------------------ *)

(* out-of-order replies, k = 2: the third request is parked, written when a permit frees, and
   each of the three is completed by its own reply *)
Example C16_out_of_order :
  crun (init_client 2 true) [Issue 1; Issue 2; Issue 3; PeerReply 3; PeerReply 1; PeerReply 2; PeerReply 3]
  = (init_client 2 true,
     [[Written 1]; [Written 2]; []; [Ignored 3]; [Completed 1; Written 3]; [Completed 2]; [Completed 3]]).
Proof. vm_compute. reflexivity. Qed.

Example C16_out_of_order_hist_ok :
  fresh_hist (init_client 2 true)
    (map (fun e => ([], e)) [Issue 1; Issue 2; Issue 3; PeerReply 3; PeerReply 1; PeerReply 2; PeerReply 3]) /\
  all_resolved
    (map (fun e => ([], e)) [Issue 1; Issue 2; Issue 3; PeerReply 3; PeerReply 1; PeerReply 2; PeerReply 3])
    (snd (crun (init_client 2 true) [Issue 1; Issue 2; Issue 3; PeerReply 3; PeerReply 1; PeerReply 2; PeerReply 3])).
Proof.
  split.
  - cbn [map fresh_hist]. repeat split; try (intros id E; discriminate);
      intros id E; injection E as <-; vm_compute; intuition discriminate.
  - vm_compute. repeat split; try (intros id E; discriminate); intros id E; injection E as <-.
    + exists [Completed 1; Written 3]. split; [tauto|]. left; left; reflexivity.
    + exists [Completed 2]. split; [tauto|]. left; left; reflexivity.
    + exists [Completed 3]. split; [tauto|]. left; left; reflexivity.
Qed.

(* the oracle matters: with two parked requests, `pick` decides which one gets the freed permit *)
Example C16_oracle_barging :
  snd (crun_pick (init_client 1 true)
        [([], Issue 1); ([], Issue 2); ([], Issue 3); ([3], PeerReply 1); ([], PeerReply 3); ([], PeerReply 2)])
  = [[Written 1]; []; []; [Completed 1; Written 3]; [Completed 3; Written 2]; [Completed 2]].
Proof. vm_compute. reflexivity. Qed.

(* duplicates, late and unsolicited replies; link replacement *)
Example C16_duplicate_late_unsolicited :
  snd (crun (init_client 2 true)
        [Issue 1; PeerReply 1; PeerReply 1; Issue 2; Timeout 2; PeerReply 2; PeerReply 77;
         PeerPing 5; PeerPush])
  = [[Written 1]; [Completed 1]; [Ignored 1]; [Written 2]; [TimedOut 2]; [Ignored 2]; [Ignored 77];
     [Pong 5]; [Inbound]].
Proof. vm_compute. reflexivity. Qed.

Example C16_link_replaced :
  crun (init_client 1 true) [Issue 1; LinkBreak; PeerReply 1; Issue 2; Timeout 1; PeerReply 2]
  = (init_client 1 true, [[Written 1]; []; []; [Written 2]; [TimedOut 1]; [Completed 2]]).
Proof. vm_compute. reflexivity. Qed.

(* the freshness side condition is necessary for the invariant: reusing a pending id breaks NoDup *)
Example cinv_needs_fresh :
  ~ CInv (fst (crun (init_client 2 true) [Issue 1; Issue 1])).
Proof.
  intros (_ & H & _). vm_compute in H. inversion H as [|? ? Hn _]. apply Hn. left; reflexivity.
Qed.

(* and then one reply removes both entries while only one permit comes back per reply *)
Example reused_id_miscounts :
  permits (fst (crun (init_client 2 true) [Issue 1; Issue 1; PeerReply 1])) = 1%nat /\
  pending (fst (crun (init_client 2 true) [Issue 1; Issue 1; PeerReply 1])) = [].
Proof. vm_compute. split; reflexivity. Qed.

(* the history of the task statement verbatim: the reply for 3 arrives while 3 is still parked
   (not yet written), so it is unsolicited and dropped; 3 is written afterwards and stays pending *)
Example C16_out_of_order_verbatim :
  crun (init_client 2 true) [Issue 1; Issue 2; Issue 3; PeerReply 3; PeerReply 1; PeerReply 2]
  = ({| max_inflight := 2; permits := 1; pending := [{| e_id := 3; e_sender := true |}];
        waiting := []; broken := false; releases_on_timeout := true |},
     [[Written 1]; [Written 2]; []; [Ignored 3]; [Completed 1; Written 3]; [Completed 2]]).
Proof. vm_compute. reflexivity. Qed.

(* out-of-order replies where every reply follows its request's write *)
Example C16_out_of_order_2 :
  crun (init_client 2 true) [Issue 1; Issue 2; Issue 3; PeerReply 2; PeerReply 3; PeerReply 1]
  = (init_client 2 true,
     [[Written 1]; [Written 2]; []; [Completed 2; Written 3]; [Completed 3]; [Completed 1]]).
Proof. vm_compute. reflexivity. Qed.

(* lifted to `crun` and to every prefix of a run *)
Corollary cinv_crun s evs :
  CInv s -> fresh_hist s (map (fun e => ([], e)) evs) -> CInv (fst (crun s evs)).
Proof. intros. rewrite crun_is_crun_pick. apply cinv_run; assumption. Qed.

Lemma fresh_hist_app : forall h1 h2 s, fresh_hist s (h1 ++ h2) -> fresh_hist s h1.
Proof.
  induction h1 as [|[p e] r IH]; intros h2 s H; [exact I|].
  cbn in *. destruct H as [H1 H2]. split; [assumption|]. eapply IH; eauto.
Qed.

Corollary C16_window_run k rel h1 h2 :
  fresh_hist (init_client k rel) (h1 ++ h2) ->
  (length (pending (fst (crun_pick (init_client k rel) h1))) <= k)%nat.
Proof.
  intro Hf. apply fresh_hist_app in Hf.
  pose proof (C16_window _ (cinv_run_init k rel h1 Hf)) as H.
  rewrite run_max in H. exact H.
Qed.
