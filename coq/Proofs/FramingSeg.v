(* Segmentation independence: the buffered reader (StreamReader + connection read path) fed by any
   segmentation of a byte stream into non-empty segments produces exactly what the buffer-free
   one-pass specification produces on the unsegmented stream.

   Representation invariant: (unconsumed bytes held by the reader) ++ concat src = unconsumed
   suffix of the stream, where the unconsumed bytes of a reader state are [data (compact st)]. *)
From NW Require Import Base.Bytes Model.SchemaTypes Model.Codec Model.MsgInfo Model.Pool Model.Framing.
Local Open Scope nat_scope.

Local Notation NE := (fun s : list N => s <> []).

(* ---- lists ---- *)

Lemma find_index_lt f l : forall p, find_index f l = Some p -> p < length l.
Proof.
  induction l as [|x l IH]; cbn [find_index length]; intros p H; [discriminate|].
  destruct (f x).
  - injection H as <-. lia.
  - destruct (find_index f l) as [q|]; cbn [option_map] in H; [|discriminate].
    injection H as <-. specialize (IH q eq_refl). lia.
Qed.

Lemma find_index_app f a b :
  find_index f (a ++ b) =
  match find_index f a with
  | Some p => Some p
  | None => option_map (Nat.add (length a)) (find_index f b)
  end.
Proof.
  induction a as [|x a IH]; cbn [app find_index length].
  - destruct (find_index f b); reflexivity.
  - destruct (f x); [reflexivity|]. rewrite IH.
    destruct (find_index f a); cbn [option_map]; [reflexivity|].
    destruct (find_index f b); reflexivity.
Qed.

Lemma firstn_prefix {A} cap (d x : list A) :
  length d <= cap -> firstn cap (d ++ x) = d ++ firstn (cap - length d) x.
Proof. intro H. rewrite firstn_app, (firstn_all2 d) by exact H. reflexivity. Qed.

Lemma firstn_app_short {A} n (a b : list A) : n <= length a -> firstn n (a ++ b) = firstn n a.
Proof.
  intro H. rewrite firstn_app. replace (n - length a) with 0 by lia.
  cbn [firstn]. apply app_nil_r.
Qed.

Lemma skipn_app_short {A} n (a b : list A) : n <= length a -> skipn n (a ++ b) = skipn n a ++ b.
Proof.
  intro H. rewrite skipn_app. replace (n - length a) with 0 by lia. reflexivity.
Qed.

Lemma firstn_1_skipn : forall n (l : list N), n < length l -> firstn 1 (skipn n l) = [nth n l 0%N].
Proof.
  induction n as [|n IH]; intros [|x l] H; cbn [length] in H; try lia.
  - reflexivity.
  - cbn [skipn nth]. apply IH. lia.
Qed.

Lemma skipn_1_skipn {A} : forall n (l : list A), skipn 1 (skipn n l) = skipn (S n) l.
Proof.
  induction n as [|n IH]; intros [|x l]; try reflexivity.
  cbn [skipn] in *. apply IH.
Qed.

(* ---- (a) StreamReader::next's loop agrees with split_line on the remaining stream ---- *)

Lemma next_loop_spec : forall fuel cap d src,
  length d <= cap -> Forall NE src -> src_len src < fuel ->
  match find_index (N.eqb NL) (firstn cap (d ++ concat src)) with
  | Some pos =>
      exists d' src', next_loop fuel cap d src = (NLine pos, d', src')
        /\ d' ++ concat src' = d ++ concat src /\ length d' <= cap /\ Forall NE src'
        /\ pos < length d'
  | None =>
      exists d' src', next_loop fuel cap d src =
        ((if cap <=? length (d ++ concat src) then NMaxLine else NEof), d', src')
  end.
Proof.
  induction fuel as [|f IH]; intros cap d src Hd Hne Hf; [lia|].
  cbn [next_loop].
  destruct (find_index (N.eqb NL) d) as [pos|] eqn:Ed.
  - rewrite firstn_prefix by exact Hd. rewrite find_index_app, Ed.
    exists d, src. repeat split; auto. eapply find_index_lt; eauto.
  - destruct (length d =? cap) eqn:Ec.
    + apply Nat.eqb_eq in Ec. rewrite firstn_prefix by exact Hd. rewrite find_index_app, Ed.
      replace (cap - length d) with 0 by lia. cbn [firstn find_index option_map].
      exists d, src. rewrite app_length.
      replace (cap <=? length d + length (concat src)) with true; [reflexivity|].
      symmetry. apply Nat.leb_le. lia.
    + apply Nat.eqb_neq in Ec. destruct src as [|seg rest].
      * cbn [concat]. rewrite app_nil_r. rewrite firstn_all2 by exact Hd. rewrite Ed.
        exists d, []. replace (cap <=? length d) with false; [reflexivity|].
        symmetry. apply Nat.leb_gt. lia.
      * inversion Hne as [|? ? Hseg Hrest]; subst.
        set (k := Nat.min (length seg) (cap - length d)).
        assert (Hk1 : 1 <= k).
        { unfold k. destruct seg; [congruence|]. cbn [length]. lia. }
        assert (Hk2 : k <= length seg) by (unfold k; lia).
        assert (Hk3 : length d + k <= cap) by (unfold k; lia).
        set (src2 := if k <? length seg then skipn k seg :: rest else rest).
        assert (Hcat : firstn k seg ++ concat src2 = concat (seg :: rest)).
        { unfold src2. cbn [concat]. destruct (k <? length seg) eqn:E.
          - cbn [concat]. rewrite app_assoc, firstn_skipn. reflexivity.
          - apply Nat.ltb_ge in E. rewrite firstn_all2 by lia. reflexivity. }
        assert (Hne2 : Forall NE src2).
        { unfold src2. destruct (k <? length seg) eqn:E; [|exact Hrest].
          apply Nat.ltb_lt in E. constructor; [|exact Hrest].
          intro H0. apply (f_equal (@length N)) in H0. rewrite skipn_length in H0.
          cbn [length] in H0. lia. }
        assert (Hlen2 : src_len src2 < f).
        { unfold src_len in *. rewrite <- Hcat, app_length, firstn_length in Hf. lia. }
        specialize (IH cap (d ++ firstn k seg) src2).
        rewrite <- app_assoc, Hcat in IH. apply IH; [|exact Hne2|exact Hlen2].
        rewrite app_length, firstn_length. lia.
Qed.

(* ---- (b) unconsumed bytes of a reader state ---- *)

Definition unc (st : sr) : list N := data (compact st).

Lemma rbc_unc st : remaining_bytes_count st = length (unc st).
Proof.
  unfold remaining_bytes_count, unc, compact. destruct st as [d [p|]]; cbn [line data]; [|reflexivity].
  destruct (p <? length d) eqn:E1; cbn [data length].
  - rewrite skipn_length. apply Nat.ltb_lt in E1.
    destruct (p + 1 <? length d) eqn:E2; [lia|]. apply Nat.ltb_ge in E2. lia.
  - apply Nat.ltb_ge in E1.
    destruct (p + 1 <? length d) eqn:E2; [apply Nat.ltb_lt in E2; lia | reflexivity].
Qed.

Lemma compact_idem st : compact (compact st) = compact st.
Proof.
  unfold compact. destruct st as [d [p|]]; cbn [line data]; [|reflexivity].
  destruct (p <? length d); reflexivity.
Qed.

Lemma unc_compact st : unc (compact st) = unc st.
Proof. unfold unc. rewrite compact_idem. reflexivity. Qed.

Lemma unc_line_none d : unc {| data := d; line := None |} = d.
Proof. reflexivity. Qed.

(* compact after a line at pos leaves exactly the bytes after the newline *)
Lemma unc_line_some d pos : pos < length d -> unc {| data := d; line := Some pos |} = skipn (S pos) d.
Proof.
  intro H. unfold unc, compact. cbn [line data].
  apply Nat.ltb_lt in H. rewrite H. reflexivity.
Qed.

(* ---- (c) read_exact / read_raw return the next n bytes ---- *)

Lemma read_exact_spec : forall src n, Forall NE src ->
  if length (concat src) <? n then read_exact src n = None
  else exists src', read_exact src n = Some (firstn n (concat src), src')
         /\ concat src' = skipn n (concat src) /\ Forall NE src'.
Proof.
  induction src as [|a src IH]; intros n Hne.
  - destruct n; cbn [concat length read_exact Nat.ltb Nat.leb].
    + exists []. repeat split; auto.
    + reflexivity.
  - inversion Hne as [|? ? Ha Hsrc]; subst.
    destruct n as [|n'].
    + cbn [read_exact]. replace (length (concat (a :: src)) <? 0) with false by (symmetry; apply Nat.ltb_ge; lia).
      exists (a :: src). repeat split; auto.
    + cbn [read_exact]. set (n := S n'). cbn [concat]. rewrite app_length.
      destruct (length a <=? n) eqn:E.
      * apply Nat.leb_le in E. specialize (IH (n - length a) Hsrc).
        destruct (length (concat src) <? n - length a) eqn:E2.
        -- rewrite IH. apply Nat.ltb_lt in E2.
           replace (length a + length (concat src) <? n) with true; [reflexivity|].
           symmetry. apply Nat.ltb_lt. lia.
        -- apply Nat.ltb_ge in E2. destruct IH as (src' & -> & Hc & Hn).
           replace (length a + length (concat src) <? n) with false by (symmetry; apply Nat.ltb_ge; lia).
           exists src'. repeat split; [| |exact Hn].
           ++ rewrite firstn_app, (firstn_all2 a) by exact E. reflexivity.
           ++ rewrite skipn_app, (skipn_all2 a) by exact E. exact Hc.
      * apply Nat.leb_gt in E.
        replace (length a + length (concat src) <? n) with false by (symmetry; apply Nat.ltb_ge; lia).
        exists (skipn n a :: src). repeat split.
        -- rewrite firstn_app_short by lia. reflexivity.
        -- cbn [concat]. rewrite skipn_app_short by lia. reflexivity.
        -- constructor; [|exact Hsrc]. intro H0. apply (f_equal (@length N)) in H0.
           rewrite skipn_length in H0. cbn [length] in H0. lia.
Qed.

Lemma extract_remaining_spec st n : 0 < length (unc st) ->
  exists st1, extract_remaining st n n = (firstn n (unc st), st1) /\ unc st1 = skipn n (unc st).
Proof.
  intro Hpos. unfold extract_remaining. fold (unc st).
  destruct (n =? 0) eqn:En.
  - apply Nat.eqb_eq in En. subst n. cbn [Nat.min Nat.ltb Nat.leb firstn skipn].
    exists (compact st). split; [reflexivity | apply unc_compact].
  - apply Nat.eqb_neq in En.
    set (nn := Nat.min n (Nat.min n (length (unc st)))).
    assert (Hnn : nn = Nat.min n (length (unc st))) by (unfold nn; lia).
    replace (0 <? nn) with true by (symmetry; apply Nat.ltb_lt; lia).
    assert (Hf : firstn nn (unc st) = firstn n (unc st)).
    { destruct (Nat.le_gt_cases n (length (unc st))) as [H|H].
      - replace nn with n by lia. reflexivity.
      - replace nn with (length (unc st)) by lia.
        rewrite firstn_all, firstn_all2 by lia. reflexivity. }
    rewrite Hf. eexists. split; [reflexivity|].
    destruct (nn <? length (unc st)) eqn:E.
    + apply Nat.ltb_lt in E. rewrite unc_line_none. replace nn with n by lia. reflexivity.
    + apply Nat.ltb_ge in E. rewrite unc_line_none. rewrite skipn_all2 by lia. reflexivity.
Qed.

Lemma read_raw_first st n :
  exists st1,
    (if 0 <? remaining_bytes_count st then extract_remaining st n n else ([], st))
      = (firstn n (unc st), st1)
    /\ unc st1 = skipn n (unc st).
Proof.
  rewrite rbc_unc. destruct (0 <? length (unc st)) eqn:E.
  - apply Nat.ltb_lt in E. apply extract_remaining_spec. exact E.
  - apply Nat.ltb_ge in E. exists st.
    destruct (unc st) eqn:Eu; [|cbn [length] in E; lia].
    rewrite firstn_nil, skipn_nil. split; reflexivity.
Qed.

Lemma read_raw_spec st src n : Forall NE src ->
  if length (unc st ++ concat src) <? n then read_raw st src n = None
  else exists st' src',
         read_raw st src n = Some (firstn n (unc st ++ concat src), st', src')
         /\ unc st' ++ concat src' = skipn n (unc st ++ concat src)
         /\ length (unc st') <= length (unc st) /\ Forall NE src'.
Proof.
  intro Hne. unfold read_raw.
  destruct (read_raw_first st n) as (st1 & -> & Hu).
  rewrite firstn_length, app_length.
  set (u := unc st) in *. set (cs := concat src).
  assert (Hl1 : length (unc st1) <= length u) by (rewrite Hu, skipn_length; lia).
  destruct (Nat.min n (length u) <? n) eqn:E.
  - apply Nat.ltb_lt in E. replace (n - Nat.min n (length u)) with (n - length u) by lia.
    pose proof (read_exact_spec src (n - length u) Hne) as Hre. fold cs in Hre.
    destruct (length cs <? n - length u) eqn:E2.
    + rewrite Hre. apply Nat.ltb_lt in E2.
      replace (length u + length cs <? n) with true; [reflexivity|].
      symmetry. apply Nat.ltb_lt. lia.
    + apply Nat.ltb_ge in E2. destruct Hre as (src' & -> & Hc & Hn).
      replace (length u + length cs <? n) with false by (symmetry; apply Nat.ltb_ge; lia).
      exists st1, src'. repeat split; [| |exact Hl1|exact Hn].
      * rewrite firstn_app. reflexivity.
      * rewrite Hu, Hc, skipn_app. reflexivity.
  - apply Nat.ltb_ge in E.
    replace (length u + length cs <? n) with false by (symmetry; apply Nat.ltb_ge; lia).
    exists st1, src. repeat split; [| |exact Hl1|exact Hne].
    + rewrite firstn_app_short by lia. reflexivity.
    + rewrite Hu. fold cs. rewrite skipn_app_short by lia. reflexivity.
Qed.

(* ---- StreamReader::next agrees with split_line ---- *)

Lemma sr_next_spec cap st src : length (unc st) <= cap -> Forall NE src ->
  match split_line cap (unc st ++ concat src) with
  | SLine l rest =>
      exists pos st1 src1, sr_next cap st src = (NLine pos, st1, src1)
        /\ firstn pos (data st1) = l /\ unc st1 ++ concat src1 = rest
        /\ length (unc st1) <= cap /\ Forall NE src1
        /\ length rest < length (unc st ++ concat src)
  | SMaxLine => exists st1 src1, sr_next cap st src = (NMaxLine, st1, src1)
  | SEof => exists st1 src1, sr_next cap st src = (NEof, st1, src1)
  end.
Proof.
  intros Hu Hne. unfold sr_next, split_line. fold (unc st).
  pose proof (next_loop_spec (S (src_len src)) cap (unc st) src Hu Hne (Nat.lt_succ_diag_r _)) as H.
  destruct (find_index (N.eqb NL) (firstn cap (unc st ++ concat src))) as [pos|].
  - destruct H as (d' & src' & -> & Hcat & Hlen & Hne' & Hpos).
    exists pos, {| data := d'; line := Some pos |}, src'.
    split; [reflexivity|]. cbn [data]. rewrite <- Hcat.
    rewrite unc_line_some by exact Hpos.
    repeat split.
    + rewrite firstn_app_short by lia. reflexivity.
    + rewrite skipn_app_short by lia. reflexivity.
    + rewrite skipn_length. lia.
    + exact Hne'.
    + rewrite skipn_length, app_length. lia.
  - destruct H as (d' & src' & ->).
    destruct (cap <=? length (unc st ++ concat src)); eauto.
Qed.

(* ---- (d) the connection read path simulates the specification ---- *)

Lemma conn_read_frames sch md c : forall f1 f2 st src,
  length (unc st) <= max_msg c -> Forall NE src ->
  length (unc st ++ concat src) < f1 -> length (unc st ++ concat src) < f2 ->
  conn_read f1 sch md c st src = frames f2 sch md c (unc st ++ concat src).
Proof.
  induction f1 as [|f1 IH]; intros f2 st src Hu Hne H1 H2; [lia|].
  destruct f2 as [|f2]; [lia|].
  cbn [conn_read frames].
  pose proof (sr_next_spec (max_msg c) st src Hu Hne) as Hs.
  destruct (split_line (max_msg c) (unc st ++ concat src)) as [l rest| |].
  - destruct Hs as (pos & st1 & src1 & -> & Hl & Hrest & Hu1 & Hne1 & Hlt).
    rewrite Hl.
    destruct (deserialize sch md l) as [m| | |]; try reflexivity.
    destruct (payload_info sch m) as [[id len]|].
    + destruct (max_payload c <? len)%N; [reflexivity|].
      destruct (bucket_for (geo c) len) as [bk|]; [|reflexivity].
      set (n := N.to_nat len).
      pose proof (read_raw_spec st1 src1 n Hne1) as Hr1. rewrite Hrest in Hr1.
      destruct (length rest <? n) eqn:E1.
      * rewrite Hr1. apply Nat.ltb_lt in E1.
        replace (length rest <? n + 1) with true; [reflexivity|].
        symmetry. apply Nat.ltb_lt. lia.
      * apply Nat.ltb_ge in E1.
        destruct Hr1 as (st2 & src2 & -> & Hrest2 & Hu2 & Hne2).
        pose proof (read_raw_spec st2 src2 1 Hne2) as Hr2. rewrite Hrest2 in Hr2.
        rewrite skipn_length in Hr2.
        destruct (length rest - n <? 1) eqn:E2.
        -- rewrite Hr2. apply Nat.ltb_lt in E2.
           replace (length rest <? n + 1) with true; [reflexivity|].
           symmetry. apply Nat.ltb_lt. lia.
        -- apply Nat.ltb_ge in E2.
           destruct Hr2 as (st3 & src3 & -> & Hrest3 & Hu3 & Hne3).
           replace (length rest <? n + 1) with false by (symmetry; apply Nat.ltb_ge; lia).
           rewrite firstn_1_skipn by lia. cbn [list_eqb]. rewrite andb_true_r.
           destruct (nth n rest 0 =? NL)%N; [|reflexivity].
           f_equal. rewrite skipn_1_skipn in Hrest3. rewrite <- Hrest3.
           apply IH; try exact Hne3; try lia; rewrite Hrest3, skipn_length; lia.
    + f_equal. rewrite <- Hrest. apply IH; try assumption; rewrite Hrest; lia.
  - destruct Hs as (st1 & src1 & ->). reflexivity.
  - destruct Hs as (st1 & src1 & ->). reflexivity.
Qed.

(* The hypothesis 0 < max_msg c is not needed. *)
Theorem run_reader_segmentation_independent_gen : forall sch md c segs,
  Forall (fun s => s <> []) segs ->
  run_reader sch md c segs = parse_stream sch md c (concat segs).
Proof.
  intros sch md c segs Hne. unfold run_reader, parse_stream, src_len.
  apply (conn_read_frames sch md c _ _ {| data := []; line := None |} segs);
    [cbn; lia | exact Hne | cbn [unc compact line data app]; lia | cbn [unc compact line data app]; lia].
Qed.

Theorem run_reader_segmentation_independent : forall sch md c segs,
  (0 < max_msg c)%nat -> Forall (fun s => s <> []) segs ->
  run_reader sch md c segs = parse_stream sch md c (concat segs).
Proof. intros sch md c segs _. apply run_reader_segmentation_independent_gen. Qed.

Theorem segmentations_agree : forall sch md c segs1 segs2,
  (0 < max_msg c)%nat ->
  Forall (fun s => s <> []) segs1 -> Forall (fun s => s <> []) segs2 ->
  concat segs1 = concat segs2 ->
  run_reader sch md c segs1 = run_reader sch md c segs2.
Proof.
  intros sch md c segs1 segs2 Hc H1 H2 E.
  rewrite !run_reader_segmentation_independent by assumption. rewrite E. reflexivity.
Qed.

(* The non-emptiness hypothesis is necessary: an empty segment (a zero-length read, which the real
   reader treats as EOF and the model's driver never produces) burns loop fuel without progress. *)
Example empty_segment_counterexample :
  run_reader [] Checked {| max_msg := 8; max_payload := 0%N; geo := [] |} [[]; [NL]] = [RFuel]
  /\ parse_stream [] Checked {| max_msg := 8; max_payload := 0%N; geo := [] |} (concat [[]; [NL]]) <> [RFuel].
Proof. split; [vm_compute; reflexivity | vm_compute; discriminate]. Qed.

Print Assumptions run_reader_segmentation_independent_gen.
Print Assumptions run_reader_segmentation_independent.
Print Assumptions segmentations_agree.
