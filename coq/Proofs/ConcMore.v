(* Interleaved model: completeness of an acknowledged BROADCAST (every schedule), and a witness of a known limitation. *)
From Coq Require Import List NArith Bool Lia.
From NW Require Import Model.Conc Proofs.ConcDefs Proofs.ConcSmall.
Import ListNotations.
Open Scope N_scope.

Lemma In_conns_of g us c c' u : In u us -> In c' (reg g u) -> c' <> c -> In c' (conns_of g us (Some c)).
Proof.
  intros Hu Hc Hn. unfold conns_of. apply in_flat_map. exists u. split; [exact Hu|].
  apply filter_In. split; [exact Hc|]. apply negb_true_iff. apply N.eqb_neq. exact Hn.
Qed.

(* no BROADCAST acknowledgement *)
Definition no_back (x : cout) : Prop :=
  match x with OAck _ _ k => if k =? A_BCAST then False else True | _ => True end.

(* a BROADCAST acknowledgement among the outputs [os] of a segment comes with the deliveries *)
Definition back_ok (g : gst) (tc : option conn) (me : user) (p : pc) (os : list cout) (x : cout) : Prop :=
  match x with
  | OAck c _ k =>
      if k =? A_BCAST then
        tc = Some c /\ exists ch payload o, bcast_pc p ch payload o /\ In me (members (objs g o)) /\
          forall u c', In u (targets (objs g o)) -> In c' (reg g u) -> c' <> c -> In (OMsg c' ch me payload) os
      else True
  | _ => True
  end.

Lemma no_back_ok g tc me p os x : no_back x -> back_ok g tc me p os x.
Proof. destruct x; cbn [no_back back_ok]; try (intros; exact I). destruct (kind =? A_BCAST); [contradiction|auto]. Qed.

Section Back.
  Variable cf : ccfg.
  Variables (t : tid) (tc : option conn) (me : user).

  Lemma back_bcast_read g p ch o payload id :
    bcast_pc p ch payload o ->
    Forall (back_ok g tc me p (snd (bcast_read tc me g ch o payload id))) (snd (bcast_read tc me g ch o payload id)).
  Proof.
    intro Hp. unfold bcast_read. cbv zeta. destruct (negb (mem me (members (objs g o)))) eqn:E; cbn [snd]; [outs idtac|].
    apply negb_false_iff in E. apply mem_In in E.
    destruct (negb (allowed (pacl (objs g o)) me)); cbn [snd]; [outs idtac|].
    apply Forall_app. split; [outs idtac|]. destruct tc as [c|]; [|constructor]. constructor; [|constructor].
    cbn [back_ok]. change (A_BCAST =? A_BCAST) with true. cbv iota. split; [reflexivity|].
    exists ch, payload, o. split; [exact Hp|]. split; [exact E|]. intros u c' Hu Hc Hn.
    apply in_or_app. left. apply in_map_iff. exists c'. split; [reflexivity|]. eapply In_conns_of; eassumption.
  Qed.

  Lemma back_bcast_lookup g p ch payload id :
    (forall o, bcast_pc p ch payload o) ->
    Forall (back_ok g tc me p (snd (bcast_lookup tc me g ch payload id))) (snd (bcast_lookup tc me g ch payload id)).
  Proof.
    intro Hp. unfold bcast_lookup. destruct (cmap g ch) as [o|]; [|outs idtac].
    destruct (lock_free g o); [apply back_bcast_read; apply Hp|outs idtac].
  Qed.

  Lemma nb_join_locked g ch o created ob id : Forall no_back (snd (join_locked cf t tc me g ch o created ob id)).
  Proof. unf_steps. repeat hd1; outs ltac:(unfold events). Qed.

  Lemma back_seg g p ok hint :
    Forall (back_ok g tc me p (snd (seg cf t tc me g p ok hint))) (snd (seg cf t tc me g p ok hint)).
  Proof.
    assert (nb : forall p' os l, Forall no_back l -> Forall (back_ok g tc me p' os) l)
      by (intros p' os l Hl; eapply Forall_impl; [intros x Hx; apply no_back_ok; exact Hx|exact Hl]).
    destruct p as [[]| | | | | | | | | | |]; cbn [seg];
      try solve [apply nb; unfold join_start; repeat hd1;
                 first [ apply nb_join_locked
                       | unfold leave_start, leave_locked, leave_after_n1, leave_after_n2, leave_end, join_finish, members_read,
                                set_acl_locked, get_acl_read; cbv beta iota zeta; repeat hd1; outs ltac:(unfold events) ]].
    - destruct (fwd_payload cf); [outs idtac|]. apply back_bcast_lookup. intros o0. left. eexists. reflexivity.
    - destruct ok; [|outs idtac]. apply back_bcast_lookup. intros o0. right. left. eexists. reflexivity.
    - destruct (lock_free g o); [|outs idtac]. apply back_bcast_read. right. right. eexists. reflexivity.
  Qed.
End Back.

(* C02: an acknowledged BROADCAST was delivered, in that same atomic step, to every connection registered for every
   member of the channel object, the publisher's own connection excepted *)
Theorem conc_broadcast_complete cf es t ok hint c id :
  let s := cstate_after cf es in
  In (OAck c id A_BCAST) (snd (cstep cf s (ERun t ok hint))) ->
  exists k ch payload o, In (t, k) (tasks s) /\ t_conn k = Some c /\
    ((exists id', t_pc k = PStart (RBcast ch payload id')) \/ (exists id', t_pc k = PBcastGate ch payload id') \/ (exists id', t_pc k = PBcastWait ch o payload id')) /\
    In (t_me k) (members (objs (cg s) o)) /\
    forall u c', In u (members (objs (cg s) o)) -> allowed (racl (objs (cg s) o)) u = true -> In c' (reg (cg s) u) -> c' <> c ->
      In (OMsg c' ch (t_me k) payload) (snd (cstep cf s (ERun t ok hint))).
Proof.
  intros s. pose proof (conc_targets_cache cf es) as HT. cbv zeta in HT. fold s in HT. unfold cstep. cbv zeta.
  destruct (tlookup t (tasks s)) as [k|] eqn:Hk; [|intros []].
  pose proof (back_seg cf t (t_conn k) (t_me k) (cg s) (t_pc k) ok hint) as Hs.
  destruct (seg cf t (t_conn k) (t_me k) (cg s) (t_pc k) ok hint) as [[g' p] os]. cbn [snd] in *. intro H.
  rewrite Forall_forall in Hs. apply Hs in H. cbn [back_ok] in H. change (A_BCAST =? A_BCAST) with true in H. cbv iota in H.
  destruct H as (Hc & ch & payload & o & Hp & Hme & Hall).
  exists k, ch, payload, o. split; [apply tlookup_In; exact Hk|]. split; [exact Hc|]. split; [exact Hp|]. split; [exact Hme|].
  intros u c' Hu Ha. apply Hall. rewrite HT. apply filter_In. split; assumption.
Qed.

(* a known limitation: a session that signs in under a name whose previous session's clean-up is still in progress
   receives that session's channels' messages *)
Definition namesake_schedule : list ev :=
  [EIdentify 1 10 true; EIdentify 2 20 true;
   EReq 1 (RJoin 7 None 1); ERun 0 true 0; ERun 0 true 0;
   EReq 2 (RJoin 7 None 2); ERun 1 true 0; ERun 1 true 0;
   EReq 2 (RJoin 8 None 3); ERun 2 true 0; ERun 2 true 0;
   EHangup 2 8; ERun 3 true 0;
   EIdentify 3 20 true;
   EReq 1 (RBcast 7 5 4); ERun 4 true 0].
Definition cf_k := {| fwd_event := true; fwd_payload := false; ptr_check := true; idx_early := true; c_max_subs := 10; c_max_clients := 10 |}.

Theorem conc_namesake_inherits_during_cleanup_refuted :
  let r := crun cf_k cinit namesake_schedule in
  In (OMsg 3 7 10 5) (snd r) /\
  forallb (fun e => match e with EReq 3 _ => false | _ => true end) namesake_schedule = true /\
  exists o, cmap (cg (fst r)) 7 = Some o /\ covered (fst r) 20 7 o.
Proof.
  cbv zeta. split; [vm_compute; tauto|]. split; [vm_compute; reflexivity|].
  exists 0. split; [vm_compute; reflexivity|].
  exists 3, {| t_conn := None; t_me := 20; t_rest := [7]; t_pc := PLeaveN1 8 1 20 true 0 |}.
  split; [vm_compute; left; reflexivity|]. split; [reflexivity|]. split; [reflexivity|]. left. left. reflexivity.
Qed.

(* ---------- C17: the modulator's private push ---------- *)
Lemma nodup_app {A} (l1 l2 : list A) : NoDup l1 -> NoDup l2 -> (forall x, In x l1 -> ~ In x l2) -> NoDup (l1 ++ l2).
Proof.
  induction l1 as [|a r IH]; intros H1 H2 Hd; cbn [app]; [exact H2|]. inversion H1 as [|? ? Ha Hr]; subst. constructor.
  - rewrite in_app_iff. intros [H|H]; [exact (Ha H)|]. apply (Hd a); [left; reflexivity|exact H].
  - apply IH; [exact Hr|exact H2|]. intros x Hx. apply Hd. right. exact Hx.
Qed.

Lemma nodup_map {A B} (f : A -> B) l : (forall x y, f x = f y -> x = y) -> NoDup l -> NoDup (map f l).
Proof.
  intros Hf. induction l as [|a r IH]; intro H; cbn [map]; [constructor|]. inversion H as [|? ? Ha Hr]; subst. constructor; [|apply IH; exact Hr].
  intro X. apply in_map_iff in X. destruct X as (y&E&Hy). apply Hf in E. subst. exact (Ha Hy).
Qed.

Lemma nodup_filter {A} (f : A -> bool) l : NoDup l -> NoDup (filter f l).
Proof.
  induction l as [|a r IH]; intro H; cbn [filter]; [constructor|]. inversion H as [|? ? Ha Hr]; subst.
  destruct (f a); [|apply IH; exact Hr]. constructor; [|apply IH; exact Hr]. intro X. apply filter_In in X. apply Ha. apply X.
Qed.

Lemma nodup_flat_map {A B} (f : A -> list B) l :
  NoDup l -> (forall u, In u l -> NoDup (f u)) ->
  (forall u v x, In u l -> In v l -> In x (f u) -> In x (f v) -> u = v) -> NoDup (flat_map f l).
Proof.
  induction l as [|a r IH]; intros Hl Hf Hd; cbn [flat_map]; [constructor|]. inversion Hl as [|? ? Ha Hr]; subst.
  apply nodup_app.
  - apply Hf. left. reflexivity.
  - apply IH; [exact Hr| |].
    + intros u Hu. apply Hf. right. exact Hu.
    + intros u v x Hu Hv. apply Hd; right; assumption.
  - intros x Hx Hx'. apply in_flat_map in Hx'. destruct Hx' as (v&Hv&Hxv).
    assert (a = v) by (apply (Hd a v x); [left; reflexivity|right; exact Hv|exact Hx|exact Hxv]). subst. exact (Ha Hv).
Qed.

Lemma In_dedup x l : In x (dedup l) <-> In x l.
Proof.
  induction l as [|a r IH]; cbn [dedup In]; [tauto|]. rewrite In_del, IH. split; [tauto|].
  intros [H|H]; [left; exact H|]. destruct (N.eq_dec a x) as [E|E]; [left; exact E|right; split; [exact H|congruence]].
Qed.

Lemma NoDup_dedup l : NoDup (dedup l).
Proof.
  induction l as [|a r IH]; cbn [dedup]; constructor.
  - rewrite In_del. intros [_ H]. apply H. reflexivity.
  - unfold del. apply nodup_filter. exact IH.
Qed.

(* the router's table lists a connection at most once *)
Definition RegND (g : gst) : Prop := RegInv g /\ forall u, NoDup (reg g u).

Lemma regnd_cstep cf s e : RegND (cg s) -> RegND (cg (fst (cstep cf s e))).
Proof.
  intros [HR HN]. split; [apply reg_cstep; exact HR|].
  destruct e as [c u ex|c r|t ok hint|c hint|t|ts pl]; unfold cstep; cbv zeta; [ | | | | |exact HN].
  - destruct (cuser (cg s) c) eqn:Hn; [exact HN|]. destruct (ex && _); [exact HN|]. cbn [fst cg].
    unfold set_cuser, set_reg. cbn [reg]. intro u'. unfold upd. destruct (u' =? u); [|apply HN].
    apply nodup_app; [apply HN|constructor; [intros []|constructor]|].
    intros x Hx [<-|[]]. apply HR in Hx. congruence.
  - destruct (cuser (cg s) c); exact HN.
  - destruct (tlookup t (tasks s)) as [k|]; [|exact HN].
    pose proof (frame_seg cf t (t_conn k) (t_me k) (cg s) (t_pc k) ok hint) as [Hr _].
    destruct (seg cf t (t_conn k) (t_me k) (cg s) (t_pc k) ok hint) as [[g' p] os]. cbn [fst cg] in *. rewrite Hr. exact HN.
  - destruct (cuser (cg s) c) as [u|]; [|exact HN].
    destruct (fold_frame c (tasks s) (cg s)) as (_&_&Hr&_).
    match type of Hr with reg ?x = _ => set (g1 := x) in * end.
    assert (H1 : forall u', NoDup (upd (reg g1) u (del c (reg g1 u)) u')).
    { intro u'. unfold upd. rewrite Hr. destruct (u' =? u); [|apply HN]. unfold del. apply nodup_filter. apply HN. }
    destruct (isnil _); cbn [fst cg]; unfold set_idx, set_cuser, set_reg; cbn [reg]; exact H1.
  - destruct (tlookup t (tasks s)) as [k|]; [|exact HN]. destruct (t_conn k); [|exact HN]. cbn [fst cg].
    destruct (release_frame (cg s) k) as (_&_&Hr&_). rewrite Hr. exact HN.
Qed.

Lemma regnd_reach cf es : RegND (cg (cstate_after cf es)).
Proof.
  unfold cstate_after. apply (crun_inv cf (fun s => RegND (cg s))).
  - intros s e. apply regnd_cstep.
  - split; [|intro u; constructor]. intros c u. cbn. split; [contradiction|discriminate].
Qed.

(* C17 under interleaving: a private payload pushed by the modulator goes, at that very moment, to every connection
   registered for each named user, once each however often the user is named, to nobody else, and changes nothing *)
Theorem conc_direct_exact cf es targets payload :
  let s := cstate_after cf es in
  let r := cstep cf s (EDirect targets payload) in
  fst r = s /\
  (forall o, In o (snd r) -> exists c, o = ODirect c payload) /\
  (forall c, In (ODirect c payload) (snd r) <-> exists u, In u targets /\ In c (reg (cg s) u)) /\
  (forall c u, In u targets -> In c (reg (cg s) u) -> cuser (cg s) c = Some u) /\
  NoDup (snd r).
Proof.
  intros s. cbv zeta. destruct (regnd_reach cf es) as [HR HN]. fold s in HR, HN. cbn [cstep fst snd].
  split; [reflexivity|]. split; [intros o; apply direct_outs_only|]. unfold direct_outs. split; [|split].
  - intro c. rewrite in_flat_map. split.
    + intros (u&Hu&Hc). apply in_map_iff in Hc. destruct Hc as (c'&E&Hc). injection E as ->. exists u. rewrite In_dedup in Hu. auto.
    + intros (u&Hu&Hc). exists u. rewrite In_dedup. split; [exact Hu|]. apply in_map_iff. exists c. auto.
  - intros c u _ Hc. apply HR. exact Hc.
  - apply nodup_flat_map.
    + apply NoDup_dedup.
    + intros u _. apply nodup_map; [|apply HN]. intros x y E. injection E as ->. reflexivity.
    + intros u v x _ _ Hu Hv. apply in_map_iff in Hu. destruct Hu as (c&<-&Hu). apply in_map_iff in Hv. destruct Hv as (c'&E&Hv).
      injection E as ->. apply HR in Hu. apply HR in Hv. congruence.
Qed.

(* ---------- locks, for every configuration: who holds a channel's write lock is the only one to change the channel ---------- *)
Definition pc_lt3 (n : N) (p : pc) : Prop :=
  match p with
  | PJoinWait _ o _ _ | PJoinNotify _ o _ _ _ | PLeaveWait _ o _ _ | PLeaveN1 _ o _ _ _ | PLeaveN2 _ o _ _
  | PSetAclWait _ o _ _ _ _ => o < n
  | _ => True
  end.

(* objects not yet handed out are empty; the map names only objects already handed out *)
Definition Kinv (g : gst) : Prop :=
  (forall o, next_oid g <= o -> members (objs g o) = []) /\ (forall ch o, cmap g ch = Some o -> o < next_oid g).

Definition untouched (g g' : gst) (o : oid) : Prop := objs g' o = objs g o /\ wl g' o = wl g o.
(* a step function working on the channel object o *)
Definition eff (g g' : gst) (o : oid) : Prop :=
  (forall o', o' <> o -> untouched g g' o') /\ next_oid g' = next_oid g /\
  (forall ch x, cmap g' ch = Some x -> cmap g ch = Some x).
(* the pcs that are going to take a member out of (or, on a failed announcement, back out of) the object they hold *)
Definition needs_member (p : pc) : option (oid * user) :=
  match p with PJoinNotify _ o _ n _ | PLeaveN1 _ o n _ _ => Some (o, n) | _ => None end.
Lemma needs_member_holds p o n : needs_member p = Some (o, n) -> holds p = Some o.
Proof. destruct p; cbn [needs_member holds]; try discriminate; intro E; injection E as <- _; reflexivity. Qed.

Definition post (g' : gst) (t : tid) (o : oid) (p' : pc) : Prop :=
  match p' with
  | PJoinNotify _ o' _ n _ | PLeaveN1 _ o' n _ _ => o' = o /\ wl g' o = Some t /\ In n (members (objs g' o))
  | PLeaveN2 _ o' _ _ => o' = o /\ wl g' o = Some t
  | PDone => True
  | _ => False
  end.

Lemma In_add_self n (l : list N) : In n (add n l).
Proof. unfold add. destruct (mem n l) eqn:E; [apply mem_In; exact E|apply in_or_app; right; left; reflexivity]. Qed.

Lemma lock_free_None g o : lock_free g o = true -> wl g o = None.
Proof. unfold lock_free. destruct (wl g o); [discriminate|reflexivity]. Qed.

Ltac post_tac :=
  cbn [post]; red_g;
  first [ exact I
        | split; [reflexivity|split; [apply upd_same|rewrite ?upd_same; red_g; apply In_add_self]]
        | split; [reflexivity|split; [apply upd_same|
            match goal with H : negb (mem _ _) = false |- _ => apply negb_false_iff in H; apply mem_In in H; exact H end]]
        | split; [reflexivity|apply upd_same] ].
Ltac eleaf :=
  rest_split; unfold eff, untouched; unf_set; red_g;
  (split; [split; [let o' := fresh "o" in let Hne := fresh "Hne" in
                   intros o' Hne; rewrite ?upd_other by exact Hne; split; reflexivity
                  | split; [reflexivity | cm_tac]]
          | post_tac]).

Section Locks.
  Variable cf : ccfg.
  Variables (t : tid) (tc : option conn) (me : user).

  Lemma e_join_finish g ch o cr n id ok :
    eff g (fst (fst (join_finish cf tc g ch o cr n id ok))) o /\ post (fst (fst (join_finish cf tc g ch o cr n id ok))) t o (snd (fst (join_finish cf tc g ch o cr n id ok))).
  Proof. unf_steps. repeat hd1; eleaf. Qed.

  Lemma e_join_locked g ch o cr ob id :
    eff g (fst (fst (join_locked cf t tc me g ch o cr ob id))) o /\ post (fst (fst (join_locked cf t tc me g ch o cr ob id))) t o (snd (fst (join_locked cf t tc me g ch o cr ob id))).
  Proof. unf_steps. repeat hd1; eleaf. Qed.

  Lemma e_leave_after_n2 g ch o id ok1 ok2 :
    eff g (fst (fst (leave_after_n2 tc g ch o id ok1 ok2))) o /\ post (fst (fst (leave_after_n2 tc g ch o id ok1 ok2))) t o (snd (fst (leave_after_n2 tc g ch o id ok1 ok2))).
  Proof. unf_steps. repeat hd1; eleaf. Qed.

  Lemma e_leave_after_n1 g ch o n w id ok1 hint :
    eff g (fst (fst (leave_after_n1 cf t tc g ch o n w id ok1 hint))) o /\ post (fst (fst (leave_after_n1 cf t tc g ch o n w id ok1 hint))) t o (snd (fst (leave_after_n1 cf t tc g ch o n w id ok1 hint))).
  Proof. unf_steps. repeat hd1; eleaf. Qed.

  Lemma e_leave_locked g ch o ob id hint :
    eff g (fst (fst (leave_locked cf t tc me g ch o ob id hint))) o /\ post (fst (fst (leave_locked cf t tc me g ch o ob id hint))) t o (snd (fst (leave_locked cf t tc me g ch o ob id hint))).
  Proof. unf_steps. repeat hd1; eleaf. Qed.

  Lemma e_set_acl_locked g o ty adding us id :
    eff g (fst (fst (set_acl_locked cf tc me g o ty adding us id))) o /\ post (fst (fst (set_acl_locked cf tc me g o ty adding us id))) t o (snd (fst (set_acl_locked cf tc me g o ty adding us id))).
  Proof. unf_steps. repeat hd1; eleaf. Qed.
End Locks.

Definition seg_post (t : tid) (g g' : gst) (p' : pc) : Prop :=
  Kinv g' /\ next_oid g <= next_oid g' /\ pc_lt3 (next_oid g') p' /\
  (forall o', o' < next_oid g -> wl g o' <> None -> wl g o' <> Some t -> untouched g g' o') /\
  (forall o, holds p' = Some o -> wl g' o = Some t) /\
  (forall o n, needs_member p' = Some (o, n) -> In n (members (objs g' o))).

Lemma from_eff t g g' o p' :
  Kinv g -> o < next_oid g -> (wl g o = None \/ wl g o = Some t) -> eff g g' o /\ post g' t o p' -> seg_post t g g' p'.
Proof.
  intros (K1&K2) Ho HT ((E1&E2&E3)&Hp). unfold seg_post, Kinv. rewrite E2. repeat split.
  - intros o' Ho'. assert (o' <> o) by (unfold oid in *; lia). destruct (E1 o' H) as [-> _]. apply K1. exact Ho'.
  - intros ch x Hx. apply K2 with ch. apply E3. exact Hx.
  - lia.
  - destruct p'; cbn [post pc_lt3] in *; try exact I; try contradiction; destruct Hp as [-> _]; exact Ho.
  - apply E1. intros ->. destruct HT; contradiction.
  - apply E1. intros ->. destruct HT; contradiction.
  - intros o0 Hh. destruct p'; cbn [post holds] in *; try discriminate; injection Hh as <-; destruct Hp as (->&Hw&_) || destruct Hp as (->&Hw); exact Hw.
  - intros o0 n0 E. destruct p'; cbn [post needs_member] in *; try discriminate; injection E as <- <-; destruct Hp as (->&_&Hn); exact Hn.
Qed.

Lemma stay t g p' : Kinv g -> pc_lt3 (next_oid g) p' -> holds p' = None -> seg_post t g g p'.
Proof.
  intros K Hp Hh. unfold seg_post. split; [exact K|]. split; [lia|]. split; [exact Hp|]. split; [intros; split; reflexivity|].
  split; [intros o H; rewrite Hh in H; discriminate H|]. intros o n E. apply needs_member_holds in E. rewrite Hh in E. discriminate E.
Qed.

Section Locks2.
  Variable cf : ccfg.
  Variables (t : tid) (tc : option conn) (me : user).

  Lemma seg_locks g p ok hint :
    Kinv g -> pc_lt3 (next_oid g) p -> (forall o, holds p = Some o -> wl g o = Some t) ->
    seg_post t g (fst (fst (seg cf t tc me g p ok hint))) (snd (fst (seg cf t tc me g p ok hint))).
  Proof.
    intros K Hp Hh. pose proof K as (K1&K2).
    destruct p as [[]| | | | | | | | | | |]; cbn [seg pc_lt3 holds] in *.
    - (* JOIN *) unfold join_start. destruct (cmap g ch) as [o|] eqn:Hc.
      + destruct (lock_free g o) eqn:Hl.
        * eapply from_eff; [exact K|apply K2 with ch; exact Hc|left; apply lock_free_None; exact Hl|apply e_join_locked].
        * apply stay; [exact K|apply K2 with ch; exact Hc|reflexivity].
      + cbv zeta. match goal with |- context [join_locked cf t tc me ?g1 _ _ _ _ _] => set (G1 := g1) end.
        destruct (e_join_locked cf t tc me G1 ch (next_oid g) true ob id) as ((E1&E2&E3)&Hpo).
        set (r := join_locked cf t tc me G1 ch (next_oid g) true ob id) in *.
        assert (Hn1 : next_oid G1 = next_oid g + 1) by reflexivity.
        assert (Ho1 : forall o', o' <> next_oid g -> objs G1 o' = objs g o' /\ wl G1 o' = wl g o').
        { intros o' Hne. subst G1. unf_set. red_g. rewrite upd_other by exact Hne. split; reflexivity. }
        unfold seg_post, Kinv. rewrite E2, Hn1. repeat split.
        * intros o' Ho'. assert (Hne : o' <> next_oid g) by (unfold oid in *; lia).
          destruct (E1 o' Hne) as [-> _]. destruct (Ho1 o' Hne) as [-> _]. apply K1. unfold oid in *; lia.
        * intros ch' x Hx. apply E3 in Hx. subst G1. unf_set. red_g. unfold upd in Hx. destruct (ch' =? ch).
          -- injection Hx as <-. unfold oid in *; lia.
          -- apply K2 in Hx. unfold oid in *; lia.
        * unfold oid in *; lia.
        * destruct (snd (fst r)); cbn [post pc_lt3] in *; try exact I; try contradiction; destruct Hpo as [-> _]; unfold oid in *; lia.
        * assert (Hne : o' <> next_oid g) by (unfold oid in *; lia). destruct (E1 o' Hne) as [-> _]. apply Ho1. exact Hne.
        * assert (Hne : o' <> next_oid g) by (unfold oid in *; lia). destruct (E1 o' Hne) as [_ ->]. apply Ho1. exact Hne.
        * intros o0 Hh0. destruct (snd (fst r)); cbn [post holds] in *; try discriminate; injection Hh0 as <-; destruct Hpo as (->&Hw&_) || destruct Hpo as (->&Hw); exact Hw.
        * intros o0 n0 E. destruct (snd (fst r)); cbn [post needs_member] in *; try discriminate; injection E as <- <-; destruct Hpo as (->&_&Hn); exact Hn.
    - (* LEAVE *) unfold leave_start. destruct (cmap g ch) as [o|] eqn:Hc; [|apply stay; [exact K|exact I|reflexivity]].
      destruct (lock_free g o) eqn:Hl.
      + eapply from_eff; [exact K|apply K2 with ch; exact Hc|left; apply lock_free_None; exact Hl|apply e_leave_locked].
      + apply stay; [exact K|apply K2 with ch; exact Hc|reflexivity].
    - unfold bcast_lookup, bcast_read. cbv zeta. repeat hd1; (apply stay; [exact K|exact I|reflexivity]).
    - unfold members_read. cbv zeta. repeat hd1; (apply stay; [exact K|exact I|reflexivity]).
    - apply stay; [exact K|exact I|reflexivity].
    - destruct (cmap g ch) as [o|] eqn:Hc; [|apply stay; [exact K|exact I|reflexivity]].
      destruct (lock_free g o) eqn:Hl.
      + eapply from_eff; [exact K|apply K2 with ch; exact Hc|left; apply lock_free_None; exact Hl|apply e_set_acl_locked].
      + apply stay; [exact K|apply K2 with ch; exact Hc|reflexivity].
    - unfold get_acl_read. cbv zeta. repeat hd1; (apply stay; [exact K|exact I|reflexivity]).
    - destruct (lock_free g o) eqn:Hl; [|apply stay; [exact K|exact Hp|reflexivity]].
      eapply from_eff; [exact K|exact Hp|left; apply lock_free_None; exact Hl|apply e_join_locked].
    - eapply from_eff; [exact K|exact Hp|right; apply Hh; reflexivity|apply e_join_finish].
    - destruct (lock_free g o) eqn:Hl; [|apply stay; [exact K|exact Hp|reflexivity]].
      eapply from_eff; [exact K|exact Hp|left; apply lock_free_None; exact Hl|apply e_leave_locked].
    - eapply from_eff; [exact K|exact Hp|right; apply Hh; reflexivity|apply e_leave_after_n1].
    - eapply from_eff; [exact K|exact Hp|right; apply Hh; reflexivity|apply e_leave_after_n2].
    - unfold bcast_lookup, bcast_read. cbv zeta. repeat hd1; (apply stay; [exact K|exact I|reflexivity]).
    - unfold bcast_read. cbv zeta. repeat hd1; (apply stay; [exact K|exact I|reflexivity]).
    - unfold members_read. cbv zeta. repeat hd1; (apply stay; [exact K|exact I|reflexivity]).
    - destruct (lock_free g o) eqn:Hl; [|apply stay; [exact K|exact Hp|reflexivity]].
      eapply from_eff; [exact K|exact Hp|left; apply lock_free_None; exact Hl|apply e_set_acl_locked].
    - unfold get_acl_read. cbv zeta. repeat hd1; (apply stay; [exact K|exact I|reflexivity]).
    - apply stay; [exact K|exact I|reflexivity].
  Qed.
End Locks2.

(* ---------- the invariant of the task list ---------- *)
Definition tk_ok (g : gst) (t : tid) (p : pc) : Prop :=
  pc_lt3 (next_oid g) p /\ (forall o, holds p = Some o -> wl g o = Some t) /\
  (forall o n, needs_member p = Some (o, n) -> In n (members (objs g o))).
Definition LInv (s : cstate) : Prop :=
  Kinv (cg s) /\ NoDup (map fst (tasks s)) /\ (forall t k, In (t, k) (tasks s) -> t < next_tid s) /\
  (forall t k, In (t, k) (tasks s) -> tk_ok (cg s) t (t_pc k)).

Lemma pc_lt3_mono n m p : n <= m -> pc_lt3 n p -> pc_lt3 m p.
Proof. destruct p; cbn [pc_lt3]; auto; unfold oid in *; lia. Qed.
Lemma holds_lt n p o : pc_lt3 n p -> holds p = Some o -> o < n.
Proof. destruct p; cbn [pc_lt3 holds]; try discriminate; intros H E; injection E as <-; exact H. Qed.

Lemma tk_frame g g' t p :
  tk_ok g t p -> next_oid g <= next_oid g' -> (forall o, o < next_oid g -> wl g o = Some t -> untouched g g' o) -> tk_ok g' t p.
Proof.
  intros (H1&H2&H3) Hn Hu. split; [eapply pc_lt3_mono; eassumption|]. split.
  - intros o Hh. destruct (Hu o (holds_lt _ _ _ H1 Hh) (H2 o Hh)) as [_ ->]. apply H2. exact Hh.
  - intros o n E. assert (Hh : holds p = Some o) by (eapply needs_member_holds; exact E).
    destruct (Hu o (holds_lt _ _ _ H1 Hh) (H2 o Hh)) as [-> _]. apply H3. exact E.
Qed.

Lemma Kinv_same g g' : objs g' = objs g -> next_oid g' = next_oid g -> cmap g' = cmap g -> Kinv g -> Kinv g'.
Proof. intros Ho Hn Hc H. unfold Kinv. rewrite Ho, Hn, Hc. exact H. Qed.

Lemma In_fst {A B} (a : A) (b : B) l : In (a, b) l -> In a (map fst l).
Proof. intro H. apply in_map_iff. exists (a, b). auto. Qed.

Lemma nd_unique (l : list (tid * task)) t k k' : NoDup (map fst l) -> In (t, k) l -> In (t, k') l -> k = k'.
Proof.
  induction l as [|[a w] r IH]; cbn [map fst In]; [intros _ []|]. intros Hn H1 H2. inversion Hn as [|? ? Ha Hr]; subst.
  destruct H1 as [H1|H1]; destruct H2 as [H2|H2].
  - congruence.
  - injection H1 as -> ->. exfalso. apply Ha. eapply In_fst. exact H2.
  - injection H2 as -> ->. exfalso. apply Ha. eapply In_fst. exact H1.
  - apply IH; assumption.
Qed.

Lemma map_fst_tset t v l : map fst (tset t v l) = map fst l.
Proof. induction l as [|[a w] r IH]; cbn [tset map fst]; [reflexivity|]. destruct (t =? a); cbn [map fst]; [reflexivity|]. rewrite IH. reflexivity. Qed.

Lemma In_tset_nd t v l t' k' :
  NoDup (map fst l) -> In (t', k') (tset t v l) -> (t' = t /\ k' = v) \/ (In (t', k') l /\ t' <> t).
Proof.
  induction l as [|[a w] r IH]; cbn [tset map fst]; [intros _ []|]. intros Hn. inversion Hn as [|? ? Ha Hr]; subst.
  destruct (N.eqb_spec t a) as [->|Hne]; cbn [In].
  - intros [H|H]; [injection H as <- <-; left; auto|]. right. split; [right; exact H|]. intros ->. apply Ha. eapply In_fst. exact H.
  - intros [H|H]; [injection H as <- <-; right; split; [left; reflexivity|congruence]|].
    destruct (IH Hr H) as [H1|[H1 H2]]; [left; exact H1|right; split; [right; exact H1|exact H2]].
Qed.

Lemma In_tremove_nd t l (x : tid * task) : In x (tremove t l) <-> In x l /\ fst x <> t.
Proof.
  unfold tremove. rewrite filter_In. split; intros [H1 H2]; split; auto.
  - apply negb_true_iff in H2. apply N.eqb_neq. exact H2.
  - apply negb_true_iff. apply N.eqb_neq. exact H2.
Qed.

Lemma nd_map_filter {A B} (f : A -> B) (q : A -> bool) l : NoDup (map f l) -> NoDup (map f (filter q l)).
Proof.
  induction l as [|a r IH]; cbn [map filter]; [auto|]. intro H. inversion H as [|? ? Ha Hr]; subst.
  destruct (q a); cbn [map]; [|apply IH; exact Hr]. constructor; [|apply IH; exact Hr].
  intro X. apply Ha. apply in_map_iff in X. destruct X as (y&E&Hy). apply filter_In in Hy. apply in_map_iff. exists y. split; [exact E|apply Hy].
Qed.

Lemma settle_In_nd t k p hint l t' k' :
  NoDup (map fst l) -> In (t', k') (settle t k p hint l) ->
  (In (t', k') l /\ t' <> t) \/ (t' = t /\ (t_pc k' = p \/ exists ch, t_pc k' = PStart (RLeave ch None 0))).
Proof.
  intro Hn.
  assert (Hs : forall p', In (t', k') (tset t (with_pc k p') l) ->
               (In (t', k') l /\ t' <> t) \/ (t' = t /\ (t_pc k' = p' \/ exists ch, t_pc k' = PStart (RLeave ch None 0)))).
  { intros p' H. apply In_tset_nd in H; [|exact Hn]. destruct H as [[-> ->]|H]; [right; split; [reflexivity|left; reflexivity]|left; exact H]. }
  unfold settle. destruct p; try apply Hs.
  assert (Hr : In (t', k') (tremove t l) -> In (t', k') l /\ t' <> t) by (intro H; apply In_tremove_nd in H; exact H).
  destruct (t_conn k); [intro H; left; apply Hr; exact H|]. destruct (t_rest k) as [|c0 r0]; [intro H; left; apply Hr; exact H|].
  destruct (pick_next hint (c0 :: r0)) as [ch r]. intro H. apply In_tset_nd in H; [|exact Hn].
  destruct H as [[-> ->]|H]; [right; split; [reflexivity|right; exists ch; reflexivity]|left; exact H].
Qed.

Lemma settle_fst_nd t k p hint l : NoDup (map fst l) -> NoDup (map fst (settle t k p hint l)).
Proof.
  intro Hn. assert (Hr : NoDup (map fst (tremove t l))) by (unfold tremove; apply nd_map_filter; exact Hn).
  unfold settle. destruct p; try (rewrite map_fst_tset; exact Hn).
  destruct (t_conn k); [exact Hr|]. destruct (t_rest k); [exact Hr|]. destruct (pick_next hint _). rewrite map_fst_tset. exact Hn.
Qed.

Lemma release_wl g k o : holds (t_pc k) <> Some o -> wl (release_of g k) o = wl g o.
Proof.
  unfold release_of. destruct (holds (t_pc k)) as [o'|]; [|reflexivity]. intro H. unfold unlock, set_wl. cbn [wl].
  apply upd_other. congruence.
Qed.

Lemma fold_wl c o (l : list (tid * task)) : forall g,
  (forall e, In e l -> of_conn c (snd e) = true -> holds (t_pc (snd e)) <> Some o) ->
  wl (fold_left (fun acc e => if of_conn c (snd e) then release_of acc (snd e) else acc) l g) o = wl g o.
Proof.
  induction l as [|e r IH]; intros g H; cbn [fold_left]; [reflexivity|]. rewrite IH.
  - destruct (of_conn c (snd e)) eqn:E; [|reflexivity]. apply release_wl. apply H; [left; reflexivity|exact E].
  - intros e' He'. apply H. right. exact He'.
Qed.

Lemma nd_snoc (l : list (tid * task)) n v : NoDup (map fst l) -> (forall t k, In (t, k) l -> t < n) -> NoDup (map fst (l ++ [(n, v)])).
Proof.
  intros Hn Hl. rewrite map_app. cbn [map fst]. apply nodup_app; [exact Hn|constructor; [intros []|constructor]|].
  intros x Hx [<-|[]]. apply in_map_iff in Hx. destruct Hx as ([a w]&E&Hy). cbn [fst] in E. subst a. apply Hl in Hy. lia.
Qed.

Lemma linv_cstep cf s e : LInv s -> LInv (fst (cstep cf s e)).
Proof.
  intros HL. pose proof HL as (K&Hn&Ht&Hk). unfold LInv in *.
  destruct e as [c u ex|c r|t ok hint|c hint|t|ts pl]; unfold cstep; cbv zeta; [ | | | | |exact HL].
  - destruct (cuser (cg s) c); [exact HL|]. destruct (ex && _); [exact HL|]. cbn [fst cg tasks next_tid].
    split; [eapply Kinv_same; [| | |exact K]; reflexivity|]. split; [exact Hn|]. split; [exact Ht|exact Hk].
  - destruct (cuser (cg s) c); [|exact HL]. cbn [fst cg tasks next_tid]. split; [exact K|].
    split; [apply nd_snoc; assumption|]. split.
    + intros t k H. apply in_app_or in H. destruct H as [H|[H|[]]]; [apply Ht in H; lia|injection H as <- _; lia].
    + intros t k H. apply in_app_or in H. destruct H as [H|[H|[]]]; [apply Hk; exact H|]. injection H as <- <-. cbn [t_pc].
      split; [exact I|]. split; [intros o X; discriminate X|intros ? ? X; discriminate X].
  - destruct (tlookup t (tasks s)) as [k|] eqn:Hl; [|exact HL]. apply tlookup_In in Hl.
    destruct (Hk t k Hl) as (P1&P2&P3).
    pose proof (seg_locks cf t (t_conn k) (t_me k) (cg s) (t_pc k) ok hint K P1 P2) as Hs.
    destruct (seg cf t (t_conn k) (t_me k) (cg s) (t_pc k) ok hint) as [[g' p] os]. cbn [fst snd cg tasks next_tid] in *.
    destruct Hs as (S1&S2&S3&S4&S5&S6). split; [exact S1|]. split; [apply settle_fst_nd; exact Hn|]. split.
    + intros t' k' H. apply settle_In_nd in H; [|exact Hn]. destruct H as [[H _]|[-> _]]; [apply Ht with k'; exact H|apply Ht with k; exact Hl].
    + intros t' k' H. apply settle_In_nd in H; [|exact Hn]. destruct H as [[H Hne]|[-> [H|[ch H]]]].
      * eapply tk_frame; [apply Hk; exact H|exact S2|]. intros o Ho Hw. apply S4; [exact Ho|rewrite Hw; discriminate|rewrite Hw; congruence].
      * rewrite H. split; [exact S3|]. split; [exact S5|exact S6].
      * rewrite H. split; [exact I|]. split; [intros o X; discriminate X|intros ? ? X; discriminate X].
  - destruct (cuser (cg s) c) as [u|]; [|exact HL].
    destruct (fold_frame c (tasks s) (cg s)) as (Ho&_&_&_). destruct (fold_frame2 c (tasks s) (cg s)) as (Hno&Hc).
    pose proof (fun o => fold_wl c o (tasks s) (cg s)) as Hw.
    match type of Ho with objs ?x = _ => set (g1 := x) in * end.
    set (ts := filter (fun e => negb (of_conn c (snd e))) (tasks s)).
    assert (Hts : forall t k, In (t, k) ts -> In (t, k) (tasks s) /\ of_conn c k = false).
    { intros t k H. apply filter_In in H. destruct H as [H1 H2]. split; [exact H1|]. apply negb_true_iff in H2. exact H2. }
    assert (Hnd : NoDup (map fst ts)) by (apply nd_map_filter; exact Hn).
    assert (Hfr : forall g2, objs g2 = objs g1 -> next_oid g2 = next_oid g1 -> wl g2 = wl g1 ->
                  forall t k, In (t, k) ts -> tk_ok g2 t (t_pc k)).
    { intros g2 E1 E2 E3 t k H. destruct (Hts t k H) as [H1 H2]. eapply tk_frame; [apply Hk; exact H1|rewrite E2, Hno; lia|].
      intros o _ Hwo. split; [rewrite E1, Ho; reflexivity|]. rewrite E3. apply Hw. intros [t'' k''] He Hoc Hh. cbn [snd] in *.
      destruct (Hk t'' k'' He) as (_&Q2&_). rewrite (Q2 o Hh) in Hwo. injection Hwo as ->.
      rewrite (nd_unique _ _ _ _ Hn He H1) in Hoc. congruence. }
    assert (Hlt : forall t k, In (t, k) ts -> t < next_tid s) by (intros t k H; apply Ht with k; apply Hts; exact H).
    destruct (isnil _); cbn [fst cg tasks next_tid]; unf_set; red_g.
    + split; [eapply Kinv_same; [| | |exact K]; assumption|].
      destruct (idx g1 u) as [|c1 r1].
      * split; [exact Hnd|]. split; [intros t k H; apply Hlt in H; lia|]. apply Hfr; reflexivity.
      * destruct (pick_next hint (c1 :: r1)) as [ch r]. split; [apply nd_snoc; assumption|]. split.
        -- intros t k H. apply in_app_or in H. destruct H as [H|[H|[]]]; [apply Hlt in H; lia|injection H as <- _; lia].
        -- intros t k H. apply in_app_or in H. destruct H as [H|[H|[]]]; [apply Hfr; [reflexivity..|exact H]|]. injection H as <- <-. cbn [t_pc].
           split; [exact I|]. split; [intros o X; discriminate X|intros ? ? X; discriminate X].
    + split; [eapply Kinv_same; [| | |exact K]; assumption|]. split; [exact Hnd|]. split; [exact Hlt|]. apply Hfr; reflexivity.
  - destruct (tlookup t (tasks s)) as [k|] eqn:Hl; [|exact HL]. apply tlookup_In in Hl.
    destruct (t_conn k); [|exact HL]. cbn [fst cg tasks next_tid].
    destruct (release_frame (cg s) k) as (Ho&_&_&_). destruct (release_frame2 (cg s) k) as (Hno&Hc).
    split; [eapply Kinv_same; [| | |exact K]; assumption|]. split; [unfold tremove; apply nd_map_filter; exact Hn|]. split.
    + intros t' k' H. apply In_tremove_nd in H. apply Ht with k'. apply H.
    + intros t' k' H. apply In_tremove_nd in H. destruct H as [H Hne]. cbn [fst] in Hne.
      eapply tk_frame; [apply Hk; exact H|rewrite Hno; lia|]. intros o _ Hwo. split; [rewrite Ho; reflexivity|].
      apply release_wl. intro Hh. destruct (Hk t k Hl) as (_&Q2&_). rewrite (Q2 o Hh) in Hwo. congruence.
Qed.

Lemma linv_reach cf es : LInv (cstate_after cf es).
Proof.
  unfold cstate_after. apply (crun_inv cf LInv).
  - intros s e. apply linv_cstep.
  - split; [split; cbn; [intros; reflexivity|intros ch o H; discriminate H]|]. split; [constructor|]. split; intros t k [].
Qed.

(* ---------- C18: an acknowledged JOIN was announced ---------- *)
Definition jack_ok (g : gst) (tc : option conn) (g' : gst) (os : list cout) (x : cout) : Prop :=
  match x with
  | OAck c _ k =>
      if k =? A_JOIN then
        tc = Some c /\ exists ch o n cr, In n (members (objs g' o)) /\
          forall u c', In u (members (objs g' o)) -> In c' (reg g u) -> c' <> c -> In (OEvent c' K_JOINED ch n cr) os
      else True
  | _ => True
  end.

Lemma no_ack_jack g tc g' os x : no_ack A_JOIN x -> jack_ok g tc g' os x.
Proof. destruct x; cbn [no_ack jack_ok]; try (intros; exact I). destruct (kind =? A_JOIN); [contradiction|auto]. Qed.

Lemma nbj g tc g' os l : Forall (no_ack A_JOIN) l -> Forall (jack_ok g tc g' os) l.
Proof. intro Hl. eapply Forall_impl; [intros x Hx; apply no_ack_jack; exact Hx|exact Hl]. Qed.

Section JoinAck.
  Variable cf : ccfg.
  Variables (t : tid) (tc : option conn) (me : user).

  Lemma jack_join_finish g0 g ch o cr n id : reg g = reg g0 -> In n (members (objs g o)) ->
    Forall (jack_ok g0 tc (fst (fst (join_finish cf tc g ch o cr n id true))) (snd (join_finish cf tc g ch o cr n id true)))
           (snd (join_finish cf tc g ch o cr n id true)).
  Proof.
    intros Hr Hin. unfold join_finish. cbv beta iota zeta. cbn [fst snd].
    assert (Ho : objs (unlock (if idx_early cf then g else idx_add g n ch) o) = objs g) by (destruct (idx_early cf); reflexivity).
    apply Forall_app. split; [unfold events; outs idtac|]. destruct tc as [c|]; [|constructor]. constructor; [|constructor].
    cbn [jack_ok]. change (A_JOIN =? A_JOIN) with true. cbv iota. split; [reflexivity|]. exists ch, o, n, cr. rewrite Ho.
    split; [exact Hin|]. intros u c' Hu Hc Hn. apply in_or_app. left. unfold events. apply in_map_iff. exists c'. split; [reflexivity|].
    eapply In_conns_of; [exact Hu|rewrite Hr; exact Hc|exact Hn].
  Qed.

  Lemma jack_join_locked g0 g ch o cr ob id : reg g = reg g0 ->
    Forall (jack_ok g0 tc (fst (fst (join_locked cf t tc me g ch o cr ob id))) (snd (join_locked cf t tc me g ch o cr ob id)))
           (snd (join_locked cf t tc me g ch o cr ob id)).
  Proof.
    intro Hr. unfold join_locked. cbv beta iota zeta. repeat hd1;
      first [ apply jack_join_finish; [rest_split; exact Hr|rest_split; unf_set; red_g; rewrite upd_same; red_g; apply In_add_self]
            | apply nbj; outs idtac ].
  Qed.

  Lemma jack_seg g p ok hint :
    (forall ch o cr n id, p = PJoinNotify ch o cr n id -> In n (members (objs g o))) ->
    Forall (jack_ok g tc (fst (fst (seg cf t tc me g p ok hint))) (snd (seg cf t tc me g p ok hint))) (snd (seg cf t tc me g p ok hint)).
  Proof.
    intro Hj.
    destruct p as [[]| | | | | | | | | | |]; cbn [seg];
      try solve [apply nbj; repeat hd1;
                 unfold leave_start, leave_locked, leave_after_n1, leave_after_n2, leave_end, members_read,
                        set_acl_locked, get_acl_read, bcast_lookup, bcast_read; cbv beta iota zeta; repeat hd1; outs ltac:(unfold events)].
    - unfold join_start. destruct (cmap g ch) as [o|].
      + destruct (lock_free g o); [apply jack_join_locked; reflexivity|apply nbj; outs idtac].
      + cbv zeta. apply jack_join_locked. reflexivity.
    - destruct (lock_free g o); [apply jack_join_locked; reflexivity|apply nbj; outs idtac].
    - destruct ok; [apply jack_join_finish; [reflexivity|eapply Hj; reflexivity]|].
      apply nbj. unfold join_finish. cbv beta iota zeta. outs idtac.
  Qed.
End JoinAck.

(* C18 under interleaving: an acknowledged JOIN was announced, in that same atomic step, to every connection registered for
   every member of the channel object (the new member's own other connections included), the requesting connection
   excepted, with the joined user's name and the "created" flag *)
Theorem conc_join_announced cf es t ok hint c id :
  let s := cstate_after cf es in
  let r := cstep cf s (ERun t ok hint) in
  In (OAck c id A_JOIN) (snd r) ->
  exists k ch o n created, In (t, k) (tasks s) /\ t_conn k = Some c /\
    In n (members (objs (cg (fst r)) o)) /\
    forall u c', In u (members (objs (cg (fst r)) o)) -> In c' (reg (cg s) u) -> c' <> c ->
      In (OEvent c' K_JOINED ch n created) (snd r).
Proof.
  intros s. cbv zeta. destruct (linv_reach cf es) as (_&_&_&Hk). fold s in Hk. unfold cstep. cbv zeta.
  destruct (tlookup t (tasks s)) as [k|] eqn:Hl; [|intros []]. apply tlookup_In in Hl. destruct (Hk t k Hl) as (_&_&P3).
  assert (P3' : forall ch o cr n id0, t_pc k = PJoinNotify ch o cr n id0 -> In n (members (objs (cg s) o)))
    by (intros ch o cr n id0 E; apply P3; rewrite E; reflexivity).
  pose proof (jack_seg cf t (t_conn k) (t_me k) (cg s) (t_pc k) ok hint P3') as Hs.
  destruct (seg cf t (t_conn k) (t_me k) (cg s) (t_pc k) ok hint) as [[g' p] os]. cbn [fst snd cg] in *. intro H.
  rewrite Forall_forall in Hs. apply Hs in H. cbn [jack_ok] in H. change (A_JOIN =? A_JOIN) with true in H. cbv iota in H.
  destruct H as (Hc & ch & o & n & cr & Hn & Hall). exists k, ch, o, n, cr. auto.
Qed.

(* ---------- a refused JOIN changes nothing ---------- *)
Lemma app_last_single {A} (l : list A) a b : l ++ [a] = [b] -> l = [] /\ a = b.
Proof.
  destruct l as [|x r]; cbn [app]; intro H; [injection H as ->; auto|]. injection H as _ H. exfalso.
  destruct r; discriminate H.
Qed.

Ltac sil_leaf :=
  let H := fresh "H" in
  intro H; first [ reflexivity
                 | exfalso; destruct H as [H|H];
                   first [ discriminate H | apply app_last_single in H; destruct H as [_ H]; discriminate H ] ].

Section Silent.
  Variable cf : ccfg.
  Variables (t : tid) (me : user).

  Lemma sil_existing g ch o ob id c reason :
    snd (join_locked cf t (Some c) me g ch o false ob id) = [OErr c id reason] \/
    snd (join_locked cf t (Some c) me g ch o false ob id) = [OClose c reason] ->
    fst (fst (join_locked cf t (Some c) me g ch o false ob id)) = g.
  Proof. unfold join_locked, join_finish, err_out. cbv beta iota zeta. repeat hd1; sil_leaf. Qed.

  Lemma sil_created g ch o ob id c reason : cmap g ch = Some o ->
    snd (join_locked cf t (Some c) me g ch o true ob id) = [OErr c id reason] \/
    snd (join_locked cf t (Some c) me g ch o true ob id) = [OClose c reason] ->
    fst (fst (join_locked cf t (Some c) me g ch o true ob id)) = unmap g ch.
  Proof.
    intro Hc. unfold join_locked, join_finish, err_out. rewrite Hc, N.eqb_refl.
    replace (if ptr_check cf then true else true) with true by (destruct (ptr_check cf); reflexivity).
    cbv beta iota zeta. cbn [negb]. cbv iota. repeat hd1; sil_leaf.
  Qed.
End Silent.

(* a request that is refused (its segment ends with an error for the requester and nothing else) announces nothing and
   changes nothing: JOIN refusals of every kind *)
Theorem conc_refused_join_is_silent cf es t ok hint c id reason k :
  let s := cstate_after cf es in
  let r := cstep cf s (ERun t ok hint) in
  tlookup t (tasks s) = Some k -> t_conn k = Some c ->
  (exists ch ob, t_pc k = PStart (RJoin ch ob id)) \/ (exists ch o ob, t_pc k = PJoinWait ch o ob id) ->
  snd r = [OErr c id reason] \/ snd r = [OClose c reason] ->
  (forall o', members (objs (cg (fst r)) o') = members (objs (cg s) o')) /\
  (forall u, idx (cg (fst r)) u = idx (cg s) u) /\
  (forall ch', cmap (cg (fst r)) ch' = cmap (cg s) ch').
Proof.
  intros s. cbv zeta. destruct (linv_reach cf es) as ((K1&_)&_). fold s in K1. intros Hl Hc Hp. unfold cstep. cbv zeta.
  rewrite Hl, Hc.
  assert (Hsame : forall x : step_res, (snd x = [OErr c id reason] \/ snd x = [OClose c reason] -> fst (fst x) = cg s) ->
            snd (let '(g', p, os) := x in ({| cg := g'; tasks := settle t k p hint (tasks s); next_tid := next_tid s |}, os)) = [OErr c id reason] \/
            snd (let '(g', p, os) := x in ({| cg := g'; tasks := settle t k p hint (tasks s); next_tid := next_tid s |}, os)) = [OClose c reason] ->
            (forall o', members (objs (cg (fst (let '(g', p, os) := x in ({| cg := g'; tasks := settle t k p hint (tasks s); next_tid := next_tid s |}, os)))) o') = members (objs (cg s) o')) /\
            (forall u, idx (cg (fst (let '(g', p, os) := x in ({| cg := g'; tasks := settle t k p hint (tasks s); next_tid := next_tid s |}, os)))) u = idx (cg s) u) /\
            (forall ch', cmap (cg (fst (let '(g', p, os) := x in ({| cg := g'; tasks := settle t k p hint (tasks s); next_tid := next_tid s |}, os)))) ch' = cmap (cg s) ch')).
  { intros [[g' p] os] Hx Ho. cbn [fst snd cg] in *. rewrite (Hx Ho). auto. }
  destruct Hp as [(ch&ob&->)|(ch&o&ob&->)]; cbn [seg].
  - unfold join_start. destruct (cmap (cg s) ch) as [o|] eqn:Hm.
    + destruct (lock_free (cg s) o); [apply Hsame; apply sil_existing|]. cbn [fst snd]. intros [H|H]; discriminate H.
    + cbv zeta. match goal with |- context [join_locked cf t (Some c) (t_me k) ?g1 _ _ _ _ _] => set (G1 := g1) end.
      assert (Hm1 : cmap G1 ch = Some (next_oid (cg s))) by (subst G1; unf_set; red_g; apply upd_same).
      pose proof (sil_created cf t (t_me k) G1 ch (next_oid (cg s)) ob id c reason Hm1) as Hx.
      destruct (join_locked cf t (Some c) (t_me k) G1 ch (next_oid (cg s)) true ob id) as [[g' p] os]. cbn [fst snd cg] in *.
      intro Ho. rewrite (Hx Ho). subst G1. unf_set. red_g. split; [|split; [reflexivity|]].
      * intro o'. unfold upd. destruct (N.eqb_spec o' (next_oid (cg s))) as [->|Hne]; [|reflexivity].
        red_g. symmetry. apply K1. lia.
      * intro ch'. unfold upd. destruct (N.eqb_spec ch' ch) as [->|Hne]; [symmetry; exact Hm|reflexivity].
  - destruct (lock_free (cg s) o); [apply Hsame; apply sil_existing|]. cbn [fst snd]. intros [H|H]; discriminate H.
Qed.

(* ---------- C18: a departure is announced ---------- *)
Lemma In_conns_of_opt g us tc c u : In u us -> In c (reg g u) -> tc <> Some c -> In c (conns_of g us tc).
Proof.
  intros Hu Hc Hn. unfold conns_of. apply in_flat_map. exists u. split; [exact Hu|].
  apply filter_In. split; [exact Hc|]. destruct tc as [e|]; [|reflexivity]. apply negb_true_iff. apply N.eqb_neq. congruence.
Qed.

(* no MEMBER_LEFT event *)
Definition no_left (x : cout) : Prop :=
  match x with OEvent _ k _ _ _ => if k =? K_LEFT then False else True | _ => True end.

Definition lev_ok (g : gst) (tc : option conn) (g' : gst) (os : list cout) (x : cout) : Prop :=
  match x with
  | OEvent _ k ch n own =>
      if k =? K_LEFT then
        exists o, In n (members (objs g o)) /\ ~ In n (members (objs g' o)) /\ ~ In ch (idx g' n) /\
          forall u c'', In u (members (objs g o)) -> In c'' (reg g u) -> tc <> Some c'' -> In (OEvent c'' K_LEFT ch n own) os
      else True
  | _ => True
  end.

Lemma no_left_lev g tc g' os x : no_left x -> lev_ok g tc g' os x.
Proof. destruct x; cbn [no_left lev_ok]; try (intros; exact I). destruct (kind =? K_LEFT); [contradiction|auto]. Qed.
Lemma nbl g tc g' os l : Forall no_left l -> Forall (lev_ok g tc g' os) l.
Proof. intro Hl. eapply Forall_impl; [intros x Hx; apply no_left_lev; exact Hx|exact Hl]. Qed.

Section LeaveEv.
  Variable cf : ccfg.
  Variables (t : tid) (tc : option conn) (me : user).

  (* the step that announces the departure removes the member and the index entry *)
  Lemma n1_removes g ch o n w id ok1 hint :
    ~ In n (members (objs (fst (fst (leave_after_n1 cf t tc g ch o n w id ok1 hint))) o)) /\
    ~ In ch (idx (fst (fst (leave_after_n1 cf t tc g ch o n w id ok1 hint))) n).
  Proof.
    unfold leave_after_n1, leave_after_n2, leave_end. cbv beta iota zeta. repeat hd1; rest_split; unf_set; red_g;
      rewrite ?upd_same; red_g; (split; intro X; apply In_del in X; destruct X as [_ X]; apply X; reflexivity).
  Qed.

  Lemma n1_outputs g ch o n w id ok1 hint :
    exists rest, snd (leave_after_n1 cf t tc g ch o n w id ok1 hint)
                 = (if ok1 then events g (members (objs g o)) tc K_LEFT ch n w else []) ++ rest /\ Forall no_left rest.
  Proof.
    unfold leave_after_n1, leave_after_n2, leave_end. cbv beta iota zeta. repeat hd1;
      (eexists; split; [reflexivity|outs ltac:(unfold events)]).
  Qed.

  Lemma lev_leave_after_n1 g ch o n w id ok1 hint : In n (members (objs g o)) ->
    Forall (lev_ok g tc (fst (fst (leave_after_n1 cf t tc g ch o n w id ok1 hint))) (snd (leave_after_n1 cf t tc g ch o n w id ok1 hint)))
           (snd (leave_after_n1 cf t tc g ch o n w id ok1 hint)).
  Proof.
    intro Hin. destruct (n1_removes g ch o n w id ok1 hint) as [R1 R2]. destruct (n1_outputs g ch o n w id ok1 hint) as (rest&E&Hr).
    set (G' := fst (fst (leave_after_n1 cf t tc g ch o n w id ok1 hint))) in *.
    set (OS := snd (leave_after_n1 cf t tc g ch o n w id ok1 hint)) in *.
    rewrite E at 2. apply Forall_app. split; [|apply nbl; exact Hr]. destruct ok1; [|constructor].
    unfold events at 1. apply Forall_forall. intros x Hx. apply in_map_iff in Hx. destruct Hx as (c0&<-&_).
    cbn [lev_ok]. change (K_LEFT =? K_LEFT) with true. cbv iota. exists o. split; [exact Hin|]. split; [exact R1|]. split; [exact R2|].
    intros u c'' Hu Hc Hn. rewrite E. apply in_or_app. left. unfold events. apply in_map_iff. exists c''. split; [reflexivity|].
    eapply In_conns_of_opt; eassumption.
  Qed.

  Lemma lev_leave_locked g ch o ob id hint :
    Forall (lev_ok g tc (fst (fst (leave_locked cf t tc me g ch o ob id hint))) (snd (leave_locked cf t tc me g ch o ob id hint)))
           (snd (leave_locked cf t tc me g ch o ob id hint)).
  Proof.
    unfold leave_locked. cbv beta iota zeta. repeat hd1;
      first [ apply lev_leave_after_n1;
              match goal with H : negb (mem _ _) = false |- _ => apply negb_false_iff in H; apply mem_In in H; exact H end
            | apply nbl; outs idtac ].
  Qed.

  Lemma nl_join_locked g ch o cr ob id : Forall no_left (snd (join_locked cf t tc me g ch o cr ob id)).
  Proof. unf_steps. repeat hd1; outs ltac:(unfold events). Qed.

  Lemma lev_seg g p ok hint :
    (forall o n, needs_member p = Some (o, n) -> In n (members (objs g o))) ->
    Forall (lev_ok g tc (fst (fst (seg cf t tc me g p ok hint))) (snd (seg cf t tc me g p ok hint))) (snd (seg cf t tc me g p ok hint)).
  Proof.
    intro Hj.
    destruct p as [[]| | | | | | | | | | |]; cbn [seg];
      try solve [apply nbl; unfold join_start; repeat hd1;
                 first [ apply nl_join_locked
                       | unfold join_finish, leave_after_n2, leave_end, members_read,
                                set_acl_locked, get_acl_read, bcast_lookup, bcast_read; cbv beta iota zeta; repeat hd1; outs ltac:(unfold events) ]].
    - unfold leave_start. destruct (cmap g ch) as [o|]; [|apply nbl; outs idtac].
      destruct (lock_free g o); [apply lev_leave_locked|apply nbl; outs idtac].
    - destruct (lock_free g o); [apply lev_leave_locked|apply nbl; outs idtac].
    - apply lev_leave_after_n1. apply Hj. reflexivity.
  Qed.
End LeaveEv.

(* C18 under interleaving: when a departure is announced (the MEMBER_LEFT forwarding succeeded, or there is none), the
   announcement goes, in that same atomic step, to every connection registered for every member of the channel object as
   it was BEFORE the removal (the leaver's other connections included), the requesting connection excepted; and that step
   removes the leaver from the object and the channel from the leaver's index *)
Theorem conc_leave_announced cf es t ok hint c' kind ch n own :
  let s := cstate_after cf es in
  let r := cstep cf s (ERun t ok hint) in
  kind = K_LEFT ->
  In (OEvent c' kind ch n own) (snd r) ->
  exists k o, In (t, k) (tasks s) /\
    In n (members (objs (cg s) o)) /\ ~ In n (members (objs (cg (fst r)) o)) /\ ~ In ch (idx (cg (fst r)) n) /\
    forall u c'', In u (members (objs (cg s) o)) -> In c'' (reg (cg s) u) -> t_conn k <> Some c'' ->
      In (OEvent c'' K_LEFT ch n own) (snd r).
Proof.
  intros s. cbv zeta. intros ->. destruct (linv_reach cf es) as (_&_&_&Hk). fold s in Hk. unfold cstep. cbv zeta.
  destruct (tlookup t (tasks s)) as [k|] eqn:Hl; [|intros []]. apply tlookup_In in Hl. destruct (Hk t k Hl) as (_&_&P3).
  pose proof (lev_seg cf t (t_conn k) (t_me k) (cg s) (t_pc k) ok hint P3) as Hs.
  destruct (seg cf t (t_conn k) (t_me k) (cg s) (t_pc k) ok hint) as [[g' p] os]. cbn [fst snd cg] in *. intro H.
  rewrite Forall_forall in Hs. apply Hs in H. cbn [lev_ok] in H. change (K_LEFT =? K_LEFT) with true in H. cbv iota in H.
  destruct H as (o & H1 & H2 & H3 & H4). exists k, o. auto.
Qed.
