(* Interleaved model: completeness of an acknowledged BROADCAST (every schedule), and a witness of a known limitation. *)
From Coq Require Import List NArith Bool Lia.
From NW Require Import Model.Conc Proofs.ConcDefs Proofs.ConcSmall.
Import ListNotations.
Open Scope N_scope.

Lemma In_conns_of g us c c' u : In u us -> In c' (reg g u) -> c' <> c -> In c' (conns_of g us (Some c)).
Proof.
  intros Hu Hc Hn. unfold conns_of. apply in_flat_map. exists u. split; [exact Hu|].
  apply filter_In. split; [exact Hc|]. apply negb_true_iff. apply N.eqb_neq. exact Hn.
Qed.

(* no BROADCAST acknowledgement *)
Definition no_back (x : cout) : Prop :=
  match x with OAck _ _ k => if k =? A_BCAST then False else True | _ => True end.

(* a BROADCAST acknowledgement among the outputs [os] of a segment comes with the deliveries *)
Definition back_ok (g : gst) (tc : option conn) (me : user) (p : pc) (os : list cout) (x : cout) : Prop :=
  match x with
  | OAck c _ k =>
      if k =? A_BCAST then
        tc = Some c /\ exists ch payload o, bcast_pc p ch payload o /\ In me (members (objs g o)) /\
          forall u c', In u (targets (objs g o)) -> In c' (reg g u) -> c' <> c -> In (OMsg c' ch me payload) os
      else True
  | _ => True
  end.

Lemma no_back_ok g tc me p os x : no_back x -> back_ok g tc me p os x.
Proof. destruct x; cbn [no_back back_ok]; try (intros; exact I). destruct (kind =? A_BCAST); [contradiction|auto]. Qed.

Section Back.
  Variable cf : ccfg.
  Variables (t : tid) (tc : option conn) (me : user).

  Lemma back_bcast_read g p ch o payload id :
    bcast_pc p ch payload o ->
    Forall (back_ok g tc me p (snd (bcast_read tc me g ch o payload id))) (snd (bcast_read tc me g ch o payload id)).
  Proof.
    intro Hp. unfold bcast_read. cbv zeta. destruct (negb (mem me (members (objs g o)))) eqn:E; cbn [snd]; [outs idtac|].
    apply negb_false_iff in E. apply mem_In in E.
    destruct (negb (allowed (pacl (objs g o)) me)); cbn [snd]; [outs idtac|].
    apply Forall_app. split; [outs idtac|]. destruct tc as [c|]; [|constructor]. constructor; [|constructor].
    cbn [back_ok]. change (A_BCAST =? A_BCAST) with true. cbv iota. split; [reflexivity|].
    exists ch, payload, o. split; [exact Hp|]. split; [exact E|]. intros u c' Hu Hc Hn.
    apply in_or_app. left. apply in_map_iff. exists c'. split; [reflexivity|]. eapply In_conns_of; eassumption.
  Qed.

  Lemma back_bcast_lookup g p ch payload id :
    (forall o, bcast_pc p ch payload o) ->
    Forall (back_ok g tc me p (snd (bcast_lookup tc me g ch payload id))) (snd (bcast_lookup tc me g ch payload id)).
  Proof.
    intro Hp. unfold bcast_lookup. destruct (cmap g ch) as [o|]; [|outs idtac].
    destruct (lock_free g o); [apply back_bcast_read; apply Hp|outs idtac].
  Qed.

  Lemma nb_join_locked g ch o created ob id : Forall no_back (snd (join_locked cf t tc me g ch o created ob id)).
  Proof. unf_steps. repeat hd1; outs ltac:(unfold events). Qed.

  Lemma back_seg g p ok hint :
    Forall (back_ok g tc me p (snd (seg cf t tc me g p ok hint))) (snd (seg cf t tc me g p ok hint)).
  Proof.
    assert (nb : forall p' os l, Forall no_back l -> Forall (back_ok g tc me p' os) l)
      by (intros p' os l Hl; eapply Forall_impl; [intros x Hx; apply no_back_ok; exact Hx|exact Hl]).
    destruct p as [[]| | | | | | | | | | |]; cbn [seg];
      try solve [apply nb; unfold join_start; repeat hd1;
                 first [ apply nb_join_locked
                       | unfold leave_start, leave_locked, leave_after_n1, leave_after_n2, leave_end, join_finish, members_read,
                                set_acl_locked, get_acl_read; cbv beta iota zeta; repeat hd1; outs ltac:(unfold events) ]].
    - destruct (fwd_payload cf); [outs idtac|]. apply back_bcast_lookup. intros o0. left. eexists. reflexivity.
    - destruct ok; [|outs idtac]. apply back_bcast_lookup. intros o0. right. left. eexists. reflexivity.
    - destruct (lock_free g o); [|outs idtac]. apply back_bcast_read. right. right. eexists. reflexivity.
  Qed.
End Back.

(* C02: an acknowledged BROADCAST was delivered, in that same atomic step, to every connection registered for every
   member of the channel object, the publisher's own connection excepted *)
Theorem conc_broadcast_complete cf es t ok hint c id :
  let s := cstate_after cf es in
  In (OAck c id A_BCAST) (snd (cstep cf s (ERun t ok hint))) ->
  exists k ch payload o, In (t, k) (tasks s) /\ t_conn k = Some c /\
    ((exists id', t_pc k = PStart (RBcast ch payload id')) \/ (exists id', t_pc k = PBcastGate ch payload id') \/ (exists id', t_pc k = PBcastWait ch o payload id')) /\
    In (t_me k) (members (objs (cg s) o)) /\
    forall u c', In u (members (objs (cg s) o)) -> allowed (racl (objs (cg s) o)) u = true -> In c' (reg (cg s) u) -> c' <> c ->
      In (OMsg c' ch (t_me k) payload) (snd (cstep cf s (ERun t ok hint))).
Proof.
  intros s. pose proof (conc_targets_cache cf es) as HT. cbv zeta in HT. fold s in HT. unfold cstep. cbv zeta.
  destruct (tlookup t (tasks s)) as [k|] eqn:Hk; [|intros []].
  pose proof (back_seg cf t (t_conn k) (t_me k) (cg s) (t_pc k) ok hint) as Hs.
  destruct (seg cf t (t_conn k) (t_me k) (cg s) (t_pc k) ok hint) as [[g' p] os]. cbn [snd] in *. intro H.
  rewrite Forall_forall in Hs. apply Hs in H. cbn [back_ok] in H. change (A_BCAST =? A_BCAST) with true in H. cbv iota in H.
  destruct H as (Hc & ch & payload & o & Hp & Hme & Hall).
  exists k, ch, payload, o. split; [apply tlookup_In; exact Hk|]. split; [exact Hc|]. split; [exact Hp|]. split; [exact Hme|].
  intros u c' Hu Ha. apply Hall. rewrite HT. apply filter_In. split; assumption.
Qed.

(* a known limitation: a session that signs in under a name whose previous session's clean-up is still in progress
   receives that session's channels' messages *)
Definition namesake_schedule : list ev :=
  [EIdentify 1 10 true; EIdentify 2 20 true;
   EReq 1 (RJoin 7 None 1); ERun 0 true 0; ERun 0 true 0;
   EReq 2 (RJoin 7 None 2); ERun 1 true 0; ERun 1 true 0;
   EReq 2 (RJoin 8 None 3); ERun 2 true 0; ERun 2 true 0;
   EHangup 2 8; ERun 3 true 0;
   EIdentify 3 20 true;
   EReq 1 (RBcast 7 5 4); ERun 4 true 0].
Definition cf_k := {| fwd_event := true; fwd_payload := false; ptr_check := true; idx_early := true; c_max_subs := 10; c_max_clients := 10 |}.

Theorem conc_namesake_inherits_during_cleanup_refuted :
  let r := crun cf_k cinit namesake_schedule in
  In (OMsg 3 7 10 5) (snd r) /\
  forallb (fun e => match e with EReq 3 _ => false | _ => true end) namesake_schedule = true /\
  exists o, cmap (cg (fst r)) 7 = Some o /\ covered (fst r) 20 7 o.
Proof.
  cbv zeta. split; [vm_compute; tauto|]. split; [vm_compute; reflexivity|].
  exists 0. split; [vm_compute; reflexivity|].
  exists 3, {| t_conn := None; t_me := 20; t_rest := [7]; t_pc := PLeaveN1 8 1 20 true 0 |}.
  split; [vm_compute; left; reflexivity|]. split; [reflexivity|]. split; [reflexivity|]. left. left. reflexivity.
Qed.

(* ---------- C17: the modulator's private push ---------- *)
Lemma nodup_app {A} (l1 l2 : list A) : NoDup l1 -> NoDup l2 -> (forall x, In x l1 -> ~ In x l2) -> NoDup (l1 ++ l2).
Proof.
  induction l1 as [|a r IH]; intros H1 H2 Hd; cbn [app]; [exact H2|]. inversion H1 as [|? ? Ha Hr]; subst. constructor.
  - rewrite in_app_iff. intros [H|H]; [exact (Ha H)|]. apply (Hd a); [left; reflexivity|exact H].
  - apply IH; [exact Hr|exact H2|]. intros x Hx. apply Hd. right. exact Hx.
Qed.

Lemma nodup_map {A B} (f : A -> B) l : (forall x y, f x = f y -> x = y) -> NoDup l -> NoDup (map f l).
Proof.
  intros Hf. induction l as [|a r IH]; intro H; cbn [map]; [constructor|]. inversion H as [|? ? Ha Hr]; subst. constructor; [|apply IH; exact Hr].
  intro X. apply in_map_iff in X. destruct X as (y&E&Hy). apply Hf in E. subst. exact (Ha Hy).
Qed.

Lemma nodup_filter {A} (f : A -> bool) l : NoDup l -> NoDup (filter f l).
Proof.
  induction l as [|a r IH]; intro H; cbn [filter]; [constructor|]. inversion H as [|? ? Ha Hr]; subst.
  destruct (f a); [|apply IH; exact Hr]. constructor; [|apply IH; exact Hr]. intro X. apply filter_In in X. apply Ha. apply X.
Qed.

Lemma nodup_flat_map {A B} (f : A -> list B) l :
  NoDup l -> (forall u, In u l -> NoDup (f u)) ->
  (forall u v x, In u l -> In v l -> In x (f u) -> In x (f v) -> u = v) -> NoDup (flat_map f l).
Proof.
  induction l as [|a r IH]; intros Hl Hf Hd; cbn [flat_map]; [constructor|]. inversion Hl as [|? ? Ha Hr]; subst.
  apply nodup_app.
  - apply Hf. left. reflexivity.
  - apply IH; [exact Hr| |].
    + intros u Hu. apply Hf. right. exact Hu.
    + intros u v x Hu Hv. apply Hd; right; assumption.
  - intros x Hx Hx'. apply in_flat_map in Hx'. destruct Hx' as (v&Hv&Hxv).
    assert (a = v) by (apply (Hd a v x); [left; reflexivity|right; exact Hv|exact Hx|exact Hxv]). subst. exact (Ha Hv).
Qed.

Lemma In_dedup x l : In x (dedup l) <-> In x l.
Proof.
  induction l as [|a r IH]; cbn [dedup In]; [tauto|]. rewrite In_del, IH. split; [tauto|].
  intros [H|H]; [left; exact H|]. destruct (N.eq_dec a x) as [E|E]; [left; exact E|right; split; [exact H|congruence]].
Qed.

Lemma NoDup_dedup l : NoDup (dedup l).
Proof.
  induction l as [|a r IH]; cbn [dedup]; constructor.
  - rewrite In_del. intros [_ H]. apply H. reflexivity.
  - unfold del. apply nodup_filter. exact IH.
Qed.

(* the router's table lists a connection at most once *)
Definition RegND (g : gst) : Prop := RegInv g /\ forall u, NoDup (reg g u).

Lemma regnd_cstep cf s e : RegND (cg s) -> RegND (cg (fst (cstep cf s e))).
Proof.
  intros [HR HN]. split; [apply reg_cstep; exact HR|].
  destruct e as [c u ex|c r|t ok hint|c hint|t|ts pl]; unfold cstep; cbv zeta; [ | | | | |exact HN].
  - destruct (cuser (cg s) c) eqn:Hn; [exact HN|]. destruct (ex && _); [exact HN|]. cbn [fst cg].
    unfold set_cuser, set_reg. cbn [reg]. intro u'. unfold upd. destruct (u' =? u); [|apply HN].
    apply nodup_app; [apply HN|constructor; [intros []|constructor]|].
    intros x Hx [<-|[]]. apply HR in Hx. congruence.
  - destruct (cuser (cg s) c); exact HN.
  - destruct (tlookup t (tasks s)) as [k|]; [|exact HN].
    pose proof (frame_seg cf t (t_conn k) (t_me k) (cg s) (t_pc k) ok hint) as [Hr _].
    destruct (seg cf t (t_conn k) (t_me k) (cg s) (t_pc k) ok hint) as [[g' p] os]. cbn [fst cg] in *. rewrite Hr. exact HN.
  - destruct (cuser (cg s) c) as [u|]; [|exact HN].
    destruct (fold_frame c (tasks s) (cg s)) as (_&_&Hr&_).
    match type of Hr with reg ?x = _ => set (g1 := x) in * end.
    assert (H1 : forall u', NoDup (upd (reg g1) u (del c (reg g1 u)) u')).
    { intro u'. unfold upd. rewrite Hr. destruct (u' =? u); [|apply HN]. unfold del. apply nodup_filter. apply HN. }
    destruct (isnil _); cbn [fst cg]; unfold set_idx, set_cuser, set_reg; cbn [reg]; exact H1.
  - destruct (tlookup t (tasks s)) as [k|]; [|exact HN]. destruct (t_conn k); [|exact HN]. cbn [fst cg].
    destruct (release_frame (cg s) k) as (_&_&Hr&_). rewrite Hr. exact HN.
Qed.

Lemma regnd_reach cf es : RegND (cg (cstate_after cf es)).
Proof.
  unfold cstate_after. apply (crun_inv cf (fun s => RegND (cg s))).
  - intros s e. apply regnd_cstep.
  - split; [|intro u; constructor]. intros c u. cbn. split; [contradiction|discriminate].
Qed.

(* C17 under interleaving: a private payload pushed by the modulator goes, at that very moment, to every connection
   registered for each named user, once each however often the user is named, to nobody else, and changes nothing *)
Theorem conc_direct_exact cf es targets payload :
  let s := cstate_after cf es in
  let r := cstep cf s (EDirect targets payload) in
  fst r = s /\
  (forall o, In o (snd r) -> exists c, o = ODirect c payload) /\
  (forall c, In (ODirect c payload) (snd r) <-> exists u, In u targets /\ In c (reg (cg s) u)) /\
  (forall c u, In u targets -> In c (reg (cg s) u) -> cuser (cg s) c = Some u) /\
  NoDup (snd r).
Proof.
  intros s. cbv zeta. destruct (regnd_reach cf es) as [HR HN]. fold s in HR, HN. cbn [cstep fst snd].
  split; [reflexivity|]. split; [intros o; apply direct_outs_only|]. unfold direct_outs. split; [|split].
  - intro c. rewrite in_flat_map. split.
    + intros (u&Hu&Hc). apply in_map_iff in Hc. destruct Hc as (c'&E&Hc). injection E as ->. exists u. rewrite In_dedup in Hu. auto.
    + intros (u&Hu&Hc). exists u. rewrite In_dedup. split; [exact Hu|]. apply in_map_iff. exists c. auto.
  - intros c u _ Hc. apply HR. exact Hc.
  - apply nodup_flat_map.
    + apply NoDup_dedup.
    + intros u _. apply nodup_map; [|apply HN]. intros x y E. injection E as ->. reflexivity.
    + intros u v x _ _ Hu Hv. apply in_map_iff in Hu. destruct Hu as (c&<-&Hu). apply in_map_iff in Hv. destruct Hv as (c'&E&Hv).
      injection E as ->. apply HR in Hu. apply HR in Hv. congruence.
Qed.
