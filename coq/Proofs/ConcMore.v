(* Interleaved model: completeness of an acknowledged BROADCAST (every schedule), and a witness of a known limitation. *)
From Coq Require Import List NArith Bool Lia.
From NW Require Import Model.Conc Proofs.ConcDefs Proofs.ConcSmall.
Import ListNotations.
Open Scope N_scope.

Lemma In_conns_of g us c c' u : In u us -> In c' (reg g u) -> c' <> c -> In c' (conns_of g us (Some c)).
Proof.
  intros Hu Hc Hn. unfold conns_of. apply in_flat_map. exists u. split; [exact Hu|].
  apply filter_In. split; [exact Hc|]. apply negb_true_iff. apply N.eqb_neq. exact Hn.
Qed.

(* no BROADCAST acknowledgement *)
Definition no_back (x : cout) : Prop :=
  match x with OAck _ _ k => if k =? A_BCAST then False else True | _ => True end.

(* a BROADCAST acknowledgement among the outputs [os] of a segment comes with the deliveries *)
Definition back_ok (g : gst) (tc : option conn) (me : user) (p : pc) (os : list cout) (x : cout) : Prop :=
  match x with
  | OAck c _ k =>
      if k =? A_BCAST then
        tc = Some c /\ exists ch payload o, bcast_pc p ch payload o /\ In me (members (objs g o)) /\
          forall u c', In u (targets (objs g o)) -> In c' (reg g u) -> c' <> c -> In (OMsg c' ch me payload) os
      else True
  | _ => True
  end.

Lemma no_back_ok g tc me p os x : no_back x -> back_ok g tc me p os x.
Proof. destruct x; cbn [no_back back_ok]; try (intros; exact I). destruct (kind =? A_BCAST); [contradiction|auto]. Qed.

Section Back.
  Variable cf : ccfg.
  Variables (t : tid) (tc : option conn) (me : user).

  Lemma back_bcast_read g p ch o payload id :
    bcast_pc p ch payload o ->
    Forall (back_ok g tc me p (snd (bcast_read tc me g ch o payload id))) (snd (bcast_read tc me g ch o payload id)).
  Proof.
    intro Hp. unfold bcast_read. cbv zeta. destruct (negb (mem me (members (objs g o)))) eqn:E; cbn [snd]; [outs idtac|].
    apply negb_false_iff in E. apply mem_In in E.
    destruct (negb (allowed (pacl (objs g o)) me)); cbn [snd]; [outs idtac|].
    apply Forall_app. split; [outs idtac|]. destruct tc as [c|]; [|constructor]. constructor; [|constructor].
    cbn [back_ok]. change (A_BCAST =? A_BCAST) with true. cbv iota. split; [reflexivity|].
    exists ch, payload, o. split; [exact Hp|]. split; [exact E|]. intros u c' Hu Hc Hn.
    apply in_or_app. left. apply in_map_iff. exists c'. split; [reflexivity|]. eapply In_conns_of; eassumption.
  Qed.

  Lemma back_bcast_lookup g p ch payload id :
    (forall o, bcast_pc p ch payload o) ->
    Forall (back_ok g tc me p (snd (bcast_lookup tc me g ch payload id))) (snd (bcast_lookup tc me g ch payload id)).
  Proof.
    intro Hp. unfold bcast_lookup. destruct (cmap g ch) as [o|]; [|outs idtac].
    destruct (lock_free g o); [apply back_bcast_read; apply Hp|outs idtac].
  Qed.

  Lemma nb_join_locked g ch o created ob id : Forall no_back (snd (join_locked cf t tc me g ch o created ob id)).
  Proof. unf_steps. repeat hd1; outs ltac:(unfold events). Qed.

  Lemma back_seg g p ok hint :
    Forall (back_ok g tc me p (snd (seg cf t tc me g p ok hint))) (snd (seg cf t tc me g p ok hint)).
  Proof.
    assert (nb : forall p' os l, Forall no_back l -> Forall (back_ok g tc me p' os) l)
      by (intros p' os l Hl; eapply Forall_impl; [intros x Hx; apply no_back_ok; exact Hx|exact Hl]).
    destruct p as [[]| | | | | | | | | | |]; cbn [seg];
      try solve [apply nb; unfold join_start; repeat hd1;
                 first [ apply nb_join_locked
                       | unfold leave_start, leave_locked, leave_after_n1, leave_after_n2, leave_end, join_finish, members_read,
                                set_acl_locked, get_acl_read; cbv beta iota zeta; repeat hd1; outs ltac:(unfold events) ]].
    - destruct (fwd_payload cf); [outs idtac|]. apply back_bcast_lookup. intros o0. left. eexists. reflexivity.
    - destruct ok; [|outs idtac]. apply back_bcast_lookup. intros o0. right. left. eexists. reflexivity.
    - destruct (lock_free g o); [|outs idtac]. apply back_bcast_read. right. right. eexists. reflexivity.
  Qed.
End Back.

(* C02: an acknowledged BROADCAST was delivered, in that same atomic step, to every connection registered for every
   member of the channel object, the publisher's own connection excepted *)
Theorem conc_broadcast_complete cf es t ok hint c id :
  let s := cstate_after cf es in
  In (OAck c id A_BCAST) (snd (cstep cf s (ERun t ok hint))) ->
  exists k ch payload o, In (t, k) (tasks s) /\ t_conn k = Some c /\
    ((exists id', t_pc k = PStart (RBcast ch payload id')) \/ (exists id', t_pc k = PBcastGate ch payload id') \/ (exists id', t_pc k = PBcastWait ch o payload id')) /\
    In (t_me k) (members (objs (cg s) o)) /\
    forall u c', In u (members (objs (cg s) o)) -> allowed (racl (objs (cg s) o)) u = true -> In c' (reg (cg s) u) -> c' <> c ->
      In (OMsg c' ch (t_me k) payload) (snd (cstep cf s (ERun t ok hint))).
Proof.
  intros s. pose proof (conc_targets_cache cf es) as HT. cbv zeta in HT. fold s in HT. unfold cstep. cbv zeta.
  destruct (tlookup t (tasks s)) as [k|] eqn:Hk; [|intros []].
  pose proof (back_seg cf t (t_conn k) (t_me k) (cg s) (t_pc k) ok hint) as Hs.
  destruct (seg cf t (t_conn k) (t_me k) (cg s) (t_pc k) ok hint) as [[g' p] os]. cbn [snd] in *. intro H.
  rewrite Forall_forall in Hs. apply Hs in H. cbn [back_ok] in H. change (A_BCAST =? A_BCAST) with true in H. cbv iota in H.
  destruct H as (Hc & ch & payload & o & Hp & Hme & Hall).
  exists k, ch, payload, o. split; [apply tlookup_In; exact Hk|]. split; [exact Hc|]. split; [exact Hp|]. split; [exact Hme|].
  intros u c' Hu Ha. apply Hall. rewrite HT. apply filter_In. split; assumption.
Qed.

(* a known limitation: a session that signs in under a name whose previous session's clean-up is still in progress
   receives that session's channels' messages *)
Definition namesake_schedule : list ev :=
  [EIdentify 1 10 true; EIdentify 2 20 true;
   EReq 1 (RJoin 7 None 1); ERun 0 true 0; ERun 0 true 0;
   EReq 2 (RJoin 7 None 2); ERun 1 true 0; ERun 1 true 0;
   EReq 2 (RJoin 8 None 3); ERun 2 true 0; ERun 2 true 0;
   EHangup 2 8; ERun 3 true 0;
   EIdentify 3 20 true;
   EReq 1 (RBcast 7 5 4); ERun 4 true 0].
Definition cf_k := {| fwd_event := true; fwd_payload := false; ptr_check := true; idx_early := true; c_max_subs := 10; c_max_clients := 10 |}.

Theorem conc_namesake_inherits_during_cleanup_refuted :
  let r := crun cf_k cinit namesake_schedule in
  In (OMsg 3 7 10 5) (snd r) /\
  forallb (fun e => match e with EReq 3 _ => false | _ => true end) namesake_schedule = true /\
  exists o, cmap (cg (fst r)) 7 = Some o /\ covered (fst r) 20 7 o.
Proof.
  cbv zeta. split; [vm_compute; tauto|]. split; [vm_compute; reflexivity|].
  exists 0. split; [vm_compute; reflexivity|].
  exists 3, {| t_conn := None; t_me := 20; t_rest := [7]; t_pc := PLeaveN1 8 1 20 true 0 |}.
  split; [vm_compute; left; reflexivity|]. split; [reflexivity|]. split; [reflexivity|]. left. left. reflexivity.
Qed.
