(* Proofs about the message-buffer budget (Model/WriteBudget.v):
     guarded protocol (after fix 6419742): under EVERY schedule — any connections, any batches, any set of connections whose
     writes never complete — no step ever has to wait for a message buffer;
     unguarded protocol (before): a witness schedule in which one connection whose write never completes leaves another
     connection, holding nothing, waiting for ever. *)
From NW Require Import Model.WriteBudget.
From Coq Require Import List Arith Bool Lia.
Import ListNotations.

Fixpoint firsts (s : wstate) : nat :=
  match s with [] => 0 | Some w :: r => (if w_first w then 1 else 0) + firsts r | None :: r => firsts r end.

Lemma in_use_split : forall s, in_use s = live s + firsts s + extras s.
Proof.
  induction s as [|[w|] r IH]; simpl; [reflexivity| |exact IH].
  destruct (w_first w); lia.
Qed.

Lemma firsts_le_live : forall s, firsts s <= live s.
Proof. induction s as [|[w|] r IH]; simpl; [lia| |exact IH]. destruct (w_first w); lia. Qed.

Lemma live_app : forall s w, live (s ++ [Some w]) = S (live s).
Proof. induction s as [|[x|] r IH]; intros w; simpl; [reflexivity| |]; rewrite IH; reflexivity. Qed.
Lemma firsts_app : forall s w, firsts (s ++ [Some w]) = firsts s + (if w_first w then 1 else 0).
Proof. induction s as [|[x|] r IH]; intros w; simpl; [lia| |]; rewrite IH; lia. Qed.
Lemma extras_app : forall s w, extras (s ++ [Some w]) = extras s + w_extras w.
Proof. induction s as [|[x|] r IH]; intros w; simpl; [lia| |]; rewrite IH; lia. Qed.

Definition b2n (b : bool) : nat := if b then 1 else 0.

Lemma get_slot_cons : forall o r i, get_slot (o :: r) (S i) = get_slot r i.
Proof. reflexivity. Qed.

(* replacing a live connection by another live one *)
Lemma set_some : forall s i w w', get_slot s i = Some w ->
  live (set_slot s i (Some w')) = live s /\
  firsts (set_slot s i (Some w')) + b2n (w_first w) = firsts s + b2n (w_first w') /\
  extras (set_slot s i (Some w')) + w_extras w = extras s + w_extras w'.
Proof.
  induction s as [|o r IH]; intros [|i] w w' H; try discriminate.
  - unfold get_slot in H. simpl in H. destruct o as [x|]; [|discriminate]. inversion H; subst x. simpl.
    unfold b2n. destruct (w_first w), (w_first w'); repeat split; lia.
  - rewrite get_slot_cons in H. destruct (IH i w w' H) as [A [B C]].
    destruct o as [x|]; simpl; repeat split; lia.
Qed.

(* removing a live connection *)
Lemma set_none : forall s i w, get_slot s i = Some w ->
  S (live (set_slot s i None)) = live s /\
  firsts (set_slot s i None) + b2n (w_first w) = firsts s /\
  extras (set_slot s i None) + w_extras w = extras s.
Proof.
  induction s as [|o r IH]; intros [|i] w H; try discriminate.
  - unfold get_slot in H. simpl in H. destruct o as [x|]; [|discriminate]. inversion H; subst x. simpl.
    unfold b2n. destruct (w_first w); repeat split; lia.
  - rewrite get_slot_cons in H. destruct (IH i w H) as [A [B C]].
    destruct o as [x|]; simpl; repeat split; lia.
Qed.

Lemma get_slot_first_counts : forall s i w, get_slot s i = Some w -> b2n (w_first w) <= firsts s /\ 1 <= live s /\ firsts s + b2n (negb (w_first w)) <= live s.
Proof.
  induction s as [|o r IH]; intros [|i] w H; try discriminate.
  - unfold get_slot in H. simpl in H. destruct o as [x|]; [|discriminate]. inversion H; subst x. simpl.
    pose proof (firsts_le_live r). unfold b2n. destruct (w_first w); simpl; repeat split; lia.
  - rewrite get_slot_cons in H. destruct (IH i w H) as [A [B C]].
    destruct o as [x|]; simpl; [destruct (w_first x)|]; repeat split; lia.
Qed.

Definition WInv (c : wcfg) (s : wstate) : Prop := live s <= maxc c /\ extras s <= headroom c.

Theorem guarded_step : forall c s e, guarded c = true -> WInv c s ->
  match wstep c s e with
  | WOk s' => WInv c s'
  | WNoop => True
  | WWaits => False
  end.
Proof.
  intros c s e G [Hl Hx]. pose proof (in_use_split s) as Hu. pose proof (firsts_le_live s) as Hf.
  unfold wstep, available, capacity. destruct e as [|i|i|i|i].
  - destruct (live s <? maxc c) eqn:E; [|exact I]. apply Nat.ltb_lt in E.
    destruct (1 <=? 2 * maxc c + headroom c - in_use s) eqn:A.
    + unfold WInv. split; [rewrite live_app; lia | rewrite extras_app; simpl; lia].
    + apply Nat.leb_gt in A. lia.
  - destruct (get_slot s i) as [w|] eqn:Hg; [|exact I].
    destruct (w_first w) eqn:F; [exact I|].
    destruct (get_slot_first_counts s i w Hg) as [_ [_ Hc]]. rewrite F in Hc. simpl in Hc.
    destruct (1 <=? 2 * maxc c + headroom c - in_use s) eqn:A.
    + destruct (set_some s i w {| w_first := true; w_extras := w_extras w |} Hg) as [A1 [A2 A3]]. simpl in A3.
      unfold WInv. split; lia.
    + apply Nat.leb_gt in A. lia.
  - destruct (get_slot s i) as [w|] eqn:Hg; [|exact I].
    destruct (w_first w) eqn:F; cbn [negb]; [|exact I]. rewrite G. cbn [andb].
    destruct (extras s <? headroom c) eqn:P; cbn [negb]; [|exact I]. apply Nat.ltb_lt in P.
    destruct (1 <=? 2 * maxc c + headroom c - in_use s) eqn:A.
    + destruct (set_some s i w {| w_first := true; w_extras := S (w_extras w) |} Hg) as [A1 [A2 A3]]. simpl in A3.
      unfold WInv. split; lia.
    + apply Nat.leb_gt in A. lia.
  - destruct (get_slot s i) as [w|] eqn:Hg; [|exact I].
    destruct (set_some s i w {| w_first := false; w_extras := 0 |} Hg) as [A1 [A2 A3]]. simpl in A3. unfold WInv. split; lia.
  - destruct (get_slot s i) as [w|] eqn:Hg; [|exact I].
    destruct (set_none s i w Hg) as [A1 [A2 A3]]. unfold WInv. split; lia.
Qed.

(* MAIN THEOREM (guarded protocol): whatever the schedule — which connections connect, batch, flush, never flush, drop —
   no step ever waits for a message buffer: the pool cannot be exhausted by connections whose writes do not complete *)
Theorem guarded_never_waits : forall c evs, guarded c = true -> snd (wrun c [] evs) = None.
Proof.
  intros c evs G.
  assert (forall evs s, WInv c s -> snd (wrun c s evs) = None) as H.
  { induction evs0 as [|e r IH]; intros s HI; simpl; [reflexivity|].
    pose proof (guarded_step c s e G HI) as St. destruct (wstep c s e); [apply IH; exact St | apply IH; exact HI | contradiction]. }
  apply H. split; simpl; lia.
Qed.

(* the invariant in every reachable state: the buffers in use never exceed the capacity minus what is still guaranteed *)
Theorem guarded_reachable_bound : forall c evs, guarded c = true ->
  let s := fst (wrun c [] evs) in in_use s <= 2 * live s + headroom c /\ live s <= maxc c.
Proof.
  intros c evs G.
  assert (forall evs s, WInv c s -> WInv c (fst (wrun c s evs))) as H.
  { induction evs0 as [|e r IH]; intros s HI; simpl; [exact HI|].
    pose proof (guarded_step c s e G HI) as St. destruct (wstep c s e); [apply IH; exact St | apply IH; exact HI | contradiction]. }
  simpl. destruct (H evs [] (conj (Nat.le_0_l _) (Nat.le_0_l _))) as [A B].
  pose proof (in_use_split (fst (wrun c [] evs))). pose proof (firsts_le_live (fst (wrun c [] evs))). lia.
Qed.

(* the unguarded protocol (before the fix): connection 0 builds a batch that empties the pool and its write never
   completes; connection 1, holding only its read buffer, has to wait for its first write buffer — and so does every
   new connection for its read buffer *)
Definition old_cfg : wcfg := {| maxc := 3; headroom := 2; guarded := false |}.
Definition old_witness : list wev := [WConnect; WConnect; WFirst 0; WExtra 0; WExtra 0; WExtra 0; WExtra 0; WExtra 0].

Theorem unguarded_starves :
  let s := fst (wrun old_cfg [] old_witness) in
  snd (wrun old_cfg [] old_witness) = None /\
  get_slot s 1 = Some {| w_first := false; w_extras := 0 |} /\
  wstep old_cfg s (WFirst 1) = WWaits /\ wstep old_cfg s WConnect = WWaits /\
  (* the same schedule under the guarded protocol leaves room for both *)
  (let c' := {| maxc := 3; headroom := 2; guarded := true |} in
   let s' := fst (wrun c' [] old_witness) in
   (exists s1, wstep c' s' (WFirst 1) = WOk s1) /\ (exists s2, wstep c' s' WConnect = WOk s2)).
Proof.
  vm_compute. repeat split; eexists; reflexivity.
Qed.

(* only the stalled connection's own flush (or end) gets the unguarded state moving again: every acquiring step waits or
   does not apply *)
Theorem unguarded_stuck_until_flush : forall e,
  let s := fst (wrun old_cfg [] old_witness) in
  match e with WFlush _ | WDrop _ => True | _ => match wstep old_cfg s e with WOk _ => False | _ => True end end.
Proof.
  intros e. destruct e as [|i|i|i|i]; try exact I.
  - destruct i as [|[|[|i]]]; vm_compute; try exact I; destruct i; exact I.
  - destruct i as [|[|[|i]]]; vm_compute; try exact I; destruct i; exact I.
Qed.

(* connection life cycles: whatever happened before (batches under way, writes that never completed), once every
   connection has ended nothing is in use any more — in either protocol *)
Lemma no_live_no_use : forall s, live s = 0 -> in_use s = 0.
Proof.
  induction s as [|[w|] r IH]; simpl; intros H; [reflexivity|discriminate|exact (IH H)].
Qed.

Theorem all_ended_all_returned : forall c evs,
  let s := fst (wrun c [] evs) in live s = 0 -> in_use s = 0 /\ available c s = capacity c.
Proof.
  intros c evs s H. pose proof (no_live_no_use s H) as U. split; [exact U|]. unfold available. rewrite U. apply Nat.sub_0_r.
Qed.

(* and a connection that ends gives back exactly what it held *)
Theorem drop_returns_its_buffers : forall c s i w s',
  get_slot s i = Some w -> wstep c s (WDrop i) = WOk s' -> in_use s' + conn_use (Some w) = in_use s.
Proof.
  intros c s i w s' Hg Hs. unfold wstep in Hs. rewrite Hg in Hs. inversion Hs; subst s'.
  destruct (set_none s i w Hg) as [A [B C]].
  rewrite (in_use_split s), (in_use_split (set_slot s i None)). simpl. unfold b2n in B. destruct (w_first w); lia.
Qed.

Print Assumptions all_ended_all_returned.
Print Assumptions drop_returns_its_buffers.

Print Assumptions guarded_never_waits.
Print Assumptions guarded_reachable_bound.
Print Assumptions unguarded_starves.
Print Assumptions unguarded_stuck_until_flush.
