(* Theorems about the modulator links (Model/Link.v): C06 (no link acts before its handshake succeeds),
   C08/C09 (the client maps only the right reply to acceptance; the link is transparent and fail-closed),
   C17 (M2S direct). *)
From NW Require Import Base.Bytes Model.SchemaTypes Gen.Schema Gen.Errors Model.Codec Model.MsgInfo Model.Pool Model.Framing Model.Ids Model.Server Model.Link.

(* ------------------------------------------------------------------ predicates *)
Definition quiet (os : list lout) : Prop :=
  forall o, In o os -> match o with LMod _ | LRoute _ _ => False | _ => True end.

Definition good_connect (k : lkind) (cfg : lcfg) (m : msg) : bool :=
  is_kind m (match k with KS2m => "S2M_CONNECT" | KM2s => "M2S_CONNECT" end)
  && (get_num m "version" =? 1) && secret_ok cfg m.

Definition frame_of (k : lkind) := match k with KS2m => s2m_frame | KM2s => m2s_frame end.

Definition connect_name (k : lkind) : string := match k with KS2m => "S2M_CONNECT" | KM2s => "M2S_CONNECT" end.
Definition ack_name (k : lkind) : string := match k with KS2m => "S2M_CONNECT_ACK" | KM2s => "M2S_CONNECT_ACK" end.
Definition connect_ack (k : lkind) := match k with KS2m => s2m_connect_ack | KM2s => m2s_connect_ack end.

Definition acting (o : lout) : Prop := match o with LMod _ | LRoute _ _ => True | _ => False end.

Lemma quiet_nil : quiet []. Proof. intros o []. Qed.
Lemma quiet_app a b : quiet a -> quiet b -> quiet (a ++ b).
Proof. intros Ha Hb o Ho. apply in_app_or in Ho as [Ho|Ho]; [apply Ha | apply Hb]; exact Ho. Qed.
Lemma quiet_one o : ~ acting o -> quiet [o].
Proof. intros H x [<-|[]]. destruct o; cbn in *; tauto. Qed.
Lemma quiet_not_acting os o : quiet os -> In o os -> ~ acting o.
Proof. intros H Ho. specialize (H o Ho). destruct o; cbn; tauto. Qed.
Lemma quiet_send m p : quiet [LSend m p]. Proof. apply quiet_one. cbn. tauto. Qed.
Lemma quiet_close m : quiet [LClose m]. Proof. apply quiet_one. cbn. tauto. Qed.
Lemma quiet_drop : quiet [LDrop]. Proof. apply quiet_one. cbn. tauto. Qed.

(* ------------------------------------------------------------------ characterising lemmas on the concrete schema *)
Section Chars.
  Variables (id n : N) (oid : option N) (s s' s'' : str) (b b' : bool) (os os' : option str) (ob : option bool)
            (v1 v2 v3 v4 v5 v6 : fval).

  Lemma rec_unexpected : is_recoverable "UNEXPECTED_MESSAGE" = false. Proof. reflexivity. Qed.
  Lemma rec_version : is_recoverable "UNSUPPORTED_PROTOCOL_VERSION" = false. Proof. reflexivity. Qed.
  Lemma rec_unauthorized : is_recoverable "UNAUTHORIZED" = false. Proof. reflexivity. Qed.
  Lemma rec_bad_request : is_recoverable "BAD_REQUEST" = false. Proof. reflexivity. Qed.

  Lemma kind_err_msg (r : string) : is_kind (err_msg oid r) "ERROR" = true. Proof. reflexivity. Qed.
  Lemma corr_err_msg (r : string) : correlation_id schema (err_msg oid r) = oid. Proof. reflexivity. Qed.
  Lemma err_not_fbp_ack (r : string) : is_kind (err_msg oid r) "S2M_FORWARD_BROADCAST_PAYLOAD_ACK" = false.
  Proof. reflexivity. Qed.
  Lemma err_not_auth_ack (r : string) : is_kind (err_msg oid r) "S2M_AUTH_ACK" = false.
  Proof. reflexivity. Qed.

  Lemma kind_s2m_connect_ack cfg hb : is_kind (s2m_connect_ack cfg hb) "S2M_CONNECT_ACK" = true.
  Proof. reflexivity. Qed.
  Lemma kind_m2s_connect_ack cfg hb : is_kind (m2s_connect_ack cfg hb) "M2S_CONNECT_ACK" = true.
  Proof. reflexivity. Qed.
  Lemma corr_s2m_connect_ack cfg hb : correlation_id schema (s2m_connect_ack cfg hb) = None.
  Proof. reflexivity. Qed.
  Lemma corr_m2s_connect_ack cfg hb : correlation_id schema (m2s_connect_ack cfg hb) = None.
  Proof. reflexivity. Qed.

  (* the FBP request built by the client *)
  Definition fbp_req := build "S2M_FORWARD_BROADCAST_PAYLOAD"
                              [(bs "id", VNum id); (bs "from", VStr s); (bs "channel", VStr s'); (bs "length", VNum n)].
  Lemma fbp_req_not_pong : is_kind fbp_req "PONG" = false. Proof. reflexivity. Qed.
  Lemma fbp_req_not_auth : is_kind fbp_req "S2M_AUTH" = false. Proof. reflexivity. Qed.
  Lemma fbp_req_not_direct : is_kind fbp_req "S2M_MOD_DIRECT" = false. Proof. reflexivity. Qed.
  Lemma fbp_req_kind : is_kind fbp_req "S2M_FORWARD_BROADCAST_PAYLOAD" = true. Proof. reflexivity. Qed.
  Lemma fbp_req_id : get_num fbp_req "id" = id. Proof. reflexivity. Qed.
  Lemma fbp_req_from : get_str fbp_req "from" = s. Proof. reflexivity. Qed.
  Lemma fbp_req_channel : get_str fbp_req "channel" = s'. Proof. reflexivity. Qed.

  (* the AUTH request built by the client *)
  Definition auth_req := build "S2M_AUTH" [(bs "id", VNum id); (bs "token", VStr s)].
  Lemma auth_req_not_pong : is_kind auth_req "PONG" = false. Proof. reflexivity. Qed.
  Lemma auth_req_kind : is_kind auth_req "S2M_AUTH" = true. Proof. reflexivity. Qed.
  Lemma auth_req_id : get_num auth_req "id" = id. Proof. reflexivity. Qed.
  Lemma auth_req_token : get_str auth_req "token" = s. Proof. reflexivity. Qed.

  (* the replies of the dispatcher *)
  Lemma fbp_ack_kind : is_kind (fbp_ack id b b' n) "S2M_FORWARD_BROADCAST_PAYLOAD_ACK" = true.
  Proof. reflexivity. Qed.
  Lemma fbp_ack_corr : correlation_id schema (fbp_ack id b b' n) = Some id. Proof. reflexivity. Qed.
  Lemma fbp_ack_valid : get_bool (fbp_ack id b b' n) "valid" = b. Proof. reflexivity. Qed.

  Definition auth_ack_ok := build "S2M_AUTH_ACK" [(bs "id", VNum id); (bs "username", VOStr (Some s)); (bs "succeeded", VBool true)].
  Definition auth_ack_cont := build "S2M_AUTH_ACK" [(bs "id", VNum id); (bs "challenge", VOStr (Some s)); (bs "succeeded", VBool false)].
  Definition auth_ack_fail := build "S2M_AUTH_ACK" [(bs "id", VNum id); (bs "succeeded", VBool false)].
  Lemma auth_ack_ok_kind : is_kind auth_ack_ok "S2M_AUTH_ACK" = true. Proof. reflexivity. Qed.
  Lemma auth_ack_cont_kind : is_kind auth_ack_cont "S2M_AUTH_ACK" = true. Proof. reflexivity. Qed.
  Lemma auth_ack_fail_kind : is_kind auth_ack_fail "S2M_AUTH_ACK" = true. Proof. reflexivity. Qed.
  Lemma auth_ack_ok_corr : correlation_id schema auth_ack_ok = Some id. Proof. reflexivity. Qed.
  Lemma auth_ack_cont_corr : correlation_id schema auth_ack_cont = Some id. Proof. reflexivity. Qed.
  Lemma auth_ack_fail_corr : correlation_id schema auth_ack_fail = Some id. Proof. reflexivity. Qed.
  Lemma auth_ack_ok_succ : get_bool auth_ack_ok "succeeded" = true. Proof. reflexivity. Qed.
  Lemma auth_ack_cont_succ : get_bool auth_ack_cont "succeeded" = false. Proof. reflexivity. Qed.
  Lemma auth_ack_fail_succ : get_bool auth_ack_fail "succeeded" = false. Proof. reflexivity. Qed.
  Lemma auth_ack_ok_user : get_ostr auth_ack_ok "username" = Some s. Proof. reflexivity. Qed.
  Lemma auth_ack_cont_chal : get_ostr auth_ack_cont "challenge" = Some s. Proof. reflexivity. Qed.
  Lemma auth_ack_fail_chal : get_ostr auth_ack_fail "challenge" = None. Proof. reflexivity. Qed.
End Chars.

Lemma is_kind_eq m name : is_kind m name = true -> kind_name m = bs name.
Proof. unfold is_kind. apply list_eqb_eq. Qed.

Lemma direct_not_pong m : is_kind m "M2S_MOD_DIRECT" = true -> is_kind m "PONG" = false.
Proof. intro H. apply is_kind_eq in H. unfold is_kind. rewrite H. reflexivity. Qed.

(* ------------------------------------------------------------------ the context combinators *)
Lemma lclose_open e c : lclosed c = false ->
  lclose e c = {| lph := lph c; lscript := lscript c; louts := louts c ++ [LClose e]; lclosed := true |}.
Proof. intro H. unfold lclose. rewrite H. reflexivity. Qed.
Lemma ldrop_open c : lclosed c = false ->
  ldrop c = {| lph := lph c; lscript := lscript c; louts := louts c ++ [LDrop]; lclosed := true |}.
Proof. intro H. unfold ldrop. rewrite H. reflexivity. Qed.
Lemma lclose_closed e c : lclosed c = true -> lclose e c = c.
Proof. intro H. unfold lclose. rewrite H. reflexivity. Qed.
Lemma ldrop_closed c : lclosed c = true -> ldrop c = c.
Proof. intro H. unfold ldrop. rewrite H. reflexivity. Qed.

Lemma lph_lclose e c : lph (lclose e c) = lph c.
Proof. unfold lclose. destruct (lclosed c); reflexivity. Qed.
Lemma lph_ldrop c : lph (ldrop c) = lph c.
Proof. unfold ldrop. destruct (lclosed c); reflexivity. Qed.
Lemma lph_lemit o c : lph (lemit o c) = lph c. Proof. reflexivity. Qed.
Lemma lph_lnext c : lph (snd (lnext c)) = lph c.
Proof. unfold lnext. destruct (lscript c); reflexivity. Qed.
Lemma louts_lnext c : louts (snd (lnext c)) = louts c.
Proof. unfold lnext. destruct (lscript c); reflexivity. Qed.
Lemma lclosed_lnext c : lclosed (snd (lnext c)) = lclosed c.
Proof. unfold lnext. destruct (lscript c); reflexivity. Qed.

Lemma lph_lnotify e c : lph (lnotify_error e c) = lph c.
Proof.
  unfold lnotify_error. destruct e as [i r|].
  - destruct (is_recoverable r); [reflexivity | apply lph_lclose].
  - apply lph_lclose.
Qed.

(* what a reply turns into *)
Lemma lreply_cases cfg m p c :
  lreply cfg m p c = lemit (LSend m p) c
  \/ (exists i, correlation_id schema m = Some i /\ lreply cfg m p c = lemit (LSend (err_msg (Some i) "RESPONSE_TOO_LARGE") p) c)
  \/ lreply cfg m p c = ldrop c.
Proof.
  unfold lreply. destruct (serialize schema m _); auto.
  destruct (correlation_id schema m) as [i|]; auto.
  destruct (serialize schema _ _); auto.
  right. left. exists i. auto.
Qed.

Lemma lph_lreply cfg m p c : lph (lreply cfg m p c) = lph c.
Proof.
  destruct (lreply_cases cfg m p c) as [H|[(i & _ & H)|H]]; rewrite H; try reflexivity. apply lph_ldrop.
Qed.

(* every combinator only appends quiet outputs, except the explicit LMod / LRoute emissions *)
Definition qext (c c' : lctx) : Prop := exists os, louts c' = louts c ++ os /\ quiet os.

Lemma qext_refl c : qext c c.
Proof. exists []. rewrite app_nil_r. split; [reflexivity | apply quiet_nil]. Qed.
Lemma qext_trans a b c : qext a b -> qext b c -> qext a c.
Proof.
  intros (o1 & H1 & Q1) (o2 & H2 & Q2). exists (o1 ++ o2). rewrite H2, H1, app_assoc. split; [reflexivity|].
  apply quiet_app; assumption.
Qed.
Lemma qext_lclose e c : qext c (lclose e c).
Proof.
  unfold lclose. destruct (lclosed c); [apply qext_refl|]. exists [LClose e]. split; [reflexivity | apply quiet_close].
Qed.
Lemma qext_ldrop c : qext c (ldrop c).
Proof.
  unfold ldrop. destruct (lclosed c); [apply qext_refl|]. exists [LDrop]. split; [reflexivity | apply quiet_drop].
Qed.
Lemma qext_send m p c : qext c (lemit (LSend m p) c).
Proof. exists [LSend m p]. split; [reflexivity | apply quiet_send]. Qed.
Lemma qext_lnotify e c : qext c (lnotify_error e c).
Proof.
  unfold lnotify_error. destruct e as [i r|].
  - destruct (is_recoverable r); [apply qext_send | apply qext_lclose].
  - apply qext_lclose.
Qed.
Lemma qext_lreply cfg m p c : qext c (lreply cfg m p c).
Proof.
  destruct (lreply_cases cfg m p c) as [H|[(i & _ & H)|H]]; rewrite H; [apply qext_send | apply qext_send | apply qext_ldrop].
Qed.
Lemma qext_lset_phase ph c c' : qext c c' -> qext c (lset_phase ph c').
Proof. intros (os & H & Q). exists os. split; assumption. Qed.

Lemma lnotify_fatal i r c : is_recoverable r = false -> lclosed c = false ->
  lnotify_error (PErr i r) c =
  {| lph := lph c; lscript := lscript c; louts := louts c ++ [LClose (err_msg i r)]; lclosed := true |}.
Proof. intros Hr Hc. unfold lnotify_error. rewrite Hr. apply lclose_open. exact Hc. Qed.

(* ------------------------------------------------------------------ C06 *)
(* 1 *)
Theorem link_preauth_step k cfg m p c :
  lph c = LConnecting -> lclosed c = false ->
  let c' := frame_of k cfg m p c in
  (exists os, louts c' = louts c ++ os /\ quiet os) /\
  (good_connect k cfg m = false ->
     lph c' = LConnecting /\ lclosed c' = true /\ exists e, louts c' = louts c ++ [LClose e] /\ is_kind e "ERROR" = true) /\
  (good_connect k cfg m = true -> exists hb, lph c' = LAuth hb).
Proof.
  intros Hph Hcl c'.
  assert (Hfatal : forall r, is_recoverable r = false ->
            qext c (lnotify_error (PErr None r) c) /\
            (lph (lnotify_error (PErr None r) c) = LConnecting /\ lclosed (lnotify_error (PErr None r) c) = true /\
             exists e, louts (lnotify_error (PErr None r) c) = louts c ++ [LClose e] /\ is_kind e "ERROR" = true)).
  { intros r Hr. split; [apply qext_lnotify|]. rewrite (lnotify_fatal None r c Hr Hcl). cbn [lph lclosed louts].
    split; [exact Hph|]. split; [reflexivity|]. exists (err_msg None r). split; [reflexivity | apply kind_err_msg]. }
  subst c'. unfold good_connect.
  destruct k; unfold frame_of, s2m_frame, m2s_frame; rewrite Hcl, Hph.
  - destruct (is_kind m "S2M_CONNECT"); cbn [andb].
    + destruct (get_num m "version" =? 1); cbn [andb negb].
      * destruct (secret_ok cfg m); cbn [negb].
        -- split; [apply qext_lset_phase, qext_lreply|]. split; [discriminate|]. intros _. eexists. reflexivity.
        -- destruct (Hfatal _ rec_unauthorized) as [Q R]. split; [exact Q|]. split; [intros _; exact R | discriminate].
      * destruct (Hfatal _ rec_version) as [Q R]. split; [exact Q|]. split; [intros _; exact R | discriminate].
    + destruct (Hfatal _ rec_unexpected) as [Q R]. split; [exact Q|]. split; [intros _; exact R | discriminate].
  - destruct (is_kind m "M2S_CONNECT"); cbn [andb].
    + destruct (get_num m "version" =? 1); cbn [andb negb].
      * destruct (secret_ok cfg m); cbn [negb].
        -- split; [apply qext_lset_phase, qext_lreply|]. split; [discriminate|]. intros _. eexists. reflexivity.
        -- destruct (Hfatal _ rec_unauthorized) as [Q R]. split; [exact Q|]. split; [intros _; exact R | discriminate].
      * destruct (Hfatal _ rec_version) as [Q R]. split; [exact Q|]. split; [intros _; exact R | discriminate].
    + destruct (Hfatal _ rec_unexpected) as [Q R]. split; [exact Q|]. split; [intros _; exact R | discriminate].
Qed.

(* phase preserved, outputs only appended *)
Definition pres (c c' : lctx) : Prop := lph c' = lph c /\ exists os, louts c' = louts c ++ os.

Lemma pres_refl c : pres c c.
Proof. split; [reflexivity|]. exists []. symmetry. apply app_nil_r. Qed.
Lemma pres_trans a b c : pres a b -> pres b c -> pres a c.
Proof.
  intros (P1 & o1 & H1) (P2 & o2 & H2). split; [congruence|]. exists (o1 ++ o2). rewrite H2, H1, app_assoc. reflexivity.
Qed.
Lemma pres_of_qext c c' : lph c' = lph c -> qext c c' -> pres c c'.
Proof. intros P (os & H & _). split; [exact P|]. exists os. exact H. Qed.
Lemma pres_lemit o a c : pres a c -> pres a (lemit o c).
Proof. intro H. eapply pres_trans; [exact H|]. split; [reflexivity|]. exists [o]. reflexivity. Qed.
Lemma pres_lclose e a c : pres a c -> pres a (lclose e c).
Proof. intro H. eapply pres_trans; [exact H|]. apply pres_of_qext; [apply lph_lclose | apply qext_lclose]. Qed.
Lemma pres_ldrop a c : pres a c -> pres a (ldrop c).
Proof. intro H. eapply pres_trans; [exact H|]. apply pres_of_qext; [apply lph_ldrop | apply qext_ldrop]. Qed.
Lemma pres_lnotify e a c : pres a c -> pres a (lnotify_error e c).
Proof. intro H. eapply pres_trans; [exact H|]. apply pres_of_qext; [apply lph_lnotify | apply qext_lnotify]. Qed.
Lemma pres_lreply cfg m p a c : pres a c -> pres a (lreply cfg m p c).
Proof. intro H. eapply pres_trans; [exact H|]. apply pres_of_qext; [apply lph_lreply | apply qext_lreply]. Qed.
Lemma pres_lnext a c : pres a c -> pres a (snd (lnext c)).
Proof.
  intro H. eapply pres_trans; [exact H|]. split; [apply lph_lnext|]. exists []. rewrite louts_lnext. symmetry. apply app_nil_r.
Qed.

Ltac split_lnext :=
  match goal with
  | |- context [lnext ?c0] =>
      let o := fresh "o" in let c1 := fresh "c1" in let E := fresh "E" in
      destruct (lnext c0) as [o c1] eqn:E;
      assert (c1 = snd (lnext c0)) by (rewrite E; reflexivity); subst c1; clear E
  end.

Lemma pres_s2m_request cfg m p c : pres c (s2m_request cfg m p c).
Proof.
  unfold s2m_request.
  destruct (is_kind m "S2M_AUTH").
  { destruct (negb (lop_auth cfg)); [apply pres_lnotify, pres_refl|].
    split_lnext. destruct (auth_ack _ _); [apply pres_lreply | apply pres_lnotify]; apply pres_lnext, pres_lemit, pres_refl. }
  destruct (is_kind m "S2M_MOD_DIRECT").
  { destruct (negb (lop_spp cfg)); [apply pres_lnotify, pres_refl|].
    split_lnext. destruct o; first [apply pres_lreply | apply pres_lnotify]; apply pres_lnext, pres_lemit, pres_refl. }
  destruct (is_kind m "S2M_FORWARD_BROADCAST_PAYLOAD").
  { destruct (negb (lop_fbp cfg)); [apply pres_lnotify, pres_refl|].
    destruct (nid_parse _); [|apply pres_lnotify, pres_refl].
    split_lnext. destruct o; first [apply pres_lreply | apply pres_lnotify]; apply pres_lnext, pres_lemit, pres_refl. }
  destruct (is_kind m "S2M_FORWARD_EVENT").
  { destruct (negb (lop_fev cfg)); [apply pres_lnotify, pres_refl|].
    destruct (negb (event_kind_ok _)); [apply pres_lnotify, pres_refl|].
    split_lnext. destruct o; first [apply pres_lreply | apply pres_lnotify]; apply pres_lnext, pres_lemit, pres_refl. }
  apply pres_lnotify, pres_refl.
Qed.

Lemma pres_frame_auth k cfg m p c hb : lph c = LAuth hb -> pres c (frame_of k cfg m p c).
Proof.
  intro Hph. destruct k; unfold frame_of, s2m_frame, m2s_frame; (destruct (lclosed c); [apply pres_refl|]); rewrite Hph.
  - destruct (is_kind m "PONG"); [apply pres_refl|].
    destruct (l_max_inflight cfg =? 0); [apply pres_ldrop, pres_refl|]. apply pres_s2m_request.
  - destruct (is_kind m "PONG"); [apply pres_refl|].
    destruct (l_max_inflight cfg =? 0); [apply pres_ldrop, pres_refl|].
    destruct (is_kind m "M2S_MOD_DIRECT"); [|apply pres_lnotify, pres_refl].
    destruct p; [apply pres_lreply, pres_lemit, pres_refl | apply pres_lnotify, pres_refl].
Qed.

(* 3 *)
Theorem link_closed_is_final k cfg m p c : lclosed c = true -> frame_of k cfg m p c = c.
Proof. intro H. destruct k; unfold frame_of, s2m_frame, m2s_frame; rewrite H; reflexivity. Qed.

Lemma link_item_frame k cfg m p c : link_item k cfg (Dispatch m p) c = frame_of k cfg m p c.
Proof. destruct k; reflexivity. Qed.

Theorem link_item_closed_final k cfg it c : lclosed c = true -> link_item k cfg it c = c.
Proof.
  intro H. destruct it; [rewrite link_item_frame; apply link_closed_is_final; exact H | ..];
    cbn [link_item]; try (apply lclose_closed; exact H); try (apply ldrop_closed; exact H); reflexivity.
Qed.

Corollary link_item_closed_final_outs k cfg it c :
  lclosed c = true -> louts (link_item k cfg it c) = louts c /\ lclosed (link_item k cfg it c) = true.
Proof. intro H. rewrite (link_item_closed_final k cfg it c H). split; [reflexivity | exact H]. Qed.

(* an item of the read path other than a dispatched frame only ever closes the link (quietly) *)
Lemma link_item_nonframe k cfg it c :
  (forall m p, it <> Dispatch m p) -> lph (link_item k cfg it c) = lph c /\ qext c (link_item k cfg it c).
Proof.
  intro H. destruct it; [exfalso; eapply H; reflexivity | ..]; cbn [link_item];
    try (split; [apply lph_lclose | apply qext_lclose]); try (split; [apply lph_ldrop | apply qext_ldrop]);
    try (split; [reflexivity | apply qext_refl]).
Qed.

(* 2 *)
Theorem link_phase_monotone k cfg m p c hb : lph c = LAuth hb -> lph (frame_of k cfg m p c) = LAuth hb.
Proof. intro H. destruct (pres_frame_auth k cfg m p c hb H) as [P _]. congruence. Qed.

Theorem link_item_phase_monotone k cfg it c hb : lph c = LAuth hb -> lph (link_item k cfg it c) = LAuth hb.
Proof.
  intro H. destruct it; [rewrite link_item_frame; apply link_phase_monotone; exact H | ..];
    match goal with |- lph (link_item _ _ ?it _) = _ =>
      destruct (link_item_nonframe k cfg it c) as [P _]; [discriminate | congruence] end.
Qed.

(* every item only appends *)
Lemma link_item_extends k cfg it c : exists os, louts (link_item k cfg it c) = louts c ++ os.
Proof.
  destruct it;
    try (match goal with |- exists _, louts (link_item _ _ ?it _) = _ =>
           destruct (link_item_nonframe k cfg it c) as [_ (os & H & _)]; [discriminate | exists os; exact H] end).
  rewrite link_item_frame. destruct (lclosed c) eqn:Hc.
  { rewrite link_closed_is_final by exact Hc. exists []. symmetry. apply app_nil_r. }
  destruct (lph c) as [|hb] eqn:Hph.
  - destruct (link_preauth_step k cfg m payload c Hph Hc) as [(os & H & _) _]. exists os. exact H.
  - destruct (pres_frame_auth k cfg m payload c hb Hph) as [_ H]. exact H.
Qed.

(* the good handshake, precisely: the ACK is written, or (if it cannot be serialized) the link ends silently *)
Lemma link_preauth_good k cfg m p c :
  lph c = LConnecting -> lclosed c = false -> good_connect k cfg m = true ->
  let c' := frame_of k cfg m p c in
  exists hb, lph c' = LAuth hb /\
    ((louts c' = louts c ++ [LSend (connect_ack k cfg hb) None] /\ lclosed c' = false) \/
     (louts c' = louts c ++ [LDrop] /\ lclosed c' = true)).
Proof.
  intros Hph Hcl Hg c'. subst c'. unfold good_connect in Hg.
  apply andb_true_iff in Hg as [Hg Hs]. apply andb_true_iff in Hg as [Hk Hv].
  destruct k; unfold frame_of, s2m_frame, m2s_frame; rewrite Hcl, Hph, Hk, Hv, Hs; cbn [negb];
    eexists; (split; [reflexivity|]); cbn [lset_phase louts lclosed connect_ack].
  - destruct (lreply_cases cfg (s2m_connect_ack cfg (lnegotiate_hb cfg (get_num m "heartbeat_interval"))) None c)
      as [H|[(i & Hi & _)|H]]; [| rewrite corr_s2m_connect_ack in Hi; discriminate |]; rewrite H.
    + left. split; [reflexivity | exact Hcl].
    + right. rewrite (ldrop_open c Hcl). split; reflexivity.
  - destruct (lreply_cases cfg (m2s_connect_ack cfg (lnegotiate_hb cfg (get_num m "heartbeat_interval"))) None c)
      as [H|[(i & Hi & _)|H]]; [| rewrite corr_m2s_connect_ack in Hi; discriminate |]; rewrite H.
    + left. split; [reflexivity | exact Hcl].
    + right. rewrite (ldrop_open c Hcl). split; reflexivity.
Qed.

Lemma kind_connect_ack k cfg hb : is_kind (connect_ack k cfg hb) (ack_name k) = true.
Proof. destruct k; [apply kind_s2m_connect_ack | apply kind_m2s_connect_ack]. Qed.

(* the handshake invariant of a link's output history *)
Definition has_ack (k : lkind) (os : list lout) : Prop :=
  exists a pre1 pre2, os = pre1 ++ LSend a None :: pre2 /\ is_kind a (ack_name k) = true /\ quiet pre1.

Definition hs_inv (k : lkind) (c : lctx) : Prop :=
  (quiet (louts c) /\ (lph c = LConnecting \/ lclosed c = true))
  \/ (has_ack k (louts c) /\ exists hb, lph c = LAuth hb).

Lemma hs_inv_item k cfg it c : hs_inv k c -> hs_inv k (link_item k cfg it c).
Proof.
  intros [[Q HA]|[(a & pre1 & pre2 & E & Ka & Q) (hb & Hph)]].
  - destruct (lclosed c) eqn:Hcl.
    { rewrite link_item_closed_final by exact Hcl. left. split; [exact Q | right; exact Hcl]. }
    destruct HA as [Hph|HA]; [|discriminate].
    destruct it;
      try (match goal with |- hs_inv _ (link_item _ _ ?it _) =>
             destruct (link_item_nonframe k cfg it c) as [P (os & H & Qo)]; [discriminate|];
             left; rewrite H, P; split; [apply quiet_app; assumption | left; exact Hph] end).
    rewrite link_item_frame.
    destruct (good_connect k cfg m) eqn:Hg.
    + destruct (link_preauth_good k cfg m payload c Hph Hcl Hg) as (hb & P & [[H Hc]|[H Hc]]).
      * right. split; [|exists hb; exact P]. rewrite H.
        exists (connect_ack k cfg hb), (louts c), []. split; [reflexivity|]. split; [apply kind_connect_ack | exact Q].
      * left. rewrite H. split; [apply quiet_app; [exact Q | apply quiet_drop] | right; exact Hc].
    + destruct (link_preauth_step k cfg m payload c Hph Hcl) as [(os & H & Qo) [Hbad _]].
      destruct (Hbad Hg) as (P & Hc & _). left. rewrite H. split; [apply quiet_app; assumption | right; exact Hc].
  - right. split; [|exists hb; apply link_item_phase_monotone; exact Hph].
    destruct (link_item_extends k cfg it c) as [os H]. rewrite H, E.
    exists a, pre1, (pre2 ++ os). split; [|split; assumption]. rewrite <- app_assoc. reflexivity.
Qed.

Lemma hs_inv_fold k cfg its c :
  hs_inv k c -> hs_inv k (fold_left (fun acc it => link_item k cfg it acc) its c).
Proof.
  revert c. induction its as [|it its IH]; intros c H; cbn [fold_left]; [exact H|]. apply IH, hs_inv_item, H.
Qed.

Lemma hs_inv_init k c : lph c = LConnecting -> louts c = [] -> hs_inv k c.
Proof. intros P O. left. rewrite O. split; [apply quiet_nil | left; exact P]. Qed.

(* an acting output cannot sit before or at the first element that is not acting *)
Lemma split_after_quiet (pre1 pre2 pre post : list lout) (x o : lout) :
  pre1 ++ x :: pre2 = pre ++ o :: post -> quiet pre1 -> ~ acting x -> acting o ->
  exists pre2', pre = pre1 ++ x :: pre2'.
Proof.
  revert pre. induction pre1 as [|y pre1 IH]; intros pre E Q Nx Ao.
  - destruct pre as [|z pre]; cbn in E.
    + injection E as -> _. contradiction.
    + injection E as -> _. exists pre. reflexivity.
  - destruct pre as [|z pre]; cbn in E.
    + injection E as -> _. exfalso. apply (quiet_not_acting (o :: pre1) o Q); [left; reflexivity | exact Ao].
    + injection E as -> E. destruct (IH pre E) as [pre2' ->]; [|exact Nx | exact Ao |].
      * intros w Hw. apply Q. right. exact Hw.
      * exists pre2'. reflexivity.
Qed.

(* 4 *)
Theorem link_stream_no_act_before_handshake k cfg its c :
  lph c = LConnecting -> louts c = [] ->
  let c' := fold_left (fun acc it => link_item k cfg it acc) its c in
  forall pre o post, louts c' = pre ++ o :: post ->
    match o with LMod _ | LRoute _ _ => True | _ => False end ->
    exists a pre1 pre2, pre = pre1 ++ LSend a None :: pre2 /\ is_kind a (ack_name k) = true.
Proof.
  intros Hph Ho c' pre o post E Ao.
  pose proof (hs_inv_fold k cfg its c (hs_inv_init k c Hph Ho)) as Hinv. fold c' in Hinv.
  destruct Hinv as [[Q _]|[(a & pre1 & pre2 & E' & Ka & Q) _]].
  - exfalso. apply (quiet_not_acting (louts c') o Q); [rewrite E; apply in_elt | exact Ao].
  - rewrite E' in E. destruct (split_after_quiet pre1 pre2 pre post (LSend a None) o E Q) as [pre2' ->];
      [cbn; tauto | exact Ao |]. exists a, pre1, pre2'. split; [reflexivity | exact Ka].
Qed.

Theorem link_bytes_preauth_quiet k cfg bytes script :
  let '(ph', cl', os) := link_bytes k cfg LConnecting false bytes script in
  ph' = LConnecting -> quiet os.
Proof.
  unfold link_bytes. cbn [negb]. intro P.
  match type of P with lph (fold_left _ ?its ?c) = _ =>
    destruct (hs_inv_fold k cfg its c (hs_inv_init k c eq_refl eq_refl)) as [[Q _]|[_ (hb & Hph)]] end.
  - exact Q.
  - rewrite Hph in P. discriminate.
Qed.

(* 5 *)
Theorem link_wrong_secret_refused k cfg m p c :
  l_secret cfg <> [] -> lph c = LConnecting -> lclosed c = false ->
  is_kind m (connect_name k) = true -> get_num m "version" = 1 ->
  get_ostr m "secret" <> Some (l_secret cfg) ->
  let c' := frame_of k cfg m p c in
  lclosed c' = true /\ lph c' = LConnecting /\ louts c' = louts c ++ [LClose (err_msg None "UNAUTHORIZED")].
Proof.
  intros Hs Hph Hcl Hk Hv Hne c'. subst c'.
  assert (Hso : secret_ok cfg m = false).
  { unfold secret_ok. destruct (l_secret cfg) as [|x s] eqn:Es; [contradiction|].
    destruct (get_ostr m "secret") as [s'|]; [|reflexivity].
    destruct (list_eqb (x :: s) s') eqn:El; [|reflexivity]. apply list_eqb_eq in El. subst s'. contradiction. }
  destruct k; unfold connect_name in Hk; unfold frame_of, s2m_frame, m2s_frame;
    rewrite Hcl, Hph, Hk, Hv, Hso; cbn [N.eqb Pos.eqb negb];
    rewrite (lnotify_fatal None "UNAUTHORIZED" c rec_unauthorized Hcl); cbn [lph lclosed louts];
    (split; [reflexivity|]); (split; [exact Hph | reflexivity]).
Qed.

(* ------------------------------------------------------------------ C08 / C09: the client's reply mapping *)
(* 6 *)
Theorem c_fbp_accept_only_valid d r :
  (c_fbp d r = RValid \/ exists a, c_fbp d r = RAltered a) ->
  d = true /\ exists m p, r = CrMsg m p /\ is_kind m "S2M_FORWARD_BROADCAST_PAYLOAD_ACK" = true /\
    get_bool m "valid" = true /\ (forall a, c_fbp d r = RAltered a -> p = Some a) /\ (c_fbp d r = RValid -> p = None).
Proof.
  unfold c_fbp. destruct d; cbn [negb]; [|intros [H|[a H]]; discriminate].
  destruct r as [m p|]; [|intros [H|[a H]]; discriminate].
  destruct (is_kind m "S2M_FORWARD_BROADCAST_PAYLOAD_ACK") eqn:Hk; [|intros [H|[a H]]; discriminate].
  destruct (get_bool m "valid") eqn:Hv; [|intros [H|[a H]]; discriminate].
  intros _. split; [reflexivity|]. exists m, p. repeat split; try assumption.
  - intros a H. destruct p; [injection H as ->; reflexivity | discriminate].
  - intro H. destruct p; [discriminate | reflexivity].
Qed.

(* 7 *)
Theorem c_auth_success_only d r u :
  c_auth d r = RAuthSuccess u ->
  d = true /\ exists m p, r = CrMsg m p /\ is_kind m "S2M_AUTH_ACK" = true /\ get_bool m "succeeded" = true /\
    get_ostr m "username" = Some u.
Proof.
  unfold c_auth. destruct d; cbn [negb]; [|discriminate].
  destruct r as [m p|]; [|discriminate].
  destruct (is_kind m "S2M_AUTH_ACK") eqn:Hk; [|discriminate].
  destruct (get_bool m "succeeded") eqn:Hv.
  - destruct (get_ostr m "username") as [u'|] eqn:Hu; [|discriminate]. intro H. injection H as ->.
    split; [reflexivity|]. exists m, p. repeat split; assumption.
  - destruct (get_ostr m "challenge"); discriminate.
Qed.

Theorem c_auth_continue_only d r ch :
  c_auth d r = RAuthContinue ch ->
  d = true /\ exists m p, r = CrMsg m p /\ is_kind m "S2M_AUTH_ACK" = true /\ get_bool m "succeeded" = false /\
    get_ostr m "challenge" = Some ch.
Proof.
  unfold c_auth. destruct d; cbn [negb]; [|discriminate].
  destruct r as [m p|]; [|discriminate].
  destruct (is_kind m "S2M_AUTH_ACK") eqn:Hk; [|discriminate].
  destruct (get_bool m "succeeded") eqn:Hv.
  - destruct (get_ostr m "username"); discriminate.
  - destruct (get_ostr m "challenge") as [c'|] eqn:Hu; [|discriminate]. intro H. injection H as ->.
    split; [reflexivity|]. exists m, p. repeat split; assumption.
Qed.

(* 8 *)
Theorem outcome_of_success_only r u : outcome_of r = MAuthSuccess u -> r = RAuthSuccess u.
Proof. destruct r; cbn; intro H; try discriminate. injection H as ->. reflexivity. Qed.

Theorem outcome_of_accept_only r :
  (outcome_of r = MOk -> r = RValid \/ r = REventOk) /\ (forall a, outcome_of r = MAltered a -> r = RAltered a).
Proof.
  split.
  - destruct r; cbn; intro H; try discriminate; auto.
  - intros a. destruct r; cbn; intro H; try discriminate. injection H as ->. reflexivity.
Qed.

(* 9 *)
Theorem reply_for_correlated id os m p :
  reply_for id os = CrMsg m p ->
  correlation_id schema m = Some id /\ (In (LSend m p) os \/ (p = None /\ In (LClose m) os)).
Proof.
  induction os as [|o os IH]; cbn [reply_for]; [discriminate|].
  assert (Hrec : reply_for id os = CrMsg m p ->
                 correlation_id schema m = Some id /\ (In (LSend m p) (o :: os) \/ (p = None /\ In (LClose m) (o :: os)))).
  { intro H. destruct (IH H) as [C [I|[P I]]]; (split; [exact C|]); [left | right; split; [exact P|]]; right; exact I. }
  destruct o as [m' p'|m'| | |]; try exact Hrec.
  - destruct (correlation_id schema m') as [i|] eqn:Hc; [|exact Hrec].
    destruct (i =? id) eqn:Hi; [|exact Hrec]. apply N.eqb_eq in Hi. subst i.
    intro H. injection H as -> ->. split; [exact Hc|]. left. left. reflexivity.
  - destruct (correlation_id schema m') as [i|] eqn:Hc; [|exact Hrec].
    destruct (i =? id) eqn:Hi; [|exact Hrec]. apply N.eqb_eq in Hi. subst i.
    intro H. injection H as -> <-. split; [exact Hc|]. right. split; [reflexivity|]. left. reflexivity.
Qed.

(* ------------------------------------------------------------------ one delegated call through an established link *)
(* Nid::from_str followed by Display gives the string back *)
Lemma find_index_at_split l k : find_index (N.eqb AT) l = Some k -> l = firstn k l ++ [AT] ++ skipn (S k) l.
Proof.
  revert k. induction l as [|x l IH]; intros k; cbn [find_index]; [discriminate|].
  destruct (AT =? x) eqn:Hx.
  - intro H. injection H as <-. apply N.eqb_eq in Hx. subst x. reflexivity.
  - destruct (find_index (N.eqb AT) l) as [k'|]; cbn [option_map]; [|discriminate].
    intro H. injection H as <-. cbn [firstn skipn app]. f_equal. apply (IH k' eq_refl).
Qed.

Lemma nid_parse_full f n : nid_parse f = Some n -> nid_full n = f.
Proof.
  unfold nid_parse. destruct (find_index (N.eqb AT) f) as [k|] eqn:Hk.
  - destruct (firstn k f) as [|x u] eqn:Hu; [discriminate|].
    destruct (nid_validate _ _); [|discriminate]. intro H. injection H as <-.
    unfold nid_full. cbn [nu nd]. rewrite <- Hu. symmetry. apply find_index_at_split. exact Hk.
  - destruct (nid_validate _ _); [|discriminate]. intro H. injection H as <-. reflexivity.
Qed.

(* an established link, nothing in flight *)
Definition est (hb : N) (sc : list moutcome) (os : list lout) : lctx :=
  {| lph := LAuth hb; lscript := sc; louts := os; lclosed := false |}.

Definition fits (cfg : lcfg) (m : msg) : bool :=
  match serialize schema m (N.to_nat (l_max_message cfg)) with SerOk _ => true | _ => false end.

Lemma lreply_fits cfg m p c : fits cfg m = true -> lreply cfg m p c = lemit (LSend m p) c.
Proof. unfold fits, lreply. destruct (serialize schema m _); [reflexivity | discriminate | discriminate]. Qed.

(* the reply the dispatcher builds for a forwarded broadcast payload, per outcome *)
Definition fbp_reply (id : N) (o : moutcome) : option (msg * option (list N)) :=
  match o with
  | MErr => None
  | MInvalid => Some (fbp_ack id false false 0, None)
  | MAltered a => Some (fbp_ack id true true (N.of_nat (length a)), Some a)
  | _ => Some (fbp_ack id true false 0, None)
  end.
Definition fbp_ack_fits (cfg : lcfg) (id : N) (o : moutcome) : bool :=
  match fbp_reply id o with Some (a, _) => fits cfg a | None => true end.
Definition auth_ack_fits (cfg : lcfg) (id : N) (o : moutcome) : bool :=
  match auth_ack id o with Some a => fits cfg a | None => true end.

Definition fbp_expected (o : moutcome) : cresult :=
  match o with MErr => RErr | MInvalid => RInvalid | MAltered a => RAltered a | _ => RValid end.
Definition auth_expected (o : moutcome) : cresult :=
  match o with
  | MAuthSuccess u => RAuthSuccess u | MAuthContinue c => RAuthContinue c | MAuthFail => RAuthFail | _ => RErr
  end.

Lemma via_link_fbp_eq cfg hb id f ch p o :
  lop_fbp cfg = true -> l_max_inflight cfg <> 0 ->
  via_link cfg hb id (McFbp f ch p) o =
  let c2 := match nid_parse f with
            | None => lnotify_error (PErr (Some id) "BAD_REQUEST") (est hb [o] [])
            | Some n =>
                let c1 := est hb [] [LMod (McFbp (nid_full n) ch p)] in
                match fbp_reply id o with
                | Some (a, pl) => lreply cfg a pl c1
                | None => lnotify_error PInternal c1
                end
            end in
  (louts c2, c_fbp true (reply_for id (louts c2))).
Proof.
  intros Hop Hin. apply N.eqb_neq in Hin.
  unfold via_link, declared_for, req_frame, map_reply. rewrite Hop. cbn [negb].
  fold (fbp_req id (N.of_nat (length p)) f ch).
  unfold s2m_frame. cbn [lclosed lph]. rewrite fbp_req_not_pong, Hin.
  unfold s2m_request. rewrite fbp_req_not_auth, fbp_req_not_direct, fbp_req_kind, Hop, fbp_req_from, fbp_req_channel, fbp_req_id.
  cbn [negb]. fold (est hb [o] []).
  destruct (nid_parse f) as [n|]; [|reflexivity].
  unfold lnext, lemit, est. cbn [lscript lph louts lclosed app].
  destruct o; reflexivity.
Qed.

Lemma via_link_auth_eq cfg hb id t o :
  lop_auth cfg = true -> l_max_inflight cfg <> 0 ->
  via_link cfg hb id (McAuth t) o =
  let c1 := est hb [] [LMod (McAuth t)] in
  let c2 := match auth_ack id o with Some a => lreply cfg a None c1 | None => lnotify_error PInternal c1 end in
  (louts c2, c_auth true (reply_for id (louts c2))).
Proof.
  intros Hop Hin. apply N.eqb_neq in Hin.
  unfold via_link, declared_for, req_frame, map_reply. rewrite Hop. cbn [negb].
  fold (auth_req id t).
  unfold s2m_frame. cbn [lclosed lph]. rewrite auth_req_not_pong, Hin.
  unfold s2m_request. rewrite auth_req_kind, Hop, auth_req_token, auth_req_id.
  cbn [negb]. unfold lnext, lemit, est. cbn [lscript lph louts lclosed app]. reflexivity.
Qed.

(* what the client correlates after one reply on a link that so far only saw the modulator call *)
Lemma reply_for_lreply cfg hb id m p x :
  correlation_id schema m = Some id ->
  let r := reply_for id (louts (lreply cfg m p (est hb [] [LMod x]))) in
  r = CrMsg m p \/ r = CrMsg (err_msg (Some id) "RESPONSE_TOO_LARGE") p \/ r = CrFail.
Proof.
  intros Hc r. subst r.
  destruct (lreply_cases cfg m p (est hb [] [LMod x])) as [H|[(i & Hi & H)|H]]; rewrite H.
  - left. unfold lemit, est. cbn [louts app reply_for]. rewrite Hc, N.eqb_refl. reflexivity.
  - right. left. rewrite Hc in Hi. injection Hi as <-.
    unfold lemit, est. cbn [louts app reply_for]. rewrite corr_err_msg, N.eqb_refl. reflexivity.
  - right. right. rewrite ldrop_open by reflexivity. reflexivity.
Qed.

Lemma reply_for_internal hb id x : reply_for id (louts (lnotify_error PInternal (est hb [] [LMod x]))) = CrFail.
Proof.
  unfold lnotify_error. rewrite lclose_open by reflexivity. unfold est. cbn [louts app reply_for].
  rewrite corr_err_msg. reflexivity.
Qed.

Lemma c_fbp_err i r p : c_fbp true (CrMsg (err_msg i r) p) = RErr.
Proof. unfold c_fbp. cbn [negb]. rewrite err_not_fbp_ack. reflexivity. Qed.
Lemma c_auth_err i r p : c_auth true (CrMsg (err_msg i r) p) = RErr.
Proof. unfold c_auth. cbn [negb]. rewrite err_not_auth_ack. reflexivity. Qed.
Lemma c_fbp_ack id v alt len p :
  c_fbp true (CrMsg (fbp_ack id v alt len) p) =
  if v then match p with Some a => RAltered a | None => RValid end else RInvalid.
Proof. unfold c_fbp. cbn [negb]. rewrite fbp_ack_kind, fbp_ack_valid. reflexivity. Qed.

Lemma fbp_reply_expected id o a pl :
  fbp_reply id o = Some (a, pl) -> correlation_id schema a = Some id /\ c_fbp true (CrMsg a pl) = fbp_expected o.
Proof.
  destruct o; cbn [fbp_reply fbp_expected]; intro H; try discriminate; injection H as <- <-;
    (split; [apply fbp_ack_corr | apply c_fbp_ack]).
Qed.

Lemma auth_ack_expected id o a :
  auth_ack id o = Some a -> correlation_id schema a = Some id /\ c_auth true (CrMsg a None) = auth_expected o.
Proof.
  destruct o; cbn [auth_ack auth_expected]; intro H; try discriminate; injection H as <-; unfold c_auth; cbn [negb].
  - fold (auth_ack_ok id u). rewrite auth_ack_ok_kind, auth_ack_ok_succ, auth_ack_ok_user. split; [apply auth_ack_ok_corr | reflexivity].
  - fold (auth_ack_cont id c). rewrite auth_ack_cont_kind, auth_ack_cont_succ, auth_ack_cont_chal. split; [apply auth_ack_cont_corr | reflexivity].
  - fold (auth_ack_fail id). rewrite auth_ack_fail_kind, auth_ack_fail_succ, auth_ack_fail_chal. split; [apply auth_ack_fail_corr | reflexivity].
Qed.

Lemma auth_ack_none_expected id o : auth_ack id o = None -> auth_expected o = RErr.
Proof. destruct o; cbn; intro H; try discriminate; reflexivity. Qed.

(* 10 *)
Theorem via_link_fbp_transparent cfg hb id f ch p o n :
  lop_fbp cfg = true -> l_max_inflight cfg <> 0 ->
  nid_parse f = Some n -> nid_full n = f ->
  fbp_ack_fits cfg id o = true ->
  snd (via_link cfg hb id (McFbp f ch p) o) =
    match o with
    | MErr => RErr
    | MInvalid => RInvalid
    | MAltered a => RAltered a
    | _ => RValid
    end
  /\ In (LMod (McFbp f ch p)) (fst (via_link cfg hb id (McFbp f ch p) o)).
Proof.
  intros Hop Hin Hp Hf Hfit. rewrite (via_link_fbp_eq cfg hb id f ch p o Hop Hin), Hp, Hf. cbn zeta. cbn [fst snd].
  change (match o with MErr => RErr | MInvalid => RInvalid | MAltered a => RAltered a | _ => RValid end) with (fbp_expected o).
  unfold fbp_ack_fits in Hfit. destruct (fbp_reply id o) as [[a pl]|] eqn:Hr.
  - destruct (fbp_reply_expected id o a pl Hr) as [Hc He].
    rewrite (lreply_fits cfg a pl _ Hfit). unfold lemit, est. cbn [louts app reply_for]. rewrite Hc, N.eqb_refl, He.
    split; [reflexivity | left; reflexivity].
  - rewrite reply_for_internal. destruct o; try discriminate. split; [reflexivity|].
    unfold lnotify_error. rewrite lclose_open by reflexivity. left. reflexivity.
Qed.

(* the same without the canonical-NID hypothesis, which follows from the parse *)
Corollary via_link_fbp_transparent' cfg hb id f ch p o n :
  lop_fbp cfg = true -> l_max_inflight cfg <> 0 -> nid_parse f = Some n -> fbp_ack_fits cfg id o = true ->
  snd (via_link cfg hb id (McFbp f ch p) o) = fbp_expected o
  /\ In (LMod (McFbp f ch p)) (fst (via_link cfg hb id (McFbp f ch p) o)).
Proof.
  intros Hop Hin Hp Hfit. apply (via_link_fbp_transparent cfg hb id f ch p o n Hop Hin Hp (nid_parse_full f n Hp) Hfit).
Qed.

(* 11 *)
Theorem via_link_auth_transparent cfg hb id t o :
  lop_auth cfg = true -> l_max_inflight cfg <> 0 ->
  auth_ack_fits cfg id o = true ->
  snd (via_link cfg hb id (McAuth t) o) =
    match o with
    | MAuthSuccess u => RAuthSuccess u
    | MAuthContinue c => RAuthContinue c
    | MAuthFail => RAuthFail
    | _ => RErr
    end
  /\ In (LMod (McAuth t)) (fst (via_link cfg hb id (McAuth t) o)).
Proof.
  intros Hop Hin Hfit. rewrite (via_link_auth_eq cfg hb id t o Hop Hin). cbn zeta. cbn [fst snd].
  change (match o with MAuthSuccess u => RAuthSuccess u | MAuthContinue c => RAuthContinue c | MAuthFail => RAuthFail
                     | _ => RErr end) with (auth_expected o).
  unfold auth_ack_fits in Hfit. destruct (auth_ack id o) as [a|] eqn:Hr.
  - destruct (auth_ack_expected id o a Hr) as [Hc He].
    rewrite (lreply_fits cfg a None _ Hfit). unfold lemit, est. cbn [louts app reply_for]. rewrite Hc, N.eqb_refl, He.
    split; [reflexivity | left; reflexivity].
  - rewrite reply_for_internal, (auth_ack_none_expected id o Hr). split; [reflexivity|].
    unfold lnotify_error. rewrite lclose_open by reflexivity. left. reflexivity.
Qed.

(* 12 *)
Theorem via_link_undeclared_silent cfg hb id call o :
  declared_for cfg call = false -> via_link cfg hb id call o = ([], RErr).
Proof. intro H. unfold via_link. rewrite H. reflexivity. Qed.

(* 13: whatever the link does (undeclared operation, in-flight gate, bad sender, oversize or unserializable reply),
   the client's result is either the faithful image of the modulator's outcome or an error *)
Lemma via_link_gate_closed cfg hb id call o :
  l_max_inflight cfg = 0 -> is_kind (fst (req_frame id call)) "PONG" = false ->
  snd (via_link cfg hb id call o) = RErr.
Proof.
  intros Hin Hk. unfold via_link. destruct (declared_for cfg call) eqn:Hd; cbn [negb]; [|reflexivity].
  destruct (req_frame id call) as [m p]. cbn [fst] in Hk.
  unfold s2m_frame. cbn [lclosed lph]. rewrite Hk, Hin. cbn [N.eqb].
  rewrite ldrop_open by reflexivity. cbn [snd louts app reply_for].
  unfold map_reply, declared_for in *. destruct call; rewrite Hd; reflexivity.
Qed.

Lemma via_link_fbp_result cfg hb id f ch p o :
  snd (via_link cfg hb id (McFbp f ch p) o) = RErr \/ snd (via_link cfg hb id (McFbp f ch p) o) = fbp_expected o.
Proof.
  destruct (lop_fbp cfg) eqn:Hop; [|left; rewrite via_link_undeclared_silent by exact Hop; reflexivity].
  destruct (N.eq_dec (l_max_inflight cfg) 0) as [Hin|Hin].
  { left. apply via_link_gate_closed; [exact Hin|]. apply fbp_req_not_pong. }
  rewrite (via_link_fbp_eq cfg hb id f ch p o Hop Hin). cbn zeta. cbn [snd].
  destruct (nid_parse f) as [n|].
  - destruct (fbp_reply id o) as [[a pl]|] eqn:Hr.
    + destruct (fbp_reply_expected id o a pl Hr) as [Hc He].
      destruct (reply_for_lreply cfg hb id a pl (McFbp (nid_full n) ch p) Hc) as [H|[H|H]]; rewrite H.
      * right. exact He.
      * left. apply c_fbp_err.
      * left. reflexivity.
    + left. rewrite reply_for_internal. reflexivity.
  - left. rewrite lnotify_fatal by reflexivity. unfold est. cbn [louts app reply_for].
    rewrite corr_err_msg, N.eqb_refl. apply c_fbp_err.
Qed.

Lemma via_link_auth_result cfg hb id t o :
  snd (via_link cfg hb id (McAuth t) o) = RErr \/ snd (via_link cfg hb id (McAuth t) o) = auth_expected o.
Proof.
  destruct (lop_auth cfg) eqn:Hop; [|left; rewrite via_link_undeclared_silent by exact Hop; reflexivity].
  destruct (N.eq_dec (l_max_inflight cfg) 0) as [Hin|Hin].
  { left. apply via_link_gate_closed; [exact Hin|]. apply auth_req_not_pong. }
  rewrite (via_link_auth_eq cfg hb id t o Hop Hin). cbn zeta. cbn [snd].
  destruct (auth_ack id o) as [a|] eqn:Hr.
  - destruct (auth_ack_expected id o a Hr) as [Hc He].
    destruct (reply_for_lreply cfg hb id a None (McAuth t) Hc) as [H|[H|H]]; rewrite H.
    + right. exact He.
    + left. apply c_auth_err.
    + left. reflexivity.
  - left. rewrite reply_for_internal. reflexivity.
Qed.

Theorem via_link_fail_closed cfg hb id o :
  (forall t u, outcome_of (snd (via_link cfg hb id (McAuth t) o)) = MAuthSuccess u -> o = MAuthSuccess u) /\
  (forall f ch p, outcome_of (snd (via_link cfg hb id (McFbp f ch p) o)) = MOk ->
                  o <> MErr /\ o <> MInvalid /\ forall a, o <> MAltered a) /\
  (forall f ch p a, outcome_of (snd (via_link cfg hb id (McFbp f ch p) o)) = MAltered a -> o = MAltered a).
Proof.
  split; [|split].
  - intros t u. destruct (via_link_auth_result cfg hb id t o) as [H|H]; rewrite H; [discriminate|].
    destruct o; cbn; intro E; try discriminate. injection E as ->. reflexivity.
  - intros f ch p. destruct (via_link_fbp_result cfg hb id f ch p o) as [H|H]; rewrite H; [discriminate|].
    destruct o; cbn; intro E; try discriminate; (split; [discriminate|]); (split; [discriminate|]); intros a; discriminate.
  - intros f ch p a. destruct (via_link_fbp_result cfg hb id f ch p o) as [H|H]; rewrite H; [discriminate|].
    destruct o; cbn; intro E; try discriminate. injection E as ->. reflexivity.
Qed.

(* ------------------------------------------------------------------ C17 *)
(* 14 *)
Theorem m2s_direct_exact cfg hb m b c :
  lph c = LAuth hb -> lclosed c = false -> l_max_inflight cfg <> 0 -> is_kind m "M2S_MOD_DIRECT" = true ->
  exists tail, louts (m2s_frame cfg m (Some b) c) = louts c ++ LRoute (get_vec m "targets") b :: tail /\ quiet tail.
Proof.
  intros Hph Hcl Hin Hk. apply N.eqb_neq in Hin.
  unfold m2s_frame. rewrite Hcl, Hph, (direct_not_pong m Hk), Hin, Hk.
  destruct (qext_lreply cfg (build "M2S_MOD_DIRECT_ACK" [(bs "id", VNum (get_num m "id"))]) None
                        (lemit (LRoute (get_vec m "targets") b) c)) as (os & H & Q).
  exists os. rewrite H. cbn [lemit louts]. rewrite <- app_assoc. split; [reflexivity | exact Q].
Qed.

(* ------------------------------------------------------------------ non-vacuity: concrete witnesses for the hypotheses *)
Module Witness.
  Definition ex_cfg : lcfg :=
    {| l_secret := bs "s3cret"; l_keepalive := 30; l_min_keepalive := 5; l_max_message := 1024; l_max_payload := 65536;
       l_max_inflight := 8; l_max_conns := 4; l_budget := 1048576; l_proto := bs "app/1";
       lop_auth := true; lop_fbp := true; lop_fev := true; lop_spp := true; lop_rpp := true |}.
  Definition ex_cfg_noauth : lcfg :=
    {| l_secret := []; l_keepalive := 30; l_min_keepalive := 5; l_max_message := 1024; l_max_payload := 65536;
       l_max_inflight := 8; l_max_conns := 4; l_budget := 1048576; l_proto := bs "app/1";
       lop_auth := false; lop_fbp := true; lop_fev := false; lop_spp := false; lop_rpp := false |}.
  Definition ex_connect (k : lkind) (secret : option str) : msg :=
    build (connect_name k) [(bs "version", VNum 1); (bs "secret", VOStr secret); (bs "heartbeat_interval", VNum 10)].
  Definition wire (m : msg) : list N := match serialize schema m 1024 with SerOk l => l | _ => [] end.
  Definition ex_c0 : lctx := {| lph := LConnecting; lscript := []; louts := []; lclosed := false |}.
  Definition ex_fbp_req : msg := fst (req_frame 7 (McFbp (bs "alice@localhost") (bs "!room@localhost") [1; 2; 3])).
  Definition ex_direct : msg :=
    build "M2S_MOD_DIRECT" [(bs "id", VNum 9); (bs "targets", VVec [bs "bob"; bs "carol"]); (bs "length", VNum 2)].

  (* 1: a connecting, open context; both a good and a bad CONNECT exist, for both kinds of link; a good one opens the link *)
  Example w_preauth_ctx : lph ex_c0 = LConnecting /\ lclosed ex_c0 = false.
  Proof. split; reflexivity. Qed.
  Example w_good_connect : forall k, good_connect k ex_cfg (ex_connect k (Some (bs "s3cret"))) = true.
  Proof. intros []; vm_compute; reflexivity. Qed.
  Example w_bad_connect : forall k, good_connect k ex_cfg (ex_connect k (Some (bs "wrong"))) = false.
  Proof. intros []; vm_compute; reflexivity. Qed.
  Example w_good_connect_opens :
    frame_of KS2m ex_cfg (ex_connect KS2m (Some (bs "s3cret"))) None ex_c0 =
    {| lph := LAuth 10; lscript := []; louts := [LSend (s2m_connect_ack ex_cfg 10) None]; lclosed := false |}.
  Proof. vm_compute. reflexivity. Qed.

  (* 2, 3: an established context, and a closed one *)
  Example w_established : lph (est 10 [] []) = LAuth 10. Proof. reflexivity. Qed.
  Example w_closed : lclosed (lclose (err_msg None "BAD_REQUEST") ex_c0) = true. Proof. reflexivity. Qed.

  (* 4: a chunk that leaves the link connecting (and closes it), and a stream that does reach the modulator *)
  Example w_bytes_still_connecting :
    link_bytes KS2m ex_cfg LConnecting false (wire (ex_connect KS2m (Some (bs "wrong")))) [] =
    (LConnecting, true, [LClose (err_msg None "UNAUTHORIZED")]).
  Proof. vm_compute. reflexivity. Qed.
  Example w_bytes_handshake :
    link_bytes KS2m ex_cfg LConnecting false (wire (ex_connect KS2m (Some (bs "s3cret")))) [] =
    (LAuth 10, false, [LSend (s2m_connect_ack ex_cfg 10) None]).
  Proof. vm_compute. reflexivity. Qed.
  Example w_stream_acts :
    louts (fold_left (fun acc it => link_item KS2m ex_cfg it acc)
                     [Dispatch (ex_connect KS2m (Some (bs "s3cret"))) None; Dispatch ex_fbp_req (Some [1; 2; 3])] ex_c0) =
    [LSend (s2m_connect_ack ex_cfg 10) None] ++
    LMod (McFbp (bs "alice@localhost") (bs "!room@localhost") [1; 2; 3]) :: [LSend (fbp_ack 7 true false 0) None].
  Proof. vm_compute. reflexivity. Qed.
  (* a request before the handshake never reaches the modulator *)
  Example w_stream_refused :
    louts (fold_left (fun acc it => link_item KS2m ex_cfg it acc)
                     [Dispatch ex_fbp_req (Some [1; 2; 3]); Dispatch (ex_connect KS2m (Some (bs "s3cret"))) None] ex_c0) =
    [LClose (err_msg None "UNEXPECTED_MESSAGE")].
  Proof. vm_compute. reflexivity. Qed.

  (* 5: a wrong secret and a missing secret *)
  Example w_wrong_secret : forall k,
    l_secret ex_cfg <> [] /\ is_kind (ex_connect k (Some (bs "wrong"))) (connect_name k) = true /\
    get_num (ex_connect k (Some (bs "wrong"))) "version" = 1 /\
    get_ostr (ex_connect k (Some (bs "wrong"))) "secret" <> Some (l_secret ex_cfg) /\
    get_ostr (ex_connect k None) "secret" <> Some (l_secret ex_cfg).
  Proof. intros []; vm_compute; repeat split; discriminate. Qed.

  (* 6, 7, 8, 9: replies that are accepted *)
  Example w_c_fbp_valid : c_fbp true (CrMsg (fbp_ack 7 true false 0) None) = RValid. Proof. reflexivity. Qed.
  Example w_c_fbp_altered : c_fbp true (CrMsg (fbp_ack 7 true true 3) (Some [4; 5; 6])) = RAltered [4; 5; 6].
  Proof. reflexivity. Qed.
  Example w_c_auth_success :
    c_auth true (CrMsg (auth_ack_ok 7 (bs "alice")) None) = RAuthSuccess (bs "alice").
  Proof. reflexivity. Qed.
  Example w_c_auth_continue :
    c_auth true (CrMsg (auth_ack_cont 7 (bs "nonce")) None) = RAuthContinue (bs "nonce").
  Proof. reflexivity. Qed.
  Example w_outcome_success : outcome_of (RAuthSuccess (bs "alice")) = MAuthSuccess (bs "alice"). Proof. reflexivity. Qed.
  Example w_outcome_ok : outcome_of RValid = MOk /\ outcome_of (RAltered [1]) = MAltered [1]. Proof. split; reflexivity. Qed.
  Example w_reply_for :
    reply_for 7 [LMod (McAuth (bs "tok")); LSend (fbp_ack 6 true false 0) None; LSend (fbp_ack 7 true false 0) None] =
    CrMsg (fbp_ack 7 true false 0) None.
  Proof. vm_compute. reflexivity. Qed.

  (* 10: the hypotheses of the transparency theorem hold for a concrete configuration, sender and alteration *)
  Example w_fbp_hyps :
    lop_fbp ex_cfg = true /\ l_max_inflight ex_cfg <> 0 /\
    (exists n, nid_parse (bs "alice@localhost") = Some n /\ nid_full n = bs "alice@localhost") /\
    fbp_ack_fits ex_cfg 7 (MAltered [4; 5; 6]) = true /\ fbp_ack_fits ex_cfg 7 MOk = true /\
    fbp_ack_fits ex_cfg 7 MInvalid = true /\ fbp_ack_fits ex_cfg 7 MErr = true.
  Proof.
    split; [reflexivity|]. split; [discriminate|]. split.
    - exists {| nu := bs "alice"; nd := bs "localhost" |}. split; vm_compute; reflexivity.
    - repeat split; vm_compute; reflexivity.
  Qed.
  Example w_fbp_altered :
    via_link ex_cfg 10 7 (McFbp (bs "alice@localhost") (bs "!room@localhost") [1; 2; 3]) (MAltered [4; 5; 6]) =
    ([LMod (McFbp (bs "alice@localhost") (bs "!room@localhost") [1; 2; 3]); LSend (fbp_ack 7 true true 3) (Some [4; 5; 6])],
     RAltered [4; 5; 6]).
  Proof. vm_compute. reflexivity. Qed.

  (* 11 *)
  Example w_auth_hyps :
    lop_auth ex_cfg = true /\ l_max_inflight ex_cfg <> 0 /\
    auth_ack_fits ex_cfg 7 (MAuthSuccess (bs "alice")) = true /\ auth_ack_fits ex_cfg 7 (MAuthContinue (bs "nonce")) = true /\
    auth_ack_fits ex_cfg 7 MAuthFail = true /\ auth_ack_fits ex_cfg 7 MOk = true.
  Proof. split; [reflexivity|]. split; [discriminate|]. repeat split; vm_compute; reflexivity. Qed.
  Example w_auth_success :
    snd (via_link ex_cfg 10 7 (McAuth (bs "tok")) (MAuthSuccess (bs "alice"))) = RAuthSuccess (bs "alice").
  Proof. vm_compute. reflexivity. Qed.

  (* 12 *)
  Example w_undeclared : declared_for ex_cfg_noauth (McAuth (bs "tok")) = false. Proof. reflexivity. Qed.

  (* 13: acceptance does come out of a link *)
  Example w_fail_closed_ok :
    outcome_of (snd (via_link ex_cfg 10 7 (McFbp (bs "alice@localhost") (bs "!room@localhost") [1; 2; 3]) MOk)) = MOk /\
    outcome_of (snd (via_link ex_cfg 10 7 (McFbp (bs "alice@localhost") (bs "!room@localhost") [1; 2; 3]) (MAltered [9]))) = MAltered [9] /\
    outcome_of (snd (via_link ex_cfg 10 7 (McAuth (bs "tok")) (MAuthSuccess (bs "alice")))) = MAuthSuccess (bs "alice").
  Proof. repeat split; vm_compute; reflexivity. Qed.
  (* and an oversize reply fails closed: a 64-byte message buffer cannot hold the AUTH ack for a long username *)
  Definition tiny_cfg : lcfg :=
    {| l_secret := []; l_keepalive := 30; l_min_keepalive := 5; l_max_message := 64; l_max_payload := 65536;
       l_max_inflight := 8; l_max_conns := 4; l_budget := 1048576; l_proto := bs "app/1";
       lop_auth := true; lop_fbp := true; lop_fev := true; lop_spp := true; lop_rpp := true |}.
  Example w_fail_closed_oversize :
    snd (via_link tiny_cfg 10 7 (McAuth (bs "tok"))
                  (MAuthSuccess (bs "a_very_long_username_that_does_not_fit_in_the_message_buffer_of_the_link"))) = RErr.
  Proof. vm_compute. reflexivity. Qed.

  (* 14 *)
  Example w_direct :
    lph (est 10 [] []) = LAuth 10 /\ lclosed (est 10 [] []) = false /\ l_max_inflight ex_cfg <> 0 /\
    is_kind ex_direct "M2S_MOD_DIRECT" = true /\
    louts (m2s_frame ex_cfg ex_direct (Some [1; 2]) (est 10 [] [])) =
      [LRoute [bs "bob"; bs "carol"] [1; 2]; LSend (build "M2S_MOD_DIRECT_ACK" [(bs "id", VNum 9)]) None].
  Proof. repeat split; try discriminate; vm_compute; reflexivity. Qed.
End Witness.

(* ------------------------------------------------------------------ axioms audit *)
Print Assumptions link_preauth_step.
Print Assumptions link_phase_monotone.
Print Assumptions link_item_phase_monotone.
Print Assumptions link_closed_is_final.
Print Assumptions link_item_closed_final.
Print Assumptions link_item_closed_final_outs.
Print Assumptions link_bytes_preauth_quiet.
Print Assumptions link_stream_no_act_before_handshake.
Print Assumptions link_wrong_secret_refused.
Print Assumptions c_fbp_accept_only_valid.
Print Assumptions c_auth_success_only.
Print Assumptions c_auth_continue_only.
Print Assumptions outcome_of_success_only.
Print Assumptions outcome_of_accept_only.
Print Assumptions reply_for_correlated.
Print Assumptions via_link_fbp_transparent.
Print Assumptions via_link_fbp_transparent'.
Print Assumptions via_link_auth_transparent.
Print Assumptions via_link_undeclared_silent.
Print Assumptions via_link_fail_closed.
Print Assumptions m2s_direct_exact.
Print Assumptions nid_parse_full.

(* ---------- start-up negotiation of the size limits ---------- *)
Theorem adjust_limit_bounds : forall configured advertised,
  (adjust_limit configured advertised <= configured)%N /\ (adjust_limit configured advertised <= advertised)%N /\
  (adjust_limit configured advertised = configured \/ adjust_limit configured advertised = advertised).
Proof.
  intros c a. unfold adjust_limit. repeat split; try apply N.le_min_r; try apply N.le_min_l.
  destruct (N.min_dec a c) as [E|E]; rewrite E; [right|left]; reflexivity.
Qed.

(* a more generous modulator never raises the server's own limit; a stricter one lowers it to exactly its own *)
Theorem adjust_limit_cases : forall configured advertised,
  ((configured <= advertised)%N -> adjust_limit configured advertised = configured) /\
  ((advertised <= configured)%N -> adjust_limit configured advertised = advertised).
Proof. intros c a. unfold adjust_limit. split; intros H; [apply N.min_r | apply N.min_l]; exact H. Qed.

Print Assumptions adjust_limit_bounds.
